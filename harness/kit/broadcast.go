package verifkit

// Generic drivers for the broadcast channels (C16). The same drivers run on
// pkg/net/libp2p's channel and on pkg/net/local's localChannel through the
// BcastRig adapter each package's harness implements (this file must not
// import keep-core packages).
//
//   ReplayBcast     forced replay of TLC behaviours of Gen_Broadcast: the
//                   processing goroutine of every handler is held at the calls
//                   it makes on the context it was given (Done before every
//                   select, Err after every dequeue) and inside the handler
//                   function, so the harness decides when each step of the
//                   specification happens and compares the abstract state
//                   after every step.
//   RecordBcast     unscheduled concurrent runs recorded for Trace_Broadcast.
//   ForceBcast      the forcing scenario for "nothing after cancel".
//   OverflowBcast   a handler that does not drain: drop-when-full, recorded
//                   for Trace_Broadcast with the real capacity.

import (
	"bytes"
	"context"
	"fmt"
	"runtime"
	"sort"
	"strconv"
	"sync"
	"testing"
	"time"
)

// BcastMsg is what a handler saw: model sender name, sequence number, and the
// tag the harness put into the payload.
type BcastMsg struct {
	Sender string
	Seqno  uint64
	Tag    string
}

// BcastRig is one receiving channel plus the channels / simulated peers that
// send to it.
type BcastRig interface {
	// Register calls the real Recv on the receiving channel.
	Register(ctx context.Context, fn func(BcastMsg))
	// HandlerCtxs returns the ctx of every entry of the receiving channel's
	// messageHandlers, in slice order, read under the channel's mutex.
	HandlerCtxs() []context.Context
	// QueueLen returns len() of the buffered channel created for the handler
	// registered with ctx (also after its removal); -1 if unknown.
	QueueLen(ctx context.Context) int
	// Prime puts a priming message (Tag "prime") directly into that queue.
	Prime(ctx context.Context)
	// Send calls the real Send on the sender's channel object and returns the
	// sequence number the published message carried.
	Send(sender, tag string) (uint64, error)
	// SendFailing calls the real Send while the sender's publisher returns an error
	// for the next publication attempt (only where BcastTarget.CanFailPublish). It
	// returns the sequence number the refused message carried and Send's error.
	SendFailing(sender, tag string) (uint64, error)
	// SimSend publishes a message of a simulated remote peer with the peer's
	// next sequence number to the receiving channel.
	SimSend(sender, tag string) uint64
	// Redeliver publishes the stored message (sender, seqno) once more, the way
	// a retransmission reaches the receiving channel.
	Redeliver(sender string, seqno uint64)
	// Tick feeds one tick to the retransmission ticker of every real sender.
	Tick()
	// Problems returns sequence number anomalies seen at publication: a tag
	// published with two different numbers, or two tags with the same number.
	Problems() []string
	Close()
}

// BcastTarget describes one implementation under test.
type BcastTarget struct {
	Name      string // "libp2p" | "local"
	Lifecycle string // "separate" | "inline"
	Cap       int    // messageHandlerThrottle
	// CanFailPublish: Send has an error path after the sequence number was taken
	// (libp2p: the pubsub publisher may refuse the message)
	CanFailPublish bool
	// NewRig creates a fresh receiving channel; real are the senders with a
	// real channel object, sim the simulated remote peers.
	NewRig func(t testing.TB, real []string, sim []string) BcastRig
}

// ---------------------------------------------------------------- goroutine id

func gid() int64 {
	var buf [64]byte
	n := runtime.Stack(buf[:], false)
	// "goroutine 123 ["
	f := bytes.Fields(buf[:n])
	if len(f) < 2 {
		return -1
	}
	v, _ := strconv.ParseInt(string(f[1]), 10, 64)
	return v
}

// allParked reports whether every goroutine of gs that still exists is parked
// in a select or a channel receive, and at least one of them in a select
// (scheduler state, not timing).
func allParked(gs []int64) bool {
	if len(gs) == 0 {
		return false
	}
	buf := make([]byte, 1<<20)
	n := runtime.Stack(buf, true)
	inSelect := false
	for _, g := range gs {
		head := []byte(fmt.Sprintf("goroutine %d [", g))
		i := bytes.Index(buf[:n], head)
		if i < 0 {
			continue // gone
		}
		rest := buf[i+len(head) : n]
		switch {
		case bytes.HasPrefix(rest, []byte("select")):
			inSelect = true
		case bytes.HasPrefix(rest, []byte("chan receive")):
		default:
			return false
		}
	}
	return inSelect
}

// ---------------------------------------------------------------- instrumented context

// PCtx is the context handed to Recv. In forced mode the processing goroutine
// parks at every call it makes on it.
type PCtx struct {
	context.Context
	Name   string
	Kind   string // how this context ends: "cancel" | "deadline" | "parent"
	cancel context.CancelFunc
	// Kind "deadline": the expiry is played by the harness at the moment it chooses: Done() is own,
	// Err() is context.DeadlineExceeded from then on (Deadline() reports a deadline all along)
	own    chan struct{}
	ownErr error
	ownMu  sync.Mutex

	mu      sync.Mutex
	forced  bool
	priming bool
	bGid    int64 // goroutine that processes messages (calls Err / the handler)
	at      string
	arrived int
	rel     chan struct{}
	seen    []BcastMsg // handler invocations in order
	inMsg   *BcastMsg
	// recording mode: ctx.Err() reads are logged atomically with the read, and
	// Cancel is serialized with them
	onErr    func(live bool)
	errCalls int
	hideDone bool
	doneGids map[int64]bool // goroutines that asked for Done(): the channel's goroutines for this handler
}

func (c *PCtx) goroutines() []int64 {
	c.mu.Lock()
	defer c.mu.Unlock()
	out := make([]int64, 0, len(c.doneGids)+1)
	for g := range c.doneGids {
		out = append(out, g)
	}
	if c.bGid != 0 && !c.doneGids[c.bGid] {
		out = append(out, c.bGid)
	}
	return out
}

// Cancel cancels the context; a concurrent logged Err() read is either
// entirely before or entirely after the cancellation takes effect.
func (c *PCtx) Cancel() {
	c.mu.Lock()
	c.cancel()
	c.mu.Unlock()
}

func newPCtx(name string, forced bool) *PCtx { return newPCtxKind(name, forced, "cancel") }

var bcastEndText = map[string]string{
	"cancel":   "cancel() had returned",
	"deadline": "its deadline had expired: ctx.Err() == context.DeadlineExceeded",
	"parent":   "its parent context had been cancelled",
}

// BcastEndKinds are the ways a receiver's context can end.
var BcastEndKinds = []string{"cancel", "deadline", "parent"}

func newPCtxKind(name string, forced bool, kind string) *PCtx {
	p := &PCtx{Name: name, Kind: kind, forced: forced, priming: forced}
	switch kind {
	case "deadline":
		c, release := context.WithDeadline(context.Background(), time.Now().Add(1000*time.Hour))
		p.Context = c
		p.own = make(chan struct{})
		p.cancel = func() {
			p.ownMu.Lock()
			if p.ownErr == nil {
				p.ownErr = context.DeadlineExceeded
				close(p.own)
			}
			p.ownMu.Unlock()
			release()
		}
	case "parent":
		parent, cancelParent := context.WithCancel(context.Background())
		c, release := context.WithCancel(parent)
		p.Context = c
		p.cancel = func() { cancelParent(); _ = release } // only the parent is cancelled
	default:
		c, cancel := context.WithCancel(context.Background())
		p.Context, p.cancel = c, cancel
	}
	return p
}

func (c *PCtx) rawDone() <-chan struct{} {
	if c.own != nil {
		return c.own
	}
	return c.Context.Done()
}

func (c *PCtx) rawErr() error {
	if c.own != nil {
		c.ownMu.Lock()
		defer c.ownMu.Unlock()
		return c.ownErr
	}
	return c.Context.Err()
}

func (c *PCtx) isForced() bool { c.mu.Lock(); defer c.mu.Unlock(); return c.forced }

func (c *PCtx) park(point string) {
	c.mu.Lock()
	if !c.forced {
		c.mu.Unlock()
		return
	}
	ch := make(chan struct{})
	c.at, c.rel = point, ch
	c.arrived++
	c.mu.Unlock()
	<-ch
}

// Done is called by the lifecycle goroutine once and by the processing
// goroutine before every select.
func (c *PCtx) Done() <-chan struct{} {
	g0 := gid()
	c.mu.Lock()
	if c.doneGids == nil {
		c.doneGids = map[int64]bool{}
	}
	c.doneGids[g0] = true
	c.mu.Unlock()
	if c.isForced() {
		g := gid()
		c.mu.Lock()
		isB := c.bGid != 0 && g == c.bGid
		if isB {
			c.priming = false
		}
		c.mu.Unlock()
		if isB {
			c.park("sel")
			c.mu.Lock()
			hide := c.hideDone
			c.hideDone = false
			c.mu.Unlock()
			if hide {
				// resolves this one select in favour of the queued message: with a message
				// and a cancelled context both ready Go may pick either case
				return make(chan struct{})
			}
		}
	}
	return c.rawDone()
}

// Err is called by the processing goroutine after every dequeue.
func (c *PCtx) Err() error {
	if !c.isForced() {
		c.mu.Lock()
		e := c.rawErr()
		c.errCalls++
		if c.bGid == 0 {
			c.bGid = gid()
		}
		if c.onErr != nil {
			c.onErr(e == nil)
		}
		c.mu.Unlock()
		return e
	}
	g := gid()
	c.mu.Lock()
	if c.bGid == 0 {
		c.bGid = g
	}
	priming := c.priming
	c.mu.Unlock()
	if priming {
		return c.rawErr()
	}
	c.park("errpre")
	e := c.rawErr()
	if e == nil {
		c.park("errpost")
	}
	return e
}

func (c *PCtx) handler(m BcastMsg) {
	if m.Tag == "prime" {
		c.mu.Lock()
		if c.bGid == 0 {
			c.bGid = gid()
		}
		c.mu.Unlock()
		return
	}
	c.mu.Lock()
	c.seen = append(c.seen, m)
	mm := m
	c.inMsg = &mm
	c.mu.Unlock()
	c.park("run")
	c.mu.Lock()
	c.inMsg = nil
	c.mu.Unlock()
}

// waitArrival waits until the goroutine parked again after `since` arrivals.
func (c *PCtx) waitArrival(since int, d time.Duration) (string, bool) {
	deadline := time.Now().Add(d)
	for {
		c.mu.Lock()
		if c.arrived > since && c.rel != nil {
			at := c.at
			c.mu.Unlock()
			return at, true
		}
		c.mu.Unlock()
		if time.Now().After(deadline) {
			return "", false
		}
		time.Sleep(100 * time.Microsecond)
	}
}

func (c *PCtx) arrivals() int { c.mu.Lock(); defer c.mu.Unlock(); return c.arrived }

func (c *PCtx) where() string {
	c.mu.Lock()
	defer c.mu.Unlock()
	if c.rel == nil {
		return ""
	}
	return c.at
}

func (c *PCtx) release() {
	c.mu.Lock()
	ch := c.rel
	c.rel = nil
	c.at = ""
	c.mu.Unlock()
	if ch != nil {
		close(ch)
	}
}

func (c *PCtx) unforce() {
	c.mu.Lock()
	c.forced = false
	c.mu.Unlock()
	c.release()
}

func (c *PCtx) invoked() []BcastMsg {
	c.mu.Lock()
	defer c.mu.Unlock()
	return append([]BcastMsg(nil), c.seen...)
}

func msgKey(s string, n uint64) string { return fmt.Sprintf("%s:%d", s, n) }

// ---------------------------------------------------------------- forced replay

var pointPC = map[string]string{"sel": "select", "errpre": "dequeued", "errpost": "checked", "run": "running"}

// ReplayBcast replays every behaviour on a fresh rig.
func ReplayBcast(t *testing.T, rep *Report, tg BcastTarget, cases []V) {
	long := 30 * time.Second
	raceWait := time.Duration(IntEnv("VERIF_PARK_MS", 150)) * time.Millisecond
	if !chkCalibrated(t, tg) {
		// The replay holds the processing goroutine at its ctx.Err() read between dequeue and
		// handler. An implementation that does not make exactly that read cannot be stepped
		// this way; it is judged by the recorded runs and the forcing scenarios instead.
		rep.Count("replay_not_applicable", len(cases))
		rep.Note("%s: the implementation does not read ctx.Err() exactly once after each dequeue; forced replay skipped", tg.Name)
		rep.Eval("", map[string]interface{}{"target": tg.Name, "replay": "not applicable"})
		return
	}
	for ci, c := range cases {
		if c.Get("lifecycle").Str() != tg.Lifecycle {
			t.Fatalf("behaviour generated for lifecycle %q replayed on %s", c.Get("lifecycle").Str(), tg.Name)
		}
		steps := c.Get("steps").List()
		rig := tg.NewRig(t, []string{"s1", "s2"}, nil)
		ctxs := map[string]*PCtx{}
		exited := map[string]bool{}
		qlenUnknown := map[string]bool{}
		sentTag := 0
		status := "complete"
		nontrivial := false
		var bad string

		nameOf := func(x context.Context) string {
			if p, ok := x.(*PCtx); ok {
				return p.Name
			}
			return "?"
		}
		allowed := map[string]int{} // invocations a handler may still get after its cancellation
		// compares the projected real state with the specification's
		compare := func(i int, s V) bool {
			st := s.Get("st")
			a := s.Get("a").Str()
			ctxOf := map[string]interface{}{"steps": c.Get("steps").X, "at": i + 1}
			var real []string
			for _, x := range rig.HandlerCtxs() {
				real = append(real, nameOf(x))
			}
			want := st.Get("handlers").Strs()
			if fmt.Sprint(real) != fmt.Sprint(want) {
				bad = fmt.Sprintf("step %d %s: messageHandlers is %v, the specification has %v", i+1, a, real, want)
				rep.Diverge("replay:"+tg.Name+":handlers", bad, ctxOf, want, real)
				return false
			}
			hnames := st.Get("h").Keys()
			// 1. properties of C16 proper
			for _, h := range hnames {
				p := ctxs[h]
				if p == nil {
					continue
				}
				inv := p.invoked()
				cnt := map[string]int{}
				for _, m := range inv {
					k := msgKey(m.Sender, m.Seqno)
					cnt[k]++
					if cnt[k] > 1 {
						bad = fmt.Sprintf("step %d %s: handler %s was handed message %s twice", i+1, a, h, k)
						rep.Diverge("replay:"+tg.Name+":duplicate", bad, ctxOf, 1, cnt[k])
						return false
					}
				}
				if lim, ok := allowed[h]; ok && len(inv) > lim {
					m := inv[len(inv)-1]
					bad = fmt.Sprintf("step %d %s: handler %s was handed message %s although its context had ended (%s) before the message was dequeued", i+1, a, h, msgKey(m.Sender, m.Seqno), bcastEndText[p.Kind])
					rep.Diverge("replay:"+tg.Name+":after-"+p.Kind, bad, ctxOf, lim, len(inv))
					return false
				}
			}
			// 2. a first-seen message of a live handler must reach it
			if a == "CheckCtx" || a == "FilterInvoke" {
				h := s.Get("h").Str()
				pc := st.Get("h").Get(h).Get("pc").Str()
				if (pc == "checked" || pc == "running") && ctxs[h].where() == "sel" {
					m := s.Get("m")
					bad = fmt.Sprintf("step %d %s: message %s was dropped on the way to live handler %s, which had not seen it", i+1, a, msgKey(m.Get("s").Str(), uint64(m.Get("n").Int())), h)
					rep.Diverge("replay:"+tg.Name+":lost", bad, ctxOf, pc, "back at select")
					return false
				}
			}
			// 3. where the processing goroutines stand
			for _, h := range hnames {
				p := ctxs[h]
				pc := st.Get("h").Get(h).Get("pc").Str()
				if p == nil || pc == "none" || pc == "exited" || exited[h] {
					continue
				}
				if w := pointPC[p.where()]; w != pc {
					status = "desync"
					rep.Note("%s behaviour %d step %d %s: processing goroutine of %s stands at %q, specification at %q", tg.Name, ci, i+1, a, h, w, pc)
					return false
				}
			}
			// 4. in step with the specification: everything observable must agree
			for _, h := range hnames {
				hs := st.Get("h").Get(h)
				p := ctxs[h]
				if p == nil {
					continue
				}
				wantInv := map[string]bool{}
				for _, m := range hs.Get("inv").List() {
					wantInv[msgKey(m.Get("s").Str(), uint64(m.Get("n").Int()))] = true
				}
				got := map[string]bool{}
				for _, m := range p.invoked() {
					got[msgKey(m.Sender, m.Seqno)] = true
				}
				for k := range got {
					if !wantInv[k] {
						bad = fmt.Sprintf("step %d %s: handler %s was handed message %s, which the specification does not hand to it", i+1, a, h, k)
						rep.Diverge("replay:"+tg.Name+":unexpected-invoke", bad, ctxOf, hs.Get("inv").X, got)
						return false
					}
				}
				for k := range wantInv {
					if !got[k] {
						bad = fmt.Sprintf("step %d %s: handler %s was not handed message %s", i+1, a, h, k)
						rep.Diverge("replay:"+tg.Name+":missing-invoke", bad, ctxOf, hs.Get("inv").X, got)
						return false
					}
				}
				if ql := rig.QueueLen(p); ql >= 0 && !qlenUnknown[h] && ql != hs.Get("qlen").Int() {
					bad = fmt.Sprintf("step %d %s: queue of handler %s holds %d messages, the specification has %d", i+1, a, h, ql, hs.Get("qlen").Int())
					rep.Diverge("replay:"+tg.Name+":queue", bad, ctxOf, hs.Get("qlen").Int(), ql)
					return false
				}
				if hs.Get("pc").Str() == "running" && !exited[h] {
					p.mu.Lock()
					in := p.inMsg
					p.mu.Unlock()
					cur := hs.Get("cur")
					if in == nil || in.Sender != cur.Get("s").Str() || int(in.Seqno) != cur.Get("n").Int() {
						bad = fmt.Sprintf("step %d: handler %s runs on %v, the specification on %s", i+1, h, in, cur.JSON())
						rep.Diverge("replay:"+tg.Name+":order", bad, ctxOf, cur.X, in)
						return false
					}
				}
			}
			return true
		}
		// at the moment of the cancellation: what the handler may still legitimately get
		noteCancel := func(h string) {
			p := ctxs[h]
			n := len(p.invoked())
			if w := p.where(); w == "errpre" || w == "errpost" {
				n++ // the message it already holds
			}
			allowed[h] = n
		}

	stepLoop:
		for i, s := range steps {
			a, h := s.Get("a").Str(), s.Get("h").Str()
			m := s.Get("m")
			rep.Count("step_"+a, 1)
			switch a {
			case "Send":
				sentTag++
				n, err := rig.Send(m.Get("s").Str(), fmt.Sprintf("t%d", sentTag))
				if err != nil {
					t.Fatalf("%s: Send failed: %v", tg.Name, err)
				}
				if int(n) != m.Get("n").Int() {
					bad = fmt.Sprintf("step %d: message %d sent on channel %s carried sequence number %d, the specification gives %d (a sequence number is never attached to two different messages, including messages whose first publication failed)", i+1, sentTag, m.Get("s").Str(), n, m.Get("n").Int())
					rep.Diverge("replay:"+tg.Name+":seqno", bad, map[string]interface{}{"steps": c.Get("steps").X, "at": i + 1}, m.Get("n").Int(), n)
					break stepLoop
				}
			case "SendFail":
				sentTag++
				n, _ := rig.SendFailing(m.Get("s").Str(), fmt.Sprintf("t%d", sentTag))
				if int(n) != m.Get("n").Int() {
					bad = fmt.Sprintf("step %d: message %d, whose first publication was refused, carried sequence number %d on channel %s, the specification gives %d", i+1, sentTag, n, m.Get("s").Str(), m.Get("n").Int())
					rep.Diverge("replay:"+tg.Name+":seqno", bad, map[string]interface{}{"steps": c.Get("steps").X, "at": i + 1}, m.Get("n").Int(), n)
					break stepLoop
				}
			case "Retransmit":
				rig.Redeliver(m.Get("s").Str(), uint64(m.Get("n").Int()))
			case "Register":
				// the way this handler's context will end is fixed when the context is made
				kind := "cancel"
				for _, later := range steps[i:] {
					if a := later.Get("a").Str(); (a == "Cancel" || a == "CancelRemove") && later.Get("h").Str() == h {
						kind = later.Get("st").Get("h").Get(h).Get("kind").Str()
						break
					}
				}
				rep.Count("context_end_"+kind, 1)
				p := newPCtxKind(h, true, kind)
				ctxs[h] = p
				rig.Register(p, p.handler)
				rig.Prime(p)
				if at, ok := p.waitArrival(0, long); !ok || at != "sel" {
					t.Fatalf("%s: processing goroutine of %s did not come back to its select after the priming message (at %q)", tg.Name, h, at)
				}
			case "Cancel":
				noteCancel(h)
				ctxs[h].cancel()
			case "CancelRemove":
				before := len(rig.HandlerCtxs())
				noteCancel(h)
				ctxs[h].cancel()
				if !Eventually(long, func() bool { return len(rig.HandlerCtxs()) < before }) {
					t.Fatalf("%s: no handler was removed within %v after the context of %s was cancelled", tg.Name, long, h)
				}
			case "Dequeue", "ExitOnDone":
				p := ctxs[h]
				race := s.Get("race").Bool()
				if race {
					nontrivial = true
				}
				since := p.arrivals()
				if race && a == "Dequeue" {
					p.mu.Lock()
					p.hideDone = true
					p.mu.Unlock()
				}
				p.release()
				wait := long
				if a == "ExitOnDone" {
					wait = raceWait
					if !race {
						wait = raceWait / 5
					}
					if race {
						// whether the goroutine takes one more message before it leaves is not
						// decided here (and only shortens a queue nobody reads any more)
						qlenUnknown[h] = true
					}
				}
				gone := func() bool {
					for _, x := range rig.HandlerCtxs() {
						if x == context.Context(p) {
							return false
						}
					}
					return true
				}
				var at string
				var ok bool
				if a == "ExitOnDone" && tg.Lifecycle == "inline" {
					// the exit is observable: the goroutine removes its handler on the way out
					Eventually(long, func() bool {
						at, ok = p.waitArrival(since, 0)
						return ok || gone()
					})
					if !ok && !gone() {
						t.Fatalf("%s: goroutine of %s neither took a message nor left within %v", tg.Name, h, long)
					}
				} else {
					at, ok = p.waitArrival(since, wait)
				}
				if a == "Dequeue" {
					if !ok {
						if race { // the real select took ctx.Done()
							status = "race-other"
							exited[h] = true
							break stepLoop
						}
						t.Fatalf("%s: processing goroutine of %s did not dequeue", tg.Name, h)
					}
					_ = at
				} else {
					// With a message queued too, the real select may take the message instead:
					// the goroutine then drops it (cancelled context) and selects again, which
					// changes nothing but the length of a queue nobody reads any more.
					for tries := 0; ok && race && at == "errpre" && tries < 1000; tries++ {
						qlenUnknown[h] = true
						since = p.arrivals()
						p.release()
						if at, ok = p.waitArrival(since, long); !ok || at != "sel" {
							break // handed to the handler or stuck: judged by the comparison below
						}
						since = p.arrivals()
						p.release()
						if tg.Lifecycle == "inline" {
							Eventually(long, func() bool {
								at, ok = p.waitArrival(since, 0)
								return ok || gone()
							})
						} else {
							at, ok = p.waitArrival(since, wait)
						}
					}
					if ok {
						if at == "run" || at == "errpost" {
							// a cancelled handler is being handed a message: the comparison reports it
							break
						}
						status = "desync"
						rep.Note("%s behaviour %d step %d: processing goroutine of %s did not exit (at %q)", tg.Name, ci, i+1, h, at)
						break stepLoop
					}
					exited[h] = true
					if tg.Lifecycle == "inline" && !Eventually(long, gone) {
						t.Fatalf("%s: handler %s was not removed within %v after its goroutine saw the cancelled context", tg.Name, h, long)
					}
				}
			case "CheckCtx", "FilterInvoke", "Return":
				p := ctxs[h]
				nontrivial = nontrivial || a == "FilterInvoke"
				since := p.arrivals()
				p.release()
				if _, ok := p.waitArrival(since, long); !ok {
					t.Fatalf("%s: processing goroutine of %s got stuck after %s", tg.Name, h, a)
				}
			default:
				t.Fatalf("unknown step %q", a)
			}
			if !compare(i, s) {
				if status == "complete" {
					status = "diverged"
				}
				break
			}
			rep.Count("steps_compared", 1)
		}
		for _, pr := range rig.Problems() {
			rep.Diverge("replay:"+tg.Name+":seqno-reuse", pr, map[string]interface{}{"steps": c.Get("steps").X}, nil, nil)
		}
		key := ""
		if nontrivial {
			key = tg.Name + ":" + Hash(c.Get("steps").X)
		}
		rep.Eval(key, map[string]interface{}{"target": tg.Name, "steps": len(steps), "status": status})
		rep.Count("behaviour_"+status, 1)
		if status == "race-other" || status == "desync" {
			rep.Unrealized++
		}
		// let everything go
		for _, p := range ctxs {
			p.cancel()
			p.unforce()
		}
		rig.Close()
	}
}

// ---------------------------------------------------------------- recorder

// bcastRec buffers the events of one run; nothing is accepted once closed.
type bcastRec struct {
	mu     sync.Mutex
	ev     []map[string]interface{}
	closed bool
	late   int
}

func (r *bcastRec) log(ev map[string]interface{}) {
	r.mu.Lock()
	if r.closed {
		r.late++
	} else {
		r.ev = append(r.ev, ev)
	}
	r.mu.Unlock()
}

// logWith evaluates f and logs atomically with respect to other events.
func (r *bcastRec) logWith(f func() map[string]interface{}) {
	r.mu.Lock()
	if !r.closed {
		r.ev = append(r.ev, f())
	}
	r.mu.Unlock()
}

func (r *bcastRec) flush(tr *Tracer, extra map[string]interface{}) int {
	r.mu.Lock()
	r.closed = true
	evs := r.ev
	r.mu.Unlock()
	tr.Reset(extra)
	for _, e := range evs {
		tr.Emit(e)
	}
	return len(evs)
}

func mrec(s string, n uint64) map[string]interface{} {
	return map[string]interface{}{"s": s, "n": n}
}

// calibrateChk finds out whether the implementation asks ctx.Err() exactly
// once for every message it takes from a handler's queue, after taking it. Only then are the
// reads recorded as Chk events (the trace specification then takes Dequeue and
// CheckCtx at that event instead of guessing where they happened).
func calibrateChk(t *testing.T, tg BcastTarget) bool {
	rig := tg.NewRig(t, nil, []string{"s3"})
	defer rig.Close()
	p := newPCtx("h1", false)
	defer p.cancel()
	got := make(chan int, 4)
	rig.Register(p, func(m BcastMsg) {
		p.mu.Lock()
		n := p.errCalls
		p.mu.Unlock()
		got <- n
	})
	for i := 1; i <= 3; i++ {
		// the handler's goroutines are parked, nothing is queued: a ctx.Err() read that
		// belongs to the next message can only come after that message was queued
		if !Eventually(30*time.Second, func() bool { return rig.QueueLen(p) == 0 && allParked(p.goroutines()) }) {
			return false
		}
		p.mu.Lock()
		before := p.errCalls
		p.mu.Unlock()
		rig.SimSend("s3", fmt.Sprintf("c%d", i))
		select {
		case n := <-got:
			if n != before+1 {
				return false
			}
		case <-time.After(30 * time.Second):
			return false
		}
	}
	return true
}

func chkCalibrated(t *testing.T, tg BcastTarget) bool {
	chkCalMu.Lock()
	defer chkCalMu.Unlock()
	chk, ok := chkCal[tg.Name]
	if !ok {
		chk = calibrateChk(t, tg)
		chkCal[tg.Name] = chk
	}
	return chk
}

type bcastRun struct {
	lost []string // live handlers that consumed the closing message without being handed it
	chk  bool
	t    *testing.T
	tg   BcastTarget
	rig  BcastRig
	rec  *bcastRec
	ctxs map[string]*PCtx
	mu   sync.Mutex
	inv  map[string][]BcastMsg // per handler, in order
	call int
	// handler behaviour: may block until released
	block func(h string, m BcastMsg)
}

var chkCal = map[string]bool{}
var chkCalMu sync.Mutex

func newBcastRun(t *testing.T, tg BcastTarget, real, sim []string) *bcastRun {
	chk := chkCalibrated(t, tg)
	return &bcastRun{chk: chk, t: t, tg: tg, rig: tg.NewRig(t, real, sim), rec: &bcastRec{}, ctxs: map[string]*PCtx{},
		inv: map[string][]BcastMsg{}}
}

func (r *bcastRun) nextCall() int { r.mu.Lock(); defer r.mu.Unlock(); r.call++; return r.call }

// The trace specification postpones a dequeue until the context check that
// follows it; that is only faithful while no queue can fill up.
func (r *bcastRun) checkRoom(kind string) {
	if kind != "overflow" && r.call*2 >= r.tg.Cap {
		r.t.Fatalf("%s run made %d publications, too many for a queue of %d", kind, r.call, r.tg.Cap)
	}
}

func (r *bcastRun) register(h string) { r.registerKind(h, "cancel") }

// registerKind registers a handler whose context will end the given way.
func (r *bcastRun) registerKind(h, kind string) {
	p := newPCtxKind(h, false, kind)
	if r.chk {
		// only reads that found the context live are recorded: what a cancelled
		// handler's goroutine does with its queue has no observable consequence
		p.onErr = func(live bool) {
			if live {
				r.rec.log(map[string]interface{}{"event": "Chk", "h": h, "live": live})
			}
		}
	}
	r.mu.Lock()
	r.ctxs[h] = p
	r.mu.Unlock()
	r.rec.log(map[string]interface{}{"event": "RegisterCall", "h": h})
	r.rig.Register(p, func(m BcastMsg) {
		r.rec.log(map[string]interface{}{"event": "InvokeStart", "h": h, "m": mrec(m.Sender, m.Seqno)})
		p.mu.Lock()
		if p.bGid == 0 {
			p.bGid = gid()
		}
		p.mu.Unlock()
		r.mu.Lock()
		r.inv[h] = append(r.inv[h], m)
		blk := r.block
		r.mu.Unlock()
		if blk != nil {
			blk(h, m)
		}
		r.rec.log(map[string]interface{}{"event": "InvokeEnd", "h": h, "m": mrec(m.Sender, m.Seqno)})
	})
	r.rec.log(map[string]interface{}{"event": "RegisterRet", "h": h})
}

func (r *bcastRun) cancel(h string) {
	r.mu.Lock()
	p := r.ctxs[h]
	r.mu.Unlock()
	r.rec.log(map[string]interface{}{"event": "CancelCall", "h": h, "kind": p.Kind})
	p.Cancel()
	r.rec.log(map[string]interface{}{"event": "CancelRet", "h": h})
}

func (r *bcastRun) send(s string, sim bool, tag string) uint64 { return r.sendX(s, sim, tag, false) }

// sendX with fail = true makes the sender's publisher refuse the call's own publication.
func (r *bcastRun) sendX(s string, sim bool, tag string, fail bool) uint64 {
	c := r.nextCall()
	call := map[string]interface{}{"event": "SendCall", "c": c, "s": s, "n": 0}
	if fail {
		call["fail"] = true
	}
	r.rec.log(call)
	var n uint64
	if fail {
		n, _ = r.rig.SendFailing(s, tag)
	} else if sim {
		n = r.rig.SimSend(s, tag)
	} else {
		var err error
		n, err = r.rig.Send(s, tag)
		if err != nil {
			r.t.Fatalf("%s: Send failed: %v", r.tg.Name, err)
		}
	}
	r.rec.mu.Lock()
	call["n"] = n // known only now; the trace is written when the run is over
	r.rec.mu.Unlock()
	r.rec.log(map[string]interface{}{"event": "SendRet", "c": c, "s": s, "n": n})
	return n
}

func (r *bcastRun) redeliver(s string, n uint64) {
	c := r.nextCall()
	r.rec.log(map[string]interface{}{"event": "DeliverCall", "c": c, "m": mrec(s, n)})
	r.rig.Redeliver(s, n)
	r.rec.log(map[string]interface{}{"event": "DeliverRet", "c": c})
}

func (r *bcastRun) tick() {
	r.rec.log(map[string]interface{}{"event": "Tick"})
	r.rig.Tick()
}

func (r *bcastRun) obsHandlers() {
	r.rec.logWith(func() map[string]interface{} {
		list := []string{}
		for _, x := range r.rig.HandlerCtxs() {
			if p, ok := x.(*PCtx); ok {
				list = append(list, p.Name)
			}
		}
		return map[string]interface{}{"event": "ObsHandlers", "list": list}
	})
}

func (r *bcastRun) obsQueue(h string) {
	r.mu.Lock()
	p := r.ctxs[h]
	r.mu.Unlock()
	r.rec.logWith(func() map[string]interface{} {
		return map[string]interface{}{"event": "ObsQueue", "h": h, "n": r.rig.QueueLen(p)}
	})
}

func (r *bcastRun) invokedBy(h string) []BcastMsg {
	r.mu.Lock()
	defer r.mu.Unlock()
	return append([]BcastMsg(nil), r.inv[h]...)
}

func (r *bcastRun) sawInvoke(h, s string, n uint64) bool {
	for _, m := range r.invokedBy(h) {
		if m.Sender == s && m.Seqno == n {
			return true
		}
	}
	return false
}

// fence publishes a last message of the simulated peer "f" and waits until
// every handler in live has been handed it: everything accepted into their
// queues before has then been processed.
func (r *bcastRun) fence(live []string) {
	n := r.send("f", true, "fence")
	for _, h := range live {
		h := h
		r.mu.Lock()
		p := r.ctxs[h]
		r.mu.Unlock()
		lost := false
		nextProbe := time.Now().Add(20 * time.Millisecond)
		ok := Eventually(60*time.Second, func() bool {
			if r.sawInvoke(h, "f", n) {
				return true
			}
			if time.Now().Before(nextProbe) {
				return false
			}
			nextProbe = time.Now().Add(20 * time.Millisecond)
			// The closing message was put into the queue before send returned. If the queue is
			// empty and the channel's goroutines for this handler are all parked (one of them in a
			// select), everything that was in the queue has been processed - or nothing was ever
			// put there: the closing message did not reach the live handler (no timing involved:
			// this is the scheduler's state of the goroutines).
			if r.rig.QueueLen(p) == 0 && allParked(p.goroutines()) && !r.sawInvoke(h, "f", n) {
				lost = true
				return true
			}
			return false
		})
		if !ok {
			r.t.Fatalf("%s: live handler %s was never handed the closing message (cannot decide the run)", r.tg.Name, h)
		}
		if lost {
			r.lost = append(r.lost, h)
		}
	}
}

func (r *bcastRun) finish(tr *Tracer, rep *Report, kind string) {
	r.checkRoom(kind)
	for _, h := range r.lost {
		rep.Diverge("lost:"+r.tg.Name, fmt.Sprintf("%s run on %s: a message published while handler %s was registered and live never reached it: its queue is empty and its goroutine is back in its select, yet the handler was not called (handed so far: %v)", kind, r.tg.Name, h, r.invokedBy(h)),
			map[string]interface{}{"handler": h, "run": kind}, "closing message handed to the handler", "consumed without a call")
	}
	for _, pr := range r.rig.Problems() {
		rep.Diverge("seqno-reuse:"+r.tg.Name, pr, map[string]interface{}{"run": kind}, nil, nil)
	}
	r.mu.Lock()
	ps := []*PCtx{}
	for _, p := range r.ctxs {
		ps = append(ps, p)
	}
	r.mu.Unlock()
	r.rec.mu.Lock()
	r.rec.closed = true
	r.rec.mu.Unlock()
	for _, p := range ps {
		p.cancel()
	}
	n := r.rec.flush(tr, map[string]interface{}{"target": r.tg.Name, "kind": kind, "chk": r.chk})
	rep.Count("events_"+r.tg.Name, n)
	r.rig.Close()
}

// directDuplicateCheck flags a handler that was handed a (sender, seqno) twice.
func (r *bcastRun) directDuplicateCheck(rep *Report, kind string) {
	r.mu.Lock()
	defer r.mu.Unlock()
	hs := []string{}
	for h := range r.inv {
		hs = append(hs, h)
	}
	sort.Strings(hs)
	for _, h := range hs {
		cnt := map[string]int{}
		for _, m := range r.inv[h] {
			cnt[msgKey(m.Sender, m.Seqno)]++
		}
		for k, n := range cnt {
			if n > 1 {
				rep.Diverge("duplicate:"+r.tg.Name, fmt.Sprintf("%s run on %s: handler %s was handed message %s %d times", kind, r.tg.Name, h, k, n),
					map[string]interface{}{"handler": h, "message": k}, 1, n)
			}
		}
	}
}

// ---------------------------------------------------------------- random concurrent runs

// RecordBcast records `runs` unscheduled concurrent runs (several senders,
// retransmissions, registration and cancellation while messages flow).
func RecordBcast(t *testing.T, rep *Report, tg BcastTarget, tr *Tracer, runs int, salt int64) {
	rnd := Rand(salt)
	for run := 0; run < runs; run++ {
		withTicks := run%5 == 4
		r := newBcastRun(t, tg, []string{"s1", "s2"}, []string{"s3", "f"})
		// kept small: the cost of validating an unscheduled run grows exponentially with the
		// number of publications that are in flight towards a queue nobody drains at that moment
		nH := 1 + rnd.Intn(2)
		if run%4 == 3 {
			nH = 3
		}
		nMsg := 2 + rnd.Intn(3)
		if nH == 3 {
			nMsg = 2
		}
		if withTicks {
			nH, nMsg = 1, 2
		}
		hs := []string{"h1", "h2", "h3"}[:nH]
		// plan decided up front from the seed
		type hplan struct {
			regAfter, cancelAfter int // in units of "messages published"; cancelAfter < 0: never
			slow                  bool
			kind                  string // how the context ends
		}
		plans := map[string]hplan{}
		for _, h := range hs {
			p := hplan{regAfter: 0, cancelAfter: -1, slow: rnd.Intn(3) == 0, kind: BcastEndKinds[rnd.Intn(len(BcastEndKinds))]}
			if rnd.Intn(3) == 0 {
				p.regAfter = rnd.Intn(nMsg)
			}
			if rnd.Intn(2) == 0 {
				p.cancelAfter = p.regAfter + rnd.Intn(nMsg-p.regAfter+1)
			}
			plans[h] = p
		}
		r.block = func(h string, m BcastMsg) {
			if plans[h].slow {
				runtime.Gosched()
				time.Sleep(time.Duration(50+int(m.Seqno)*20) * time.Microsecond)
			}
		}
		var published int32Counter
		redelivered := &budgetCounter{left: 4}
		var wg sync.WaitGroup
		// receivers
		for _, h := range hs {
			h, p := h, plans[h]
			wg.Add(1)
			go func() {
				defer wg.Done()
				published.waitAtLeast(p.regAfter)
				r.registerKind(h, p.kind)
				if p.cancelAfter >= 0 {
					published.waitAtLeast(p.cancelAfter)
					r.cancel(h)
				}
			}()
		}
		// senders: each publishes its share, re-publishing earlier messages in between
		senders := []string{"s1", "s2", "s3"}
		share := map[string]int{}
		for i := 0; i < nMsg; i++ {
			share[senders[rnd.Intn(len(senders))]]++
		}
		failFirst := withTicks && tg.CanFailPublish
		if failFirst {
			// the first Send of s1 is refused by the publisher, a second Send follows, then ticks:
			// the refused message keeps its number and reaches the handler by retransmission
			share = map[string]int{"s1": 2}
		}
		seeds := map[string]int64{}
		for _, s := range senders {
			seeds[s] = rnd.Int63()
		}
		for _, s := range senders {
			s := s
			k := share[s]
			if k == 0 {
				continue
			}
			wg.Add(1)
			go func() {
				defer wg.Done()
				lr := Rand(seeds[s])
				var mine []uint64
				for i := 0; i < k; i++ {
					n := r.sendX(s, s == "s3", fmt.Sprintf("%s-%d", s, i), failFirst && i == 0)
					mine = append(mine, n)
					published.add(1)
					// a few re-publications per run: many concurrent ones into a queue that is not being
					// drained leave trace validation with an exponential number of enqueue orders to try
					for k := 0; k < 2 && lr.Intn(2) == 0 && !withTicks && redelivered.take(); k++ {
						r.redeliver(s, mine[lr.Intn(len(mine))])
					}
					if lr.Intn(2) == 0 {
						runtime.Gosched()
					}
				}
			}()
		}
		wg.Wait()
		published.add(1 << 20) // release any receiver still waiting
		if withTicks {
			r.tick()
			if !failFirst {
				// (with a refused first publication one tick is enough to bring the refused message
				// in by retransmission; every further tick multiplies what trace validation must try)
				r.tick()
			}
			time.Sleep(2 * time.Millisecond)
		}
		var live []string
		for _, h := range hs {
			if plans[h].cancelAfter < 0 {
				live = append(live, h)
			}
		}
		r.fence(live)
		r.obsHandlers()
		r.directDuplicateCheck(rep, "concurrent")
		key := fmt.Sprintf("%s:h%d:m%d:ticks=%v", tg.Name, nH, nMsg, withTicks)
		rep.Eval(key, map[string]interface{}{"target": tg.Name, "handlers": nH, "messages": nMsg, "ticks": withTicks})
		r.finish(tr, rep, "concurrent")
	}
}

type budgetCounter struct {
	mu   sync.Mutex
	left int
}

func (b *budgetCounter) take() bool {
	b.mu.Lock()
	defer b.mu.Unlock()
	if b.left <= 0 {
		return false
	}
	b.left--
	return true
}

type int32Counter struct {
	mu sync.Mutex
	v  int
}

func (c *int32Counter) add(n int) { c.mu.Lock(); c.v += n; c.mu.Unlock() }
func (c *int32Counter) waitAtLeast(n int) {
	for {
		c.mu.Lock()
		ok := c.v >= n
		c.mu.Unlock()
		if ok {
			return
		}
		time.Sleep(50 * time.Microsecond)
	}
}

// ---------------------------------------------------------------- concurrent Send on one channel

// SeqnoBcast: several goroutines call the real Send on the same channel object
// at the same time. Every message must carry a sequence number of its own, and
// the numbers one goroutine gets must increase.
func SeqnoBcast(t *testing.T, rep *Report, tg BcastTarget, tr *Tracer, rounds int) {
	const goroutines, per = 4, 6
	for round := 0; round < rounds; round++ {
		r := newBcastRun(t, tg, []string{"s1"}, []string{"f"})
		r.register("h1")
		start := make(chan struct{})
		got := make([][]uint64, goroutines)
		var wg sync.WaitGroup
		for g := 0; g < goroutines; g++ {
			g := g
			wg.Add(1)
			go func() {
				defer wg.Done()
				<-start
				for i := 0; i < per; i++ {
					got[g] = append(got[g], r.send("s1", false, fmt.Sprintf("g%d-%d", g, i)))
				}
			}()
		}
		close(start)
		wg.Wait()
		seen := map[uint64]int{}
		for g := range got {
			for i, n := range got[g] {
				seen[n]++
				if seen[n] > 1 {
					rep.Diverge("seqno-duplicate:"+tg.Name, fmt.Sprintf("%s: two of %d concurrent Send calls on one channel published with the same sequence number %d", tg.Name, goroutines*per, n),
						map[string]interface{}{"numbers": got}, "distinct numbers", n)
				}
				if i > 0 && n <= got[g][i-1] {
					rep.Diverge("seqno-order:"+tg.Name, fmt.Sprintf("%s: consecutive Send calls of one goroutine got sequence numbers %d then %d", tg.Name, got[g][i-1], n),
						map[string]interface{}{"numbers": got}, "increasing", n)
				}
			}
		}
		r.fence([]string{"h1"})
		if n := len(r.invokedBy("h1")); n != goroutines*per+1 {
			rep.Diverge("seqno-delivery:"+tg.Name, fmt.Sprintf("%s: %d messages sent concurrently on one channel, the registered handler was handed %d of them before the closing message", tg.Name, goroutines*per, n-1),
				map[string]interface{}{"numbers": got}, goroutines*per, n-1)
		}
		r.directDuplicateCheck(rep, "seqno")
		rep.Eval(tg.Name+":seqno", map[string]interface{}{"target": tg.Name, "scenario": "concurrent Send", "numbers": got})
		r.finish(tr, rep, "seqno")
	}
}

// ---------------------------------------------------------------- forcing scenario

// ForceBcast: the handler is parked inside message 1, message 2 is enqueued,
// the context is cancelled and cancel has returned, the handler is released:
// message 2 must never reach the handler. A second live handler shows that
// the channel still works, and a closing message bounds the observation.
func ForceBcast(t *testing.T, rep *Report, tg BcastTarget, tr *Tracer, reps int) {
	for i := 0; i < reps*len(BcastEndKinds); i++ {
		kind := BcastEndKinds[i%len(BcastEndKinds)] // reps repetitions for every way a context can end
		r := newBcastRun(t, tg, []string{"s1"}, []string{"s3", "f"})
		gate := make(chan struct{})
		entered := make(chan struct{}, 4)
		r.block = func(h string, m BcastMsg) {
			if h == "h1" && m.Sender == "s1" && m.Seqno == 1 {
				entered <- struct{}{}
				<-gate
			}
		}
		r.registerKind("h1", kind)
		r.register("h2")
		n1 := r.send("s1", false, "one")
		select {
		case <-entered:
		case <-time.After(60 * time.Second):
			t.Fatalf("%s: handler never entered on message 1", tg.Name)
		}
		n2 := r.send("s1", false, "two")
		if i%2 == 1 {
			r.send("s3", true, "three")
		}
		r.obsQueue("h1")
		r.cancel("h1")
		close(gate)
		// closing message: h2 is live and must get everything; h1 nothing more
		r.fence([]string{"h2"})
		// the goroutine of h1 either sees the cancelled context in its select or
		// dequeues message 2 and must skip it; give a broken implementation the
		// time to show itself (waiting longer can only find more)
		time.Sleep(time.Duration(IntEnv("VERIF_SETTLE_MS", 20)) * time.Millisecond)
		if r.sawInvoke("h1", "s1", n2) {
			rep.Diverge("after-"+kind+":"+tg.Name,
				fmt.Sprintf("%s: a handler was handed message %d although its context had ended (%s) before the message could be dequeued: handler parked in message %d, message %d enqueued, context ended, release", tg.Name, n2, bcastEndText[kind], n1, n2),
				map[string]interface{}{"repetition": i, "kind": kind}, "message 2 never handed to the handler", "handed")
		}
		if !r.sawInvoke("h2", "s1", n1) || !r.sawInvoke("h2", "s1", n2) {
			rep.Diverge("lost:"+tg.Name, fmt.Sprintf("%s: live handler h2 was handed the closing message but not both earlier messages", tg.Name),
				map[string]interface{}{"repetition": i}, nil, r.invokedBy("h2"))
		}
		r.obsHandlers()
		r.directDuplicateCheck(rep, "forcing")
		rep.Eval(tg.Name+":forcing:"+kind, map[string]interface{}{"target": tg.Name, "scenario": "forcing", "kind": kind})
		r.finish(tr, rep, "forcing")
	}
}

// IdleCancelBcast: the handler's goroutine is parked in its select with nothing
// queued, the context is cancelled and cancel has returned, then a message is
// published: it must never reach the handler (its select finds the cancelled
// context and, possibly, the message; whichever it takes, the handler must not
// be called).
func IdleCancelBcast(t *testing.T, rep *Report, tg BcastTarget, tr *Tracer, reps int) {
	for i := 0; i < reps*len(BcastEndKinds); i++ {
		kind := BcastEndKinds[i%len(BcastEndKinds)]
		r := newBcastRun(t, tg, nil, []string{"s3", "f"})
		r.registerKind("h1", kind)
		r.register("h2")
		n1 := r.send("s3", true, "one")
		if !Eventually(60*time.Second, func() bool { return r.sawInvoke("h1", "s3", n1) && r.sawInvoke("h2", "s3", n1) }) {
			t.Fatalf("%s: first message never reached the handlers", tg.Name)
		}
		r.mu.Lock()
		p := r.ctxs["h1"]
		r.mu.Unlock()
		// wait until the goroutine of h1 is back in its select (scheduler state)
		if !Eventually(60*time.Second, func() bool { return r.rig.QueueLen(p) == 0 && allParked(p.goroutines()) }) {
			t.Fatalf("%s: goroutine of h1 did not come to rest", tg.Name)
		}
		r.cancel("h1")
		n2 := r.send("s3", true, "two")
		r.fence([]string{"h2"})
		time.Sleep(time.Duration(IntEnv("VERIF_SETTLE_MS", 20)) * time.Millisecond)
		if r.sawInvoke("h1", "s3", n2) {
			rep.Diverge("after-"+kind+"-idle:"+tg.Name,
				fmt.Sprintf("%s: a handler whose context had ended (%s) while it was waiting for messages was handed a message published afterwards", tg.Name, bcastEndText[kind]),
				map[string]interface{}{"repetition": i, "kind": kind}, "message 2 never handed to the handler", "handed")
		}
		r.directDuplicateCheck(rep, "idle-cancel")
		rep.Eval(tg.Name+":idle-cancel:"+kind, map[string]interface{}{"target": tg.Name, "scenario": "idle-cancel", "kind": kind})
		r.finish(tr, rep, "idle-cancel")
	}
}

// ---------------------------------------------------------------- overflow scenario

// OverflowBcast: a handler stuck in its first message while Cap+extra distinct
// messages are published: exactly Cap are accepted, deliver never blocks, the
// dropped ones are not remembered as seen (a later retransmission reaches the
// handler), nothing is handed twice.
func OverflowBcast(t *testing.T, rep *Report, tg BcastTarget, tr *Tracer) {
	r := newBcastRun(t, tg, nil, []string{"s3", "f"})
	gate := make(chan struct{})
	entered := make(chan struct{}, 1)
	r.block = func(h string, m BcastMsg) {
		if m.Sender == "s3" && m.Seqno == 1 {
			entered <- struct{}{}
			<-gate
		}
	}
	r.register("h1")
	r.send("s3", true, "first")
	select {
	case <-entered:
	case <-time.After(60 * time.Second):
		t.Fatalf("%s: handler never entered", tg.Name)
	}
	extra := 5
	done := make(chan struct{})
	var last uint64
	go func() {
		for i := 0; i < tg.Cap+extra; i++ {
			last = r.send("s3", true, fmt.Sprintf("o%d", i))
		}
		close(done)
	}()
	select {
	case <-done:
	case <-time.After(120 * time.Second):
		t.Fatalf("%s: publishing to a channel whose handler does not drain blocked", tg.Name)
	}
	r.obsQueue("h1")
	if ql := r.rig.QueueLen(r.ctxs["h1"]); ql != tg.Cap {
		rep.Diverge("overflow:"+tg.Name, fmt.Sprintf("%s: queue of a stuck handler holds %d messages after %d publications, capacity %d", tg.Name, ql, tg.Cap+extra, tg.Cap),
			nil, tg.Cap, ql)
	}
	close(gate)
	// retransmit the last (dropped) message until the handler has room for it
	if !Eventually(60*time.Second, func() bool {
		r.redeliver("s3", last)
		time.Sleep(2 * time.Millisecond)
		return r.sawInvoke("h1", "s3", last)
	}) {
		t.Fatalf("%s: retransmission of a dropped message never reached the handler", tg.Name)
	}
	r.fence([]string{"h1"})
	got := r.invokedBy("h1")
	// 1 + Cap accepted + the retransmitted one + closing message
	want := 1 + tg.Cap + 1 + 1
	if len(got) != want {
		rep.Diverge("overflow-count:"+tg.Name, fmt.Sprintf("%s: stuck handler was handed %d messages in total, expected %d (first, %d queued, one retransmitted after being dropped, closing)", tg.Name, len(got), want, tg.Cap),
			nil, want, len(got))
	}
	r.directDuplicateCheck(rep, "overflow")
	rep.Eval(tg.Name+":overflow", map[string]interface{}{"target": tg.Name, "scenario": "overflow", "cap": tg.Cap, "handed": len(got)})
	r.finish(tr, rep, "overflow")
}
