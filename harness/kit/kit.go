// Package verifkit is the shared Go side of the model-based verification
// machinery. It is compiled into the repository by `go test -overlay` (it is
// not part of keep-core). It provides:
//
//   - Cases / behaviours emitted by TLC (one JSON document per line),
//   - a Report that collects evaluations, samples and divergences and writes
//     result.json for the engine,
//   - a Tracer writing ndjson events for TLC trace validation,
//   - a Gate used with pkg/internal/verifhook to park goroutines at named
//     points (scheduler control for hazard replay).
package verifkit

import (
	"bufio"
	"crypto/sha256"
	"encoding/hex"
	"encoding/json"
	"fmt"
	"math/rand"
	"os"
	"path/filepath"
	"sort"
	"strconv"
	"sync"
	"testing"
	"time"
)

// ---------------------------------------------------------------- environment

// InDir is the directory with engine-generated inputs (TLC behaviours).
func InDir() string { return os.Getenv("VERIF_IN") }

// OutDir is the directory the harness writes result.json / traces into.
func OutDir() string { return os.Getenv("VERIF_OUT") }

// Tier is "quick" or "thorough".
func Tier() string {
	if t := os.Getenv("VERIF_TIER"); t != "" {
		return t
	}
	return "quick"
}

// Thorough reports whether the thorough tier is running.
func Thorough() bool { return Tier() == "thorough" }

// Seed returns VERIF_SEED (default 1).
func Seed() int64 {
	if s := os.Getenv("VERIF_SEED"); s != "" {
		if v, err := strconv.ParseInt(s, 10, 64); err == nil {
			return v
		}
	}
	return 1
}

// Rand returns a PRNG seeded from VERIF_SEED and a salt.
func Rand(salt int64) *rand.Rand { return rand.New(rand.NewSource(Seed()*1000003 + salt)) }

// IntEnv reads an integer parameter passed by the engine.
func IntEnv(name string, def int) int {
	if s := os.Getenv(name); s != "" {
		if v, err := strconv.Atoi(s); err == nil {
			return v
		}
	}
	return def
}

// RequireEngine skips the test unless it is run by the engine.
func RequireEngine(t testing.TB) {
	if OutDir() == "" {
		t.Skip("verification harness: run through /verif/vcheck")
	}
}

// ---------------------------------------------------------------- TLC values

// V is a decoded TLC JSON value with convenience accessors. TLC's ToJson
// renders records as objects, sequences/sets/tuples as arrays, functions over
// 1..n as arrays and other functions as objects with string keys.
type V struct{ X interface{} }

func (v V) Get(k string) V {
	if m, ok := v.X.(map[string]interface{}); ok {
		return V{m[k]}
	}
	return V{nil}
}
func (v V) Has(k string) bool {
	if m, ok := v.X.(map[string]interface{}); ok {
		_, ok2 := m[k]
		return ok2
	}
	return false
}
func (v V) Keys() []string {
	m, _ := v.X.(map[string]interface{})
	ks := make([]string, 0, len(m))
	for k := range m {
		ks = append(ks, k)
	}
	sort.Strings(ks)
	return ks
}
func (v V) Idx(i int) V {
	if a, ok := v.X.([]interface{}); ok && i >= 0 && i < len(a) {
		return V{a[i]}
	}
	return V{nil}
}
func (v V) Len() int {
	switch a := v.X.(type) {
	case []interface{}:
		return len(a)
	case map[string]interface{}:
		return len(a)
	}
	return 0
}
func (v V) List() []V {
	a, _ := v.X.([]interface{})
	out := make([]V, len(a))
	for i := range a {
		out[i] = V{a[i]}
	}
	return out
}
func (v V) Int() int {
	switch x := v.X.(type) {
	case float64:
		return int(x)
	case json.Number:
		i, _ := x.Int64()
		return int(i)
	case string:
		i, _ := strconv.Atoi(x)
		return i
	case bool:
		if x {
			return 1
		}
	}
	return 0
}
func (v V) Str() string {
	switch x := v.X.(type) {
	case string:
		return x
	case nil:
		return ""
	}
	b, _ := json.Marshal(v.X)
	return string(b)
}
func (v V) Bool() bool {
	b, _ := v.X.(bool)
	return b
}
func (v V) IsNil() bool { return v.X == nil }
func (v V) Ints() []int {
	l := v.List()
	out := make([]int, len(l))
	for i, e := range l {
		out[i] = e.Int()
	}
	return out
}
func (v V) Strs() []string {
	l := v.List()
	out := make([]string, len(l))
	for i, e := range l {
		out[i] = e.Str()
	}
	return out
}
func (v V) JSON() string {
	b, _ := json.Marshal(v.X)
	return string(b)
}

// LoadCases reads a file of TLC-emitted JSON documents, one per line. Lines
// written through CSVWrite("%1$s", <<ToJson(x)>>) are JSON *strings* holding
// JSON; both plain and doubly-encoded lines are accepted. Duplicate lines are
// removed (TLC may evaluate an emitting invariant more than once).
func LoadCases(t testing.TB, name string) []V {
	path := filepath.Join(InDir(), name)
	f, err := os.Open(path)
	if err != nil {
		t.Fatalf("verifkit: cannot open cases %s: %v", path, err)
	}
	defer f.Close()
	sc := bufio.NewScanner(f)
	sc.Buffer(make([]byte, 1<<20), 1<<28)
	seen := map[string]bool{}
	var out []V
	for sc.Scan() {
		line := sc.Bytes()
		if len(line) == 0 {
			continue
		}
		var x interface{}
		if err := json.Unmarshal(line, &x); err != nil {
			t.Fatalf("verifkit: bad case line in %s: %v", path, err)
		}
		if s, ok := x.(string); ok {
			var y interface{}
			if err := json.Unmarshal([]byte(s), &y); err == nil {
				x = y
			}
		}
		key := V{x}.JSON()
		if seen[key] {
			continue
		}
		seen[key] = true
		out = append(out, V{x})
	}
	if err := sc.Err(); err != nil {
		t.Fatalf("verifkit: reading %s: %v", path, err)
	}
	return out
}

// Pick returns at most n cases: all of them if n<=0 or n>=len, otherwise a
// seeded random subset (order preserved).
func Pick(cases []V, n int, salt int64) []V {
	if n <= 0 || n >= len(cases) {
		return cases
	}
	r := Rand(salt)
	idx := r.Perm(len(cases))[:n]
	sort.Ints(idx)
	out := make([]V, n)
	for i, j := range idx {
		out[i] = cases[j]
	}
	return out
}

// ---------------------------------------------------------------- report

// Divergence is one observed disagreement between the real code and the spec.
type Divergence struct {
	Key      string      `json:"key"`  // stable identifier of the failing case (for known findings)
	What     string      `json:"what"` // human description
	Case     interface{} `json:"case,omitempty"`
	Expected interface{} `json:"expected,omitempty"`
	Observed interface{} `json:"observed,omitempty"`
}

// Report accumulates what a harness run covered.
type Report struct {
	mu          sync.Mutex
	Property    string `json:"property"`
	Evaluations int    `json:"evaluations"`
	distinct    map[string]bool
	Distinct    int                    `json:"distinct_nontrivial"`
	Samples     []interface{}          `json:"samples"`
	Divergences []Divergence           `json:"divergences"`
	Unrealized  int                    `json:"unrealized"` // hazard schedules the code made impossible
	Counters    map[string]int         `json:"counters"`
	Notes       []string               `json:"notes"`
	Extra       map[string]interface{} `json:"extra"`
	start       time.Time
	name        string
}

// NewReport creates the report written to $VERIF_OUT/<name>.result.json.
func NewReport(property, name string) *Report {
	return &Report{Property: property, distinct: map[string]bool{}, Counters: map[string]int{},
		Extra: map[string]interface{}{}, start: time.Now(), name: name}
}

// Eval counts one evaluated case; nontrivialKey (if not empty) identifies a
// distinct non-trivial case.
func (r *Report) Eval(nontrivialKey string, sample interface{}) {
	r.mu.Lock()
	defer r.mu.Unlock()
	r.Evaluations++
	if nontrivialKey != "" && !r.distinct[nontrivialKey] {
		r.distinct[nontrivialKey] = true
		r.Distinct = len(r.distinct)
	}
	if sample != nil && len(r.Samples) < 5 {
		r.Samples = append(r.Samples, sample)
	}
}

// Count increments a named counter (e.g. per-action replay coverage).
func (r *Report) Count(name string, n int) {
	r.mu.Lock()
	r.Counters[name] += n
	r.mu.Unlock()
}

// Note adds a free-text note.
func (r *Report) Note(format string, a ...interface{}) {
	r.mu.Lock()
	r.Notes = append(r.Notes, fmt.Sprintf(format, a...))
	r.mu.Unlock()
}

// Diverge records a property violation observed on the real code.
func (r *Report) Diverge(key, what string, c, expected, observed interface{}) {
	r.mu.Lock()
	defer r.mu.Unlock()
	if len(r.Divergences) < 200 {
		r.Divergences = append(r.Divergences, Divergence{Key: key, What: what, Case: c, Expected: expected, Observed: observed})
	}
}

// NDivergences returns the number recorded so far.
func (r *Report) NDivergences() int {
	r.mu.Lock()
	defer r.mu.Unlock()
	return len(r.Divergences)
}

// Write stores the report. It must be called (typically deferred) by every
// harness test; a missing result file makes the engine report a broken check.
func (r *Report) Write(t testing.TB) {
	r.mu.Lock()
	defer r.mu.Unlock()
	r.Extra["harness_wall_s"] = time.Since(r.start).Seconds()
	b, err := json.MarshalIndent(r, "", " ")
	if err != nil {
		t.Fatalf("verifkit: marshal report: %v", err)
	}
	p := filepath.Join(OutDir(), r.name+".result.json")
	if err := os.WriteFile(p, b, 0o644); err != nil {
		t.Fatalf("verifkit: write report: %v", err)
	}
}

// Hash returns a short stable hash of any JSON-marshalable value.
func Hash(x interface{}) string {
	b, _ := json.Marshal(x)
	h := sha256.Sum256(b)
	return hex.EncodeToString(h[:6])
}

// ---------------------------------------------------------------- tracer

// Tracer writes ndjson events. Each event gets a global sequence number under
// the tracer's mutex, so the file order is a linearization order when Emit is
// called at linearization points (or Call/Return pairs are logged).
type Tracer struct {
	mu   sync.Mutex
	f    *os.File
	w    *bufio.Writer
	seq  int
	n    int
	name string
}

// NewTracer creates $VERIF_OUT/<name>.ndjson.
func NewTracer(t testing.TB, name string) *Tracer {
	f, err := os.Create(filepath.Join(OutDir(), name+".ndjson"))
	if err != nil {
		t.Fatalf("verifkit: tracer: %v", err)
	}
	return &Tracer{f: f, w: bufio.NewWriterSize(f, 1<<16), name: name}
}

// Emit appends one event; ev must be a map or struct. A field "seq" is added
// for maps.
func (tr *Tracer) Emit(ev map[string]interface{}) {
	tr.mu.Lock()
	defer tr.mu.Unlock()
	tr.seq++
	tr.n++
	ev["seq"] = tr.seq
	b, _ := json.Marshal(ev)
	tr.w.Write(b)
	tr.w.WriteByte('\n')
}

// Reset emits a {"event":"Reset"} line separating independent traces.
func (tr *Tracer) Reset(extra map[string]interface{}) {
	ev := map[string]interface{}{"event": "Reset"}
	for k, v := range extra {
		ev[k] = v
	}
	tr.Emit(ev)
}

// N returns the number of events written.
func (tr *Tracer) N() int { tr.mu.Lock(); defer tr.mu.Unlock(); return tr.n }

// Close flushes the file.
func (tr *Tracer) Close() {
	tr.mu.Lock()
	defer tr.mu.Unlock()
	tr.w.Flush()
	tr.f.Close()
}

// ---------------------------------------------------------------- gate

// Gate parks goroutines at named hook points. A harness installs
// gate.Handler with verifhook.Install. Points not armed pass through.
type Gate struct {
	mu      sync.Mutex
	armed   map[string]int // point -> how many more arrivals to park
	parked  map[string][]parkedG
	arrived map[string]int
	cond    *sync.Cond
	Log     func(point string, kv []interface{})
}

type parkedG struct {
	ticket int // arrival number at the point (1-based)
	ch     chan struct{}
}

func NewGate() *Gate {
	g := &Gate{armed: map[string]int{}, parked: map[string][]parkedG{}, arrived: map[string]int{}}
	g.cond = sync.NewCond(&g.mu)
	return g
}

// Arm makes the next n arrivals at point park until released.
func (g *Gate) Arm(point string, n int) {
	g.mu.Lock()
	g.armed[point] += n
	g.mu.Unlock()
}

// Disarm clears arming for the point (already parked goroutines stay parked).
func (g *Gate) Disarm(point string) {
	g.mu.Lock()
	delete(g.armed, point)
	g.mu.Unlock()
}

// Handler is the verifhook handler.
func (g *Gate) Handler(point string, kv ...interface{}) {
	g.mu.Lock()
	if g.Log != nil {
		g.Log(point, kv)
	}
	g.arrived[point]++
	g.cond.Broadcast()
	if g.armed[point] <= 0 {
		g.mu.Unlock()
		return
	}
	g.armed[point]--
	ch := make(chan struct{})
	g.parked[point] = append(g.parked[point], parkedG{g.arrived[point], ch})
	g.cond.Broadcast()
	g.mu.Unlock()
	<-ch
}

// WaitParked waits until at least n goroutines are parked at point; false on
// timeout (the schedule is not realizable on this code).
func (g *Gate) WaitParked(point string, n int, d time.Duration) bool {
	deadline := time.Now().Add(d)
	g.mu.Lock()
	defer g.mu.Unlock()
	for len(g.parked[point]) < n {
		if time.Now().After(deadline) {
			return false
		}
		g.mu.Unlock()
		time.Sleep(200 * time.Microsecond)
		g.mu.Lock()
	}
	return true
}

// WaitArrived waits until point was reached n times in total.
func (g *Gate) WaitArrived(point string, n int, d time.Duration) bool {
	deadline := time.Now().Add(d)
	g.mu.Lock()
	defer g.mu.Unlock()
	for g.arrived[point] < n {
		if time.Now().After(deadline) {
			return false
		}
		g.mu.Unlock()
		time.Sleep(200 * time.Microsecond)
		g.mu.Lock()
	}
	return true
}

// Arrived returns the number of arrivals at point so far.
func (g *Gate) Arrived(point string) int { g.mu.Lock(); defer g.mu.Unlock(); return g.arrived[point] }

// Parked returns the number of goroutines currently parked at point.
func (g *Gate) Parked(point string) int {
	g.mu.Lock()
	defer g.mu.Unlock()
	return len(g.parked[point])
}

// Release lets the oldest parked goroutine at point continue.
func (g *Gate) Release(point string) bool {
	g.mu.Lock()
	defer g.mu.Unlock()
	q := g.parked[point]
	if len(q) == 0 {
		return false
	}
	close(q[0].ch)
	g.parked[point] = q[1:]
	return true
}

// ReleaseTicket lets the goroutine that was the ticket-th arrival at point
// continue (tickets are 1-based arrival numbers).
func (g *Gate) ReleaseTicket(point string, ticket int) bool {
	g.mu.Lock()
	defer g.mu.Unlock()
	q := g.parked[point]
	for i, p := range q {
		if p.ticket == ticket {
			close(p.ch)
			g.parked[point] = append(append([]parkedG{}, q[:i]...), q[i+1:]...)
			return true
		}
	}
	return false
}

// ReleaseAll disarms everything and releases every parked goroutine.
func (g *Gate) ReleaseAll() {
	g.mu.Lock()
	defer g.mu.Unlock()
	g.armed = map[string]int{}
	for p, q := range g.parked {
		for _, p := range q {
			close(p.ch)
		}
		delete(g.parked, p)
	}
}

// Eventually polls cond until it is true or d elapsed.
func Eventually(d time.Duration, cond func() bool) bool {
	deadline := time.Now().Add(d)
	for {
		if cond() {
			return true
		}
		if time.Now().After(deadline) {
			return false
		}
		time.Sleep(500 * time.Microsecond)
	}
}
