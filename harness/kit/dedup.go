package verifkit

// Generic drivers for the event deduplicators (C37): the same schedules are
// replayed on pkg/tbtc's deduplicator (three notify functions) and on
// pkg/beacon/event's Deduplicator.NotifyDKGStarted.

import (
	"fmt"
	"sync"
	"testing"
	"time"
)

// DedupPoint is the hook point placed immediately before the cache insertion.
const DedupPoint = "dedup.beforeAdd"

// DedupTarget is one notify function under test. New returns a fresh
// deduplicator instance as a closure from a model key ("k1", "k2", ...) to the
// boolean the real notify function returned; period is the caching period of
// the fresh instance (0 = the production default).
type DedupTarget struct {
	Name string
	New  func(period time.Duration) func(key string) bool
}

// ReplayDedupSchedules forces every TLC schedule (Begin p / Finish p steps of
// overlapping deliveries) on each target by parking the handler goroutines at
// DedupPoint, and checks the contract outcome: for every delivered key exactly
// one delivery is told to proceed.
func ReplayDedupSchedules(t *testing.T, rep *Report, cases []V, targets []DedupTarget,
	install func(func(string, ...interface{})), uninstall func()) {
	wait := time.Duration(IntEnv("VERIF_PARK_MS", 100)) * time.Millisecond
	for _, tg := range targets {
		for _, c := range cases {
			gate := NewGate()
			install(gate.Handler)
			notify := tg.New(0)
			keys := c.Get("keys")
			type res struct {
				done bool
				val  bool
			}
			var mu sync.Mutex
			results := map[string]*res{}
			ticket := map[string]int{}
			var wg sync.WaitGroup
			realized := true
			overlap := false
			parkedNow := 0
			for _, s := range c.Get("steps").List() {
				p := s.Get("p").Str()
				switch s.Get("a").Str() {
				case "Begin":
					if parkedNow > 0 {
						overlap = true
					}
					gate.Arm(DedupPoint, 1)
					before := gate.Arrived(DedupPoint)
					r := &res{}
					mu.Lock()
					results[p] = r
					mu.Unlock()
					wg.Add(1)
					k := keys.Get(p).Str()
					go func() {
						defer wg.Done()
						v := notify(k)
						mu.Lock()
						r.done, r.val = true, v
						mu.Unlock()
					}()
					// the goroutine either parks before the insertion or returns
					ok := Eventually(wait, func() bool {
						mu.Lock()
						d := r.done
						mu.Unlock()
						return d || gate.Arrived(DedupPoint) > before
					})
					if !ok {
						realized = false // blocked elsewhere (e.g. on a lock held by a parked delivery)
					}
					mu.Lock()
					d := r.done
					mu.Unlock()
					if !d && gate.Arrived(DedupPoint) > before {
						ticket[p] = before + 1
						parkedNow++
					} else {
						gate.Disarm(DedupPoint)
					}
				case "Finish":
					if tk, ok := ticket[p]; ok && gate.ReleaseTicket(DedupPoint, tk) {
						parkedNow--
						r := results[p]
						Eventually(5*time.Second, func() bool { mu.Lock(); defer mu.Unlock(); return r.done })
					} else {
						realized = false
					}
				}
			}
			gate.ReleaseAll()
			wg.Wait()
			uninstall()
			trues := map[string]int{}
			delivered := map[string]int{}
			for p, r := range results {
				k := keys.Get(p).Str()
				delivered[k]++
				if r.val {
					trues[k]++
				}
			}
			key := ""
			if overlap {
				key = tg.Name + "/" + Hash(c.X)
			}
			rep.Eval(key, map[string]interface{}{"target": tg.Name, "steps": c.Get("steps").X, "keys": keys.X, "handled": trues, "realized": realized})
			if realized {
				rep.Count("realized", 1)
			} else {
				rep.Unrealized++
			}
			for k, n := range delivered {
				if trues[k] != 1 {
					rep.Diverge(fmt.Sprintf("dedup-race:%s", tg.Name),
						fmt.Sprintf("%s: %d overlapping deliveries of the same event %s were told to proceed %d times (exactly one expected)", tg.Name, n, k, trues[k]),
						c.X, 1, trues[k])
				}
			}
		}
	}
}

// HammerDedup runs rounds of concurrent deliveries without any scheduling
// control and records Call/Return events for linearizability checking by
// Trace_Dedup. Also checks the exactly-once outcome per round directly.
func HammerDedup(t *testing.T, rep *Report, tr *Tracer, tg DedupTarget, rounds, procs int, salt int64) {
	rnd := Rand(salt)
	for round := 0; round < rounds; round++ {
		notify := tg.New(0)
		tr.Reset(map[string]interface{}{"target": tg.Name})
		nk := 1 + rnd.Intn(2)
		start := make(chan struct{})
		var wg sync.WaitGroup
		var mu sync.Mutex
		trues := map[string]int{}
		delivered := map[string]int{}
		for p := 1; p <= procs; p++ {
			k := fmt.Sprintf("k%d", 1+rnd.Intn(nk))
			delivered[k]++
			wg.Add(1)
			go func(p int, k string) {
				defer wg.Done()
				<-start
				tr.Emit(map[string]interface{}{"event": "Call", "p": fmt.Sprintf("p%d", p), "k": k})
				v := notify(k)
				r := "false"
				if v {
					r = "true"
				}
				tr.Emit(map[string]interface{}{"event": "Return", "p": fmt.Sprintf("p%d", p), "k": k, "r": r})
				mu.Lock()
				if v {
					trues[k]++
				}
				mu.Unlock()
			}(p, k)
		}
		close(start)
		wg.Wait()
		rep.Eval(fmt.Sprintf("%s/%d", tg.Name, round%50), nil)
		for k, n := range delivered {
			if trues[k] != 1 {
				rep.Diverge(fmt.Sprintf("dedup-race:%s", tg.Name),
					fmt.Sprintf("%s: %d concurrent deliveries of event %s were told to proceed %d times (exactly one expected)", tg.Name, n, k, trues[k]),
					map[string]interface{}{"round": round, "delivered": delivered}, 1, trues[k])
			}
		}
	}
}

// ReplayDedupSequences replays sequential Notify / ExpireAll behaviours (the
// contract model with recycling and expiry) on instances with a short caching
// period. A behaviour that took too long to stay inside the period is
// discarded as inconclusive, never reported.
func ReplayDedupSequences(t *testing.T, rep *Report, cases []V, targets []DedupTarget) {
	period := time.Duration(IntEnv("VERIF_PERIOD_MS", 400)) * time.Millisecond
	for _, tg := range targets {
		var wg sync.WaitGroup
		sem := make(chan struct{}, 32)
		for _, c := range cases {
			wg.Add(1)
			sem <- struct{}{}
			go func(c V) {
				defer wg.Done()
				defer func() { <-sem }()
				notify := tg.New(period)
				segStart := time.Now()
				type obs struct {
					i        int
					exp, got bool
				}
				var bad []obs
				for i, s := range c.Get("steps").List() {
					switch s.Get("a").Str() {
					case "Notify":
						got := notify(s.Get("k").Str())
						exp := s.Get("ret").Str() == "true"
						if got != exp {
							bad = append(bad, obs{i, exp, got})
						}
					case "ExpireAll":
						if time.Since(segStart) > period/2 {
							rep.Count("inconclusive_slow", 1)
							return
						}
						time.Sleep(period + period/2)
						segStart = time.Now()
					}
				}
				if time.Since(segStart) > period/2 {
					rep.Count("inconclusive_slow", 1)
					return
				}
				rep.Eval(tg.Name+"/"+Hash(c.X), map[string]interface{}{"target": tg.Name, "steps": c.Get("steps").X})
				for _, b := range bad {
					rep.Diverge(fmt.Sprintf("dedup-seq:%s", tg.Name),
						fmt.Sprintf("%s: sequential delivery %d returned %v, the contract says %v", tg.Name, b.i+1, b.got, b.exp),
						c.X, b.exp, b.got)
				}
			}(c)
		}
		wg.Wait()
	}
}
