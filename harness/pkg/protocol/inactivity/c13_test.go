//go:build verif

package inactivity

// C13 conformance harness, inactivity claim support counting
// (specs/Support, Proto = "inactivity", duplicate rule "firstWins").
//
// Every case of SupportCases is fed to the REAL claimSigningState /
// signaturesVerificationState / claimSubmissionState (async states) of member
// 1 with real signed messages. The ClaimSigner is built on the same
// chain.Signing calls the production signer (pkg/tbtc inactivityClaimSigner) makes;
// the production signer and the honest-threshold gate of inactivityClaimSubmitter.SubmitClaim
// are exercised by the pkg/tbtc part of this check. The ClaimSubmitter
// records the signature map it is handed.

import (
	"context"
	"fmt"
	"testing"

	"github.com/keep-network/keep-core/internal/testutils"
	kit "github.com/keep-network/keep-core/internal/verifkit"
	vsup "github.com/keep-network/keep-core/internal/verifsup"
	"github.com/keep-network/keep-core/pkg/chain"
	"github.com/keep-network/keep-core/pkg/net"
	"github.com/keep-network/keep-core/pkg/protocol/group"
	"github.com/keep-network/keep-core/pkg/protocol/state"
)

type c13Signer struct {
	signing chain.Signing
	hash    ClaimHash
}

func (s *c13Signer) SignClaim(r *ClaimPreimage) (*SignedClaimHash, error) {
	sig, err := s.signing.Sign(s.hash[:])
	if err != nil {
		return nil, err
	}
	return &SignedClaimHash{PublicKey: s.signing.PublicKey(), Signature: sig, ClaimHash: s.hash}, nil
}

func (s *c13Signer) VerifySignature(sr *SignedClaimHash) (bool, error) {
	return s.signing.VerifyWithPublicKey(sr.ClaimHash[:], sr.Signature, sr.PublicKey)
}

type c13Submitter struct {
	calls []map[group.MemberIndex][]byte
	index []group.MemberIndex
}

func (s *c13Submitter) SubmitClaim(ctx context.Context, i group.MemberIndex, r *ClaimPreimage, sigs map[group.MemberIndex][]byte) error {
	cp := map[group.MemberIndex][]byte{}
	for k, v := range sigs {
		cp[k] = v
	}
	s.calls = append(s.calls, cp)
	s.index = append(s.index, i)
	return nil
}

type c13Channel struct{}

func (c *c13Channel) Name() string { return "verif" }
func (c *c13Channel) Send(context.Context, net.TaggedMarshaler, ...net.RetransmissionStrategy) error {
	return nil
}
func (c *c13Channel) Recv(context.Context, func(net.Message))     {}
func (c *c13Channel) SetUnmarshaler(func() net.TaggedUnmarshaler) {}
func (c *c13Channel) SetFilter(net.BroadcastChannelFilter) error  { return nil }

type c13NetMessage struct {
	payload *claimSignatureMessage
	key     []byte
}

func (m *c13NetMessage) TransportSenderID() net.TransportIdentifier { return nil }
func (m *c13NetMessage) SenderPublicKey() []byte                    { return m.key }
func (m *c13NetMessage) Payload() interface{}                       { return m.payload }
func (m *c13NetMessage) Type() string                               { return m.payload.Type() }
func (m *c13NetMessage) Seqno() uint64                              { return 0 }

func c13ToMap(m map[group.MemberIndex][]byte) map[int][]byte {
	out := map[int][]byte{}
	for k, v := range m {
		out[int(k)] = v
	}
	return out
}

func TestVerif_C13_Inactivity(t *testing.T) {
	kit.RequireEngine(t)
	rep := kit.NewReport("C13", "inactivity_support")
	defer rep.Write(t)
	const n = 4
	ring, err := vsup.NewKeyring(n)
	if err != nil {
		t.Fatal(err)
	}
	validator := group.NewMembershipValidator(&testutils.MockLogger{}, ring.Addresses, ring.Signers[1])
	mine, other := ClaimHash(vsup.HashOf("mine")), ClaimHash(vsup.HashOf("other"))
	ctx := context.Background()
	for ci, c := range kit.LoadCases(t, "supportcases.ndjson") {
		func() {
			defer func() {
				if r := recover(); r != nil {
					rep.Diverge("inactivity:panic:"+kit.Hash(c.X), fmt.Sprintf("inactivity claim states panicked: %v", r), c.X, nil, nil)
				}
			}()
			signer := &c13Signer{signing: ring.Signers[1], hash: mine}
			submitter := &c13Submitter{}
			member := newSigningMember(&testutils.MockLogger{}, 1, n, 1, validator, vsup.Session)
			// the group of an inactivity session is created by newSigningMember;
			// non-operating members are marked on it
			for k, no := range c.Get("nonop").Ints() {
				if (ci+k)%2 == 0 {
					member.group.MarkMemberAsInactive(group.MemberIndex(no))
				} else {
					member.group.MarkMemberAsDisqualified(group.MemberIndex(no))
				}
			}
			st := &claimSigningState{BaseAsyncState: state.NewBaseAsyncState(), channel: &c13Channel{}, claimSigner: signer,
				claimSubmitter: submitter, member: member, claim: &ClaimPreimage{}}
			if err := st.Initiate(ctx); err != nil {
				t.Fatalf("Initiate: %v", err)
			}
			ring.NewCase()
			ring.SetGenuine(1, mine, member.selfInactivityClaimSignature)
			msgs := c.Get("msgs").List()
			accepted := c.Get("accepted").List()
			concrete := make([]vsup.Concrete, len(msgs))
			key := "inactivity:" + kit.Hash([]interface{}{c.Get("nonop").X, c.Get("msgs").X})
			nontrivial := ""
			if len(msgs) > 0 {
				nontrivial = key
			}
			rep.Eval(nontrivial, map[string]interface{}{"case": c.X})
			typ := (&claimSignatureMessage{}).Type()
			for k, m := range msgs {
				cm, err := ring.Realize(m, ci+3*k, mine, other)
				if err != nil {
					t.Fatalf("realize: %v", err)
				}
				concrete[k] = cm
				before := len(st.GetAllReceivedMessages(typ))
				if err := st.Receive(&c13NetMessage{payload: &claimSignatureMessage{senderID: group.MemberIndex(cm.Sender),
					claimHash: cm.Hash, signature: cm.Signature, publicKey: cm.PublicKey, sessionID: cm.Session}, key: cm.NetKey}); err != nil {
					rep.Diverge(key, fmt.Sprintf("Receive returned an error: %v", err), c.X, nil, nil)
					return
				}
				got := len(st.GetAllReceivedMessages(typ)) > before
				if got != accepted[k].Bool() {
					rep.Diverge(key, fmt.Sprintf("inactivity: message %d (%s) stored=%v, specification accepts=%v", k+1, cm.How, got, accepted[k].Bool()),
						c.X, accepted[k].Bool(), got)
					return
				}
			}
			next, err := st.Next()
			if err != nil {
				t.Fatalf("Next: %v", err)
			}
			svs := next.(*signaturesVerificationState)
			if err := svs.Initiate(ctx); err != nil {
				rep.Diverge(key, fmt.Sprintf("verification failed: %v", err), c.X, nil, nil)
				return
			}
			verdict := vsup.Verdict(c, "firstWins")
			if !vsup.CompareMap(rep, "inactivity", "verified", c, verdict, c13ToMap(svs.validSignatures), concrete, member.selfInactivityClaimSignature) {
				return
			}
			nx, _ := svs.Next()
			sub := nx.(*claimSubmissionState)
			if err := sub.Initiate(ctx); err != nil {
				rep.Diverge(key, fmt.Sprintf("submission state failed: %v", err), c.X, nil, nil)
				return
			}
			if len(submitter.calls) != 1 || submitter.index[0] != 1 {
				rep.Diverge(key, fmt.Sprintf("inactivity: the submitter was called %d times (as %v)", len(submitter.calls), submitter.index), c.X, nil, nil)
				return
			}
			if !vsup.CompareMap(rep, "inactivity", "handed-to-submitter", c, verdict, c13ToMap(submitter.calls[0]), concrete, member.selfInactivityClaimSignature) {
				return
			}
			rep.Count("inactivity.cases", 1)
			rep.Count(fmt.Sprintf("inactivity.supporters.%d", len(verdict)), 1)
		}()
		if rep.NDivergences() >= 10 {
			rep.Note("stopped after %d divergences", rep.NDivergences())
			break
		}
	}
}
