//go:build verif

package inactivity

// C12 conformance harness, pkg/protocol/inactivity (specs/Admission, rows
// pkg/protocol/inactivity/*): every case of the admission predicate (rule
// "memberKey") is delivered to the REAL claimSigningState.Receive; the two
// silent states reached through the real Next() chain must ignore everything.
//
// The state is built the way PublishClaim builds it (newSigningMember, real
// MembershipValidator); the exclusion of the case is applied to the member's
// group. The claimSignatureMessage goes through the real Marshal, gets the
// wire sender index, and is decoded by the unmarshaler RegisterUnmarshallers
// registers.
//
// Observation: the BaseAsyncState history before and after Receive.
//
// Streams (AdmissionLoop.tla): sequences of 1..3 messages are delivered to one
// claimSigningState and the history is compared with the specified list of
// admitted messages, in order.

import (
	"fmt"
	"testing"

	"github.com/keep-network/keep-core/internal/testutils"
	verifadm "github.com/keep-network/keep-core/internal/verifadm"
	kit "github.com/keep-network/keep-core/internal/verifkit"
	"github.com/keep-network/keep-core/pkg/protocol/group"
	"github.com/keep-network/keep-core/pkg/protocol/state"
)

func TestVerif_C12_Inactivity(t *testing.T) {
	kit.RequireEngine(t)
	rep := kit.NewReport("C12", "admission_inactivity")
	defer rep.Write(t)
	w := verifadm.LoadWorld(t)
	steps := verifadm.LoadSteps(t, "pkg/protocol/inactivity")
	cases := verifadm.LoadCases(t)
	validator := w.Validator()
	ch := verifadm.NewChannel()
	RegisterUnmarshallers(ch)

	payload := func(c *verifadm.Case, typ string) (interface{}, error) {
		switch typ {
		case "foreign":
			return &verifadm.Foreign{SenderID: group.MemberIndex(c.Wire)}, nil
		case "claimSignatureMessage":
			tpl := &claimSignatureMessage{signature: []byte{0x01, 0x02}, publicKey: w.EmbeddedKey(c), sessionID: c.Session()}
			tpl.claimHash[0] = 0x42
			return ch.Decode(tpl, c.Wire)
		}
		return nil, fmt.Errorf("harness: unknown payload type %q", typ)
	}
	drivers := map[string]verifadm.Driver{}
	for _, s := range steps {
		name := s.Name
		drivers[name] = func(c *verifadm.Case, typ string) (string, string, error) {
			base := state.NewBaseAsyncState()
			member := newSigningMember(&testutils.MockLogger{}, group.MemberIndex(c.Recv), w.N, 1, validator, verifadm.SessionOK)
			c.MarkCurrent(member.group)
			st, err := verifadm.WalkAsync(&claimSigningState{BaseAsyncState: base, channel: ch, member: member}, name)
			if err != nil {
				return "", "", err
			}
			p, err := payload(c, typ)
			if o, d, e, stop := verifadm.Dropped(err); stop {
				return o, d, e
			}
			return verifadm.ObserveHistory(st, base, w.Net(c, p))
		}
	}
	verifadm.Run(t, rep, w, steps, cases, drivers)

	// streams of messages (specs/Admission/AdmissionLoop.tla): the history after 1..3 deliveries;
	// the sequences are stated in their own (4-seat) world
	w = verifadm.LoadLoopWorld(t)
	validator = w.Validator()
	verifadm.RunSequences(t, rep, "pkg/protocol/inactivity/claimSigningState", func(q *verifadm.Sequence) (verifadm.LoopState, string, error) {
		var out verifadm.LoopState
		base := state.NewBaseAsyncState()
		member := newSigningMember(&testutils.MockLogger{}, group.MemberIndex(q.Msgs[0].Recv), w.N, 1, validator, verifadm.SessionOK)
		(&verifadm.Case{Excl: q.Excl}).MarkCurrent(member.group)
		st := &claimSigningState{BaseAsyncState: base, channel: ch, member: member}
		number := map[interface{}]int{}
		for i, c := range q.Msgs {
			p, err := payload(c, "claimSignatureMessage")
			if _, _, e, stop := verifadm.Dropped(err); stop {
				if e != nil {
					return out, "", e
				}
				continue // dropped by the decoder
			}
			msg := w.Net(c, p)
			number[msg] = i + 1
			if err := st.Receive(msg); err != nil {
				return out, "", err
			}
		}
		for _, m := range base.GetAllReceivedMessages((&claimSignatureMessage{}).Type()) {
			out.Stored = append(out.Stored, number[m])
		}
		return out, "", nil
	})
}
