//go:build verif

package announcer

// C12 conformance harness, pkg/protocol/announcer (specs/Admission, row
// pkg/protocol/announcer/Announcer.Announce, rule "announce"): for every case
// a REAL Announcer (real MembershipValidator) runs Announce for the receiver's
// member index on a fake broadcast channel; once it has registered its
// receive handler and sent its own announcement, the case's message is
// delivered, a barrier message makes sure the loop has processed it, the
// context is cancelled and the returned ready list is compared with the
// specification: {receiver} plus the claimed index iff the message is
// admitted.
//
// The announcementMessage goes through the real Marshal, gets the wire sender
// index, and is decoded by the unmarshaler RegisterUnmarshaller registers.
// No timing assumption decides anything: all waits are on channels.
//
// Streams (AdmissionLoop.tla): sequences of 1..3 announcements are delivered to
// one Announce call and the returned ready list is compared with the specified
// set.

import (
	"context"
	"fmt"
	"testing"
	"time"

	verifadm "github.com/keep-network/keep-core/internal/verifadm"
	kit "github.com/keep-network/keep-core/internal/verifkit"
	"github.com/keep-network/keep-core/pkg/net"
	"github.com/keep-network/keep-core/pkg/protocol/group"
)

const (
	c12ProtocolOK  = "verif-protocol"
	c12ProtocolBad = "verif-protocol-other"
)

func TestVerif_C12_Announcer(t *testing.T) {
	kit.RequireEngine(t)
	rep := kit.NewReport("C12", "admission_announcer")
	defer rep.Write(t)
	w := verifadm.LoadWorld(t)
	steps := verifadm.LoadSteps(t, "pkg/protocol/announcer")
	cases := verifadm.LoadCases(t)
	validator := w.Validator()
	decoder := verifadm.NewChannel()
	RegisterUnmarshaller(decoder)

	payload := func(c *verifadm.Case, typ string) (interface{}, error) {
		switch typ {
		case "foreign":
			return &verifadm.Foreign{SenderID: group.MemberIndex(c.Wire)}, nil
		case "announcementMessage":
			tpl := &announcementMessage{protocolID: c12ProtocolOK, sessionID: c.Session()}
			if c.BadCtx["protocol"] {
				tpl.protocolID = c12ProtocolBad
			}
			return decoder.Decode(tpl, c.Wire)
		}
		return nil, fmt.Errorf("harness: unknown payload type %q", typ)
	}

	type result struct {
		ready []group.MemberIndex
		err   error
	}
	// announce runs the real Announce for member recv, delivers the messages in order once
	// the announcer listens, and returns its ready list after cancellation.
	announce := func(recv int, msgs []net.Message) ([]group.MemberIndex, error, error) {
		ch := verifadm.NewChannel()
		sent := make(chan struct{}, 1)
		ch.OnSend = func(net.TaggedMarshaler) {
			select {
			case sent <- struct{}{}:
			default:
			}
		}
		ctx, cancel := context.WithCancel(context.Background())
		defer cancel()
		done := make(chan struct{})
		var res result
		go func() {
			defer close(done)
			defer func() {
				if r := recover(); r != nil {
					res.err = fmt.Errorf("panic: %v", r)
				}
			}()
			res.ready, res.err = New(c12ProtocolOK, ch, validator).Announce(ctx, group.MemberIndex(recv), verifadm.SessionOK)
		}()
		select {
		case <-sent:
		case <-done:
			return nil, nil, fmt.Errorf("harness: Announce returned before announcing: %v", res.err)
		case <-time.After(120 * time.Second):
			return nil, nil, fmt.Errorf("harness: Announce did not send its announcement")
		}
		if ch.Handlers() != 1 {
			return nil, nil, fmt.Errorf("harness: %d receive handlers registered", ch.Handlers())
		}
		for _, m := range msgs {
			ch.Deliver(m)
		}
		if !ch.Barrier(w, done) {
			return nil, nil, fmt.Errorf("harness: the announce loop did not reach the barrier message")
		}
		cancel()
		select {
		case <-done:
		case <-time.After(120 * time.Second):
			return nil, nil, fmt.Errorf("harness: Announce did not return after cancellation")
		}
		return res.ready, res.err, nil
	}
	drive := func(c *verifadm.Case, typ string) (string, string, error) {
		p, err := payload(c, typ)
		if o, d, e, stop := verifadm.Dropped(err); stop {
			return o, d, e
		}
		ready, perr, herr := announce(c.Recv, []net.Message{w.Net(c, p)})
		if herr != nil {
			return "", "", herr
		}
		if perr != nil {
			return "panic", perr.Error(), nil
		}
		claimed := group.MemberIndex(c.Wire) // decodable, so the value fits
		self := group.MemberIndex(c.Recv)
		hasSelf, hasClaimed, extra := false, false, []group.MemberIndex{}
		for i, m := range ready {
			if i > 0 && ready[i-1] >= m {
				return "corrupted", fmt.Sprintf("ready list %v is not strictly ascending", ready), nil
			}
			switch m {
			case self:
				hasSelf = true
			case claimed:
				hasClaimed = true
			default:
				extra = append(extra, m)
			}
		}
		if !hasSelf || len(extra) > 0 {
			return "corrupted", fmt.Sprintf("ready list %v (receiver %d, claimed %d)", ready, self, claimed), nil
		}
		if hasClaimed {
			return verifadm.Accepted, fmt.Sprintf("ready list %v", ready), nil
		}
		return verifadm.Ignored, fmt.Sprintf("ready list %v", ready), nil
	}
	verifadm.Run(t, rep, w, steps, cases, map[string]verifadm.Driver{"Announcer.Announce": drive})

	// streams of messages (specs/Admission/AdmissionLoop.tla): the ready list after 1..3 announcements;
	// the sequences are stated in their own (4-seat) world
	w = verifadm.LoadLoopWorld(t)
	validator = w.Validator()
	verifadm.RunSequences(t, rep, "pkg/protocol/announcer/Announcer.Announce", func(q *verifadm.Sequence) (verifadm.LoopState, string, error) {
		var out verifadm.LoopState
		var msgs []net.Message
		for _, c := range q.Msgs {
			p, err := payload(c, "announcementMessage")
			if _, _, e, stop := verifadm.Dropped(err); stop {
				if e != nil {
					return out, "", e
				}
				continue // dropped by the decoder
			}
			msgs = append(msgs, w.Net(c, p))
		}
		ready, perr, herr := announce(q.Msgs[0].Recv, msgs)
		if herr != nil {
			return out, "", herr
		}
		if perr != nil {
			return verifadm.LoopState{Returned: -1}, perr.Error(), nil
		}
		note := ""
		for i, m := range ready {
			if i > 0 && ready[i-1] >= m {
				note = fmt.Sprintf("ready list %v is not strictly ascending", ready)
			}
			out.Ready = append(out.Ready, int(m))
		}
		return out, note, nil
	})
}
