//go:build verif

package group_test

// C12 conformance harness, pkg/protocol/group: the membership validator
// itself (rows MembershipValidator.IsValidMembership and
// MembershipValidator.IsInGroup of specs/Admission). Every (network key,
// claimed member index) pair of the specification is put to the real
// validator built over real operator addresses.

import (
	"testing"

	verifadm "github.com/keep-network/keep-core/internal/verifadm"
	kit "github.com/keep-network/keep-core/internal/verifkit"
	"github.com/keep-network/keep-core/pkg/protocol/group"
)

func TestVerif_C12_Group(t *testing.T) {
	kit.RequireEngine(t)
	rep := kit.NewReport("C12", "admission_group")
	defer rep.Write(t)
	w := verifadm.LoadWorld(t)
	steps := verifadm.LoadSteps(t, "pkg/protocol/group")
	cases := verifadm.LoadCases(t)
	validator := w.Validator()
	verdict := func(ok bool) string {
		if ok {
			return verifadm.Accepted
		}
		return verifadm.Ignored
	}
	verifadm.Run(t, rep, w, steps, cases, map[string]verifadm.Driver{
		"MembershipValidator.IsValidMembership": func(c *verifadm.Case, typ string) (string, string, error) {
			return verdict(validator.IsValidMembership(group.MemberIndex(c.Wire), w.Keys[c.Key].PubBytes)), "", nil
		},
		"MembershipValidator.IsInGroup": func(c *verifadm.Case, typ string) (string, string, error) {
			return verdict(validator.IsInGroup(w.Keys[c.Key].Public)), "", nil
		},
	})
}
