//go:build verif

package bls

// C03 conformance harness, recovery part (see /verif/specs/BlsRecovery).
//
//   TestVerif_C03_Recover       every input slice enumerated by TLC
//                               (Gen_BlsRecovery: shares in every order mixed
//                               with nil / nil-value / negative-index entries)
//                               is realized with real BN254 shares of a fresh
//                               random polynomial; the real RecoverSignature
//                               and RecoverPublicKey are compared with the
//                               directly computed group signature / group
//                               public key and with VerifyG1.
//   TestVerif_C03_RecoverLarge  random inputs at production scale (group 64,
//                               threshold 33 and others); oracle: the directly
//                               computed group signature.
//
// Abstraction function: spec entry share(i) -> &SignatureShare{I: s(i), V:
// f(s(i))*msg}; nil -> nil pointer; nilv(i) -> {I: s(i), V: nil}; neg(i) ->
// {I: -s(i) (or -1 for s(i) = 0), V: f(s(i))*msg}, where s is an injective map
// of the spec's small indices to real member indices (identity or random).

import (
	"fmt"
	"math/big"
	"math/rand"
	"sort"
	"strings"
	"testing"

	bn256 "github.com/ethereum/go-ethereum/crypto/bn256/cloudflare"

	kit "github.com/keep-network/keep-core/internal/verifkit"
)

func c03Scalar(r *rand.Rand) *big.Int {
	b := make([]byte, 40)
	r.Read(b)
	x := new(big.Int).SetBytes(b)
	x.Mod(x, bn256.Order)
	if x.Sign() == 0 {
		x.SetInt64(1)
	}
	return x
}

// independent Horner evaluation mod the group order
func c03Eval(coeffs []*big.Int, x int) *big.Int {
	acc := new(big.Int)
	bx := big.NewInt(int64(x))
	for j := len(coeffs) - 1; j >= 0; j-- {
		acc.Mul(acc, bx)
		acc.Add(acc, coeffs[j])
		acc.Mod(acc, bn256.Order)
	}
	return acc
}

type c03Entry struct {
	t string
	i int // real (mapped) index, >= 0
}

func c03Compact(es []c03Entry) string {
	parts := make([]string, len(es))
	for n, e := range es {
		switch e.t {
		case "share":
			parts[n] = fmt.Sprintf("s%d", e.i)
		case "nil":
			parts[n] = "nil"
		case "nilv":
			parts[n] = fmt.Sprintf("v%d", e.i)
		case "neg":
			parts[n] = fmt.Sprintf("n%d", e.i)
		}
	}
	return "[" + strings.Join(parts, ",") + "]"
}

type c03Real struct {
	sig []*SignatureShare
	pk  []*PublicKeyShare
}

// c03Realize builds the real slices for the entries; returns also whether the
// real GetSecretKeyShare agreed with the independent evaluation.
func c03Realize(coeffs []*big.Int, msg *bn256.G1, es []c03Entry) (c03Real, string) {
	var out c03Real
	bad := ""
	for _, e := range es {
		switch e.t {
		case "nil":
			out.sig = append(out.sig, nil)
			out.pk = append(out.pk, nil)
		case "nilv":
			out.sig = append(out.sig, &SignatureShare{I: e.i, V: nil})
			out.pk = append(out.pk, &PublicKeyShare{I: e.i, V: nil})
		case "share", "neg":
			sk := GetSecretKeyShare(coeffs, e.i)
			want := c03Eval(coeffs, e.i)
			if sk.I != e.i || new(big.Int).Mod(sk.V, bn256.Order).Cmp(want) != 0 {
				bad = fmt.Sprintf("GetSecretKeyShare(f, %d) = (%d, %v), f(%d) = %v", e.i, sk.I, sk.V, e.i, want)
			}
			idx := e.i
			if e.t == "neg" {
				idx = -e.i
				if idx == 0 {
					idx = -1
				}
			}
			out.sig = append(out.sig, &SignatureShare{I: idx, V: SignG1(want, msg)})
			out.pk = append(out.pk, &PublicKeyShare{I: idx, V: new(bn256.G2).ScalarBaseMult(want)})
		}
	}
	return out, bad
}

type c03Outcome struct {
	Result string `json:"result"` // ok | err | panic
	Value  string `json:"value,omitempty"`
	Detail string `json:"detail,omitempty"`
}

func c03CallSig(shares []*SignatureShare, k int) (out c03Outcome, sig *bn256.G1) {
	defer func() {
		if r := recover(); r != nil {
			out = c03Outcome{Result: "panic", Detail: fmt.Sprint(r)}
			sig = nil
		}
	}()
	s, err := RecoverSignature(shares, k)
	if err != nil {
		if s != nil {
			return c03Outcome{Result: "err+value", Detail: err.Error()}, nil
		}
		return c03Outcome{Result: "err", Detail: err.Error()}, nil
	}
	if s == nil {
		return c03Outcome{Result: "nil"}, nil
	}
	return c03Outcome{Result: "ok", Value: fmt.Sprintf("%x", s.Marshal())}, s
}

func c03CallPk(shares []*PublicKeyShare, k int) (out c03Outcome, pk *bn256.G2) {
	defer func() {
		if r := recover(); r != nil {
			out = c03Outcome{Result: "panic", Detail: fmt.Sprint(r)}
			pk = nil
		}
	}()
	p, err := RecoverPublicKey(shares, k)
	if err != nil {
		if p != nil {
			return c03Outcome{Result: "err+value", Detail: err.Error()}, nil
		}
		return c03Outcome{Result: "err", Detail: err.Error()}, nil
	}
	if p == nil {
		return c03Outcome{Result: "nil"}, nil
	}
	return c03Outcome{Result: "ok", Value: fmt.Sprintf("%x", p.Marshal())}, p
}

// c03Check runs both recoveries on one realized input and reports
// divergences from the contract outcome `want` ("ok" | "err").
func c03Check(rep *kit.Report, r *rand.Rand, k int, es []c03Entry, want string, id string, caseDoc interface{}) {
	coeffs := make([]*big.Int, k)
	for j := range coeffs {
		coeffs[j] = c03Scalar(r)
	}
	msg := new(bn256.G1).ScalarBaseMult(c03Scalar(r))
	groupSig := SignG1(coeffs[0], msg)
	groupPk := new(bn256.G2).ScalarBaseMult(coeffs[0])
	compact := c03Compact(es)
	real, bad := c03Realize(coeffs, msg, es)
	if bad != "" {
		rep.Diverge("share:"+id, "GetSecretKeyShare does not evaluate the sharing polynomial: "+bad, caseDoc, nil, bad)
	}
	// keep copies to detect mutation of the caller's slice
	sigCopy := append([]*SignatureShare{}, real.sig...)
	pkCopy := append([]*PublicKeyShare{}, real.pk...)

	so, sig := c03CallSig(real.sig, k)
	po, pk := c03CallPk(real.pk, k)

	if want == "ok" {
		wantSig := fmt.Sprintf("%x", groupSig.Marshal())
		switch {
		case so.Result != "ok":
			rep.Diverge("sig:k="+fmt.Sprint(k)+":"+id,
				fmt.Sprintf("RecoverSignature(%s, %d) with %d usable shares of distinct members: %s (%s); the group signature is recoverable", compact, k, k, so.Result, so.Detail),
				caseDoc, c03Outcome{Result: "ok", Value: wantSig}, so)
		case so.Value != wantSig:
			rep.Diverge("sig:k="+fmt.Sprint(k)+":"+id,
				fmt.Sprintf("RecoverSignature(%s, %d) returned a signature different from the group signature f(0)*msg (verifies under the group key: %v)", compact, k, VerifyG1(groupPk, msg, sig)),
				caseDoc, c03Outcome{Result: "ok", Value: wantSig}, so)
		case !VerifyG1(groupPk, msg, sig):
			rep.Diverge("sig-verify:k="+fmt.Sprint(k)+":"+id,
				"recovered signature equals f(0)*msg but VerifyG1 under the group public key rejects it", caseDoc, true, false)
		}
		wantPk := fmt.Sprintf("%x", groupPk.Marshal())
		switch {
		case po.Result != "ok":
			rep.Diverge("pk:k="+fmt.Sprint(k)+":"+id,
				fmt.Sprintf("RecoverPublicKey(%s, %d) with %d usable shares of distinct members: %s (%s)", compact, k, k, po.Result, po.Detail),
				caseDoc, c03Outcome{Result: "ok", Value: wantPk}, po)
		case po.Value != wantPk:
			rep.Diverge("pk:k="+fmt.Sprint(k)+":"+id,
				fmt.Sprintf("RecoverPublicKey(%s, %d) returned a key different from the group public key f(0)*G2", compact, k),
				caseDoc, c03Outcome{Result: "ok", Value: wantPk}, po)
		}
		if sig != nil && pk != nil && so.Value == wantSig && po.Value == wantPk && !VerifyG1(pk, msg, sig) {
			rep.Diverge("verify:k="+fmt.Sprint(k)+":"+id, "recovered signature does not verify under the recovered public key", caseDoc, true, false)
		}
	} else {
		if so.Result != "err" {
			rep.Diverge("sig-short:k="+fmt.Sprint(k)+":"+id,
				fmt.Sprintf("RecoverSignature(%s, %d) with fewer than %d usable shares: %s instead of an error", compact, k, k, so.Result),
				caseDoc, c03Outcome{Result: "err"}, so)
		}
		if po.Result != "err" {
			rep.Diverge("pk-short:k="+fmt.Sprint(k)+":"+id,
				fmt.Sprintf("RecoverPublicKey(%s, %d) with fewer than %d usable shares: %s instead of an error", compact, k, k, po.Result),
				caseDoc, c03Outcome{Result: "err"}, po)
		}
	}
	for n := range sigCopy {
		if sigCopy[n] != real.sig[n] || pkCopy[n] != real.pk[n] {
			rep.Diverge("mutated:"+id, "recovery reordered or replaced entries of the caller's slice", caseDoc, nil, n)
			break
		}
	}
	rep.Count("sig_"+so.Result, 1)
	rep.Count("pk_"+po.Result, 1)
}

func TestVerif_C03_Recover(t *testing.T) {
	kit.RequireEngine(t)
	rep := kit.NewReport("C03", "recover")
	defer rep.Write(t)
	cases := kit.LoadCases(t, "cases.ndjson")
	r := kit.Rand(3)

	for n, c := range cases {
		k := c.Get("k").Int()
		// injective map of spec indices to member indices: identity for
		// every other case, random otherwise (0 stays 0)
		sigma := map[int]int{}
		mapped := n%2 == 1
		used := map[int]bool{}
		mapIdx := func(i int) int {
			if !mapped || i == 0 {
				return i
			}
			if v, ok := sigma[i]; ok {
				return v
			}
			for {
				v := 1 + r.Intn(1<<16)
				if !used[v] {
					used[v] = true
					sigma[i] = v
					return v
				}
			}
		}
		var es []c03Entry
		for _, e := range c.Get("entries").List() {
			es = append(es, c03Entry{t: e.Get("t").Str(), i: mapIdx(e.Get("i").Int())})
		}
		want := c.Get("result").Str()
		if want != "ok" && want != "err" {
			t.Fatalf("contract case with result %q", want)
		}
		key := ""
		if c.Get("misaligned").Bool() || !sort.IntsAreSorted(c.Get("usedIdx").Ints()) {
			key = fmt.Sprintf("k=%d:%s", k, c.Get("entries").JSON())
		}
		if c.Get("misaligned").Bool() {
			rep.Count("skipped_before_used", 1)
		}
		rep.Eval(key, map[string]interface{}{"k": k, "entries": c03Compact(es), "expected": want})
		// stable case id: the spec's own (unmapped) entries
		var specEs []c03Entry
		for _, e := range c.Get("entries").List() {
			specEs = append(specEs, c03Entry{t: e.Get("t").Str(), i: e.Get("i").Int()})
		}
		id := c03Compact(specEs)
		if mapped {
			id += ":mapped"
		}
		c03Check(rep, r, k, es, want, id, c.X)
	}
}

func TestVerif_C03_RecoverLarge(t *testing.T) {
	kit.RequireEngine(t)
	rep := kit.NewReport("C03", "recover_large")
	defer rep.Write(t)
	runs := kit.IntEnv("VERIF_LARGE_RUNS", 12)
	r := kit.Rand(33)
	for run := 0; run < runs; run++ {
		n, k := 64, 33
		switch run % 4 {
		case 1:
			n = 3 + r.Intn(10)
			k = 1 + r.Intn(n)
		case 2:
			n = 10 + r.Intn(30)
			k = n/2 + 1
		case 3:
			n = 5
			k = 3
		}
		members := r.Perm(n)
		nShares := k + r.Intn(n-k+1)
		if run%5 == 4 && k > 1 {
			nShares = r.Intn(k) // too few
		}
		var es []c03Entry
		for _, m := range members[:nShares] {
			es = append(es, c03Entry{"share", m + 1})
		}
		// sprinkle skipped entries at random places
		nSkip := r.Intn(4)
		if run%3 == 0 {
			nSkip = 0
		}
		for s := 0; s < nSkip; s++ {
			at := r.Intn(len(es) + 1)
			var e c03Entry
			switch r.Intn(3) {
			case 0:
				e = c03Entry{"nil", 0}
			case 1:
				e = c03Entry{"nilv", 1 + r.Intn(n)}
			default:
				e = c03Entry{"neg", 1 + r.Intn(n)}
			}
			es = append(es[:at], append([]c03Entry{e}, es[at:]...)...)
		}
		want := "ok"
		if nShares < k {
			want = "err"
		}
		key := fmt.Sprintf("n=%d,k=%d,shares=%d,skip=%d", n, k, nShares, nSkip)
		rep.Eval(key, map[string]interface{}{"n": n, "k": k, "entries": c03Compact(es), "expected": want})
		c03Check(rep, r, k, es, want, "large:"+key, map[string]interface{}{"n": n, "k": k, "entries": c03Compact(es)})
	}
}
