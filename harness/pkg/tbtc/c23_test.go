//go:build verif

package tbtc

// C23 conformance harness for watchCoordinationWindows (spec:
// /verif/specs/WindowWatcher).
//
//   TestVerif_C23_Streams  replays every block stream of the model on the real
//                          watchCoordinationWindows with a harness-fed block
//                          channel and a recording callback; after every block
//                          the set of invoked callbacks is compared with the
//                          model's `started`, and coordinationWindow.index /
//                          isAfter are compared with the model's Index/IsAfter.
//                          Model blocks (F = 3) are mapped to real blocks around
//                          multiples of coordinationFrequencyBlocks, in a low
//                          and in a high (near 2^64) range.
//   TestVerif_C23_Trace    random long streams (repeats, gaps, regressions) with
//                          cancellation racing the sender, recorded as ndjson
//                          for Trace_WindowWatcher.
//
// Fences are taken from runtime.Stack, not from elapsed time: "the loop has
// processed the block" = the watcher goroutine is parked in its select and no
// goroutine created by watchCoordinationWindows is alive.

import (
	"context"
	"fmt"
	"regexp"
	"runtime"
	"sort"
	"strings"
	"sync"
	"testing"
	"time"

	kit "github.com/keep-network/keep-core/internal/verifkit"
)

const (
	c23Frame     = "pkg/tbtc.watchCoordinationWindows("
	c23CreatedBy = "created by github.com/keep-network/keep-core/pkg/tbtc.watchCoordinationWindows"
	c23Long      = 60 * time.Second
)

var c23Header = regexp.MustCompile(`^goroutine \d+ \[([^\],]+)`)

// c23Inspect returns the wait states of the goroutines running
// watchCoordinationWindows and the number of goroutines spawned by it.
func c23Inspect() (watchers []string, callbacks int) {
	buf := make([]byte, 1<<18)
	for {
		n := runtime.Stack(buf, true)
		if n < len(buf) {
			buf = buf[:n]
			break
		}
		buf = make([]byte, 2*len(buf))
	}
	for _, blk := range strings.Split(string(buf), "\n\n") {
		if strings.Contains(blk, c23CreatedBy) {
			callbacks++
			continue
		}
		if strings.Contains(blk, c23Frame) {
			st := "?"
			if m := c23Header.FindStringSubmatch(blk); m != nil {
				st = m[1]
			}
			watchers = append(watchers, st)
		}
	}
	return
}

type c23Rig struct {
	blocks chan uint64
	cancel context.CancelFunc
	done   chan struct{}
	mu     sync.Mutex
	calls  []uint64
	onCall func(uint64)
}

func newC23Rig(onCall func(uint64)) *c23Rig {
	r := &c23Rig{blocks: make(chan uint64), done: make(chan struct{}), onCall: onCall}
	ctx, cancel := context.WithCancel(context.Background())
	r.cancel = cancel
	go func() {
		defer close(r.done)
		watchCoordinationWindows(ctx,
			func(ctx context.Context) <-chan uint64 { return r.blocks },
			func(w *coordinationWindow) {
				if r.onCall != nil {
					r.onCall(w.coordinationBlock)
				}
				r.mu.Lock()
				r.calls = append(r.calls, w.coordinationBlock)
				r.mu.Unlock()
			})
	}()
	return r
}

func (r *c23Rig) returned() bool {
	select {
	case <-r.done:
		return true
	default:
		return false
	}
}

func (r *c23Rig) snapshot() []uint64 {
	r.mu.Lock()
	defer r.mu.Unlock()
	out := append([]uint64{}, r.calls...)
	sort.Slice(out, func(i, j int) bool { return out[i] < out[j] })
	return out
}

// fence waits until the loop is parked in its select (or returned) and all
// goroutines it spawned are gone.
func (r *c23Rig) fence() bool {
	return kit.Eventually(c23Long, func() bool {
		ws, cbs := c23Inspect()
		if cbs != 0 {
			return false
		}
		if r.returned() {
			return true
		}
		// (a select with a single receive case is compiled to a plain channel receive)
		return len(ws) == 1 && (ws[0] == "select" || ws[0] == "chan receive")
	})
}

// stop cancels and waits for the watcher to return. ignored = the watcher was
// seen parked in a wait after cancel() had returned: a goroutine parked in a
// select that includes ctx.Done() is made runnable by cancel() itself, so a
// parked watcher does not listen to the context.
func (r *c23Rig) stop() (returned, ignored bool) {
	r.cancel()
	parked := 0
	deadline := time.Now().Add(c23Long)
	for time.Now().Before(deadline) {
		if r.returned() {
			return true, false
		}
		ws, _ := c23Inspect()
		if len(ws) == 1 && (ws[0] == "select" || ws[0] == "chan receive" || ws[0] == "select (no cases)") {
			parked++
			if parked >= 5 {
				return false, true
			}
		} else {
			parked = 0
		}
		time.Sleep(2 * time.Millisecond)
	}
	return r.returned(), false
}

// c23Map maps a model block (frequency 3) to a real block number.
func c23Map(v int, high bool) uint64 {
	const F = uint64(coordinationFrequencyBlocks)
	q, rem := uint64(v/3), v%3
	if high && q > 0 {
		q += (^uint64(0))/F - 7
	}
	off := map[int]uint64{0: 0, 1: 1, 2: F - 1}[rem]
	return q*F + off
}

func c23Same(a, b []uint64) bool {
	if len(a) != len(b) {
		return false
	}
	for i := range a {
		if a[i] != b[i] {
			return false
		}
	}
	return true
}

func TestVerif_C23_Streams(t *testing.T) {
	kit.RequireEngine(t)
	rep := kit.NewReport("C23", "streams")
	defer rep.Write(t)
	cases := kit.LoadCases(t, "streams.ndjson")
	if ws, cbs := c23Inspect(); len(ws) != 0 || cbs != 0 {
		t.Fatalf("watcher goroutines alive before the test")
	}
	inconclusive := 0
	for ci, cs := range cases {
		high := ci%4 == 3
		steps := cs.Get("steps").List()
		rig := newC23Rig(nil)
		hash := kit.Hash(cs.Get("steps").X)
		var realStream []uint64
		nontrivial := false
		abort := false
		diverge := func(i int, key, what string, exp, obs interface{}) {
			abort = true
			rep.Diverge(key, what, map[string]interface{}{"behaviour": hash, "step": i, "high": high,
				"realStream": fmt.Sprint(realStream), "steps": cs.Get("steps").X}, exp, obs)
		}
		mapped := func(v kit.V) []uint64 {
			out := []uint64{}
			for _, x := range v.Ints() {
				out = append(out, c23Map(x, high))
			}
			sort.Slice(out, func(i, j int) bool { return out[i] < out[j] })
			return out
		}
		cancelled := false
		for i, s := range steps {
			b := c23Map(s.Get("b").Int(), high)
			switch s.Get("a").Str() {
			case "Observe":
				realStream = append(realStream, b)
				// the two decision functions, directly
				w := newCoordinationWindow(b)
				expIdx := uint64(0)
				if s.Get("idx").Int() > 0 {
					expIdx = c23Map(s.Get("idx").Int()*3, high) / coordinationFrequencyBlocks
				}
				if w.index() != expIdx {
					diverge(i, "stream:index", fmt.Sprintf("coordinationWindow{%d}.index() = %d, specification: %d", b, w.index(), expIdx), expIdx, w.index())
					abort = false // keep going: show the effect on the started windows too
				}
				var lastW *coordinationWindow
				if l := s.Get("last").Int(); l != 0 {
					lastW = newCoordinationWindow(c23Map(l, high))
				}
				if w.isAfter(lastW) != s.Get("after").Bool() {
					diverge(i, "stream:isAfter", fmt.Sprintf("coordinationWindow{%d}.isAfter(%v) = %v, specification: %v", b, lastW, w.isAfter(lastW), s.Get("after").Bool()),
						s.Get("after").Bool(), w.isAfter(lastW))
					abort = false
				}
				select {
				case rig.blocks <- b:
				case <-rig.done:
					diverge(i, "stream:returned-early", "watchCoordinationWindows returned although its context was not cancelled", "running", "returned")
				case <-time.After(c23Long):
					inconclusive++
					abort = true
				}
				if abort {
					break
				}
				if !rig.fence() {
					inconclusive++
					abort = true
					break
				}
				exp, obs := mapped(s.Get("started")), rig.snapshot()
				if s.Get("trig").Bool() {
					nontrivial = true
				}
				if !c23Same(exp, obs) {
					key := "stream:trigger-spurious"
					what := fmt.Sprintf("after block %d of stream %v the callback was invoked for windows %v; the specification starts %v", b, realStream, obs, exp)
					if len(obs) < len(exp) {
						key = "stream:trigger-missed"
					} else if len(obs) == len(exp) {
						key = "stream:trigger-wrong-window"
					} else {
						for k := 1; k < len(obs); k++ {
							if obs[k] == obs[k-1] {
								key = "stream:trigger-repeated"
							}
						}
					}
					diverge(i, key, what, exp, obs)
				}
			case "Cancel":
				nontrivial = true
				cancelled = true
				ret, ignored := rig.stop()
				if ignored {
					diverge(i, "stream:cancel-ignored", "the context was cancelled but watchCoordinationWindows stays parked: it does not listen to ctx.Done()", "returned", "parked")
				} else if !ret {
					inconclusive++
					abort = true
				}
			case "Offer":
				// nobody may take a block any more
				select {
				case rig.blocks <- b:
					diverge(i, "stream:taken-after-return", "a block was received from the block channel after watchCoordinationWindows returned", "not taken", "taken")
				case <-time.After(200 * time.Microsecond):
				}
				if obs, exp := rig.snapshot(), mapped(s.Get("started")); !c23Same(exp, obs) {
					diverge(i, "stream:trigger-after-return", "callbacks changed after the watcher returned", exp, obs)
				}
			}
			if abort {
				break
			}
		}
		key := ""
		if nontrivial {
			key = hash
		}
		rep.Eval(key, map[string]interface{}{"stream": fmt.Sprint(realStream), "high": high, "cancelled": cancelled, "started": fmt.Sprint(rig.snapshot())})
		ret, ignored := rig.stop()
		if ignored || !ret {
			if ignored && !abort {
				rep.Diverge("stream:cancel-ignored", "the context was cancelled but watchCoordinationWindows stays parked: it does not listen to ctx.Done()",
					map[string]interface{}{"behaviour": hash}, "returned", "parked")
			}
			// a watcher that cannot be stopped makes further fences meaningless
			rep.Note("stopped after %d behaviours: the watcher could not be stopped", ci+1)
			if !ignored {
				t.Fatalf("the watcher did not return after cancellation (inconclusive)")
			}
			return
		}
		if !rig.fence() {
			t.Fatalf("callback goroutines did not finish")
		}
	}
	rep.Count("inconclusive", inconclusive)
	if inconclusive > len(cases)/20 {
		t.Fatalf("too many inconclusive behaviours: %d of %d", inconclusive, len(cases))
	}
}

func TestVerif_C23_Trace(t *testing.T) {
	kit.RequireEngine(t)
	rep := kit.NewReport("C23", "trace")
	defer rep.Write(t)
	tr := kit.NewTracer(t, "trace_watcher")
	defer tr.Close()
	runs := kit.IntEnv("VERIF_RUNS", 60)
	const F = uint64(coordinationFrequencyBlocks)
	if ws, cbs := c23Inspect(); len(ws) != 0 || cbs != 0 {
		// a watcher that ignored its cancellation in an earlier test is still around
		// (reported there): fences cannot be trusted, record nothing
		rep.Eval("", map[string]interface{}{"skipped": "a watcher goroutine from an earlier test is still alive"})
		rep.Count("skipped", 1)
		return
	}
	for run := 0; run < runs; run++ {
		rnd := kit.Rand(int64(2300 + run))
		tr.Reset(map[string]interface{}{"run": run})
		rig := newC23Rig(func(w uint64) {
			if w%7 == 0 {
				runtime.Gosched()
			}
			tr.Emit(map[string]interface{}{"event": "Trigger", "w": w})
		})
		n := 10 + rnd.Intn(80)
		cancelAt := -1
		if rnd.Intn(3) == 0 {
			cancelAt = rnd.Intn(n)
		}
		cur := uint64(rnd.Intn(4)) // current window index
		var prev uint64
		triggers := 0
		var canceller sync.WaitGroup
		for i := 0; i < n; i++ {
			var b uint64
			switch rnd.Intn(10) {
			case 0:
				b = prev // the channel repeats a block
			case 1, 2:
				q := cur
				if d := uint64(rnd.Intn(4)); d <= q {
					q -= d // regression
				}
				b = q*F + []uint64{0, 0, 1, F - 1}[rnd.Intn(4)]
			case 3:
				cur += uint64(1 + rnd.Intn(3)) // gap
				if rnd.Intn(8) == 0 {
					cur += uint64(rnd.Intn(1000))
				}
				b = cur * F
			default:
				cur++
				b = cur*F + []uint64{0, 0, 0, 1, F - 1, F / 2, 2}[rnd.Intn(7)]
			}
			if b > 2000000000 {
				b = 1800000000
			}
			prev = b
			if i == cancelAt {
				// cancellation races the sender
				canceller.Add(1)
				tr.Emit(map[string]interface{}{"event": "Cancel"})
				go func() { defer canceller.Done(); rig.cancel() }()
			}
			tr.Emit(map[string]interface{}{"event": "Offer", "b": b})
			select {
			case rig.blocks <- b:
				tr.Emit(map[string]interface{}{"event": "Accepted"})
			case <-rig.done:
				tr.Emit(map[string]interface{}{"event": "Rejected"})
			case <-time.After(c23Long):
				t.Fatalf("run %d: the watcher neither takes blocks nor returned", run)
			}
			if rig.returned() {
				break
			}
		}
		canceller.Wait()
		if cancelAt >= 0 {
			select {
			case <-rig.done:
				tr.Emit(map[string]interface{}{"event": "Returned"})
			case <-time.After(c23Long):
				t.Fatalf("run %d: the watcher did not return after cancellation", run)
			}
		}
		if rig.fence() {
			tr.Emit(map[string]interface{}{"event": "Quiet"})
		} else {
			rep.Count("runs_without_quiet", 1)
		}
		triggers = len(rig.snapshot())
		rep.Eval(fmt.Sprintf("run-%d", run), map[string]interface{}{"run": run, "blocks": n, "cancelAt": cancelAt, "triggers": triggers})
		if ret, _ := rig.stop(); !ret {
			t.Fatalf("run %d: the watcher did not return", run)
		}
		if !rig.fence() {
			t.Fatalf("callback goroutines did not finish")
		}
	}
	rep.Count("events", tr.N())
}
