//go:build verif

package tbtc_test

// C40 conformance harness, submission side (specs/ChainRules).
//
// The real dkgResultSigner / dkgResultSubmitter (dkg_submit.go) and the real
// inactivityClaimSigner / inactivityClaimSubmitter (inactivity.go) run on top
// of the real Ethereum TbtcChain (hashing, signing, assembly); only the
// methods that would call a contract are replaced: IsDKGResultValid is the Go
// transcription of EcdsaDkgValidator.validate, SubmitDKGResult applies
// EcdsaDkg.submitResult's submitter rule, SubmitInactivityClaim applies
// WalletRegistry.notifyOperatorInactivity + EcdsaInactivity.verifyClaim
// (internal/verifc40). Every case emitted by TLC is replayed: signatures by
// SignResult / SignClaim of the seats' operators, admission by
// VerifySignature, then SubmitResult / SubmitClaim; the harness compares the
// admitted set, the gate decision, what reached the contract and what the
// contract answered with the specification. A second test repeats this with
// the client's and the contracts' real constants (100 / 90 / 51) on random
// inputs.

import (
	"context"
	"crypto/ecdsa"
	"fmt"
	"math/big"
	"math/rand"
	"os"
	"sort"
	"strconv"
	"strings"
	"testing"

	tsscrypto "github.com/bnb-chain/tss-lib/crypto"
	"github.com/bnb-chain/tss-lib/ecdsa/keygen"

	c40 "github.com/keep-network/keep-core/internal/verifc40"
	kit "github.com/keep-network/keep-core/internal/verifkit"
	"github.com/keep-network/keep-core/pkg/chain"
	"github.com/keep-network/keep-core/pkg/chain/ethereum"
	"github.com/keep-network/keep-core/pkg/protocol/group"
	"github.com/keep-network/keep-core/pkg/protocol/inactivity"
	"github.com/keep-network/keep-core/pkg/tbtc"
	"github.com/keep-network/keep-core/pkg/tecdsa"
	"github.com/keep-network/keep-core/pkg/tecdsa/dkg"
)

// ---------------------------------------------------------------- the chain: real client code, transcribed contracts

type c40Contracts struct {
	validator  c40.DkgValidator
	startBlock *big.Int
	dkgState   tbtc.DKGState
	// inactivity
	claimThreshold int
	wallet         c40.RegisteredWallet
	walletID       [32]byte
	currentNonce   *big.Int

	prechecks  []string // verdicts of IsDKGResultValid
	submitted  []*tbtc.DKGChainResult
	submitRule []bool
	notified   []string // revert messages of notifyOperatorInactivity ("" = accepted)
	punished   [][]uint32
	claims     []*tbtc.InactivityClaim
}

type c40Chain struct {
	*ethereum.TbtcChain
	addr c40.Address
	k    *c40Contracts
}

func (c *c40Chain) GetDKGState() (tbtc.DKGState, error) { return c.k.dkgState, nil }

func (c *c40Chain) IsDKGResultValid(r *tbtc.DKGChainResult) (bool, error) {
	a := ethereum.VerifC40DkgResultToAbi(r)
	valid, msg := c.k.validator.Validate(c40.DkgResult{SubmitterMemberIndex: a.SubmitterMemberIndex, GroupPubKey: a.GroupPubKey,
		MisbehavedMembersIndices: a.MisbehavedMembersIndices, Signatures: a.Signatures, SigningMembersIndices: a.SigningMembersIndices,
		Members: a.Members, MembersHash: a.MembersHash}, c.k.startBlock)
	c.k.prechecks = append(c.k.prechecks, msg)
	return valid, nil
}

func (c *c40Chain) SubmitDKGResult(r *tbtc.DKGChainResult) error {
	a := ethereum.VerifC40DkgResultToAbi(r)
	ok := c.k.validator.SubmitterRule(c40.DkgResult{SubmitterMemberIndex: a.SubmitterMemberIndex, Members: a.Members}, c.addr)
	c.k.submitted = append(c.k.submitted, r)
	c.k.submitRule = append(c.k.submitRule, ok)
	if !ok {
		return fmt.Errorf("execution reverted: Unexpected submitter index")
	}
	return nil
}

func (c *c40Chain) GetWallet([20]byte) (*tbtc.WalletChainData, error) {
	return &tbtc.WalletChainData{EcdsaWalletID: c.k.walletID}, nil
}

func (c *c40Chain) GetInactivityClaimNonce([32]byte) (*big.Int, error) {
	return new(big.Int).Set(c.k.currentNonce), nil
}

func (c *c40Chain) SubmitInactivityClaim(claim *tbtc.InactivityClaim, nonce *big.Int, groupMembers []uint32) error {
	a := ethereum.VerifC40ClaimToAbi(claim)
	msg, punished := c40.NotifyOperatorInactivity(c.k.claimThreshold, c.k.validator.ChainID, c.k.validator.Pool.Operators, c.k.wallet,
		c40.Claim{WalletID: a.WalletID, InactiveMembersIndices: a.InactiveMembersIndices, HeartbeatFailed: a.HeartbeatFailed,
			Signatures: a.Signatures, SigningMembersIndices: a.SigningMembersIndices}, nonce, groupMembers, c.addr)
	c.k.notified = append(c.k.notified, msg)
	c.k.punished = append(c.k.punished, punished)
	c.k.claims = append(c.k.claims, claim)
	if msg != "" {
		return fmt.Errorf("execution reverted: %s", msg)
	}
	return nil
}

type c40Blocks struct{}

func (c40Blocks) WaitForBlockHeight(uint64) error { return nil }
func (c40Blocks) BlockHeightWaiter(n uint64) (<-chan uint64, error) {
	ch := make(chan uint64, 1)
	ch <- n
	close(ch)
	return ch, nil
}
func (c40Blocks) CurrentBlock() (uint64, error) { return 1000, nil }
func (c40Blocks) WatchBlocks(ctx context.Context) <-chan uint64 {
	ch := make(chan uint64)
	go func() { <-ctx.Done(); close(ch) }()
	return ch
}

func (c *c40Chain) BlockCounter() (chain.BlockCounter, error) { return c40Blocks{}, nil }

// ---------------------------------------------------------------- world

type c40World struct {
	idmap    func(int) uint32
	k        *c40Contracts
	chains   map[uint32]*c40Chain
	stranger *c40Chain
}

func c40NewWorld(ids []uint32, chainID *big.Int, k *c40Contracts) *c40World {
	w := &c40World{k: k, chains: map[uint32]*c40Chain{}}
	mk := func(key *ecdsa.PrivateKey) *c40Chain {
		return &c40Chain{TbtcChain: ethereum.VerifC40NewTbtcChain(key, chainID), addr: c40.PubkeyAddress(&key.PublicKey), k: k}
	}
	ops := map[uint32]c40.Address{}
	for _, id := range ids {
		if _, ok := w.chains[id]; !ok {
			w.chains[id] = mk(c40.OperatorKey(id))
			ops[id] = w.chains[id].addr
		}
	}
	w.stranger = mk(c40.StrangerKey())
	k.validator.Pool = c40.Pool{Selected: ids, Operators: ops}
	return w
}

func c40Pick(c kit.V) int {
	h := kit.Hash(c.Get("in").X)
	var x int
	fmt.Sscanf(h[:6], "%x", &x)
	return x + int(kit.Seed())*7919
}

func c40Catch(f func()) (perr interface{}) {
	defer func() { perr = recover() }()
	f()
	return nil
}

func c40Indexes(rnd *rand.Rand, xs []int) []group.MemberIndex {
	out := make([]group.MemberIndex, len(xs))
	for i, x := range xs {
		out[i] = group.MemberIndex(x)
	}
	rnd.Shuffle(len(out), func(i, j int) { out[i], out[j] = out[j], out[i] })
	return out
}

func c40SameInts(a []group.MemberIndex, b []int) bool {
	if len(a) != len(b) {
		return false
	}
	for i := range a {
		if int(a[i]) != b[i] {
			return false
		}
	}
	return true
}

// c40DkgResult builds the dkg.Result of a member: the group with the misbehaved seats marked inactive or
// disqualified in a random order, and a key share carrying the group public key.
func c40DkgResult(t testing.TB, rnd *rand.Rand, n, honest int, misb []int, key *ecdsa.PublicKey) *dkg.Result {
	g := group.NewGroup(n-honest, n)
	for _, m := range c40Indexes(rnd, misb) {
		if rnd.Intn(2) == 0 {
			g.MarkMemberAsInactive(m)
		} else {
			g.MarkMemberAsDisqualified(m)
		}
	}
	pt, err := tsscrypto.NewECPoint(tecdsa.Curve, key.X, key.Y)
	if err != nil {
		t.Fatalf("group key: %v", err)
	}
	return &dkg.Result{Group: g, PrivateKeyShare: tecdsa.NewPrivateKeyShare(keygen.LocalPartySaveData{ECDSAPub: pt})}
}

type c40Msg struct {
	seat int
	kind string
	sig  []byte
	pub  []byte
}

// c40Admit compares the admission decision for every message with the specification; messages of the hazard
// grain may be admitted (the outcome of the submission then decides).
func c40Admit(rep *kit.Report, key string, c kit.V, msgs []c40Msg, verify func(m c40Msg) (bool, error), expected []int,
	sigs map[group.MemberIndex][]byte) (hazards []string, good bool) {
	exp := map[int]bool{}
	for _, s := range expected {
		exp[s] = true
	}
	good = true
	for _, m := range msgs {
		var ok bool
		var err error
		if p := c40Catch(func() { ok, err = verify(m) }); p != nil {
			rep.Diverge(key+":verify-panic:"+m.kind, fmt.Sprintf("VerifySignature panicked on a %s message: %v", m.kind, p), c.X, nil, nil)
			good = false
			continue
		}
		accepted := ok && err == nil
		rep.Count(fmt.Sprintf("verify/%s/%v", m.kind, accepted), 1)
		switch {
		case accepted && exp[m.seat]:
			sigs[group.MemberIndex(m.seat)] = m.sig
		case accepted && c40.HazardKinds[m.kind]:
			hazards = append(hazards, m.kind)
			sigs[group.MemberIndex(m.seat)] = m.sig
		case accepted:
			rep.Diverge(key+":verify-accepted:"+m.kind, "VerifySignature accepted a "+m.kind+" message the specification rejects", c.X, expected, m.seat)
			good = false
		case exp[m.seat]:
			rep.Diverge(key+":verify-rejected:"+m.kind, fmt.Sprintf("VerifySignature rejected a %s message the specification accepts (err=%v)", m.kind, err), c.X, expected, m.seat)
			good = false
		}
	}
	sort.Strings(hazards)
	return hazards, good
}

func TestVerif_C40_SubmitResult(t *testing.T) {
	kit.RequireEngine(t)
	rep := kit.NewReport("C40", "submit")
	defer rep.Write(t)
	cases := kit.LoadCases(t, "cases.ndjson")
	for _, c := range cases {
		in := c.Get("in")
		pick := c40Pick(c)
		rnd := rand.New(rand.NewSource(int64(pick) + 17))
		key := "dkg:" + kit.Hash(in.X)
		env := in.Get("env")
		chainID := c40.IntOf(env.Get("chainID").Str(), pick)
		startBlock := c40.IntOf(env.Get("startBlock").Str(), pick/3)
		groupKey, keyBytes, err := c40.GroupKey(env.Get("key").Str(), pick/5)
		if err != nil {
			t.Fatal(err)
		}
		idmap := c40.IDMaps[(pick/7)%len(c40.IDMaps)]
		members := in.Get("members").Ints()
		n := in.Get("n").Int()
		ids := make(chain.OperatorIDs, n)
		for i, a := range members {
			ids[i] = idmap(a)
		}
		k := &c40Contracts{validator: c40.DkgValidator{GroupSize: n, GroupThreshold: in.Get("threshold").Int(),
			ActiveThreshold: in.Get("active").Int(), ChainID: chainID}, startBlock: startBlock, dkgState: tbtc.AwaitingResult}
		w := c40NewWorld(ids, chainID, k)
		seat := func(s int) *c40Chain { return w.chains[ids[s-1]] }
		addrs := make(chain.Addresses, n)
		for i := range ids {
			addrs[i] = chain.Address(fmt.Sprintf("0x%x", w.chains[ids[i]].addr))
		}
		gp := &tbtc.GroupParameters{GroupSize: n, GroupQuorum: in.Get("quorum").Int(), HonestThreshold: in.Get("threshold").Int()}
		gsr := &tbtc.GroupSelectionResult{OperatorsIDs: ids, OperatorsAddresses: addrs}
		alpha := &c40.Alpha{Ints: map[string]*big.Int{env.Get("chainID").Str(): chainID, env.Get("startBlock").Str(): startBlock},
			Keys: map[string][]byte{env.Get("key").Str(): keyBytes}, IDMap: idmap}
		misb := in.Get("misbehaved").Ints()
		submitter := in.Get("submitter").Int()
		pc := c.Get("pc").Str()
		if pc == "aborted" && c.Get("outcome").Str() == "not awaiting the result" {
			k.dkgState = []tbtc.DKGState{tbtc.Challenge, tbtc.Idle, tbtc.AwaitingSeed}[pick%3]
		}
		nontrivial := ""
		if pc != "failed" {
			nontrivial = key + pc
		}
		rep.Eval(nontrivial, c.X)
		rep.Count("pc/"+pc, 1)
		if pc == "aborted" {
			rep.Count("aborted/"+c.Get("outcome").Str(), 1)
		}

		// every member holds its own copy of the result (same content, misbehaviour recorded in its own order)
		resultOf := func() *dkg.Result { return c40DkgResult(t, rnd, n, gp.HonestThreshold, misb, groupKey) }
		// ---- SignResult
		var own *dkg.SignedResult
		var serr error
		if p := c40Catch(func() { own, serr = tbtc.VerifC40SignResult(seat(submitter), startBlock.Uint64(), resultOf()) }); p != nil || serr != nil {
			rep.Diverge(key+":sign", fmt.Sprintf("SignResult failed: %v %v", p, serr), c.X, nil, nil)
			continue
		}
		if !pcHasHash(c) {
			// aborted twins carry no hash; the non-aborted twin checks it
		} else if want := alpha.Eval(c.Get("preferredHash")); [32]byte(own.ResultHash) != want {
			rep.Diverge(key+":hash", "SignResult signs a hash that differs from the hash the contract recomputes", c.X, fmt.Sprintf("%x", want), fmt.Sprintf("%x", own.ResultHash))
			continue
		}
		var msgs []c40Msg
		bad := false
		for _, o := range in.Get("offers").List() {
			s, kind := o.Idx(0).Int(), o.Idx(1).Str()
			if kind == "none" {
				continue
			}
			honest, e1 := tbtc.VerifC40SignResult(seat(s), startBlock.Uint64(), resultOf())
			if e1 != nil {
				rep.Diverge(key+":sign", "SignResult failed: "+e1.Error(), c.X, nil, nil)
				bad = true
				break
			}
			var mis, str []byte
			if kind == "mislabelled" {
				x, e2 := tbtc.VerifC40SignResult(seat(s), c40.IntOf("anotherBlock", 0).Uint64(), resultOf())
				if e2 != nil {
					t.Fatal(e2)
				}
				mis = x.Signature
			}
			if kind == "otherOperator" {
				x, e2 := tbtc.VerifC40SignResult(w.stranger, startBlock.Uint64(), resultOf())
				if e2 != nil {
					t.Fatal(e2)
				}
				str = x.Signature
			}
			msgs = append(msgs, c40Msg{seat: s, kind: kind, sig: c40.Adversarial(kind, honest.Signature, mis, str), pub: honest.PublicKey})
		}
		if bad {
			continue
		}
		// ---- Collect
		sigs := map[group.MemberIndex][]byte{group.MemberIndex(submitter): own.Signature}
		hazards, good := c40Admit(rep, key, c, msgs, func(m c40Msg) (bool, error) {
			return tbtc.VerifC40VerifyResultSignature(seat(submitter), startBlock.Uint64(),
				&dkg.SignedResult{PublicKey: m.pub, Signature: m.sig, ResultHash: own.ResultHash})
		}, c.Get("accepted").Ints(), sigs)
		if !good {
			continue
		}
		// ---- Gate .. Submit
		var suberr error
		superseded := c.Get("outcome").Str() == "superseded while waiting"
		ctx, cancel := context.WithCancel(context.Background())
		wait := &c40Wait{}
		if superseded {
			wait.cancel = cancel
		}
		if p := c40Catch(func() {
			suberr = tbtc.VerifC40SubmitResult(ctx, seat(submitter), gp, gsr, group.MemberIndex(submitter), resultOf(), sigs, wait.fn)
		}); p != nil {
			cancel()
			rep.Diverge(key+":submit-panic", fmt.Sprintf("SubmitResult panicked: %v", p), c.X, nil, nil)
			continue
		}
		cancel()
		if len(hazards) > 0 {
			rep.Count("hazard-realized", 1)
			if len(sigs) >= gp.GroupQuorum && k.dkgState == tbtc.AwaitingResult && !superseded && (suberr != nil || len(k.submitted) != 1) {
				rep.Diverge("sig-accepted:"+hazards[0], fmt.Sprintf("VerifySignature admitted a %s signature message; with it the member holds a quorum of signatures but cannot submit the result: %v (contract precheck: %v)",
					hazards[0], suberr, k.prechecks), c.X, "accepted = "+c.Get("accepted").JSON(), fmt.Sprint(suberr))
			}
			continue
		}
		var problems []string
		switch pc {
		case "failed":
			// only the signature gate may stop a member (ValidWheneverSubmitted)
			if suberr == nil || !strings.Contains(suberr.Error(), "could not submit result with") {
				problems = append(problems, fmt.Sprintf("expected the signature gate to stop the member, got error %v", suberr))
			}
			if len(k.prechecks) != 0 || len(k.submitted) != 0 {
				problems = append(problems, "the contract was called although the gate must have stopped the member")
			}
		case "aborted":
			if superseded {
				// validated, waited for its block, context done: nothing is submitted
				if suberr != nil || len(k.prechecks) != 1 || k.prechecks[0] != "" || len(k.submitted) != 0 {
					problems = append(problems, fmt.Sprintf("superseded while waiting: expected a valid precheck and a silent return, got err=%v prechecks=%q submissions=%d", suberr, k.prechecks, len(k.submitted)))
				}
			} else if suberr != nil || len(k.prechecks) != 0 || len(k.submitted) != 0 {
				problems = append(problems, fmt.Sprintf("DKG not awaiting the result: expected a silent return, got err=%v prechecks=%d submissions=%d", suberr, len(k.prechecks), len(k.submitted)))
			}
		case "done":
			if suberr != nil {
				problems = append(problems, "a result that passed the gate was not submitted: "+suberr.Error())
			}
			if len(k.prechecks) != 1 || k.prechecks[0] != "" {
				problems = append(problems, fmt.Sprintf("contract validation of the assembled result: %q", k.prechecks))
			}
			if want := uint64(1000) + uint64(submitter-1)*uint64(tbtc.VerifC40DkgDelayStep); len(wait.blocks) != 1 || wait.blocks[0] != want {
				problems = append(problems, fmt.Sprintf("waited for blocks %v before submitting, expected block %d (current block + (index-1) * step)", wait.blocks, want))
			}
			if len(k.submitted) != 1 || !k.submitRule[0] {
				problems = append(problems, fmt.Sprintf("submissions: %d, submitter rule %v", len(k.submitted), k.submitRule))
			} else {
				r := k.submitted[0]
				view := c.Get("result")
				if !c40SameInts(r.SigningMembersIndexes, view.Get("signingMembersIndices").Ints()) ||
					!c40SameInts(r.MisbehavedMembersIndexes, view.Get("misbehavedMembersIndices").Ints()) ||
					int(r.SubmitterMemberIndex) != view.Get("submitterMemberIndex").Int() ||
					r.MembersHash != alpha.Eval(view.Get("membersHash")) || string(r.GroupPublicKey) != string(keyBytes) {
					problems = append(problems, "the submitted result differs from the specified one")
				}
			}
			// ---- RegisterSigner: the wallet the client will operate is the wallet the contract registered
			cl := c.Get("client")
			var operating []int
			isM := map[int]bool{}
			for _, m := range misb {
				isM[m] = true
			}
			for s := 1; s <= n; s++ {
				if !isM[s] {
					operating = append(operating, s)
				}
			}
			finalOps, newIdx, ferr := tbtc.VerifC40FinalSigningGroup(addrs, c40Indexes(rnd, operating), gp)
			if ferr != nil {
				problems = append(problems, "finalSigningGroup: "+ferr.Error())
			} else {
				wantGM := cl.Get("groupMembers").Ints()
				if len(finalOps) != len(wantGM) {
					problems = append(problems, "final signing group size")
				} else {
					for i, a := range finalOps {
						if string(a) != fmt.Sprintf("0x%x", w.chains[idmap(wantGM[i])].addr) {
							problems = append(problems, fmt.Sprintf("final signing group member %d", i+1))
						}
					}
				}
				for _, p := range cl.Get("newIndex").List() {
					if int(newIdx[group.MemberIndex(p.Idx(0).Int())]) != p.Idx(1).Int() {
						problems = append(problems, fmt.Sprintf("final index of seat %d", p.Idx(0).Int()))
					}
				}
			}
			if wid, werr := seat(submitter).CalculateWalletID(groupKey); werr != nil || wid != alpha.Eval(cl.Get("registryWalletID")) {
				problems = append(problems, "wallet ID differs from the registry's")
			}
		}
		if len(problems) > 0 {
			rep.Diverge(key+":submit", "SubmitResult differs from the specification: "+fmt.Sprint(problems), c.X, c.X, problems)
		}
	}
}

// c40Wait is the waitForBlockFn handed to the submitters: it records the block waited for and, for the
// "superseded" branch, cancels the context the way the executor does when somebody else's submission is seen.
type c40Wait struct {
	blocks []uint64
	cancel context.CancelFunc
}

func (w *c40Wait) fn(ctx context.Context, block uint64) error {
	w.blocks = append(w.blocks, block)
	if w.cancel != nil {
		w.cancel()
	}
	return nil
}

func pcHasHash(c kit.V) bool { return c.Has("preferredHash") || c.Has("claimHash") }

func TestVerif_C40_SubmitClaim(t *testing.T) {
	kit.RequireEngine(t)
	rep := kit.NewReport("C40", "submitclaim")
	defer rep.Write(t)
	cases := kit.LoadCases(t, "claims.ndjson")
	for _, c := range cases {
		in := c.Get("in")
		pick := c40Pick(c)
		rnd := rand.New(rand.NewSource(int64(pick) + 17))
		key := "claim:" + kit.Hash(in.X)
		env := in.Get("env")
		chainID := c40.IntOf(env.Get("chainID").Str(), pick)
		nonce := c40.IntOf(env.Get("nonce").Str(), pick/3)
		walletKey, keyBytes, err := c40.GroupKey(env.Get("key").Str(), pick/5)
		if err != nil {
			t.Fatal(err)
		}
		idmap := c40.IDMaps[(pick/7)%len(c40.IDMaps)]
		groupAbs := in.Get("group").Ints()
		ids := make([]uint32, len(groupAbs))
		for i, a := range groupAbs {
			ids[i] = idmap(a)
		}
		k := &c40Contracts{validator: c40.DkgValidator{ChainID: chainID}, claimThreshold: in.Get("threshold").Int(),
			walletID: c40.WalletID(keyBytes), currentNonce: new(big.Int).Set(nonce)}
		w := c40NewWorld(ids, chainID, k)
		k.wallet = c40.RegisteredWallet{MembersIdsHash: c40.Keccak(c40.AbiEncode(c40.Arr("uint32[]", c40BigIDs(ids)))), PublicKey: keyBytes, Nonce: new(big.Int).Set(nonce)}
		seat := func(s int) *c40Chain { return w.chains[ids[s-1]] }
		gp := &tbtc.GroupParameters{GroupSize: len(ids), GroupQuorum: len(ids), HonestThreshold: in.Get("honest").Int()}
		alpha := &c40.Alpha{Ints: map[string]*big.Int{env.Get("chainID").Str(): chainID, env.Get("nonce").Str(): nonce},
			Keys: map[string][]byte{env.Get("key").Str(): keyBytes}, IDMap: idmap}
		submitter := in.Get("submitter").Int()
		pc := c.Get("pc").Str()
		superseded := c.Get("outcome").Str() == "superseded while waiting"
		if pc == "aborted" && !superseded {
			// somebody else's claim was accepted in the meantime
			k.currentNonce = new(big.Int).Add(nonce, big.NewInt(int64(1+pick%3)))
			k.wallet.Nonce = k.currentNonce
		}
		if pc == "aborted" {
			rep.Count("aborted/"+c.Get("outcome").Str(), 1)
		}
		nontrivial := ""
		if pc != "failed" {
			nontrivial = key + pc
		}
		rep.Eval(nontrivial, c.X)
		rep.Count("pc/"+pc, 1)

		reported := c40Indexes(rnd, in.Get("reported").Ints())
		for i := 0; i < len(reported) && rnd.Intn(2) == 0; i++ {
			reported = append(reported, reported[rnd.Intn(len(reported))])
		}
		mkClaim := func(n *big.Int) *inactivity.ClaimPreimage {
			return inactivity.NewClaimPreimage(n, walletKey, append([]group.MemberIndex{}, reported...), in.Get("heartbeat").Bool())
		}
		own, serr := tbtc.VerifC40SignClaim(seat(submitter), mkClaim(nonce))
		if serr != nil {
			rep.Diverge(key+":sign", "SignClaim failed: "+serr.Error(), c.X, nil, nil)
			continue
		}
		if c.Has("claimHash") {
			if want := alpha.Eval(c.Get("claimHash")); [32]byte(own.ClaimHash) != want {
				rep.Diverge(key+":hash", "SignClaim signs a hash that differs from the hash the contract recomputes", c.X, fmt.Sprintf("%x", want), fmt.Sprintf("%x", own.ClaimHash))
				continue
			}
		}
		var msgs []c40Msg
		for _, o := range in.Get("offers").List() {
			s, kind := o.Idx(0).Int(), o.Idx(1).Str()
			if kind == "none" {
				continue
			}
			honest, e1 := tbtc.VerifC40SignClaim(seat(s), mkClaim(nonce))
			if e1 != nil {
				t.Fatal(e1)
			}
			var mis, str []byte
			if kind == "mislabelled" {
				x, e2 := tbtc.VerifC40SignClaim(seat(s), mkClaim(c40.IntOf("anotherNonce", 0)))
				if e2 != nil {
					t.Fatal(e2)
				}
				mis = x.Signature
			}
			if kind == "otherOperator" {
				x, e2 := tbtc.VerifC40SignClaim(w.stranger, mkClaim(nonce))
				if e2 != nil {
					t.Fatal(e2)
				}
				str = x.Signature
			}
			msgs = append(msgs, c40Msg{seat: s, kind: kind, sig: c40.Adversarial(kind, honest.Signature, mis, str), pub: honest.PublicKey})
		}
		sigs := map[group.MemberIndex][]byte{group.MemberIndex(submitter): own.Signature}
		hazards, good := c40Admit(rep, key, c, msgs, func(m c40Msg) (bool, error) {
			return tbtc.VerifC40VerifyClaimSignature(seat(submitter), &inactivity.SignedClaimHash{PublicKey: m.pub, Signature: m.sig, ClaimHash: own.ClaimHash})
		}, c.Get("accepted").Ints(), sigs)
		if !good {
			continue
		}
		var suberr error
		ctx, cancel := context.WithCancel(context.Background())
		wait := &c40Wait{}
		if superseded {
			wait.cancel = cancel
		}
		if p := c40Catch(func() {
			suberr = tbtc.VerifC40SubmitClaim(ctx, seat(submitter), gp, ids, group.MemberIndex(submitter), mkClaim(nonce), sigs, wait.fn)
		}); p != nil {
			cancel()
			rep.Diverge(key+":submit-panic", fmt.Sprintf("SubmitClaim panicked: %v", p), c.X, nil, nil)
			continue
		}
		cancel()
		if len(hazards) > 0 {
			rep.Count("hazard-realized", 1)
			if len(sigs) >= gp.HonestThreshold && pc != "aborted" && suberr != nil {
				rep.Diverge("sig-accepted:"+hazards[0], fmt.Sprintf("VerifySignature admitted a %s signature message; with it the member holds enough signatures but its claim fails: %v", hazards[0], suberr),
					c.X, "accepted = "+c.Get("accepted").JSON(), fmt.Sprint(suberr))
			}
			continue
		}
		var problems []string
		switch pc {
		case "failed":
			if suberr == nil || !strings.Contains(suberr.Error(), "could not submit inactivity claim with") || len(k.notified) != 0 {
				problems = append(problems, fmt.Sprintf("expected the signature gate to stop the member, got error %v, contract calls %d", suberr, len(k.notified)))
			}
		case "aborted":
			if suberr != nil || len(k.notified) != 0 {
				problems = append(problems, fmt.Sprintf("%s: expected a silent return, got err=%v, contract calls %d", c.Get("outcome").Str(), suberr, len(k.notified)))
			}
			if superseded && len(wait.blocks) != 1 {
				problems = append(problems, "superseded while waiting: the member did not reach the wait for its submission block")
			}
		case "done":
			if want := uint64(1000) + uint64(submitter-1)*uint64(tbtc.VerifC40ClaimDelayStep); len(wait.blocks) != 1 || wait.blocks[0] != want {
				problems = append(problems, fmt.Sprintf("waited for blocks %v before submitting, expected block %d", wait.blocks, want))
			}
			if suberr != nil || len(k.notified) != 1 || k.notified[0] != "" {
				problems = append(problems, fmt.Sprintf("a claim that passed the gate was not accepted: err=%v contract=%q", suberr, k.notified))
			} else {
				want := c.Get("inactiveMembers").Ints()
				got := k.punished[0]
				if len(want) != len(got) {
					problems = append(problems, "number of punished operators")
				} else {
					for i := range want {
						if idmap(want[i]) != got[i] {
							problems = append(problems, fmt.Sprintf("punished operator %d", i))
						}
					}
				}
				cc := c.Get("chainClaim")
				if !c40SameInts(k.claims[0].SigningMembersIndices, cc.Get("signingMembersIndices").Ints()) ||
					!c40SameInts(k.claims[0].InactiveMembersIndices, cc.Get("inactiveMembersIndices").Ints()) {
					problems = append(problems, "the submitted claim differs from the specified one")
				}
			}
		}
		if len(problems) > 0 {
			rep.Diverge(key+":submit", "SubmitClaim differs from the specification: "+fmt.Sprint(problems), c.X, c.X, problems)
		}
	}
}

func c40BigIDs(ids []uint32) []*big.Int {
	out := make([]*big.Int, len(ids))
	for i, x := range ids {
		out[i] = new(big.Int).SetUint64(uint64(x))
	}
	return out
}

// TestVerif_C40_RealParameters repeats the submission with the constants the client and the contracts really use
// (read from the sources by the engine): random partitions around the quorum, random supporter sets around
// the gate, operators holding many seats.
func TestVerif_C40_RealParameters(t *testing.T) {
	kit.RequireEngine(t)
	rep := kit.NewReport("C40", "realparams")
	defer rep.Write(t)
	geti := func(name string) int {
		v, err := strconv.Atoi(os.Getenv(name))
		if err != nil {
			t.Fatalf("%s not passed by the engine", name)
		}
		return v
	}
	gp := &tbtc.GroupParameters{GroupSize: geti("VERIF_C40_CLIENT_SIZE"), GroupQuorum: geti("VERIF_C40_CLIENT_QUORUM"), HonestThreshold: geti("VERIF_C40_CLIENT_HONEST")}
	solSize, solActive, solThreshold, solClaimThreshold := geti("VERIF_C40_SOL_SIZE"), geti("VERIF_C40_SOL_ACTIVE"), geti("VERIF_C40_SOL_THRESHOLD"), geti("VERIF_C40_SOL_CLAIM_THRESHOLD")
	runs := kit.IntEnv("VERIF_RUNS", 40)
	rnd := kit.Rand(40)
	n := gp.GroupSize
	for run := 0; run < runs; run++ {
		chainID := c40.IntOf([]string{"cMainnet", "cSepolia", "cDev", "cWide"}[rnd.Intn(4)], rnd.Intn(8))
		startBlock := c40.IntOf([]string{"bZero", "bSmall", "bLarge"}[rnd.Intn(3)], rnd.Intn(8))
		groupKey, keyBytes, err := c40.GroupKey([]string{"kFull", "kShortX", "kShortY", "kShortXY"}[rnd.Intn(4)], rnd.Intn(8))
		if err != nil {
			t.Fatal(err)
		}
		// operators: between 3 and n distinct ones, seats dealt at random
		distinct := 3 + rnd.Intn(n-2)
		idmap := c40.IDMaps[rnd.Intn(len(c40.IDMaps))]
		ids := make(chain.OperatorIDs, n)
		for i := range ids {
			ids[i] = idmap(1 + rnd.Intn(distinct))
		}
		k := &c40Contracts{validator: c40.DkgValidator{GroupSize: solSize, GroupThreshold: solThreshold, ActiveThreshold: solActive, ChainID: chainID},
			startBlock: startBlock, dkgState: tbtc.AwaitingResult}
		w := c40NewWorld(ids, chainID, k)
		addrs := make(chain.Addresses, n)
		for i := range ids {
			addrs[i] = chain.Address(fmt.Sprintf("0x%x", w.chains[ids[i]].addr))
		}
		gsr := &tbtc.GroupSelectionResult{OperatorsIDs: ids, OperatorsAddresses: addrs}
		// misbehaved: around the limit n - quorum
		limit := n - gp.GroupQuorum
		nm := []int{0, 1, limit - 1, limit, limit, limit + 1, rnd.Intn(limit + 1)}[run%7]
		if nm < 0 {
			nm = 0
		}
		perm := rnd.Perm(n)
		misb := make([]int, 0, nm)
		isM := map[int]bool{}
		for _, p := range perm[:nm] {
			misb = append(misb, p+1)
			isM[p+1] = true
		}
		var operating []int
		for s := 1; s <= n; s++ {
			if !isM[s] {
				operating = append(operating, s)
			}
		}
		// supporters: around the gate
		ns := []int{gp.GroupQuorum - 1, gp.GroupQuorum, gp.GroupQuorum, gp.GroupQuorum + 1, len(operating), len(operating)}[(run/7+run)%6]
		if ns > len(operating) {
			ns = len(operating)
		}
		if ns < 1 {
			ns = 1
		}
		rnd.Shuffle(len(operating), func(i, j int) { operating[i], operating[j] = operating[j], operating[i] })
		supporters := append([]int{}, operating[:ns]...)
		submitter := supporters[0]
		resultOf := func() *dkg.Result { return c40DkgResult(t, rnd, n, gp.HonestThreshold, misb, groupKey) }
		sigs := map[group.MemberIndex][]byte{}
		key := fmt.Sprintf("real:misb=%d,sigs=%d", nm, ns)
		bad := false
		for _, s := range supporters {
			sr, e := tbtc.VerifC40SignResult(w.chains[ids[s-1]], startBlock.Uint64(), resultOf())
			if e != nil {
				rep.Diverge(key+":sign", "SignResult failed: "+e.Error(), nil, nil, nil)
				bad = true
				break
			}
			ok, e := tbtc.VerifC40VerifyResultSignature(w.chains[ids[submitter-1]], startBlock.Uint64(), sr)
			if !ok || e != nil {
				rep.Diverge(key+":verify", fmt.Sprintf("an honest signature was rejected: %v", e), nil, nil, nil)
				bad = true
				break
			}
			sigs[group.MemberIndex(s)] = sr.Signature
		}
		if bad {
			continue
		}
		nontrivial := ""
		if ns >= gp.GroupQuorum {
			nontrivial = fmt.Sprintf("%s/%d", key, run)
		}
		rep.Eval(nontrivial, map[string]interface{}{"misbehaved": nm, "signatures": ns, "distinctOperators": distinct})
		var suberr error
		if p := c40Catch(func() {
			suberr = tbtc.VerifC40SubmitResult(context.Background(), w.chains[ids[submitter-1]], gp, gsr, group.MemberIndex(submitter), resultOf(), sigs, (&c40Wait{}).fn)
		}); p != nil {
			rep.Diverge(key+":panic", fmt.Sprintf("SubmitResult panicked: %v", p), nil, nil, nil)
			continue
		}
		// the property: whatever the client would submit is valid for the contract
		if len(k.prechecks) > 0 && k.prechecks[0] != "" {
			rep.Diverge(key, fmt.Sprintf("with the real constants (client %d/%d/%d, contract %d/%d/%d) a result with %d misbehaved members and %d signatures passed the client's gate and is rejected by the contract: %s",
				gp.GroupSize, gp.GroupQuorum, gp.HonestThreshold, solSize, solActive, solThreshold, nm, ns, k.prechecks[0]), nil, nil, k.prechecks[0])
			continue
		}
		if ns >= gp.GroupQuorum {
			if suberr != nil || len(k.submitted) != 1 || !k.submitRule[0] {
				rep.Diverge(key+":notsubmitted", fmt.Sprintf("a result with a quorum of signatures was not submitted: %v", suberr), nil, nil, nil)
				continue
			}
			rep.Count("submitted", 1)
			r := k.submitted[0]
			if string(r.GroupPublicKey) != string(keyBytes) {
				rep.Diverge(key+":key", "submitted group public key is not X32||Y32", nil, nil, nil)
			}
		} else {
			if suberr == nil || len(k.submitted) != 0 {
				rep.Diverge(key+":gate", "a result below the signature quorum was not stopped", nil, nil, nil)
			}
			rep.Count("stopped", 1)
		}
	}
	// ---- inactivity claims with the real constants
	for run := 0; run < runs; run++ {
		chainID := c40.IntOf([]string{"cMainnet", "cSepolia", "cDev", "cWide"}[rnd.Intn(4)], rnd.Intn(8))
		nonce := c40.IntOf([]string{"nZero", "nSmall", "nLarge"}[rnd.Intn(3)], rnd.Intn(8))
		walletKey, keyBytes, err := c40.GroupKey([]string{"kFull", "kShortX", "kShortY", "kShortXY"}[rnd.Intn(4)], rnd.Intn(8))
		if err != nil {
			t.Fatal(err)
		}
		// the wallet's signing group: the DKG group minus up to size-quorum misbehaved members
		wn := gp.GroupQuorum + rnd.Intn(gp.GroupSize-gp.GroupQuorum+1)
		idmap := c40.IDMaps[rnd.Intn(len(c40.IDMaps))]
		distinct := 3 + rnd.Intn(wn-2)
		ids := make([]uint32, wn)
		for i := range ids {
			ids[i] = idmap(1 + rnd.Intn(distinct))
		}
		k := &c40Contracts{validator: c40.DkgValidator{ChainID: chainID}, claimThreshold: solClaimThreshold,
			walletID: c40.WalletID(keyBytes), currentNonce: new(big.Int).Set(nonce)}
		w := c40NewWorld(ids, chainID, k)
		k.wallet = c40.RegisteredWallet{MembersIdsHash: c40.Keccak(c40.AbiEncode(c40.Arr("uint32[]", c40BigIDs(ids)))), PublicKey: keyBytes, Nonce: new(big.Int).Set(nonce)}
		ni := 1 + rnd.Intn(wn-gp.HonestThreshold)
		perm := rnd.Perm(wn)
		var reported []group.MemberIndex
		for _, p := range perm[:ni] {
			reported = append(reported, group.MemberIndex(p+1))
		}
		active := perm[ni:]
		ns := []int{gp.HonestThreshold - 1, gp.HonestThreshold, gp.HonestThreshold, gp.HonestThreshold + 1, len(active)}[run%5]
		if ns > len(active) {
			ns = len(active)
		}
		mkClaim := func() *inactivity.ClaimPreimage {
			r := append([]group.MemberIndex{}, reported...)
			rnd.Shuffle(len(r), func(i, j int) { r[i], r[j] = r[j], r[i] })
			return inactivity.NewClaimPreimage(nonce, walletKey, r, run%2 == 0)
		}
		submitter := active[0] + 1
		sigs := map[group.MemberIndex][]byte{}
		key := fmt.Sprintf("realclaim:inactive=%d,sigs=%d", ni, ns)
		bad := false
		for _, a := range active[:ns] {
			sc, e := tbtc.VerifC40SignClaim(w.chains[ids[a]], mkClaim())
			if e != nil {
				rep.Diverge(key+":sign", "SignClaim failed: "+e.Error(), nil, nil, nil)
				bad = true
				break
			}
			ok, e := tbtc.VerifC40VerifyClaimSignature(w.chains[ids[submitter-1]], sc)
			if !ok || e != nil {
				rep.Diverge(key+":verify", fmt.Sprintf("an honest claim signature was rejected: %v", e), nil, nil, nil)
				bad = true
				break
			}
			sigs[group.MemberIndex(a+1)] = sc.Signature
		}
		if bad {
			continue
		}
		nontrivial := ""
		if ns >= gp.HonestThreshold {
			nontrivial = fmt.Sprintf("%s/%d", key, run)
		}
		rep.Eval(nontrivial, map[string]interface{}{"wallet": wn, "inactive": ni, "signatures": ns})
		var suberr error
		if p := c40Catch(func() {
			suberr = tbtc.VerifC40SubmitClaim(context.Background(), w.chains[ids[submitter-1]], gp, ids, group.MemberIndex(submitter), mkClaim(), sigs, (&c40Wait{}).fn)
		}); p != nil {
			rep.Diverge(key+":panic", fmt.Sprintf("SubmitClaim panicked: %v", p), nil, nil, nil)
			continue
		}
		if len(k.notified) > 0 && k.notified[0] != "" {
			rep.Diverge(key, fmt.Sprintf("with the real constants (client honest threshold %d, contract %d) a claim naming %d of %d members with %d signatures passed the client's gate and is rejected by the contract: %s",
				gp.HonestThreshold, solClaimThreshold, ni, wn, ns, k.notified[0]), nil, nil, k.notified[0])
			continue
		}
		if ns >= gp.HonestThreshold {
			if suberr != nil || len(k.notified) != 1 || len(k.punished[0]) != ni {
				rep.Diverge(key+":notsubmitted", fmt.Sprintf("a claim with enough signatures was not accepted: %v", suberr), nil, nil, nil)
				continue
			}
			rep.Count("claim-accepted", 1)
		} else {
			if suberr == nil || len(k.notified) != 0 {
				rep.Diverge(key+":gate", "a claim below the signature threshold was not stopped", nil, nil, nil)
			}
			rep.Count("claim-stopped", 1)
		}
	}
}
