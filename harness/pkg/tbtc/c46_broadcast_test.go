//go:build verif

package tbtc

// C46, the post-signing broadcast loop (see specs/Deadlines BeginBroadcast ..
// BroadcastTimesOut and TBroadcast).
//
//   TestVerif_C46_Broadcast  runs the REAL walletTransactionExecutor.
//                            broadcastTransaction of the executor each action
//                            constructor builds, with the action's own
//                            broadcastTimeout / broadcastCheckDelay scaled down
//                            by one factor (900 s / 60 s -> 300 ms / 20 ms),
//                            against a Bitcoin chain stub on which the
//                            transaction never becomes known, or becomes known
//                            at the k-th check. Recorded: broadcasts made,
//                            wall-clock duration, outcome, and whether the call
//                            came back at all within a generous bound (100 x the
//                            scaled timeout; a slow machine can only make the
//                            observation weaker, never produce an alarm).

import (
	"context"
	"fmt"
	"math/big"
	"sync"
	"testing"
	"time"

	"github.com/keep-network/keep-core/internal/testutils"
	kit "github.com/keep-network/keep-core/internal/verifkit"
	"github.com/keep-network/keep-core/pkg/bitcoin"
	"github.com/keep-network/keep-core/pkg/tbtc/internal/test"
)

type c46bChain struct {
	*localBitcoinChain
	mu         sync.Mutex
	broadcasts int
	checks     int
	knownAfter int // 0 = never
}

func (c *c46bChain) BroadcastTransaction(tx *bitcoin.Transaction) error {
	c.mu.Lock()
	c.broadcasts++
	c.mu.Unlock()
	return nil
}

func (c *c46bChain) GetTransactionConfirmations(hash bitcoin.Hash) (uint, error) {
	c.mu.Lock()
	defer c.mu.Unlock()
	c.checks++
	if c.knownAfter > 0 && c.checks >= c.knownAfter {
		return 0, nil
	}
	return 0, fmt.Errorf("transaction not found")
}

func TestVerif_C46_Broadcast(t *testing.T) {
	kit.RequireEngine(t)
	rep := kit.NewReport("C46", "broadcast")
	defer rep.Write(t)
	tr := kit.NewTracer(t, "trace_broadcast")
	defer tr.Close()
	tr.Reset(nil)

	scenarios, err := test.LoadDepositSweepTestScenarios()
	if err != nil {
		t.Fatal(err)
	}
	tx := scenarios[0].ExpectedSweepTransaction

	type exec struct {
		name           string
		wte            *walletTransactionExecutor
		chain          *c46bChain
		timeout, delay time.Duration
	}
	nop := func(ctx context.Context, b uint64) error { return nil }
	mk := func() *c46bChain { return &c46bChain{localBitcoinChain: newLocalBitcoinChain()} }
	var execs []exec
	{
		c := mk()
		a := newDepositSweepAction(logger.With(), nil, c, wallet{}, nil, &DepositSweepProposal{SweepTxFee: big.NewInt(0)}, 0, 0, nop)
		execs = append(execs, exec{"depositSweep", a.transactionExecutor, c, a.broadcastTimeout, a.broadcastCheckDelay})
	}
	{
		c := mk()
		a := newRedemptionAction(logger.With(), nil, c, wallet{}, nil, &RedemptionProposal{RedemptionTxFee: big.NewInt(0)}, 0, 0, nop)
		execs = append(execs, exec{"redemption", a.transactionExecutor, c, a.broadcastTimeout, a.broadcastCheckDelay})
	}
	{
		c := mk()
		a := newMovingFundsAction(logger.With(), nil, c, wallet{}, nil, &MovingFundsProposal{MovingFundsTxFee: big.NewInt(0)}, 0, 0, nop)
		execs = append(execs, exec{"movingFunds", a.transactionExecutor, c, a.broadcastTimeout, a.broadcastCheckDelay})
	}
	{
		c := mk()
		a := newMovedFundsSweepAction(logger.With(), nil, c, wallet{}, nil, &MovedFundsSweepProposal{SweepTxFee: big.NewInt(0)}, 0, 0, nop)
		execs = append(execs, exec{"movedFundsSweep", a.transactionExecutor, c, a.broadcastTimeout, a.broadcastCheckDelay})
	}

	const scale = 3000 // 900 s -> 300 ms, 60 s -> 20 ms
	type result struct {
		err     error
		elapsed time.Duration
	}
	var wg sync.WaitGroup
	var mu sync.Mutex
	for _, e := range execs {
		for _, known := range []int{0, 1, 3} {
			e, known := e, known
			// every case gets its own executor-compatible chain state: run the
			// cases of one executor one after another
			wg.Add(1)
			go func() {
				defer wg.Done()
				mu.Lock() // the four executors share nothing, but keep the clock quiet: sequential
				defer mu.Unlock()
				e.chain.mu.Lock()
				e.chain.broadcasts, e.chain.checks, e.chain.knownAfter = 0, 0, known
				e.chain.mu.Unlock()
				timeout, delay := e.timeout/scale, e.delay/scale
				done := make(chan result, 1)
				start := time.Now()
				go func() {
					var err error
					func() {
						defer func() {
							if p := recover(); p != nil {
								err = fmt.Errorf("PANIC: %v", p)
							}
						}()
						err = e.wte.broadcastTransaction(&testutils.MockLogger{}, tx, timeout, delay)
					}()
					done <- result{err, time.Since(start)}
				}()
				bound := 100 * timeout
				returned := true
				var res result
				select {
				case res = <-done:
				case <-time.After(bound):
					returned = false
					res = result{nil, time.Since(start)}
				}
				e.chain.mu.Lock()
				iterations := e.chain.broadcasts
				e.chain.mu.Unlock()
				ev := map[string]interface{}{"event": "Broadcast", "action": e.name,
					"timeout": int(timeout / time.Millisecond), "delay": int(delay / time.Millisecond),
					"configuredTimeoutSeconds": int(e.timeout / time.Second), "configuredDelaySeconds": int(e.delay / time.Second),
					"knownAfter": known, "iterations": iterations, "elapsed": int(res.elapsed / time.Millisecond),
					"returned": returned, "failed": res.err != nil, "err": fmt.Sprint(res.err), "boundMs": int(bound / time.Millisecond)}
				tr.Emit(ev)
				rep.Eval(fmt.Sprintf("%s/known=%d", e.name, known), ev)
				if res.err != nil && len(res.err.Error()) > 5 && res.err.Error()[:5] == "PANIC" {
					rep.Diverge("panic:broadcastTransaction", res.err.Error(), ev, nil, nil)
				}
			}()
		}
	}
	wg.Wait()
	rep.Extra["events"] = tr.N()
}
