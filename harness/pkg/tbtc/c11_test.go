//go:build verif

package tbtc

// C11 conformance harness (see /verif/specs/AttemptWindows).
//
//   TestVerif_C11_Windows
//     1. writes the window constants of the built code (announcement delay /
//        active blocks, protocol blocks, attempt maximum blocks for signing
//        and key generation, the dkg attempts limit) to
//        $VERIF_OUT/c11_constants.json - the engine passes them to TLC.
//     2. plays every script TLC generated (a failure history: the answers of
//        the chain, the announcer, the attempt function, the done check and
//        the context) against the REAL signingRetryLoop.start /
//        dkgRetryLoop.start, with fake waitForBlockFn / getCurrentBlockFn
//        recording every block the loop asks about, a scripted announcer,
//        scripted attempt functions recording the signingAttemptParams /
//        dkgAttemptParams, and a scripted done check.  Whether the member is
//        included in an attempt is decided by the real member selection; the
//        harness searches a message / seed for which it matches the script.
//        Everything the loop does is recorded as ndjson for
//        Trace_AttemptWindows.
//     3. checks directly on the observations of all runs (different members,
//        different histories, same start block): attempt n got the same
//        announcement start / end and timeout blocks in every run, attempt
//        n+1 was announced only after the timeout block of attempt n, and a
//        signing member announced / attempted only when the block it had
//        observed was before the announcement end.

import (
	"bytes"
	"context"
	"encoding/json"
	"errors"
	"fmt"
	"math/big"
	"os"
	"path/filepath"
	"runtime"
	"strconv"
	"strings"
	"sync"
	"testing"
	"time"

	kit "github.com/keep-network/keep-core/internal/verifkit"
	"github.com/keep-network/keep-core/pkg/chain"
	"github.com/keep-network/keep-core/pkg/protocol/group"
	"github.com/keep-network/keep-core/pkg/tecdsa"
	"github.com/keep-network/keep-core/pkg/tecdsa/dkg"
	"github.com/keep-network/keep-core/pkg/tecdsa/signing"
)

type c11Consts struct {
	Delay, Active, Protocol, Max uint64
}

func c11Goid() string {
	var buf [64]byte
	n := runtime.Stack(buf[:], false)
	// "goroutine 123 [running]:"
	f := bytes.Fields(buf[:n])
	if len(f) >= 2 {
		return string(f[1])
	}
	return "?"
}

// c11Run is the scripted environment of one loop run.
type c11Run struct {
	t      *testing.T
	rep    *kit.Report
	kind   string
	cn     c11Consts
	start  uint64
	member int
	gsize  int
	need   int
	steps  []kit.V
	pos    int

	mu        sync.Mutex
	cond      *sync.Cond
	events    []map[string]interface{}
	mainGo    string
	cancel    context.CancelFunc
	loopCtx   context.Context
	lateMode  bool
	waiterReg int // wake-up requests seen from spawned goroutines
	announces int
	listens   int
	curCalls  int
	lastCur   uint64
	bad       string // set when the run cannot follow the script (unrealized)
	ended     bool   // the harness cancelled the loop's context
	// observations for the direct checks
	obsCur      map[int]uint64 // attempt -> block returned by getCurrentBlockFn
	obsAnnStart map[int]uint64
	obsAnnEnd   map[int]uint64
	obsTimeout  map[int]uint64
	announcedIn map[int]bool
	attemptedIn map[int]bool
	waitCalls   int
	divKey      string

	pendingWaiters []map[string]interface{}
}

func (r *c11Run) log(ev map[string]interface{}) {
	r.events = append(r.events, ev)
}

// next returns the next script step if its action is one of names.
func (r *c11Run) peek() (string, kit.V) {
	if r.pos < len(r.steps) {
		return r.steps[r.pos].Get("a").Str(), r.steps[r.pos]
	}
	return "", kit.V{}
}

func (r *c11Run) take(names ...string) (string, kit.V, bool) {
	a, s := r.peek()
	if a == "Cancel" && r.pos == len(r.steps)-1 {
		// the script ends with a cancellation after its last attempt: it is
		// performed when the loop makes its next call (the loop may have one
		// more look at the context before or after, as the code decides)
		r.pos++
		r.endRun()
		a = ""
	}
	for _, n := range names {
		if a == n {
			r.pos++
			return a, s, true
		}
	}
	if a != "Cancel" {
		// the script is exhausted or the loop left it: end the run
		r.endRun()
	}
	return "", kit.V{}, false
}

// endRun cancels the loop's context (once) so that a loop that is past its
// script terminates.
func (r *c11Run) endRun() {
	if !r.ended {
		r.ended = true
		r.log(map[string]interface{}{"event": "Cancel"})
		r.cancel()
	}
}


func (r *c11Run) annEnd(n int) uint64 {
	return r.start + uint64(n-1)*r.cn.Max + r.cn.Delay + r.cn.Active
}

func (r *c11Run) offset(name string, n int) uint64 {
	end := r.annEnd(n)
	switch name {
	case "start":
		return end - r.cn.Delay - r.cn.Active
	case "end-1":
		return end - 1
	case "end":
		return end
	case "end+1":
		return end + 1
	case "end+max":
		return end + r.cn.Max
	case "end+2max+1":
		return end + 2*r.cn.Max + 1
	}
	return end - 1
}

func (r *c11Run) getCurrentBlock() (uint64, error) {
	r.mu.Lock()
	defer r.mu.Unlock()
	r.curCalls++
	n := r.curCalls
	a, s, ok := r.take("ObserveErr", "Observe")
	if !ok { // script exhausted (or out of step): a harmless answer
		if r.pos < len(r.steps) {
			r.bad = "getCurrentBlockFn called where the script expects " + r.steps[r.pos].JSON()
		}
		a = "Observe"
		s = kit.V{X: map[string]interface{}{"at": "end-1"}}
	}
	if a == "ObserveErr" {
		r.log(map[string]interface{}{"event": "CurrentBlock", "block": 0, "err": true})
		return 0, errors.New("scripted current block failure")
	}
	b := r.offset(s.Get("at").Str(), n)
	if b < r.lastCur {
		b = r.lastCur // the chain does not go back
	}
	r.lastCur = b
	r.obsCur[n] = b
	r.log(map[string]interface{}{"event": "CurrentBlock", "block": b, "err": false})
	return b, nil
}

func (r *c11Run) waitForBlock(ctx context.Context, block uint64) error {
	r.mu.Lock()
	if c11Goid() == r.mainGo {
		defer r.mu.Unlock()
		r.waitCalls++
		n := r.waitCalls
		if r.kind == "signing" {
			n = r.curCalls
		}
		a, s, ok := r.take("WaitStartErr", "WaitStart")
		if !ok {
			if r.pos < len(r.steps) {
				r.bad = "waitForBlockFn called where the script expects " + r.steps[r.pos].JSON()
			}
			a = "WaitStart"
			s = kit.V{X: map[string]interface{}{"late": false}}
		}
		if a == "WaitStartErr" {
			r.log(map[string]interface{}{"event": "WaitMain", "block": block, "err": true, "late": false})
			return errors.New("scripted wait failure")
		}
		r.lateMode = s.Get("late").Bool()
		r.obsAnnStart[n] = block
		r.log(map[string]interface{}{"event": "WaitMain", "block": block, "err": false, "late": r.lateMode})
		return nil
	}
	// a goroutine spawned by the loop asks to be woken at `block`
	// (the request is concurrent with the loop's own goroutine: it is put into
	// the log by the next callback of the loop, see flushWaiters)
	r.waiterReg++
	r.pendingWaiters = append(r.pendingWaiters, map[string]interface{}{"event": "Waiter", "block": block})
	fire := r.lateMode
	r.cond.Broadcast()
	r.mu.Unlock()
	if fire {
		return nil // the block is long past
	}
	select {
	case <-ctx.Done():
	case <-r.loopCtx.Done():
	}
	return nil
}

// awaitWaiters blocks until the loop's spawned goroutines have asked for
// `want` wake-ups in total (they are spawned before the callback that calls
// this). Must be called with r.mu held.
func (r *c11Run) awaitWaiters(want int, what string) {
	deadline := time.Now().Add(c11WakeupWait)
	for r.waiterReg < want && time.Now().Before(deadline) {
		r.mu.Unlock()
		time.Sleep(200 * time.Microsecond)
		r.mu.Lock()
	}
	if r.waiterReg < want {
		c11WakeupWait = 3 * time.Second // (already reported once: do not wait minutes in every further run)
		r.rep.Diverge(r.divKey+":no-wakeup", "the loop never asked to be woken at "+what+
			" (no goroutine called waitForBlockFn for it)", r.script(), want, r.waiterReg)
	}
}

// flushWaiters moves the wake-up requests seen so far into the log. A
// request is causally after the spawn of its goroutine and concurrent with
// everything the loop does afterwards, so logging it after the loop's next
// call is a valid linearization (the specification spawns the timeout
// goroutine in the same step as doneCheck.listen).
func (r *c11Run) flushWaiters() {
	r.events = append(r.events, r.pendingWaiters...)
	r.pendingWaiters = nil
}

func (r *c11Run) script() interface{} {
	out := make([]interface{}, len(r.steps))
	for i, s := range r.steps {
		out[i] = s.X
	}
	return map[string]interface{}{"kind": r.kind, "member": r.member, "steps": out}
}

func (r *c11Run) readyNamed(name string) []group.MemberIndex {
	var others []group.MemberIndex
	for m := 1; m <= r.gsize; m++ {
		if m != r.member {
			others = append(others, group.MemberIndex(m))
		}
	}
	me := group.MemberIndex(r.member)
	switch name {
	case "all":
		out := []group.MemberIndex{}
		for m := 1; m <= r.gsize; m++ {
			out = append(out, group.MemberIndex(m))
		}
		return out
	case "others":
		return others
	case "exact":
		return append([]group.MemberIndex{me}, others[:r.need-1]...)
	case "few":
		return append([]group.MemberIndex{me}, others[:r.need-2]...)
	}
	return []group.MemberIndex{me} // "self"
}

func c11Ints(ms []group.MemberIndex) []int {
	out := make([]int, len(ms))
	for i, m := range ms {
		out[i] = int(m)
	}
	return out
}

func (r *c11Run) Announce(ctx context.Context, memberIndex group.MemberIndex, sessionID string) ([]group.MemberIndex, error) {
	r.mu.Lock()
	defer r.mu.Unlock()
	r.announces++
	live := ctx.Err() == nil
	r.awaitWaiters(r.announces+r.listens, "the announcement end block")
	r.flushWaiters()
	attempt := -1
	if i := strings.LastIndex(sessionID, "-"); i >= 0 {
		attempt, _ = strconv.Atoi(sessionID[i+1:])
	}
	r.announcedIn[attempt] = true
	if a, _ := r.peek(); a == "Cancel" {
		r.pos++
		r.endRun()
	}
	a, s, ok := r.take("AnnounceErr", "Announce")
	if !ok {
		if r.pos < len(r.steps) {
			r.bad = "Announce called where the script expects " + r.steps[r.pos].JSON()
		}
		a = "Announce"
		s = kit.V{X: map[string]interface{}{"ready": "few"}}
	}
	ctxDone := false
	if r.lateMode {
		// the window is over: the loop must cancel the announcement context
		// as soon as its wake-up at the announcement end returns
		r.mu.Unlock()
		select {
		case <-ctx.Done():
			ctxDone = true
		case <-time.After(c11WakeupWait):
		}
		r.mu.Lock()
		if !ctxDone {
			c11WakeupWait = 3 * time.Second
			r.rep.Diverge(r.divKey+":announce-ctx", "the announcement context was not cancelled although the wake-up "+
				"at the announcement end block had returned", r.script(), true, false)
		}
	}
	if a == "AnnounceErr" {
		r.log(map[string]interface{}{"event": "Announce", "attempt": attempt, "member": int(memberIndex), "err": true,
			"ready": []int{}, "live": live, "ctxDone": ctxDone})
		return nil, errors.New("scripted announcement failure")
	}
	ready := r.readyNamed(s.Get("ready").Str())
	r.log(map[string]interface{}{"event": "Announce", "attempt": attempt, "member": int(memberIndex), "err": false,
		"ready": c11Ints(ready), "live": live, "ctxDone": ctxDone})
	if nx, _ := r.peek(); len(ready) >= r.need && (nx == "Select" || nx == "SelectErr") && r.kind == "dkg" {
		// (key generation: the selection is not visible to the environment)
		r.pos++
	}
	return ready, nil
}

// ---- signing done check
type c11DoneCheck struct{ r *c11Run }

func (d *c11DoneCheck) listen(ctx context.Context, message *big.Int, attemptNumber uint64, attemptTimeoutBlock uint64, attemptMembersIndexes []group.MemberIndex) {
	r := d.r
	r.mu.Lock()
	defer r.mu.Unlock()
	r.listens++
	r.obsTimeout[int(attemptNumber)] = attemptTimeoutBlock
	included := false
	for _, m := range attemptMembersIndexes {
		if int(m) == r.member {
			included = true
		}
	}
	if _, s, ok := r.take("Select"); ok {
		if s.Get("in").Bool() != included {
			r.bad = fmt.Sprintf("selection included=%v, script wants %v", included, s.Get("in").Bool())
		}
	} else if r.pos < len(r.steps) {
		r.bad = "listen called where the script expects " + r.steps[r.pos].JSON()
	}
	r.log(map[string]interface{}{"event": "Listen", "attempt": attemptNumber, "timeout": attemptTimeoutBlock,
		"included": c11Ints(attemptMembersIndexes), "live": ctx.Err() == nil})
	r.awaitWaiters(r.announces+r.listens, "the attempt timeout block")
	r.flushWaiters()
}

func (d *c11DoneCheck) signalDone(ctx context.Context, memberIndex group.MemberIndex, message *big.Int, attemptNumber uint64, result *signing.Result, endBlock uint64) error {
	r := d.r
	r.mu.Lock()
	defer r.mu.Unlock()
	a, _, ok := r.take("SignalErr", "SignalOk")
	if !ok {
		if r.pos < len(r.steps) {
			r.bad = "signalDone called where the script expects " + r.steps[r.pos].JSON()
		}
		a = "SignalErr"
	}
	r.log(map[string]interface{}{"event": "SignalDone", "attempt": attemptNumber, "endBlock": endBlock, "err": a == "SignalErr"})
	if a == "SignalErr" {
		return errors.New("scripted signal failure")
	}
	return nil
}

func (d *c11DoneCheck) waitUntilAllDone(ctx context.Context) (*signing.Result, uint64, error) {
	r := d.r
	r.mu.Lock()
	defer r.mu.Unlock()
	a, _, ok := r.take("DoneWaitErr", "DoneWaitOk")
	if !ok {
		if r.pos < len(r.steps) {
			r.bad = "waitUntilAllDone called where the script expects " + r.steps[r.pos].JSON()
		}
		a = "DoneWaitErr"
	}
	r.log(map[string]interface{}{"event": "WaitAllDone", "err": a == "DoneWaitErr"})
	if a == "DoneWaitErr" {
		return nil, 0, errors.New("scripted done check failure")
	}
	return c11SigningResult, 777, nil
}

var c11SigningResult = &signing.Result{Signature: &tecdsa.Signature{R: big.NewInt(3), S: big.NewInt(4), RecoveryID: 1}}

func (r *c11Run) attemptCommon(number uint, startBlock, timeoutBlock uint64, excluded []group.MemberIndex) bool {
	r.obsAnnEnd[int(number)] = startBlock
	r.obsTimeout[int(number)] = timeoutBlock
	r.attemptedIn[int(number)] = true
	a, _, ok := r.take("AttemptErr", "AttemptOk")
	if !ok {
		if r.pos < len(r.steps) {
			r.bad = "the attempt function was called where the script expects " + r.steps[r.pos].JSON()
		}
		a = "AttemptErr"
	}
	r.log(map[string]interface{}{"event": "Attempt", "number": number, "startBlock": startBlock, "timeoutBlock": timeoutBlock,
		"excluded": c11Ints(excluded), "err": a == "AttemptErr"})
	if a == "AttemptErr" {
		return false
	}
	return true
}

func c11Operators(n int) chain.Addresses {
	ops := make(chain.Addresses, n)
	for i := range ops {
		ops[i] = chain.Address(fmt.Sprintf("0x%040x", (i+1)*15485863))
	}
	return ops
}

// c11FindMessage searches a message / seed for which the real member
// selection includes / excludes the member as the script says.
func c11FindMessage(kind string, ops chain.Addresses, params *GroupParameters, member int, steps []kit.V, r *c11Run, salt int64) *big.Int {
	type want struct {
		attempt int
		ready   []group.MemberIndex
		in      bool
	}
	var wants []want
	attempt := 0
	lastReady := ""
	for _, s := range steps {
		switch s.Get("a").Str() {
		case "ObserveErr", "Observe":
			attempt++
		case "WaitStartErr", "WaitStart":
			if kind == "dkg" {
				attempt++
			}
		case "Announce":
			lastReady = s.Get("ready").Str()
		case "Select":
			wants = append(wants, want{attempt, r.readyNamed(lastReady), s.Get("in").Bool()})
		}
	}
	rnd := kit.Rand(salt)
	for try := 0; try < 400; try++ {
		msg := new(big.Int).Rand(rnd, new(big.Int).Lsh(big.NewInt(1), 200))
		ok := true
		for _, w := range wants {
			var excluded []group.MemberIndex
			var err error
			if kind == "signing" {
				l := newSigningRetryLoop(logger, msg, 0, group.MemberIndex(member), ops, params, nil, nil)
				l.attemptCounter = uint(w.attempt)
				excluded, err = l.performMembersSelection(w.ready)
			} else {
				l := newDkgRetryLoop(logger, msg, 0, group.MemberIndex(member), ops, params, nil, 0)
				l.attemptCounter = uint(w.attempt)
				excluded, err = l.performMembersSelection(w.ready)
			}
			if err != nil {
				ok = false
				break
			}
			in := true
			for _, e := range excluded {
				if int(e) == member {
					in = false
				}
			}
			if in != w.in {
				ok = false
				break
			}
		}
		if ok {
			return msg
		}
	}
	return nil
}

// how long a callback waits for the wake-up request of a goroutine the loop
// spawned before calling it (the request needs no more than a goroutine
// start; the bound only matters if the loop never spawns it)
var c11WakeupWait = 120 * time.Second

type c11Window struct {
	annStart, annEnd, timeout uint64
	who                       string
}

func TestVerif_C11_Windows(t *testing.T) {
	kit.RequireEngine(t)
	rep := kit.NewReport("C11", "windows")
	defer rep.Write(t)

	// 1. constants of the built code
	consts := map[string]interface{}{
		"SDelay": signingAttemptAnnouncementDelayBlocks, "SActive": signingAttemptAnnouncementActiveBlocks,
		"SProtocol": signingAttemptMaximumProtocolBlocks, "SCoolDown": signingAttemptCoolDownBlocks,
		"SMax":   signingAttemptMaximumBlocks(),
		"DDelay": dkgAttemptAnnouncementDelayBlocks, "DActive": dkgAttemptAnnouncementActiveBlocks,
		"DProtocol": dkgAttemptMaximumProtocolBlocks, "DCoolDown": dkgAttemptCoolDownBlocks,
		"DMax":     dkgAttemptMaximumBlocks(),
		"DkgLimit": dkgAttemptsLimit, "SigningLimit": signingAttemptsLimit,
	}
	cb, _ := json.Marshal(consts)
	if err := os.WriteFile(filepath.Join(kit.OutDir(), "c11_constants.json"), cb, 0o644); err != nil {
		t.Fatalf("cannot write constants: %v", err)
	}
	rep.Extra["constants"] = consts
	cn := map[string]c11Consts{
		"signing": {signingAttemptAnnouncementDelayBlocks, signingAttemptAnnouncementActiveBlocks,
			signingAttemptMaximumProtocolBlocks, uint64(signingAttemptMaximumBlocks())},
		"dkg": {dkgAttemptAnnouncementDelayBlocks, dkgAttemptAnnouncementActiveBlocks,
			dkgAttemptMaximumProtocolBlocks, uint64(dkgAttemptMaximumBlocks())},
	}

	// 2. play the scripts
	tr := kit.NewTracer(t, "trace_windows")
	defer tr.Close()
	scripts := kit.LoadCases(t, "scripts.ndjson")
	const start = uint64(1000)
	windows := map[string]map[int]c11Window{"signing": {}, "dkg": {}}

	for si, sc := range scripts {
		kind := sc.Get("kind").Str()
		gsize, need := sc.Get("gsize").Int(), sc.Get("need").Int()
		member := 1 + (si*7+int(kit.Seed()))%gsize
		limit := sc.Get("limit").Int()
		ops := c11Operators(gsize)
		params := &GroupParameters{GroupSize: gsize, GroupQuorum: need, HonestThreshold: need}
		r := &c11Run{t: t, rep: rep, kind: kind, cn: cn[kind], start: start, member: member, gsize: gsize, need: need,
			steps: sc.Get("steps").List(), obsCur: map[int]uint64{}, obsAnnStart: map[int]uint64{}, obsAnnEnd: map[int]uint64{},
			obsTimeout: map[int]uint64{}, announcedIn: map[int]bool{}, attemptedIn: map[int]bool{}}
		r.cond = sync.NewCond(&r.mu)
		r.divKey = fmt.Sprintf("%s:script=%s", kind, kit.Hash(sc.Get("steps").X))
		msg := c11FindMessage(kind, ops, params, member, r.steps, r, int64(si))
		if msg == nil {
			rep.Unrealized++
			continue
		}
		ctx, cancel := context.WithCancel(context.Background())
		r.cancel, r.loopCtx = cancel, ctx
		r.log(map[string]interface{}{"event": "Reset", "kind": kind, "start": start, "member": member, "gsize": gsize,
			"need": need, "limit": limit, "script": si})

		type outcome struct {
			ev map[string]interface{}
		}
		done := make(chan outcome, 1)
		go func() {
			r.mu.Lock()
			r.mainGo = c11Goid()
			r.mu.Unlock()
			ev := map[string]interface{}{"event": "Return", "attempt": 0, "timeoutBlock": 0, "active": []int{}, "inactive": []int{}}
			defer func() {
				if p := recover(); p != nil {
					ev["kind"] = "panic"
					ev["panic"] = fmt.Sprint(p)
				}
				done <- outcome{ev}
			}()
			classify := func(err error) string {
				switch {
				case errors.Is(err, context.Canceled):
					return "ctx"
				case strings.Contains(err.Error(), "reached the limit of attempts"):
					return "limit"
				case strings.Contains(err.Error(), "failed waiting for announcement start block"):
					return "waiterr"
				case strings.Contains(err.Error(), "cannot select members"):
					return "selecterr"
				}
				return "other:" + err.Error()
			}
			if kind == "signing" {
				loop := newSigningRetryLoop(logger, msg, start, group.MemberIndex(member), ops, params, r, &c11DoneCheck{r})
				res, err := loop.start(ctx, r.waitForBlock, r.getCurrentBlock,
					func(p *signingAttemptParams) (*signing.Result, uint64, error) {
						r.mu.Lock()
						defer r.mu.Unlock()
						if r.attemptCommon(p.number, p.startBlock, p.timeoutBlock, p.excludedMembersIndexes) {
							return c11SigningResult, p.startBlock + 3, nil
						}
						return nil, 0, errors.New("scripted attempt failure")
					})
				if err != nil {
					ev["kind"] = classify(err)
					return
				}
				ev["kind"] = "result"
				ev["timeoutBlock"] = res.attemptTimeoutBlock
				ev["latestEndBlock"] = res.latestEndBlock
				ev["active"] = c11Ints(res.activityReport.activeMembers)
				ev["inactive"] = c11Ints(res.activityReport.inactiveMembers)
			} else {
				loop := newDkgRetryLoop(logger, msg, start, group.MemberIndex(member), ops, params, r, uint(limit))
				_, err := loop.start(ctx, r.waitForBlock,
					func(p *dkgAttemptParams) (*dkg.Result, error) {
						r.mu.Lock()
						defer r.mu.Unlock()
						if r.attemptCommon(p.number, p.startBlock, p.timeoutBlock, p.excludedMembersIndexes) {
							return &dkg.Result{}, nil
						}
						return nil, errors.New("scripted attempt failure")
					})
				if err != nil {
					ev["kind"] = classify(err)
					return
				}
				ev["kind"] = "result"
			}
		}()
		var out outcome
		select {
		case out = <-done:
		case <-time.After(300 * time.Second):
			cancel()
			t.Fatalf("loop did not return for script %d: %s", si, sc.JSON())
		}
		cancel()
		r.mu.Lock()
		// give the goroutines spawned by the loop the chance to ask (they were
		// awaited before every callback already; this is for the last ones)
		r.awaitWaiters(r.announces+r.listens, "a window boundary")
		r.flushWaiters()
		r.log(out.ev)
		r.log(map[string]interface{}{"event": "End"})
		bad := r.bad
		if bad == "" && r.pos < len(r.steps) {
			bad = "script not consumed: next " + r.steps[r.pos].JSON()
		}
		events := r.events
		r.mu.Unlock()
		if k, _ := out.ev["kind"].(string); k == "panic" || strings.HasPrefix(k, "other:") {
			rep.Diverge(r.divKey+":return", "the loop ended unexpectedly: "+fmt.Sprint(out.ev), r.script(), nil, out.ev)
		}
		if bad != "" {
			// the real loop did not follow the script's control flow; leave the
			// verdict to the trace validation of what it actually did
			rep.Count("off_script", 1)
			rep.Note("script %d off script: %s", si, bad)
		}
		for _, ev := range events {
			tr.Emit(ev)
		}
		rep.Count(kind+"_runs", 1)
		rep.Count("ret_"+fmt.Sprint(out.ev["kind"]), 1)

		// 3. direct checks on the observations
		who := fmt.Sprintf("member %d, script %d", member, si)
		attempts := map[int]bool{}
		for n := range r.obsAnnStart {
			attempts[n] = true
		}
		for n := range r.obsTimeout {
			attempts[n] = true
		}
		for n := range attempts {
			w := windows[kind][n]
			merge := func(field string, old *uint64, v uint64, seen bool) {
				if !seen {
					return
				}
				if *old != 0 && *old != v {
					rep.Diverge(fmt.Sprintf("%s:attempt=%d:window-%s", kind, n, field),
						fmt.Sprintf("attempt %d has %s block %d in the run of %s but %d in the run of %s (same start block)",
							n, field, v, who, *old, w.who), r.script(), *old, v)
				}
				*old = v
			}
			v, ok := r.obsAnnStart[n]
			merge("announcement-start", &w.annStart, v, ok)
			v, ok = r.obsAnnEnd[n]
			merge("announcement-end", &w.annEnd, v, ok)
			v, ok = r.obsTimeout[n]
			merge("timeout", &w.timeout, v, ok)
			w.who = who
			windows[kind][n] = w
			if prev, ok := windows[kind][n-1]; ok && prev.timeout != 0 && w.annStart != 0 && w.annStart <= prev.timeout {
				rep.Diverge(fmt.Sprintf("%s:attempt=%d:overlap", kind, n),
					fmt.Sprintf("the announcement of attempt %d starts at block %d, not after the timeout block %d of attempt %d",
						n, w.annStart, prev.timeout, n-1), r.script(), prev.timeout, w.annStart)
			}
			if kind == "signing" && (r.announcedIn[n] || r.attemptedIn[n]) {
				end := w.annEnd
				if end == 0 {
					end = w.annStart + r.cn.Active
				}
				if c, ok := r.obsCur[n]; !ok || c >= end {
					rep.Diverge(fmt.Sprintf("%s:attempt=%d:past-window", kind, n),
						fmt.Sprintf("%s took part in attempt %d although the block it observed (%d) is not before the announcement end block %d",
							who, n, c, end), r.script(), end, c)
				}
			}
		}
		key := ""
		if len(r.steps) > 3 {
			key = r.divKey
		}
		rep.Eval(key, map[string]interface{}{"kind": kind, "member": member, "return": out.ev["kind"], "events": len(events)})
	}
	rep.Extra["trace_events"] = tr.N()
	rep.Extra["scripts"] = len(scripts)
	wj := map[string]interface{}{}
	for k, m := range windows {
		for n, w := range m {
			wj[fmt.Sprintf("%s/%d", k, n)] = []uint64{w.annStart, w.annEnd, w.timeout}
		}
	}
	rep.Extra["observed_windows"] = wj
}
