//go:build verif

package tbtc

// C35 conformance harness (see /verif/specs/SigningDone).
//
//   TestVerif_C35_Replay      every delivery history emitted by
//                             Gen_SigningDone is fed, message by message, to a
//                             real signingDoneCheck (real listener goroutine,
//                             real group.MembershipValidator over real
//                             operator keys, fake broadcast channel). After
//                             every message doneSigners is compared with the
//                             specification's confirmations; the value
//                             returned by the real waitUntilAllDone is
//                             compared with the specification's check, once
//                             with the waiter started after the last message
//                             ("late") and once with the waiter running from
//                             the start ("eager").
//   TestVerif_C35_Concurrent  random histories delivered by several goroutines
//                             while the waiter runs; the listener's dequeues,
//                             snapshots of doneSigners and the waiter's return
//                             are recorded for Trace_SigningDone. The same
//                             test is also run under the Go race detector.
//
// Abstraction function: operator key k of the specification = k-th generated
// secp256k1 operator key (0 = an operator that holds no seat); seat s = member
// index s; msg right/wrong = big.Int 100/101; att right/wrong = attempt 2/3;
// signature "A"/"B" = two distinct tecdsa.Signature values, "nil" = nil.

import (
	"context"
	"encoding/json"
	"fmt"
	"math/big"
	"os"
	"path/filepath"
	"sort"
	"strings"
	"sync"
	"testing"
	"time"

	"github.com/keep-network/keep-core/internal/testutils"
	kit "github.com/keep-network/keep-core/internal/verifkit"
	"github.com/keep-network/keep-core/pkg/chain"
	"github.com/keep-network/keep-core/pkg/chain/local_v1"
	"github.com/keep-network/keep-core/pkg/net"
	"github.com/keep-network/keep-core/pkg/operator"
	"github.com/keep-network/keep-core/pkg/protocol/group"
	"github.com/keep-network/keep-core/pkg/tecdsa"
)

// ---------------------------------------------------------------- world

type c35Cfg struct {
	Seats    int   `json:"seats"`
	Included []int `json:"included"`
	Owner    []int `json:"owner"` // Owner[s-1] = operator key of seat s
	Keys     int   `json:"keys"`  // operator keys 0..Keys-1
	Timeout  int   `json:"timeout"`
}

type c35World struct {
	cfg       c35Cfg
	pubs      [][]byte
	validator *group.MembershipValidator
	operators []chain.Address
	included  []group.MemberIndex
	incSet    map[int]bool
}

const (
	c35RightAttempt = uint64(2)
	c35WrongAttempt = uint64(3)
)

func c35RightMessage() *big.Int { return big.NewInt(100) }
func c35WrongMessage() *big.Int { return big.NewInt(101) }

func c35Sig(name string) *tecdsa.Signature {
	switch name {
	case "A":
		return &tecdsa.Signature{R: big.NewInt(200), S: big.NewInt(300), RecoveryID: 2}
	case "B":
		return &tecdsa.Signature{R: big.NewInt(201), S: big.NewInt(300), RecoveryID: 2}
	}
	return nil
}

func c35SigName(s *tecdsa.Signature) string {
	if s == nil {
		return "nil"
	}
	if s.Equals(c35Sig("A")) {
		return "A"
	}
	if s.Equals(c35Sig("B")) {
		return "B"
	}
	return "?"
}

func c35LoadWorld(t *testing.T) *c35World {
	b, err := os.ReadFile(filepath.Join(kit.InDir(), "config.json"))
	if err != nil {
		t.Fatalf("c35: config: %v", err)
	}
	w := &c35World{incSet: map[int]bool{}}
	if err := json.Unmarshal(b, &w.cfg); err != nil {
		t.Fatalf("c35: config: %v", err)
	}
	var signing chain.Signing
	pubKeys := make([]*operator.PublicKey, w.cfg.Keys)
	for k := 0; k < w.cfg.Keys; k++ {
		priv, pub, err := operator.GenerateKeyPair(local_v1.DefaultCurve)
		if err != nil {
			t.Fatal(err)
		}
		if k == 0 {
			signing = ConnectWithKey(priv).Signing()
		}
		pubKeys[k] = pub
		w.pubs = append(w.pubs, operator.MarshalUncompressed(pub))
	}
	var operators []chain.Address
	for s := 1; s <= w.cfg.Seats; s++ {
		addr, err := signing.PublicKeyToAddress(pubKeys[w.cfg.Owner[s-1]])
		if err != nil {
			t.Fatal(err)
		}
		operators = append(operators, addr)
	}
	w.operators = operators
	w.validator = group.NewMembershipValidator(&testutils.MockLogger{}, operators, signing)
	for _, s := range w.cfg.Included {
		w.included = append(w.included, group.MemberIndex(s))
		w.incSet[s] = true
	}
	return w
}

// ---------------------------------------------------------------- fakes

type c35Handler struct {
	ctx context.Context
	fn  func(m net.Message)
}

// c35Channel is a broadcast channel whose deliveries are made by the harness.
type c35Channel struct {
	mu       sync.Mutex
	handlers []*c35Handler
	sent     []net.TaggedMarshaler
}

func (c *c35Channel) Name() string { return "verif-c35" }
func (c *c35Channel) Send(ctx context.Context, m net.TaggedMarshaler, s ...net.RetransmissionStrategy) error {
	c.mu.Lock()
	c.sent = append(c.sent, m)
	c.mu.Unlock()
	return nil
}
func (c *c35Channel) Recv(ctx context.Context, handler func(m net.Message)) {
	c.mu.Lock()
	c.handlers = append(c.handlers, &c35Handler{ctx, handler})
	c.mu.Unlock()
}
func (c *c35Channel) SetUnmarshaler(func() net.TaggedUnmarshaler)     {}
func (c *c35Channel) SetFilter(filter net.BroadcastChannelFilter) error { return nil }

// deliver hands the message to every handler whose context is alive (the
// documented contract of Recv); returns how many handlers got it.
func (c *c35Channel) deliver(m net.Message) int {
	c.mu.Lock()
	hs := append([]*c35Handler{}, c.handlers...)
	c.mu.Unlock()
	n := 0
	for _, h := range hs {
		if h.ctx.Err() == nil {
			h.fn(m)
			n++
		}
	}
	return n
}

type c35TransportID string

func (t c35TransportID) String() string { return string(t) }

// c35NetMsg is a received network message. onPayload runs on the listener
// goroutine at the moment the listener starts processing the message.
type c35NetMsg struct {
	pub       []byte
	payload   interface{}
	onPayload func()
	once      sync.Once
}

func (m *c35NetMsg) TransportSenderID() net.TransportIdentifier { return c35TransportID("x") }
func (m *c35NetMsg) SenderPublicKey() []byte                    { return m.pub }
func (m *c35NetMsg) Payload() interface{} {
	if m.onPayload != nil {
		m.once.Do(m.onPayload)
	}
	return m.payload
}
func (m *c35NetMsg) Type() string  { return "tbtc/signing_done_message" }
func (m *c35NetMsg) Seqno() uint64 { return 0 }

type c35Foreign struct{}

// c35M is a message of the specification's alphabet.
type c35M struct {
	Key int    `json:"key"`
	Sid int    `json:"sid"`
	Msg bool   `json:"msg"`
	Att bool   `json:"att"`
	End int    `json:"end"`
	Sig string `json:"sig"`
}

func c35MOf(v kit.V) c35M {
	return c35M{Key: v.Get("key").Int(), Sid: v.Get("sid").Int(), Msg: v.Get("msg").Bool(),
		Att: v.Get("att").Bool(), End: v.Get("end").Int(), Sig: v.Get("sig").Str()}
}

func (w *c35World) netMsg(m c35M, onPayload func()) *c35NetMsg {
	p := &signingDoneMessage{
		senderID:      group.MemberIndex(m.Sid),
		message:       c35WrongMessage(),
		attemptNumber: c35WrongAttempt,
		signature:     c35Sig(m.Sig),
		endBlock:      uint64(m.End),
	}
	if m.Msg {
		p.message = c35RightMessage()
	}
	if m.Att {
		p.attemptNumber = c35RightAttempt
	}
	return &c35NetMsg{pub: w.pubs[m.Key], payload: p, onPayload: onPayload}
}

// reason names the first test of the contract the message fails (descriptive
// only; the verdicts come from the specification's expected values).
func (w *c35World) reason(m c35M, have map[int]bool) string {
	switch {
	case have[m.Sid]:
		return "duplicate"
	case m.Sid < 1 || m.Sid > w.cfg.Seats || w.cfg.Owner[m.Sid-1] != m.Key:
		return "not-the-seat-owner"
	case !w.incSet[m.Sid]:
		return "excluded-member"
	case !m.Msg:
		return "wrong-message"
	case !m.Att:
		return "wrong-attempt"
	case m.End > w.cfg.Timeout:
		return "late-end-block"
	case m.Sig == "nil":
		return "nil-signature"
	}
	return "valid"
}

// ---------------------------------------------------------------- one run

type c35Conf struct {
	Seat int    `json:"seat"`
	Sig  string `json:"sig"`
	End  int    `json:"end"`
}

type c35Ret struct {
	O   string `json:"o"`
	Sig string `json:"sig"`
	End int    `json:"end"`
	Err string `json:"err,omitempty"`
}

type c35Run struct {
	w       *c35World
	ch      *c35Channel
	sdc     *signingDoneCheck
	ctx     context.Context
	cancel  context.CancelFunc
	retDone chan struct{}
	ret     c35Ret
	started bool
}

func (w *c35World) newRun() *c35Run {
	r := &c35Run{w: w, ch: &c35Channel{}, retDone: make(chan struct{})}
	r.sdc = newSigningDoneCheck(w.cfg.Seats, r.ch, w.validator)
	r.ctx, r.cancel = context.WithCancel(context.Background())
	r.sdc.listen(r.ctx, c35RightMessage(), c35RightAttempt, uint64(w.cfg.Timeout), w.included)
	return r
}

func (r *c35Run) startWaiter(onReturn func(c35Ret)) {
	r.started = true
	go func() {
		var ret c35Ret
		func() {
			defer func() {
				if p := recover(); p != nil {
					ret = c35Ret{O: "panic", Sig: "nil", Err: fmt.Sprint(p)}
				}
			}()
			res, end, err := r.sdc.waitUntilAllDone(r.ctx)
			switch {
			case err == nil:
				ret = c35Ret{O: "done", End: int(end), Sig: "nil"}
				if res != nil {
					ret.Sig = c35SigName(res.Signature)
				}
			case err == errWaitDoneTimedOut:
				ret = c35Ret{O: "timeout", Sig: "nil", End: int(end)}
				if res != nil {
					ret.Sig = c35SigName(res.Signature)
				}
			case strings.Contains(err.Error(), "not matching signatures"):
				ret = c35Ret{O: "mismatch", Sig: "nil", End: int(end)}
				if res != nil {
					ret.Sig = c35SigName(res.Signature)
				}
			default:
				ret = c35Ret{O: "error", Sig: "nil", End: int(end), Err: err.Error()}
			}
		}()
		if onReturn != nil {
			onReturn(ret)
		}
		r.ret = ret
		close(r.retDone)
	}()
}

func (r *c35Run) returned() bool {
	select {
	case <-r.retDone:
		return true
	default:
		return false
	}
}

func (r *c35Run) awaitReturn(d time.Duration) bool {
	select {
	case <-r.retDone:
		return true
	case <-time.After(d):
		return false
	}
}

// snapshot reads doneSigners the way the listener writes it: under the mutex.
func (r *c35Run) snapshot() []c35Conf {
	r.sdc.doneSignersMutex.Lock()
	defer r.sdc.doneSignersMutex.Unlock()
	out := []c35Conf{}
	for seat, dm := range r.sdc.doneSigners {
		out = append(out, c35Conf{Seat: int(seat), Sig: c35SigName(dm.signature), End: int(dm.endBlock)})
	}
	sort.Slice(out, func(i, j int) bool { return out[i].Seat < out[j].Seat })
	return out
}

func (r *c35Run) counts() (int, int) {
	r.sdc.doneSignersMutex.Lock()
	defer r.sdc.doneSignersMutex.Unlock()
	return len(r.sdc.doneSigners), r.sdc.expectedSignersCount
}

// sync waits until the listener goroutine has processed everything delivered
// so far (a marker message behind them was dequeued). Returns "synced",
// "returned" (the waiter returned first; the listener may be gone) or
// "stuck".
func (r *c35Run) sync() string {
	done := make(chan struct{})
	n := r.ch.deliver(&c35NetMsg{payload: &c35Foreign{}, onPayload: func() { close(done) }})
	if n == 0 {
		return "returned"
	}
	select {
	case <-done:
		return "synced"
	case <-r.retDone:
		// the receive context was cancelled by the returning waiter; give the
		// marker a moment in case the listener is still draining
		select {
		case <-done:
			return "synced"
		case <-time.After(20 * time.Millisecond):
			return "returned"
		}
	case <-time.After(120 * time.Second):
		return "stuck"
	}
}

// finish obtains the waiter's return value. expWaiting tells whether the
// specification says the confirmations are incomplete (then the run is ended
// by cancelling the context = the attempt's timeout block). The only
// wall-clock decisions are grace periods that can make a misbehaviour go
// unnoticed, never invent one: a return value is always one really produced
// by waitUntilAllDone, and the context is cancelled only when the real
// confirmation count differs from the expected count (no further message can
// arrive, so the code could not complete any more).
func (r *c35Run) finish(grace time.Duration) (c35Ret, string) {
	if r.awaitReturn(grace) {
		return r.ret, ""
	}
	n, e := r.counts()
	if n == e {
		// the real state is complete by the code's own criterion: the next
		// tick must return; wait without a (relevant) bound
		if !r.awaitReturn(180 * time.Second) {
			return c35Ret{}, "waitUntilAllDone did not return although len(doneSigners) == expectedSignersCount"
		}
		return r.ret, ""
	}
	r.cancel()
	if !r.awaitReturn(180 * time.Second) {
		return c35Ret{}, "waitUntilAllDone did not return after its context was cancelled"
	}
	return r.ret, ""
}

func (r *c35Run) close() { r.cancel() }

func c35ConfOf(v kit.V) []c35Conf {
	out := []c35Conf{}
	for _, e := range v.List() {
		out = append(out, c35Conf{Seat: e.Get("seat").Int(), Sig: e.Get("sig").Str(), End: e.Get("end").Int()})
	}
	sort.Slice(out, func(i, j int) bool { return out[i].Seat < out[j].Seat })
	return out
}

func c35SameConf(a, b []c35Conf) bool {
	if len(a) != len(b) {
		return false
	}
	for i := range a {
		if a[i] != b[i] {
			return false
		}
	}
	return true
}

// expected return value for a check outcome of the specification
func c35ExpRet(chk kit.V) c35Ret {
	o := chk.Get("o").Str()
	if o == "waiting" {
		return c35Ret{O: "timeout", Sig: "nil", End: 0}
	}
	return c35Ret{O: o, Sig: chk.Get("sig").Str(), End: chk.Get("end").Int()}
}

// ---------------------------------------------------------------- replay

type c35Div struct {
	length int
	idx    int
	key    string
	what   string
	c      interface{}
	exp    interface{}
	obs    interface{}
}

type c35Hist struct {
	idx   int
	steps []kit.V
}

func (h c35Hist) msgs() []c35M {
	out := make([]c35M, len(h.steps))
	for i, s := range h.steps {
		out[i] = c35MOf(s.Get("m"))
	}
	return out
}

func TestVerif_C35_Replay(t *testing.T) {
	kit.RequireEngine(t)
	rep := kit.NewReport("C35", "replay")
	defer rep.Write(t)
	w := c35LoadWorld(t)

	var hists []c35Hist
	for _, line := range kit.LoadCases(t, "histories.ndjson") {
		prefix := line.Get("prefix").List()
		for _, nx := range line.Get("next").List() {
			steps := append(append([]kit.V{}, prefix...), nx)
			hists = append(hists, c35Hist{steps: steps})
		}
	}
	sort.SliceStable(hists, func(i, j int) bool { return len(hists[i].steps) < len(hists[j].steps) })
	if max := kit.IntEnv("VERIF_MAX_HIST", 0); max > 0 && len(hists) > max {
		// keep every short history, sample the longest ones
		rnd := kit.Rand(35)
		keep := hists[:0:0]
		longest := len(hists[len(hists)-1].steps)
		var long []c35Hist
		for _, h := range hists {
			if len(h.steps) < longest {
				keep = append(keep, h)
			} else {
				long = append(long, h)
			}
		}
		rnd.Shuffle(len(long), func(i, j int) { long[i], long[j] = long[j], long[i] })
		room := max - len(keep)
		if room < 0 {
			room = 0
		}
		if room < len(long) {
			long = long[:room]
		}
		hists = append(keep, long...)
	}
	for i := range hists {
		hists[i].idx = i
	}
	rep.Extra["histories"] = len(hists)

	var mu sync.Mutex
	var divs []c35Div
	var harnessErr string
	addDiv := func(d c35Div) { mu.Lock(); divs = append(divs, d); mu.Unlock() }
	fail := func(s string) {
		mu.Lock()
		if harnessErr == "" {
			harnessErr = s
		}
		mu.Unlock()
	}
	grace := time.Duration(kit.IntEnv("VERIF_GRACE_MS", 260)) * time.Millisecond

	one := func(h c35Hist, mode string) {
		msgs := h.msgs()
		defer func() {
			if p := recover(); p != nil {
				addDiv(c35Div{len(h.steps), h.idx, "panic:" + mode, fmt.Sprintf("signingDoneCheck panicked: %v", p), msgs, nil, nil})
			}
		}()
		r := w.newRun()
		defer r.close()
		if mode == "eager" {
			r.startWaiter(nil)
		}
		have := map[int]bool{}
		stateDiverged := false
		prevGot := []c35Conf{}
		checkRet := func(i int, exp c35Ret, got c35Ret) {
			if got == exp {
				return
			}
			key := fmt.Sprintf("result:%s->%s", exp.O, got.O)
			what := fmt.Sprintf("waitUntilAllDone returned %s (signature %s, end block %d) where the specification yields %s (signature %s, end block %d) after message %d of the history",
				got.O, got.Sig, got.End, exp.O, exp.Sig, exp.End, i+1)
			if exp.O == "timeout" && got.O == "done" {
				what = "a signature was reported although not every included member confirmed: " + what
			}
			if exp.O == "done" && got.O == "timeout" {
				what = "completion never reported although every included member confirmed the same signature in time: " + what
			}
			addDiv(c35Div{len(h.steps), h.idx, key, what, map[string]interface{}{"mode": mode, "history": msgs, "included": w.cfg.Included, "doneSigners": r.snapshot()}, exp, got})
		}
		for i, st := range h.steps {
			m := msgs[i]
			reason := w.reason(m, have)
			r.ch.deliver(w.netMsg(m, nil))
			s := r.sync()
			if s == "stuck" {
				fail("listener goroutine did not process a delivered message within 120 s")
				return
			}
			if s == "returned" {
				// eager mode: the waiter returned while this message was in
				// flight. The previous prefix was "waiting" (otherwise the
				// replay would have stopped there), so the value must be the
				// specification's check after this message.
				if !r.awaitReturn(180 * time.Second) {
					fail("receive context cancelled but waitUntilAllDone did not return")
					return
				}
				checkRet(i, c35ExpRet(st.Get("chk")), r.ret)
				return
			}
			got := r.snapshot()
			exp := c35ConfOf(st.Get("conf"))
			if !stateDiverged && !c35SameConf(got, exp) {
				// attribute the divergence to this message: what did the
				// listener do with it (doneSigners before vs. after)?
				stateDiverged = true
				stored := len(got) > len(prevGot)
				var key, what string
				switch {
				case !st.Get("ok").Bool() && stored:
					key = "accept:stored:" + reason
					what = fmt.Sprintf("the listener stored a confirmation the contract rejects (%s): %+v", reason, m)
				case st.Get("ok").Bool() && !stored:
					key = "accept:dropped-valid"
					what = fmt.Sprintf("the listener dropped a valid confirmation: %+v", m)
				default:
					key = "accept:state"
					what = fmt.Sprintf("doneSigners differs from the specification after %+v", m)
				}
				addDiv(c35Div{len(h.steps), h.idx, key, what, map[string]interface{}{"mode": mode, "history": msgs, "step": i + 1, "included": w.cfg.Included}, exp, got})
				// continue: the result comparison below shows the consequence
			}
			prevGot = got
			if st.Get("ok").Bool() {
				have[m.Sid] = true
			}
			if mode == "eager" {
				if r.returned() {
					checkRet(i, c35ExpRet(st.Get("chk")), r.ret)
					return
				}
				if st.Get("chk").Get("o").Str() != "waiting" {
					ret, herr := r.finish(grace)
					if herr != "" {
						fail(herr)
						return
					}
					checkRet(i, c35ExpRet(st.Get("chk")), ret)
					return
				}
			}
		}
		if mode == "late" {
			r.startWaiter(nil)
		}
		ret, herr := r.finish(grace)
		if herr != "" {
			fail(herr)
			return
		}
		checkRet(len(h.steps)-1, c35ExpRet(h.steps[len(h.steps)-1].Get("chk")), ret)
	}

	par := kit.IntEnv("VERIF_PAR", 1500)
	sem := make(chan struct{}, par)
	var wg sync.WaitGroup
	for _, h := range hists {
		for _, mode := range []string{"late", "eager"} {
			wg.Add(1)
			sem <- struct{}{}
			go func(h c35Hist, mode string) {
				defer wg.Done()
				defer func() { <-sem }()
				one(h, mode)
			}(h, mode)
		}
		key := ""
		last := h.steps[len(h.steps)-1]
		nontrivial := last.Get("chk").Get("o").Str() != "waiting"
		for _, st := range h.steps {
			if st.Get("ok").Bool() {
				nontrivial = true
			}
		}
		if nontrivial {
			key = kit.Hash(h.msgs())
		}
		var sample interface{}
		if last.Get("chk").Get("o").Str() == "done" {
			sample = map[string]interface{}{"history": h.msgs(), "expected": last.Get("chk").X}
		}
		rep.Eval(key, sample)
	}
	wg.Wait()
	if harnessErr != "" {
		t.Fatalf("c35 harness: %s", harnessErr)
	}
	sort.SliceStable(divs, func(i, j int) bool {
		if divs[i].length != divs[j].length {
			return divs[i].length < divs[j].length
		}
		return divs[i].idx < divs[j].idx
	})
	perKey := map[string]int{}
	for _, d := range divs {
		perKey[d.key]++
		if perKey[d.key] <= 3 {
			rep.Diverge(d.key, d.what, d.c, d.exp, d.obs)
		}
	}
	for k, n := range perKey {
		rep.Count("div:"+k, n)
	}
}

// ---------------------------------------------------------------- concurrent

type c35Log struct {
	mu     sync.Mutex
	closed bool
	ev     []map[string]interface{}
}

func (l *c35Log) add(ev map[string]interface{}) {
	l.mu.Lock()
	if !l.closed {
		l.ev = append(l.ev, ev)
	}
	l.mu.Unlock()
}

func TestVerif_C35_Concurrent(t *testing.T) {
	kit.RequireEngine(t)
	rep := kit.NewReport("C35", "concurrent")
	defer rep.Write(t)
	w := c35LoadWorld(t)
	tr := kit.NewTracer(t, "trace_signingdone")
	defer tr.Close()

	runs := kit.IntEnv("VERIF_RUNS", 100)
	par := kit.IntEnv("VERIF_PAR", 64)
	logs := make([]*c35Log, runs)
	var mu sync.Mutex
	var harnessErr string
	fail := func(s string) {
		mu.Lock()
		if harnessErr == "" {
			harnessErr = s
		}
		mu.Unlock()
	}

	one := func(idx int) {
		rnd := kit.Rand(int64(3500 + idx))
		lg := &c35Log{}
		logs[idx] = lg
		// the history
		n := 2 + rnd.Intn(7)
		var msgs []c35M
		sigBias := "A"
		for i := 0; i < n; i++ {
			var m c35M
			if rnd.Intn(100) < 55 {
				// a well-formed confirmation of a random seat by its owner
				s := 1 + rnd.Intn(w.cfg.Seats)
				if rnd.Intn(100) < 70 && len(w.cfg.Included) > 0 {
					s = w.cfg.Included[rnd.Intn(len(w.cfg.Included))]
				}
				sig := sigBias
				if rnd.Intn(100) < 12 {
					sig = "B"
				}
				m = c35M{Key: w.cfg.Owner[s-1], Sid: s, Msg: true, Att: true, End: w.cfg.Timeout - rnd.Intn(4), Sig: sig}
			} else {
				m = c35M{Key: rnd.Intn(w.cfg.Keys), Sid: 1 + rnd.Intn(w.cfg.Seats+1), Msg: rnd.Intn(4) != 0, Att: rnd.Intn(4) != 0,
					End: w.cfg.Timeout - 2 + rnd.Intn(4), Sig: []string{"A", "A", "B", "nil"}[rnd.Intn(4)]}
			}
			msgs = append(msgs, m)
		}
		// make sure many runs can complete: append the included members' confirmations
		if rnd.Intn(100) < 60 {
			for _, s := range w.cfg.Included {
				msgs = append(msgs, c35M{Key: w.cfg.Owner[s-1], Sid: s, Msg: true, Att: true, End: w.cfg.Timeout - rnd.Intn(3), Sig: "A"})
			}
			rnd.Shuffle(len(msgs), func(i, j int) { msgs[i], msgs[j] = msgs[j], msgs[i] })
		}
		k := 1 + rnd.Intn(3)
		maxSleep := []int{0, 5, 40, 130}[rnd.Intn(4)]
		sleeps := make([]time.Duration, len(msgs))
		for i := range sleeps {
			if maxSleep > 0 {
				sleeps[i] = time.Duration(rnd.Intn(maxSleep*1000)) * time.Microsecond
			}
		}
		foreign := make([]bool, len(msgs))
		for i := range foreign {
			foreign[i] = rnd.Intn(10) == 0
		}

		r := w.newRun()
		defer r.close()
		lg.add(map[string]interface{}{"event": "Reset", "run": idx})
		r.startWaiter(func(ret c35Ret) {
			lg.add(map[string]interface{}{"event": "Return", "o": ret.O, "sig": ret.Sig, "end": ret.End, "err": ret.Err})
		})
		marker := func() *c35NetMsg {
			return &c35NetMsg{payload: &c35Foreign{}, onPayload: func() {
				// runs on the listener goroutine between two messages
				lg.add(map[string]interface{}{"event": "Sync", "conf": r.snapshot()})
			}}
		}
		var wg sync.WaitGroup
		for g := 0; g < k; g++ {
			wg.Add(1)
			go func(g int) {
				defer wg.Done()
				for i := g; i < len(msgs); i += k {
					if sleeps[i] > 0 {
						time.Sleep(sleeps[i])
					}
					m := msgs[i]
					if foreign[i] {
						r.ch.deliver(&c35NetMsg{payload: &c35Foreign{}, onPayload: func() {
							lg.add(map[string]interface{}{"event": "DeqOther"})
						}})
						continue
					}
					r.ch.deliver(w.netMsg(m, func() {
						lg.add(map[string]interface{}{"event": "Deq", "key": m.Key, "sid": m.Sid, "msg": m.Msg,
							"att": m.Att, "end": m.End, "sig": m.Sig})
					}))
					if i%2 == 0 {
						r.ch.deliver(marker())
					}
				}
			}(g)
		}
		wg.Wait()
		if s := r.sync(); s == "stuck" {
			fail("listener goroutine did not process the delivered messages within 120 s")
			return
		} else if s == "synced" {
			lg.add(map[string]interface{}{"event": "Sync", "conf": r.snapshot()})
		}
		if _, herr := r.finish(260 * time.Millisecond); herr != "" {
			fail(herr)
			return
		}
		// the listener may still drain buffered messages after the return;
		// those late events carry no information for the property
		lg.mu.Lock()
		lg.closed = true
		lg.mu.Unlock()
		key := ""
		if r.ret.O != "timeout" {
			key = fmt.Sprintf("run%d", idx)
		}
		rep.Eval(key, nil)
		rep.Count("outcome:"+r.ret.O, 1)
		if r.ret.O == "panic" {
			rep.Diverge("panic:concurrent", "signingDoneCheck panicked: "+r.ret.Err, msgs, nil, r.ret)
		}
	}

	sem := make(chan struct{}, par)
	var wg sync.WaitGroup
	for i := 0; i < runs; i++ {
		wg.Add(1)
		sem <- struct{}{}
		go func(i int) {
			defer wg.Done()
			defer func() { <-sem }()
			one(i)
		}(i)
	}
	wg.Wait()
	if harnessErr != "" {
		t.Fatalf("c35 harness: %s", harnessErr)
	}
	for _, lg := range logs {
		if lg == nil {
			continue
		}
		for _, ev := range lg.ev {
			tr.Emit(ev)
		}
	}
	rep.Extra["events"] = tr.N()
}
