//go:build verif

package tbtc

// C13 conformance harness, pkg/tbtc part (specs/Support):
//
//   TestVerif_C13_TbtcSigners  the production signers (dkgResultSigner,
//        inactivityClaimSigner) on every realization of the specification's
//        signature classes: "valid" must verify, every "invalid" realization
//        (other key, other hash, truncated, empty, foreign public key) must
//        not.
//   TestVerif_C13_TbtcGates    the production submitters
//        (dkgResultSubmitter.SubmitResult, inactivityClaimSubmitter.SubmitClaim)
//        for every (n, h, q, m) of gates.ndjson with q <= m <= n, where m is the
//        ACTUAL size of the signing group (inactivity: a wallet of m members,
//        i.e. len(groupMembers) = m; DKG result: m operating members, the other
//        n - m marked inactive / disqualified) and (n, h, q) the nominal group
//        parameters, with signature maps of every size 0..m: the chain sees a
//        submission iff the size reaches the NOMINAL threshold of the
//        specification, and the signing members handed to the chain are
//        exactly the map's keys.

import (
	"context"
	"fmt"
	"math/big"
	"sort"
	"testing"

	"github.com/keep-network/keep-core/internal/testutils"
	kit "github.com/keep-network/keep-core/internal/verifkit"
	"github.com/keep-network/keep-core/pkg/chain"
	"github.com/keep-network/keep-core/pkg/internal/tecdsatest"
	"github.com/keep-network/keep-core/pkg/protocol/group"
	"github.com/keep-network/keep-core/pkg/protocol/inactivity"
	"github.com/keep-network/keep-core/pkg/tecdsa"
	"github.com/keep-network/keep-core/pkg/tecdsa/dkg"
)

type c13Chain struct {
	*localChain
	results []*DKGChainResult
	claims  []*InactivityClaim
}

func (c *c13Chain) GetDKGState() (DKGState, error)                   { return AwaitingResult, nil }
func (c *c13Chain) IsDKGResultValid(r *DKGChainResult) (bool, error) { return true, nil }
func (c *c13Chain) SubmitDKGResult(r *DKGChainResult) error {
	c.results = append(c.results, r)
	return nil
}
func (c *c13Chain) GetWallet(pkh [20]byte) (*WalletChainData, error) {
	return &WalletChainData{EcdsaWalletID: [32]byte{3}, State: StateLive}, nil
}
func (c *c13Chain) GetInactivityClaimNonce(id [32]byte) (*big.Int, error) { return big.NewInt(9), nil }
func (c *c13Chain) SubmitInactivityClaim(cl *InactivityClaim, nonce *big.Int, members []uint32) error {
	c.claims = append(c.claims, cl)
	return nil
}

func c13Wait(ctx context.Context, b uint64) error { return nil }

func c13SigMap(k int) map[group.MemberIndex][]byte {
	m := map[group.MemberIndex][]byte{}
	for i := 1; i <= k; i++ {
		m[group.MemberIndex(i)] = []byte{byte(i), 0xee}
	}
	return m
}

func c13Indexes(x []group.MemberIndex) []int {
	out := make([]int, len(x))
	for i, v := range x {
		out[i] = int(v)
	}
	sort.Ints(out)
	return out
}

func TestVerif_C13_TbtcGates(t *testing.T) {
	kit.RequireEngine(t)
	rep := kit.NewReport("C13", "tbtc_gates")
	defer rep.Write(t)
	base := Connect()
	data, err := tecdsatest.LoadPrivateKeyShareTestFixtures(1)
	if err != nil {
		t.Fatal(err)
	}
	share := tecdsa.NewPrivateKeyShare(data[0])
	addr, err := base.operatorAddress()
	if err != nil {
		t.Fatal(err)
	}
	opID, err := base.GetOperatorID(addr)
	if err != nil {
		t.Fatal(err)
	}
	ctx := context.Background()
	for _, gset := range kit.LoadCases(t, "gates.ndjson") {
		for _, g := range gset.List() {
			proto, n, h, q, thr := g.Get("proto").Str(), g.Get("n").Int(), g.Get("h").Int(), g.Get("q").Int(), g.Get("threshold").Int()
			m := g.Get("m").Int()
			if (proto != "tecdsa" && proto != "inactivity") || m < q || m > n {
				continue
			}
			gp := &GroupParameters{GroupSize: n, GroupQuorum: q, HonestThreshold: h}
			for k := 0; k <= m; k++ {
				ch := &c13Chain{localChain: base}
				sigs := c13SigMap(k)
				var err error
				var handed []int
				did := false
				func() {
					defer func() {
						if r := recover(); r != nil {
							err = fmt.Errorf("panic: %v", r)
						}
					}()
					if proto == "tecdsa" {
						ids := make(chain.OperatorIDs, n)
						addrs := make(chain.Addresses, n)
						for i := range ids {
							ids[i], addrs[i] = opID, addr
						}
						sub := newDkgResultSubmitter(&testutils.MockLogger{}, ch, gp, &GroupSelectionResult{OperatorsIDs: ids, OperatorsAddresses: addrs}, c13Wait)
						grp := group.NewGroup(n-h, n)
						for x := m + 1; x <= n; x++ { // n - m members misbehaved during the DKG
							if x%2 == 0 {
								grp.MarkMemberAsInactive(group.MemberIndex(x))
							} else {
								grp.MarkMemberAsDisqualified(group.MemberIndex(x))
							}
						}
						err = sub.SubmitResult(ctx, 1, &dkg.Result{Group: grp, PrivateKeyShare: share}, sigs)
						if len(ch.results) == 1 {
							did = true
							handed = c13Indexes(ch.results[0].SigningMembersIndexes)
						}
					} else {
						members := make([]uint32, m) // the wallet has m members
						sub := newInactivityClaimSubmitter(&testutils.MockLogger{}, ch, gp, members, c13Wait)
						claim := inactivity.NewClaimPreimage(big.NewInt(9), share.PublicKey(), []group.MemberIndex{2}, false)
						err = sub.SubmitClaim(ctx, 1, claim, sigs)
						if len(ch.claims) == 1 {
							did = true
							handed = c13Indexes(ch.claims[0].SigningMembersIndices)
						}
					}
				}()
				want := k >= thr
				key := fmt.Sprintf("%s:gate:n=%d,h=%d,q=%d,m=%d,k=%d", proto, n, h, q, m, k)
				rep.Eval(key, map[string]interface{}{"proto": proto, "n": n, "h": h, "q": q, "m": m, "k": k, "submitted": did})
				if m < n {
					rep.Count(proto+".gate.smallgroup", 1)
				}
				rep.Count(fmt.Sprintf("%s.gate.%v", proto, want), 1)
				if did != want || (want && err != nil) || (!want && err == nil) || len(ch.results)+len(ch.claims) > 1 {
					rep.Diverge(key, fmt.Sprintf("%s: %d supporting signatures, n=%d honest=%d quorum=%d (gate %d): submitted=%v err=%v, specification submits=%v",
						proto, k, n, h, q, thr, did, err, want)+fmt.Sprintf(" [signing group of %d members]", m), g.X, want, did)
					continue
				}
				if did {
					exp := make([]int, k)
					for i := range exp {
						exp[i] = i + 1
					}
					if fmt.Sprint(exp) != fmt.Sprint(handed) {
						rep.Diverge(key+":members", fmt.Sprintf("%s: the chain was handed signatures of members %v, the map held %v", proto, handed, exp), g.X, exp, handed)
					}
				}
			}
		}
		if rep.NDivergences() >= 10 {
			break
		}
	}
}

func TestVerif_C13_TbtcSigners(t *testing.T) {
	kit.RequireEngine(t)
	rep := kit.NewReport("C13", "tbtc_signers")
	defer rep.Write(t)
	a, b := Connect(), Connect()
	data, err := tecdsatest.LoadPrivateKeyShareTestFixtures(1)
	if err != nil {
		t.Fatal(err)
	}
	share := tecdsa.NewPrivateKeyShare(data[0])
	resA := &dkg.Result{Group: group.NewGroup(1, 4), PrivateKeyShare: share}
	resB := &dkg.Result{Group: group.NewGroup(1, 4), PrivateKeyShare: share}
	resB.Group.MarkMemberAsInactive(3)
	claimA := inactivity.NewClaimPreimage(big.NewInt(1), share.PublicKey(), []group.MemberIndex{2}, true)
	claimB := inactivity.NewClaimPreimage(big.NewInt(1), share.PublicKey(), []group.MemberIndex{3}, true)

	type signed struct {
		pub, sig []byte
		hash     [32]byte
	}
	type variant struct {
		name  string
		class string // specification class of the signature
		make  func(own, otherHash, otherKey signed) signed
	}
	variants := []variant{
		{"own", "valid", func(o, oh, ok signed) signed { return o }},
		{"sig-by-other-key", "invalid", func(o, oh, ok signed) signed { return signed{o.pub, ok.sig, o.hash} }},
		{"sig-over-other-hash", "invalid", func(o, oh, ok signed) signed { return signed{o.pub, oh.sig, o.hash} }},
		{"hash-replaced", "invalid", func(o, oh, ok signed) signed { return signed{o.pub, o.sig, oh.hash} }},
		{"key-replaced", "invalid", func(o, oh, ok signed) signed { return signed{ok.pub, o.sig, o.hash} }},
		{"sig-truncated", "invalid", func(o, oh, ok signed) signed { return signed{o.pub, o.sig[:len(o.sig)-1], o.hash} }},
		{"sig-empty", "invalid", func(o, oh, ok signed) signed { return signed{o.pub, []byte{}, o.hash} }},
		{"key-garbage", "invalid", func(o, oh, ok signed) signed { return signed{[]byte("not a key"), o.sig, o.hash} }},
		{"other-signer-consistent", "valid", func(o, oh, ok signed) signed { return ok }},
	}
	check := func(proto string, verify func(s signed) (bool, error), own, otherHash, otherKey signed) {
		for _, v := range variants {
			s := v.make(own, otherHash, otherKey)
			var ok bool
			var err error
			func() {
				defer func() {
					if r := recover(); r != nil {
						err = fmt.Errorf("panic: %v", r)
						rep.Diverge(proto+":signer-panic:"+v.name, fmt.Sprintf("%s signer panicked on %s: %v", proto, v.name, r), nil, nil, nil)
					}
				}()
				ok, err = verify(s)
			}()
			accepted := ok && err == nil
			key := proto + ":signer:" + v.name
			rep.Eval(key, map[string]interface{}{"proto": proto, "variant": v.name, "ok": ok, "err": fmt.Sprint(err)})
			if accepted != (v.class == "valid") {
				rep.Diverge(key, fmt.Sprintf("%s signer: signature realization %q (class %s) verified=%v err=%v", proto, v.name, v.class, ok, err),
					v.name, v.class == "valid", accepted)
			}
		}
	}
	// DKG result signer
	sa, sb := newDkgResultSigner(a, 100), newDkgResultSigner(b, 100)
	own, err := sa.SignResult(resA)
	if err != nil {
		t.Fatal(err)
	}
	oh, err := sa.SignResult(resB)
	if err != nil {
		t.Fatal(err)
	}
	okk, err := sb.SignResult(resA)
	if err != nil {
		t.Fatal(err)
	}
	if own.ResultHash == oh.ResultHash || own.ResultHash != okk.ResultHash {
		t.Fatalf("harness: result hashes not as intended")
	}
	check("tecdsa", func(s signed) (bool, error) {
		return sa.VerifySignature(&dkg.SignedResult{PublicKey: s.pub, Signature: s.sig, ResultHash: s.hash})
	}, signed{own.PublicKey, own.Signature, own.ResultHash}, signed{oh.PublicKey, oh.Signature, oh.ResultHash},
		signed{okk.PublicKey, okk.Signature, okk.ResultHash})
	// inactivity claim signer
	ia, ib := newInactivityClaimSigner(a), newInactivityClaimSigner(b)
	iown, err := ia.SignClaim(claimA)
	if err != nil {
		t.Fatal(err)
	}
	ioh, err := ia.SignClaim(claimB)
	if err != nil {
		t.Fatal(err)
	}
	iok, err := ib.SignClaim(claimA)
	if err != nil {
		t.Fatal(err)
	}
	if iown.ClaimHash == ioh.ClaimHash || iown.ClaimHash != iok.ClaimHash {
		t.Fatalf("harness: claim hashes not as intended")
	}
	check("inactivity", func(s signed) (bool, error) {
		return ia.VerifySignature(&inactivity.SignedClaimHash{PublicKey: s.pub, Signature: s.sig, ClaimHash: s.hash})
	}, signed{iown.PublicKey, iown.Signature, iown.ClaimHash}, signed{ioh.PublicKey, ioh.Signature, ioh.ClaimHash},
		signed{iok.PublicKey, iok.Signature, iok.ClaimHash})
}
