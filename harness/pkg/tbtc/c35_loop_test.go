//go:build verif

package tbtc

// C35, multi-attempt layer (see /verif/specs/SigningDone/SigningDoneLoop.tla).
//
// The REAL signingRetryLoop.start is run together with the REAL
// signingDoneCheck (real listen / signalDone / waitUntilAllDone, real
// membership validator) over a scripted environment: a block clock behind
// waitForBlockFn / getCurrentBlockFn, a scripted announcer, a scripted attempt
// function (no tss) and a broadcast channel whose Send outcome and deliveries
// are scripted. One action of the specification = one step of the driver:
//
//   Begin          the clock reaches the announcement start block
//   AnnounceFails  the announcer returns an error
//   Select(I)      the announcer reports exactly the members I as ready
//   OwnRunFails/Ok the attempt function returns an error / a signature
//   SignalFails/Ok the channel's Send returns an error / nil
//   Deliver(m)     the channel hands m to every handler whose context is alive
//   WaitTimeout    the clock reaches the attempt's timeout block
//   Check/Mismatch the real waiter reports at its next tick (observed)
//   Stop           the loop's context is cancelled
//
// After every step the harness observes: the attempt the loop is in, which
// attempts' receivers (channel handlers) are alive, doneSigners, and what
// start returned.
//
//   TestVerif_C35_Loop       replays TLC-generated behaviours step by step.
//   TestVerif_C35_LoopTrace  random scripts (up to 4 attempts) recorded for
//                            Trace_SigningDoneLoop.

import (
	"context"
	"fmt"
	"math/big"
	"sort"
	"sync"
	"testing"
	"time"

	"github.com/keep-network/keep-core/internal/testutils"
	kit "github.com/keep-network/keep-core/internal/verifkit"
	"github.com/keep-network/keep-core/pkg/chain"
	"github.com/keep-network/keep-core/pkg/net"
	"github.com/keep-network/keep-core/pkg/protocol/group"
	"github.com/keep-network/keep-core/pkg/tecdsa/signing"
)

const (
	c35lSelf       = 1
	c35lStartBlock = uint64(100)
	c35lWait       = 180 * time.Second
)

func c35lAttemptStart(n int) uint64 {
	return c35lStartBlock + uint64(n-1)*uint64(signingAttemptMaximumBlocks())
}
func c35lAnnStart(n int) uint64 { return c35lAttemptStart(n) + signingAttemptAnnouncementDelayBlocks }
func c35lTimeout(n int) uint64 {
	return c35lAnnStart(n) + signingAttemptAnnouncementActiveBlocks + signingAttemptMaximumProtocolBlocks
}
func c35lEndOf(sid, lab int) uint64 { return c35lTimeout(lab) - uint64(sid) }

type c35lEvent struct {
	kind  string // WaitStart | Announce | Listen | Attempt | Send | Waiting | Returned
	att   int
	reply chan interface{}
	// Listen
	included []int
	timeout  uint64
	// Send
	sent *signingDoneMessage
	// Returned
	res *signingRetryLoopResult
	err error
}

type c35lHandler struct {
	att int
	ctx context.Context
	fn  func(m net.Message)
}

type c35lRig struct {
	w       *c35World
	events  chan *c35lEvent
	loopCtx context.Context
	cancel  context.CancelFunc
	sdc     *signingDoneCheck
	message *big.Int

	mu        sync.Mutex
	cond      *sync.Cond
	now       uint64
	handlers  []*c35lHandler
	listenAtt int
	listenCtx map[int]context.Context
	annCalls  int
}

// --- clock

func (r *c35lRig) setClock(b uint64) {
	r.mu.Lock()
	if b > r.now {
		r.now = b
	}
	r.cond.Broadcast()
	r.mu.Unlock()
}

func (r *c35lRig) currentBlock() (uint64, error) {
	r.mu.Lock()
	defer r.mu.Unlock()
	return r.now, nil
}

func (r *c35lRig) waitForBlock(ctx context.Context, b uint64) error {
	period := uint64(signingAttemptMaximumBlocks())
	own := false
	if b > c35lStartBlock && (b-c35lStartBlock)%period == signingAttemptAnnouncementDelayBlocks {
		own = true
		// the loop's own (synchronous) wait for an announcement start block
		n := int((b-c35lStartBlock)/period) + 1
		r.events <- &c35lEvent{kind: "WaitStart", att: n}
	}
	done := make(chan struct{})
	go func() {
		select {
		case <-ctx.Done():
			r.mu.Lock()
			r.cond.Broadcast()
			r.mu.Unlock()
		case <-done:
		}
	}()
	defer close(done)
	r.mu.Lock()
	defer r.mu.Unlock()
	for r.now < b {
		if ctx.Err() != nil {
			if own {
				return ctx.Err()
			}
			return nil // a deadline armed through withCancelOnBlock: nothing to report
		}
		r.cond.Wait()
	}
	return nil
}

// --- announcer, attempt function

func (r *c35lRig) Announce(ctx context.Context, memberIndex group.MemberIndex, sessionID string) ([]group.MemberIndex, error) {
	r.mu.Lock()
	r.annCalls++
	r.mu.Unlock()
	var att int
	for i := len(sessionID) - 1; i >= 0; i-- {
		if sessionID[i] == '-' {
			fmt.Sscanf(sessionID[i+1:], "%d", &att)
			break
		}
	}
	ev := &c35lEvent{kind: "Announce", att: att, reply: make(chan interface{}, 1)}
	r.events <- ev
	switch v := (<-ev.reply).(type) {
	case []group.MemberIndex:
		return v, nil
	case error:
		return nil, v
	}
	return nil, fmt.Errorf("verif: no script")
}

func (r *c35lRig) attemptFn(p *signingAttemptParams) (*signing.Result, uint64, error) {
	ev := &c35lEvent{kind: "Attempt", att: int(p.number), timeout: p.timeoutBlock, reply: make(chan interface{}, 1)}
	r.events <- ev
	if v, _ := (<-ev.reply).(bool); v {
		return &signing.Result{Signature: c35Sig("A")}, c35lEndOf(c35lSelf, int(p.number)), nil
	}
	return nil, 0, fmt.Errorf("verif: scripted protocol failure")
}

// --- broadcast channel

func (r *c35lRig) Name() string { return "verif-c35-loop" }
func (r *c35lRig) Send(ctx context.Context, m net.TaggedMarshaler, s ...net.RetransmissionStrategy) error {
	dm, _ := m.(*signingDoneMessage)
	att := 0
	if dm != nil {
		att = int(dm.attemptNumber)
	}
	ev := &c35lEvent{kind: "Send", att: att, sent: dm, reply: make(chan interface{}, 1)}
	r.events <- ev
	if v, _ := (<-ev.reply).(bool); v {
		return nil
	}
	return fmt.Errorf("verif: scripted send failure")
}
func (r *c35lRig) Recv(ctx context.Context, handler func(m net.Message)) {
	r.mu.Lock()
	r.handlers = append(r.handlers, &c35lHandler{att: r.listenAtt, ctx: ctx, fn: handler})
	r.mu.Unlock()
}
func (r *c35lRig) SetUnmarshaler(func() net.TaggedUnmarshaler)        {}
func (r *c35lRig) SetFilter(filter net.BroadcastChannelFilter) error { return nil }

func (r *c35lRig) liveHandlers() []*c35lHandler {
	r.mu.Lock()
	defer r.mu.Unlock()
	var out []*c35lHandler
	for _, h := range r.handlers {
		if h.ctx.Err() == nil {
			out = append(out, h)
		}
	}
	return out
}

func (r *c35lRig) liveReceivers() []int {
	set := map[int]bool{}
	for _, h := range r.liveHandlers() {
		set[h.att] = true
	}
	out := []int{}
	for a := range set {
		out = append(out, a)
	}
	sort.Ints(out)
	return out
}

// deliver hands a done message to every live handler and waits until each of
// the receiving goroutines has processed it (a marker behind it was dequeued).
// Handlers of attempts before `current` exist only if an earlier attempt's
// receiver outlived its attempt; their goroutine may be gone already, so their
// markers are awaited only briefly.
func (r *c35lRig) deliver(sid, lab int, sig string, current int) string {
	hs := r.liveHandlers()
	p := &signingDoneMessage{
		senderID:      group.MemberIndex(sid),
		message:       new(big.Int).Set(r.message),
		attemptNumber: uint64(lab),
		signature:     c35Sig(sig),
		endBlock:      c35lEndOf(sid, lab),
	}
	var cur, old sync.WaitGroup
	for _, h := range hs {
		wg := &cur
		if h.att < current {
			wg = &old
		}
		wg.Add(1)
		h.fn(&c35NetMsg{pub: r.w.pubs[r.w.cfg.Owner[sid-1]], payload: p})
		h.fn(&c35NetMsg{payload: &c35Foreign{}, onPayload: wg.Done})
	}
	wait := func(wg *sync.WaitGroup, d time.Duration) bool {
		done := make(chan struct{})
		go func() { wg.Wait(); close(done) }()
		select {
		case <-done:
			return true
		case <-time.After(d):
			return false
		}
	}
	if !wait(&cur, c35lWait) {
		return "a receiver did not process a delivered message within 180 s"
	}
	wait(&old, time.Second)
	return ""
}

// --- done check wrapper: the real signingDoneCheck does the work

type c35lDoneCheck struct{ r *c35lRig }

func (d c35lDoneCheck) listen(ctx context.Context, message *big.Int, attemptNumber uint64, attemptTimeoutBlock uint64, members []group.MemberIndex) {
	r := d.r
	r.mu.Lock()
	r.listenAtt = int(attemptNumber)
	r.listenCtx[int(attemptNumber)] = ctx
	r.mu.Unlock()
	r.sdc.listen(ctx, message, attemptNumber, attemptTimeoutBlock, members)
	inc := []int{}
	for _, m := range members {
		inc = append(inc, int(m))
	}
	sort.Ints(inc)
	r.events <- &c35lEvent{kind: "Listen", att: int(attemptNumber), included: inc, timeout: attemptTimeoutBlock}
}
func (d c35lDoneCheck) signalDone(ctx context.Context, memberIndex group.MemberIndex, message *big.Int, attemptNumber uint64, result *signing.Result, endBlock uint64) error {
	return d.r.sdc.signalDone(ctx, memberIndex, message, attemptNumber, result, endBlock)
}
func (d c35lDoneCheck) waitUntilAllDone(ctx context.Context) (*signing.Result, uint64, error) {
	d.r.mu.Lock()
	att := d.r.listenAtt
	d.r.mu.Unlock()
	d.r.events <- &c35lEvent{kind: "Waiting", att: att}
	return d.r.sdc.waitUntilAllDone(ctx)
}

// --- the driver

type c35lRes struct {
	O            string `json:"o"`
	Sig          string `json:"sig"`
	End          int    `json:"end"`
	TimeoutBlock int    `json:"timeoutBlock"`
}

type c35lObs struct {
	Att  int       `json:"att"`
	Recv []int     `json:"recv"`
	Conf []c35Conf `json:"conf"`
	Res  c35lRes   `json:"res"`
}

type c35lDriver struct {
	r       *c35lRig
	att     int
	waiting bool
	pending *c35lEvent
	parked  *c35lEvent // blocking call (Announce / Attempt / Send) the loop is parked in
	lenient bool       // a divergence was already recorded for this behaviour: wait only briefly
	res     c35lRes
	herr    string // harness failure
	note    string // property-relevant oddity seen while stepping
	done    bool
}

func c35lNewDriver(w *c35World, salt int64) *c35lDriver {
	r := &c35lRig{w: w, events: make(chan *c35lEvent, 256), listenCtx: map[int]context.Context{},
		message: big.NewInt(7700 + salt)}
	r.cond = sync.NewCond(&r.mu)
	r.now = c35lStartBlock
	r.loopCtx, r.cancel = context.WithCancel(context.Background())
	r.sdc = newSigningDoneCheck(w.cfg.Seats, r, w.validator)
	loop := newSigningRetryLoop(&testutils.MockLogger{}, r.message, c35lStartBlock, c35lSelf,
		chain.Addresses(w.operators), &GroupParameters{GroupSize: w.cfg.Seats, GroupQuorum: 2, HonestThreshold: 2},
		r, c35lDoneCheck{r})
	d := &c35lDriver{r: r, res: c35lRes{O: "none", Sig: "none"}}
	go func() {
		var res *signingRetryLoopResult
		var err error
		func() {
			defer func() {
				if p := recover(); p != nil {
					err = fmt.Errorf("PANIC: %v", p)
				}
			}()
			res, err = loop.start(r.loopCtx, r.waitForBlock, r.currentBlock, r.attemptFn)
		}()
		r.events <- &c35lEvent{kind: "Returned", res: res, err: err}
	}()
	if ev := d.next(); ev == nil || ev.kind != "WaitStart" || ev.att != 1 {
		d.unexpected("WaitStart(1)", ev)
	}
	return d
}

func (r *c35lRig) wake() { r.mu.Lock(); r.cond.Broadcast(); r.mu.Unlock() }

// close ends the loop and lets its goroutine unwind through whatever scripted
// call it is parked in.
func (d *c35lDriver) close() {
	d.r.cancel()
	d.r.wake()
	if d.parked != nil {
		d.parked.reply <- fmt.Errorf("verif: closed")
		d.parked = nil
	}
	if d.done {
		return
	}
	go func() {
		for {
			select {
			case ev := <-d.r.events:
				if ev.reply != nil {
					ev.reply <- fmt.Errorf("verif: closed")
				}
				if ev.kind == "Returned" {
					return
				}
			case <-time.After(30 * time.Second):
				return
			}
		}
	}()
}

// patience: how long to wait for something that is certain to happen on a
// tree that follows the specification. Once the real code has demonstrably left
// the specification (a divergence is recorded) nothing is certain any more and
// the replay only looks a little further.
func (d *c35lDriver) patience() time.Duration {
	if d.lenient {
		return 3 * time.Second
	}
	return c35lWait
}

func (d *c35lDriver) next() *c35lEvent {
	if d.pending != nil {
		ev := d.pending
		d.pending = nil
		return ev
	}
	select {
	case ev := <-d.r.events:
		return ev
	case <-time.After(d.patience()):
		if d.herr == "" {
			d.herr = "the loop produced no event within the waiting bound"
		}
		return nil
	}
}

func (d *c35lDriver) unexpected(want string, ev *c35lEvent) {
	if d.herr != "" {
		return
	}
	if ev == nil {
		d.herr = "expected " + want + ", got nothing"
		return
	}
	d.note = fmt.Sprintf("the loop did %s(%d) where the specification expects %s", ev.kind, ev.att, want)
	if ev.kind == "Returned" {
		d.absorbReturn(ev)
	}
}

func (d *c35lDriver) absorbReturn(ev *c35lEvent) {
	d.done = true
	d.waiting = false
	switch {
	case ev.err != nil && ev.res == nil && ev.err == context.Canceled:
		d.res = c35lRes{O: "cancelled", Sig: "none"}
	case ev.err != nil:
		d.res = c35lRes{O: "error:" + ev.err.Error(), Sig: "none"}
	case ev.res != nil && ev.res.result != nil:
		d.res = c35lRes{O: "done", Sig: c35SigName(ev.res.result.Signature), End: int(ev.res.latestEndBlock),
			TimeoutBlock: int(ev.res.attemptTimeoutBlock)}
	default:
		d.res = c35lRes{O: "error:nil result", Sig: "none"}
	}
}

func (d *c35lDriver) expect(kind string, att int) *c35lEvent {
	ev := d.next()
	if ev == nil || ev.kind != kind || (att > 0 && ev.att != att) {
		d.unexpected(fmt.Sprintf("%s(%d)", kind, att), ev)
		return nil
	}
	if ev.reply != nil {
		d.parked = ev
	}
	return ev
}

// expectContinue: the loop gave up the attempt and waits for the next one.
func (d *c35lDriver) expectContinue() {
	d.waiting = false
	d.expect("WaitStart", d.att+1)
}

// step performs one action of the specification on the real loop.
func (d *c35lDriver) step(a string, inc []int, sid, lab int, sig string) {
	if d.done && a != "Stop" {
		d.note = "the loop had already returned before " + a
		return
	}
	switch a {
	case "Begin":
		d.att++
		d.r.setClock(c35lAnnStart(d.att))
		d.expect("Announce", d.att)
	case "AnnounceFails":
		d.replyLast(fmt.Errorf("verif: scripted announcement failure"))
		d.expectContinue()
	case "Select":
		ready := []group.MemberIndex{}
		for _, s := range inc {
			ready = append(ready, group.MemberIndex(s))
		}
		d.replyLast(ready)
		if ev := d.expect("Listen", d.att); ev != nil {
			if fmt.Sprint(ev.included) != fmt.Sprint(inc) {
				d.herr = fmt.Sprintf("member selection not steerable: ready %v, included %v", inc, ev.included)
				return
			}
			if ev.timeout != c35lTimeout(d.att) {
				d.note = fmt.Sprintf("listen got timeout block %d, timeline says %d", ev.timeout, c35lTimeout(d.att))
			}
		}
		self := false
		for _, s := range inc {
			self = self || s == c35lSelf
		}
		if self {
			d.expect("Attempt", d.att)
		} else if d.expect("Waiting", d.att) != nil {
			d.waiting = true
		}
	case "OwnRunFails":
		d.replyLast(false)
		d.expectContinue()
	case "OwnRunOk":
		d.replyLast(true)
		if ev := d.expect("Send", d.att); ev != nil {
			m := ev.sent
			if m == nil || int(m.senderID) != c35lSelf || m.message.Cmp(d.r.message) != 0 ||
				m.endBlock != c35lEndOf(c35lSelf, d.att) || c35SigName(m.signature) != "A" {
				d.note = fmt.Sprintf("signalDone broadcast a wrong done message: %+v", m)
			}
		}
	case "SignalFails":
		d.replyLast(false)
		d.expectContinue()
	case "SignalOk":
		d.replyLast(true)
		if d.expect("Waiting", d.att) != nil {
			d.waiting = true
		}
	case "Deliver":
		if e := d.r.deliver(sid, lab, sig, d.att); e != "" {
			d.herr = e
		}
	case "WaitTimeout":
		d.r.setClock(c35lTimeout(d.att))
		d.expectContinue()
	case "Check", "Mismatch":
		if d.pending == nil {
			d.r.sdc.doneSignersMutex.Lock()
			n, e := len(d.r.sdc.doneSigners), d.r.sdc.expectedSignersCount
			d.r.sdc.doneSignersMutex.Unlock()
			if n != e || !d.waiting {
				d.note = fmt.Sprintf("waitUntilAllDone cannot report: doneSigners holds %d confirmations, %d expected", n, e)
				return
			}
		}
		if a == "Mismatch" {
			d.expectContinue()
		} else if ev := d.expect("Returned", 0); ev != nil {
			d.absorbReturn(ev)
		}
	case "Stop":
		d.r.cancel()
		d.r.wake()
		if !d.done {
			// the loop may pass further stations while unwinding
			for i := 0; i < 8; i++ {
				ev := d.next()
				if ev == nil {
					break
				}
				if ev.reply != nil {
					ev.reply <- fmt.Errorf("verif: stopped")
				}
				if ev.kind == "Returned" {
					d.absorbReturn(ev)
					break
				}
			}
		}
	}
	d.settle()
}

// replyLast answers the blocking call the loop is parked in.
func (d *c35lDriver) replyLast(v interface{}) {
	ev := d.parked
	d.parked = nil
	if ev == nil || ev.reply == nil {
		if d.herr == "" && d.note == "" {
			d.herr = "no parked call of the loop to answer"
		}
		return
	}
	ev.reply <- v
}

// settle: if the real waiter is running and doneSigners is complete by the
// code's own criterion, its next tick reports; fetch that report now so that
// the next scripted step cannot race with it.
func (d *c35lDriver) settle() {
	if d.herr != "" || d.done || !d.waiting || d.pending != nil {
		return
	}
	d.r.sdc.doneSignersMutex.Lock()
	n, e := len(d.r.sdc.doneSigners), d.r.sdc.expectedSignersCount
	d.r.sdc.doneSignersMutex.Unlock()
	if n != e {
		return
	}
	select {
	case ev := <-d.r.events:
		d.pending = ev
	case <-time.After(d.patience()):
		d.herr = "waitUntilAllDone did not report although doneSigners is complete"
	}
}

// observe reads the state after a step. dead lists receivers the
// specification says are gone: their cancellation is asynchronous (a
// goroutine of withCancelOnBlock), so it is awaited -- unless listen was
// handed the loop's own context, which cannot end before the loop does.
func (d *c35lDriver) observe(dead []int) c35lObs {
	for _, a := range dead {
		d.r.mu.Lock()
		lctx := d.r.listenCtx[a]
		d.r.mu.Unlock()
		if lctx == nil || lctx == d.r.loopCtx {
			continue
		}
		deadline := time.Now().Add(d.patience())
		for {
			live := false
			for _, h := range d.r.liveHandlers() {
				live = live || h.att == a
			}
			if !live {
				break
			}
			if time.Now().After(deadline) {
				d.herr = fmt.Sprintf("the receiver of attempt %d was not cancelled within the waiting bound after its timeout block", a)
				break
			}
			time.Sleep(200 * time.Microsecond)
		}
	}
	o := c35lObs{Att: d.att, Recv: d.r.liveReceivers(), Res: d.res}
	d.r.sdc.doneSignersMutex.Lock()
	if d.waiting && !d.done && len(d.r.sdc.doneSigners) == d.r.sdc.expectedSignersCount {
		// the real waiter reports at its next tick -- possibly already: whether
		// it has cancelled the current attempt's receiver yet is a matter of
		// timing, so the receiver is reported as the specification has it
		// before its Check action
		has := false
		for _, a := range o.Recv {
			has = has || a == d.att
		}
		if !has {
			o.Recv = append(o.Recv, d.att)
			sort.Ints(o.Recv)
		}
	}
	o.Conf = []c35Conf{}
	for seat, dm := range d.r.sdc.doneSigners {
		o.Conf = append(o.Conf, c35Conf{Seat: int(seat), Sig: c35SigName(dm.signature), End: int(dm.endBlock)})
	}
	d.r.sdc.doneSignersMutex.Unlock()
	sort.Slice(o.Conf, func(i, j int) bool { return o.Conf[i].Seat < o.Conf[j].Seat })
	return o
}

// ---------------------------------------------------------------- replay

func c35lInts(v kit.V) []int {
	out := v.Ints()
	sort.Ints(out)
	if out == nil {
		out = []int{}
	}
	return out
}

func c35lDiff(a, b []int) []int {
	in := map[int]bool{}
	for _, x := range b {
		in[x] = true
	}
	out := []int{}
	for _, x := range a {
		if !in[x] {
			out = append(out, x)
		}
	}
	return out
}

func TestVerif_C35_Loop(t *testing.T) {
	kit.RequireEngine(t)
	rep := kit.NewReport("C35", "loop")
	defer rep.Write(t)
	w := c35LoadWorld(t)
	cases := kit.LoadCases(t, "loops.ndjson")
	rep.Extra["behaviours"] = len(cases)

	type div struct {
		length    int
		key, what string
		c, e, o   interface{}
	}
	var mu sync.Mutex
	var divs []div
	var herr string
	stale, completed := 0, 0

	one := func(idx int, c kit.V) {
		steps := c.Get("steps").List()
		d := c35lNewDriver(w, int64(idx))
		defer d.close()
		var script []string
		prevRecv := []int{}
		hasStale := false
		reported := map[string]bool{}
		for i, st := range steps {
			act := st.Get("act")
			a := act.Get("a").Str()
			m := act.Get("m")
			inc := c35lInts(act.Get("inc"))
			desc := a
			if a == "Select" {
				desc = fmt.Sprintf("Select%v", inc)
			}
			if a == "Deliver" {
				desc = fmt.Sprintf("Deliver(seat %d, attempt %d, sig %s)", m.Get("sid").Int(), m.Get("lab").Int(), m.Get("sig").Str())
			}
			script = append(script, desc)
			if st.Get("stale").Bool() {
				hasStale = true
			}
			d.step(a, inc, m.Get("sid").Int(), m.Get("lab").Int(), m.Get("sig").Str())
			expRecv := c35lInts(st.Get("recv"))
			var obs c35lObs
			if d.note != "" {
				obs = d.observe(nil) // the flow already left the specification: just look
			} else {
				obs = d.observe(c35lDiff(prevRecv, expRecv))
			}
			prevRecv = expRecv
			if d.herr != "" {
				// a wait for something that is certain on a conforming tree ran
				// out. If the real code was already seen to contradict the
				// specification in this behaviour that is a consequence, not a
				// harness failure.
				if len(reported) == 0 && d.note == "" {
					mu.Lock()
					if herr == "" {
						herr = fmt.Sprintf("behaviour %d step %d (%s): %s", idx, i+1, desc, d.herr)
					}
					mu.Unlock()
				}
				if d.note == "" {
					return
				}
				d.herr = ""
			}
			er := st.Get("result")
			exp := c35lObs{Att: st.Get("att").Int(), Recv: expRecv, Conf: c35ConfOf(st.Get("conf")),
				Res: c35lRes{O: er.Get("o").Str(), Sig: er.Get("sig").Str(), End: er.Get("end").Int(), TimeoutBlock: er.Get("timeoutBlock").Int()}}
			// one report per field and behaviour; after a divergence the replay
			// goes on to show its consequences (a stale receiver -> a stale
			// confirmation counted -> a wrong report)
			field := ""
			switch {
			case d.note != "":
				field = "flow"
			case obs.Res != exp.Res && !reported["result"]:
				field = "result"
			case fmt.Sprint(obs.Recv) != fmt.Sprint(exp.Recv) && !reported["receivers"]:
				field = "receivers"
			case !c35SameConf(obs.Conf, exp.Conf) && !reported["doneSigners"]:
				field = "doneSigners"
			case obs.Att != exp.Att && !reported["attempt"]:
				field = "attempt"
			}
			if field != "" {
				reported[field] = true
				d.lenient = true
				kind := a
				if st.Get("stale").Bool() {
					kind = "StaleDeliver"
				}
				what := fmt.Sprintf("after step %d (%s) of the multi-attempt behaviour the real loop + done check differ from the specification in %s", i+1, desc, field)
				switch {
				case field == "receivers":
					what = fmt.Sprintf("the receiver of an earlier attempt is still alive (live receivers %v, specification %v): %s", obs.Recv, exp.Recv, what)
				case field == "doneSigners" && a == "Select":
					what = fmt.Sprintf("doneSigners is not empty right after listen of attempt %d (%+v): done checks collected in an earlier attempt count for this one: %s", obs.Att, obs.Conf, what)
				case field == "doneSigners" && kind == "StaleDeliver":
					what = "a done message labelled for an earlier attempt, from a member the current attempt excludes, was counted for the current attempt: " + what
				case field == "flow":
					what = d.note + ": " + what
				case field == "result":
					what = fmt.Sprintf("start returned %+v where the specification has %+v: %s", obs.Res, exp.Res, what)
				}
				mu.Lock()
				divs = append(divs, div{len(steps), "loop:" + kind + ":" + field, what,
					map[string]interface{}{"script": append([]string{}, script...), "step": i + 1}, exp, obs})
				mu.Unlock()
				if field == "flow" || field == "result" || field == "attempt" {
					return
				}
			}
		}
		if len(reported) > 0 {
			return
		}
		mu.Lock()
		if hasStale {
			stale++
		}
		if steps[len(steps)-1].Get("result").Get("o").Str() == "done" {
			completed++
		}
		mu.Unlock()
	}

	par := kit.IntEnv("VERIF_PAR", 48)
	sem := make(chan struct{}, par)
	var wg sync.WaitGroup
	for i, c := range cases {
		wg.Add(1)
		sem <- struct{}{}
		go func(i int, c kit.V) {
			defer wg.Done()
			defer func() { <-sem }()
			one(i, c)
		}(i, c)
		key := kit.Hash(c.Get("steps").X)
		rep.Eval(key, nil)
	}
	wg.Wait()
	if herr != "" && len(divs) == 0 {
		t.Fatalf("c35 loop harness: %s", herr)
	}
	if herr != "" {
		rep.Note("a wait ran out in a behaviour without recorded divergence (%s); divergences were recorded in others", herr)
	}
	rep.Count("behaviours_with_stale_delivery", stale)
	rep.Count("behaviours_completed", completed)
	sort.SliceStable(divs, func(i, j int) bool { return divs[i].length < divs[j].length })
	perKey := map[string]int{}
	for _, d := range divs {
		perKey[d.key]++
		if perKey[d.key] <= 2 {
			rep.Diverge(d.key, d.what, d.c, d.e, d.o)
		}
	}
	for k, n := range perKey {
		rep.Count("div:"+k, n)
	}
}

// ---------------------------------------------------------------- trace

func TestVerif_C35_LoopTrace(t *testing.T) {
	kit.RequireEngine(t)
	rep := kit.NewReport("C35", "looptrace")
	defer rep.Write(t)
	w := c35LoadWorld(t)
	tr := kit.NewTracer(t, "trace_loop")
	defer tr.Close()
	runs := kit.IntEnv("VERIF_LOOP_RUNS", 40)
	subsets := [][]int{{1, 2}, {1, 3}, {2, 3}}

	type rec = map[string]interface{}
	logs := make([][]rec, runs)
	var mu sync.Mutex
	var herr string
	ndiv := 0

	one := func(idx int) {
		rnd := kit.Rand(int64(35100 + idx))
		d := c35lNewDriver(w, int64(1000+idx))
		defer d.close()
		var out []rec
		out = append(out, rec{"event": "Reset", "run": idx})
		stage := "idle"
		maxAtt := 2 + rnd.Intn(3)
		per := 0
		var inc []int
		emit := func(a string, sid, lab int, sig string) {
			o := d.observe(nil)
			if inc == nil {
				inc = []int{}
			}
			out = append(out, rec{"event": "Step", "a": a, "inc": inc, "sid": sid, "lab": lab, "sig": sig,
				"att": o.Att, "recv": o.Recv, "conf": o.Conf, "res": o.Res})
		}
		for steps := 0; steps < 60 && stage != "returned" && stage != "stopped"; steps++ {
			if d.herr != "" || d.note != "" {
				break
			}
			// the real waiter reported: that decides the action
			if d.pending != nil {
				if d.pending.kind == "Returned" {
					d.step("Check", nil, 0, 0, "")
					emit("Check", 0, 0, "none")
					stage = "returned"
				} else {
					d.step("Mismatch", nil, 0, 0, "")
					emit("Mismatch", 0, 0, "none")
					stage = "next"
				}
				continue
			}
			deliver := func() {
				lab := d.att
				if d.att > 1 && rnd.Intn(100) < 45 {
					lab = d.att - 1
				}
				if rnd.Intn(100) < 8 {
					lab = d.att + 1
				}
				sid := 1 + rnd.Intn(3)
				sig := "A"
				if rnd.Intn(100) < 12 {
					sig = "B"
				}
				d.step("Deliver", nil, sid, lab, sig)
				per++
				emit("Deliver", sid, lab, sig)
			}
			switch stage {
			case "idle", "next":
				if stage == "next" && per < 4 && rnd.Intn(100) < 25 {
					deliver()
					break
				}
				if d.att >= maxAtt {
					d.step("Stop", nil, 0, 0, "")
					emit("Stop", 0, 0, "none")
					stage = "stopped"
					break
				}
				d.step("Begin", nil, 0, 0, "")
				per = 0
				// the receivers of failed attempts end at their timeout block
				// (asynchronously): await that before observing
				stage = "announce"
				d.awaitOld()
				emit("Begin", 0, 0, "none")
			case "announce":
				if rnd.Intn(100) < 15 {
					d.step("AnnounceFails", nil, 0, 0, "")
					emit("AnnounceFails", 0, 0, "none")
					stage = "next"
					break
				}
				inc = subsets[rnd.Intn(3)]
				d.step("Select", inc, 0, 0, "")
				emit("Select", 0, 0, "none")
				inc = nil
				if o := d.observe(nil); len(o.Conf) > 0 && d.herr == "" {
					d.note = fmt.Sprintf("doneSigners is not empty right after listen of attempt %d: %+v", d.att, o.Conf)
				}
				if d.waiting {
					stage = "wait"
				} else {
					stage = "run"
				}
			case "run":
				if per < 4 && rnd.Intn(100) < 25 {
					deliver()
					break
				}
				if rnd.Intn(100) < 40 {
					d.step("OwnRunFails", nil, 0, 0, "")
					emit("OwnRunFails", 0, 0, "none")
					stage = "next"
				} else {
					d.step("OwnRunOk", nil, 0, 0, "")
					emit("OwnRunOk", 0, 0, "none")
					stage = "signal"
				}
			case "signal":
				if rnd.Intn(100) < 35 {
					d.step("SignalFails", nil, 0, 0, "")
					emit("SignalFails", 0, 0, "none")
					stage = "next"
				} else {
					d.step("SignalOk", nil, 0, 0, "")
					emit("SignalOk", 0, 0, "none")
					stage = "wait"
				}
			case "wait":
				if per < 5 && rnd.Intn(100) < 80 {
					deliver()
				} else {
					d.step("WaitTimeout", nil, 0, 0, "")
					emit("WaitTimeout", 0, 0, "none")
					stage = "next"
				}
			}
		}
		mu.Lock()
		defer mu.Unlock()
		if d.herr != "" && d.note == "" && herr == "" {
			herr = fmt.Sprintf("run %d: %s", idx, d.herr)
		}
		if d.note != "" {
			ndiv++
			rep.Diverge("loop:trace:flow", d.note, out, nil, nil)
		}
		logs[idx] = out
		key := ""
		if d.res.O == "done" {
			key = fmt.Sprintf("run%d", idx)
		}
		rep.Eval(key, nil)
		rep.Count("outcome:"+d.res.O, 1)
	}
	sem := make(chan struct{}, kit.IntEnv("VERIF_PAR", 48))
	var wg sync.WaitGroup
	for i := 0; i < runs; i++ {
		wg.Add(1)
		sem <- struct{}{}
		go func(i int) {
			defer wg.Done()
			defer func() { <-sem }()
			one(i)
		}(i)
	}
	wg.Wait()
	if herr != "" && ndiv == 0 {
		t.Fatalf("c35 loop harness: %s", herr)
	}
	for _, lg := range logs {
		for _, ev := range lg {
			tr.Emit(ev)
		}
	}
	rep.Extra["events"] = tr.N()
}

// awaitOld waits until the receivers of earlier attempts whose listen context
// is not the loop's own context have ended (their timeout block has passed).
func (d *c35lDriver) awaitOld() {
	var dead []int
	d.r.mu.Lock()
	for a, c := range d.r.listenCtx {
		if a < d.att && c != d.r.loopCtx {
			dead = append(dead, a)
		}
	}
	d.r.mu.Unlock()
	d.observe(dead)
}
