//go:build verif

package tbtc

// C08 conformance harness (see /verif/specs/SigningGroup).
//
//   TestVerif_C08_Pipeline   every terminal state emitted by Gen_SigningGroup
//       (group size, thresholds, key-generation exclusion set, selected
//       signer set) is driven through the REAL code of every stage:
//         key generation identity   dkg.newMember + marking + the real
//                                   initializeTssRoundOne / identityConverter /
//                                   common.GenerateTssPartiesIDs / SortPartyIDs
//                                   (through the verif export of package dkg)
//         wallet registration       the real dkgExecutor.registerSigner ->
//                                   finalSigningGroup -> walletRegistry ->
//                                   walletStorage (marshal), then a second
//                                   walletRegistry loaded from the same
//                                   persistence (unmarshal, "node restart");
//                                   finalSigningGroup is also called directly
//                                   with the operating list in shuffled order
//         signing identity          signing.newMember + marking + the real
//                                   initializeTssRoundOne (incl. tss-lib's
//                                   BuildLocalSaveDataSubset) with the signer
//                                   objects read back from the registry and
//                                   the arguments computed exactly as
//                                   signingExecutor.sign computes them
//       and every value of the specification's member views is compared;
//       finally the property itself is evaluated on values that all come from
//       real code: signing party key of a signer == key-generation party key
//       of the seat that owns the share.
//
//   TestVerif_C08_Sign       for engine-chosen (exclusion set, signer set)
//       pairs of the 3-of-5 fixture group: key shares of the operating seats
//       (the repository's fixture shares restricted to the operating seats --
//       exactly the data a key generation without the excluded seats saves),
//       real registerSigner, registry reload, then the real signing.Execute of
//       every selected signer over pkg/net/local channels with one operator
//       key per seat and the real membership validator over the stored final
//       operators list. Checked: every signer returns the same signature, it
//       verifies under the wallet public key (crypto/ecdsa), S is low.
//
//   TestVerif_C08_KeygenSign (thorough) the same, but the key shares come from
//       a REAL dkg.Executor.Execute run of the operating seats with the
//       exclusion set (fixture pre-parameters; no safe primes are generated).
//
// Abstraction function: seat m of the specification = member index m; operator
// of seat m = the m-th generated operator key / its chain address; the
// specification's Seed is realized as 200 (the fixtures' seed) and as a random
// 256-bit seed (party keys are compared relative to the seed).

import (
	"context"
	"crypto/ecdsa"
	"fmt"
	"math/big"
	"sort"
	"strings"
	"sync"
	"testing"
	"time"

	"github.com/bnb-chain/tss-lib/crypto"
	"github.com/bnb-chain/tss-lib/crypto/paillier"
	"github.com/bnb-chain/tss-lib/ecdsa/keygen"
	"github.com/keep-network/keep-core/internal/testutils"
	kit "github.com/keep-network/keep-core/internal/verifkit"
	"github.com/keep-network/keep-core/pkg/chain"
	"github.com/keep-network/keep-core/pkg/chain/local_v1"
	"github.com/keep-network/keep-core/pkg/internal/tecdsatest"
	"github.com/keep-network/keep-core/pkg/net"
	netlocal "github.com/keep-network/keep-core/pkg/net/local"
	"github.com/keep-network/keep-core/pkg/operator"
	"github.com/keep-network/keep-core/pkg/protocol/group"
	"github.com/keep-network/keep-core/pkg/tecdsa"
	"github.com/keep-network/keep-core/pkg/tecdsa/dkg"
	"github.com/keep-network/keep-core/pkg/tecdsa/signing"
)

// ---------------------------------------------------------------- helpers

func c08Fixtures(t *testing.T) []keygen.LocalPartySaveData {
	fix, err := tecdsatest.LoadPrivateKeyShareTestFixtures(5)
	if err != nil {
		t.Fatalf("harness: cannot load key share fixtures: %v", err)
	}
	// trusted assumption on tss-lib keygen, checked on the fixtures: Ks is the
	// ascending list of party keys and ShareID is the own key
	for i, f := range fix {
		if len(f.Ks) != 5 || f.ShareID.Cmp(f.Ks[i]) != 0 {
			t.Fatalf("harness: fixture %d does not have ShareID = Ks[%d]", i, i)
		}
		for j := 1; j < len(f.Ks); j++ {
			if f.Ks[j-1].Cmp(f.Ks[j]) >= 0 {
				t.Fatalf("harness: fixture %d Ks not ascending", i)
			}
		}
	}
	return fix
}

// c08Share builds the key share tss-lib keygen saves for the party at position
// pos of a key generation whose sorted party keys are keys (seats[j] = seat of
// keys[j]). Party data of seat s is taken from fixture (s-1) mod 5: for groups
// of at most 5 seats with seed 200 this is exactly the fixture share restricted
// to the operating seats (cryptographically valid); otherwise the share is only
// structurally valid (used by the cheap pipeline test, never for signing).
func c08Share(fix []keygen.LocalPartySaveData, keys []*big.Int, seats []int, pos int) *tecdsa.PrivateKeyShare {
	src := func(seat int) int { return (seat - 1) % len(fix) }
	d := fix[src(seats[pos])] // struct copy
	n := len(keys)
	d.Ks = make([]*big.Int, n)
	d.NTildej = make([]*big.Int, n)
	d.H1j = make([]*big.Int, n)
	d.H2j = make([]*big.Int, n)
	d.BigXj = make([]*crypto.ECPoint, n)
	d.PaillierPKs = make([]*paillier.PublicKey, n)
	for j := 0; j < n; j++ {
		s := src(seats[j])
		d.Ks[j] = new(big.Int).Set(keys[j])
		d.NTildej[j], d.H1j[j], d.H2j[j] = fix[0].NTildej[s], fix[0].H1j[s], fix[0].H2j[s]
		d.BigXj[j], d.PaillierPKs[j] = fix[0].BigXj[s], fix[0].PaillierPKs[s]
	}
	d.ShareID = new(big.Int).Set(keys[pos])
	return tecdsa.NewPrivateKeyShare(d)
}

func c08Idx(xs []int) []group.MemberIndex {
	out := make([]group.MemberIndex, len(xs))
	for i, x := range xs {
		out[i] = group.MemberIndex(x)
	}
	return out
}

func c08Ints(xs []group.MemberIndex) []int {
	out := make([]int, len(xs))
	for i, x := range xs {
		out[i] = int(x)
	}
	return out
}

func c08Contains(xs []int, x int) bool {
	for _, y := range xs {
		if y == x {
			return true
		}
	}
	return false
}

// relative party keys: decimal key minus the seed (the specification uses seed 200)
func c08Rel(keys []string, seed *big.Int) []int {
	out := make([]int, len(keys))
	for i, k := range keys {
		out[i] = c08Rel1(k, seed)
	}
	return out
}

func c08Rel1(key string, seed *big.Int) int {
	if key == "" {
		return -1
	}
	v, ok := new(big.Int).SetString(key, 10)
	if !ok {
		return -2
	}
	d := new(big.Int).Sub(v, seed)
	if !d.IsInt64() || d.Int64() < -1000 || d.Int64() > 1000 {
		return -3
	}
	return int(d.Int64())
}

func c08SpecRel(v kit.V, specSeed int) []int {
	xs := v.Ints()
	out := make([]int, len(xs))
	for i, x := range xs {
		out[i] = x - specSeed
	}
	return out
}

func c08Eq(a, b []int) bool {
	if len(a) != len(b) {
		return false
	}
	for i := range a {
		if a[i] != b[i] {
			return false
		}
	}
	return true
}

func c08Operators(n int) []chain.Address {
	ops := make([]chain.Address, n)
	for i := range ops {
		ops[i] = chain.Address(fmt.Sprintf("0x%040x", 0xA00+i+1))
	}
	return ops
}

func c08SeatOf(ops []chain.Address, a chain.Address) int {
	for i, o := range ops {
		if o == a {
			return i + 1
		}
	}
	return 0
}

func c08SeatsOf(all []chain.Address, some []chain.Address) []int {
	out := make([]int, len(some))
	for i, a := range some {
		out[i] = c08SeatOf(all, a)
	}
	return out
}

// ---------------------------------------------------------------- pipeline

type c08GroupKey struct {
	n, h, q  int
	excluded string
}

// set by TestVerif_C08_Pipeline (which runs first): real runs on code whose set-up already diverged may crash the binary
var c08PipelineDiverged int

func TestVerif_C08_Pipeline(t *testing.T) {
	kit.RequireEngine(t)
	rep := kit.NewReport("C08", "pipeline")
	defer rep.Write(t)
	defer func() { c08PipelineDiverged = rep.NDivergences() }()
	fix := c08Fixtures(t)
	lc := Connect()
	cases := kit.LoadCases(t, "cases.ndjson")
	if len(cases) == 0 {
		t.Fatal("harness: no cases")
	}
	// group the cases by key generation (the signer set varies within a group)
	groups := map[c08GroupKey][]kit.V{}
	var order []c08GroupKey
	for _, c := range cases {
		k := c08GroupKey{c.Get("n").Int(), c.Get("h").Int(), c.Get("quorum").Int(), c.Get("excluded").JSON()}
		if _, ok := groups[k]; !ok {
			order = append(order, k)
		}
		groups[k] = append(groups[k], c)
	}
	rnd := kit.Rand(8)
	for gi, gk := range order {
		for _, variant := range []string{"seed200", "seedBig"} {
			seed := big.NewInt(200)
			if variant == "seedBig" {
				seed = new(big.Int).Rand(rnd, new(big.Int).Lsh(big.NewInt(1), 256))
			}
			func() {
				key := fmt.Sprintf("pipeline:n=%d,h=%d,q=%d,excl=%s", gk.n, gk.h, gk.q, gk.excluded)
				defer func() {
					if r := recover(); r != nil {
						rep.Diverge(key+":panic", fmt.Sprintf("the index pipeline panicked: %v", r), gk, nil, fmt.Sprint(r))
					}
				}()
				before := rep.Evaluations
				c08PipelineGroup(t, rep, lc, fix, gk, groups[gk], seed, variant, key, rnd, gi)
				if rep.Evaluations == before {
					rep.Eval("", nil) // the group was evaluated (and diverged before its cases were counted)
				}
			}()
		}
	}
	rep.Note("key generations: %d (x2 seed realizations), cases: %d", len(order), len(cases))
}

func c08PipelineGroup(t *testing.T, rep *kit.Report, lc *localChain, fix []keygen.LocalPartySaveData, gk c08GroupKey,
	cases []kit.V, seed *big.Int, variant, key string, rnd interface{ Perm(int) []int }, gi int) {
	c0 := cases[0]
	specSeed := c0.Get("seed").Int()
	n, h, q := gk.n, gk.h, gk.q
	excluded := c0.Get("excluded").Ints()
	members := c0.Get("members").List()
	operators := c08Operators(n)
	gp := &GroupParameters{GroupSize: n, GroupQuorum: q, HonestThreshold: h}

	// ---- stage 1: key generation identities (real dkg member)
	kg := map[int]*dkg.VerifParties{}
	for _, mv := range members {
		m := mv.Get("m").Int()
		if !mv.Get("running").Bool() {
			continue
		}
		p, err := dkg.VerifC08KeygenParties(seed, group.MemberIndex(m), n, gp.DishonestThreshold(), c08Idx(excluded), &fix[(m-1)%5].LocalPreParams)
		if err != nil {
			rep.Diverge(key+":keygen", fmt.Sprintf("key generation member %d could not set up its TSS party: %v", m, err), c0.X, nil, err.Error())
			return
		}
		kg[m] = p
		rep.Count("keygen_members", 1)
		exp := map[string]interface{}{"operating": mv.Get("operating").Ints(), "own": mv.Get("kgParty").Int() - specSeed,
			"ctx": c08SpecRel(mv.Get("kgCtx"), specSeed), "back": mv.Get("kgBack").Int(), "threshold": h - 1}
		obs := map[string]interface{}{"operating": p.Operating, "own": c08Rel1(p.Own, seed), "ctx": c08Rel(p.Sorted, seed),
			"back": p.OwnBack, "threshold": p.Threshold}
		if kit.Hash(exp) != kit.Hash(obs) {
			rep.Diverge(key+":keygen", fmt.Sprintf("key generation member %d (%s): TSS identity differs from the specification", m, variant), c0.X, exp, obs)
			return
		}
		// converter consistency on the real context
		for i, k := range p.Sorted {
			if p.SortedBack[i] != c08Rel1(k, seed) || p.Resolved[p.SortedBack[i]] != k || p.ConvKey[p.SortedBack[i]] != k {
				rep.Diverge(key+":keygen", fmt.Sprintf("key generation member %d: identity converter is not a bijection on the context", m), c0.X, nil, p)
				return
			}
		}
		if p.PartyCount != len(p.Sorted) || p.Sorted[p.OwnIndex] != p.Own {
			rep.Diverge(key+":keygen", fmt.Sprintf("key generation member %d: inconsistent TSS parameters", m), c0.X, nil, p)
			return
		}
	}

	// ---- stage 2: shares as tss-lib saves them (Ks = the member's REAL sorted context)
	shares := map[int]*tecdsa.PrivateKeyShare{}
	for m, p := range kg {
		keys := make([]*big.Int, len(p.Sorted))
		seats := make([]int, len(p.Sorted))
		for i, k := range p.Sorted {
			keys[i], _ = new(big.Int).SetString(k, 10)
			seats[i] = p.SortedBack[i]
		}
		shares[m] = c08Share(fix, keys, seats, p.OwnIndex)
	}

	// ---- stage 3: registration (real registerSigner / finalSigningGroup / registry / storage)
	persistence := &mockPersistenceHandle{}
	registry, err := newWalletRegistry(persistence, lc.CalculateWalletID)
	if err != nil {
		t.Fatalf("harness: registry: %v", err)
	}
	de := &dkgExecutor{groupParameters: gp, walletRegistry: registry}
	anyOk := false
	regIdx := map[int]int{}
	for _, mv := range members {
		m := mv.Get("m").Int()
		if !mv.Get("running").Bool() {
			continue
		}
		result := &dkg.Result{Group: kg[m].Group, PrivateKeyShare: shares[m]}
		sg, err := de.registerSigner(result, group.MemberIndex(m), append([]chain.Address{}, operators...))
		rep.Count("register_calls", 1)
		expSt := mv.Get("reg").Str()
		switch {
		case err != nil && expSt == "err":
			rep.Count("register_rejected", 1)
		case err != nil:
			rep.Diverge(key+":register", fmt.Sprintf("registerSigner failed for operating member %d: %v", m, err), c0.X, "ok", err.Error())
			return
		case expSt != "ok":
			rep.Diverge(key+":register", fmt.Sprintf("registerSigner registered member %d although only %d members operate (quorum %d)", m, len(kg[m].Operating), q), c0.X, expSt, "ok")
			return
		default:
			anyOk = true
			exp := map[string]interface{}{"idx": mv.Get("idx").Int(), "ops": mv.Get("ops").Ints()}
			obs := map[string]interface{}{"idx": int(sg.signingGroupMemberIndex), "ops": c08SeatsOf(operators, sg.wallet.signingGroupOperators)}
			if kit.Hash(exp) != kit.Hash(obs) {
				rep.Diverge(key+":register", fmt.Sprintf("registerSigner: member %d got a final index / operators list different from the specification", m), c0.X, exp, obs)
				return
			}
			regIdx[m] = int(sg.signingGroupMemberIndex)
		}
		// finalSigningGroup directly, with the operating list in shuffled order
		op := c08Idx(kg[m].Operating)
		perm := rnd.Perm(len(op))
		shuffled := make([]group.MemberIndex, len(op))
		for i, j := range perm {
			shuffled[i] = op[j]
		}
		fops, fidx, ferr := finalSigningGroup(append([]chain.Address{}, operators...), shuffled, gp)
		if (ferr != nil) != (expSt == "err") {
			rep.Diverge(key+":final", "finalSigningGroup error does not match the specification (quorum rule)", c0.X, expSt, fmt.Sprint(ferr))
			return
		}
		if ferr == nil {
			got := map[int]int{}
			for k, v := range fidx {
				got[int(k)] = int(v)
			}
			want := map[int]int{}
			for _, mv2 := range members {
				if mv2.Get("running").Bool() {
					want[mv2.Get("m").Int()] = mv2.Get("idx").Int()
				}
			}
			if kit.Hash(got) != kit.Hash(want) || !c08Eq(c08SeatsOf(operators, fops), mv.Get("ops").Ints()) {
				rep.Diverge(key+":final", "finalSigningGroup (shuffled operating list) differs from the specification", c0.X,
					map[string]interface{}{"idx": want, "ops": mv.Get("ops").Ints()}, map[string]interface{}{"idx": got, "ops": c08SeatsOf(operators, fops)})
				return
			}
		}
		// wrong length of the selected operators list is rejected
		if _, _, e := finalSigningGroup(operators[:n-1], append([]group.MemberIndex{}, op...), gp); e == nil {
			rep.Diverge(key+":final", "finalSigningGroup accepted a selected-operators list shorter than the group size", c0.X, "error", "nil")
			return
		}
	}
	// a seat that is not operating cannot be registered from an operating member's result
	for _, e := range excluded {
		for m := range kg {
			if _, err := de.registerSigner(&dkg.Result{Group: kg[m].Group, PrivateKeyShare: shares[m]}, group.MemberIndex(e),
				append([]chain.Address{}, operators...)); err == nil {
				rep.Diverge(key+":register", fmt.Sprintf("registerSigner registered excluded seat %d", e), c0.X, "error", "registered")
				return
			}
			break
		}
	}
	nontrivial := ""
	for m, i := range regIdx {
		if m != i {
			nontrivial = fmt.Sprintf("shift:n=%d,excl=%s", n, gk.excluded)
		}
	}
	if !anyOk {
		for _, c := range cases {
			if c.Get("outcome").Str() != "nowallet" {
				rep.Diverge(key+":register", "no signer was registered but the specification has a wallet", c.X, c.Get("outcome").Str(), "nowallet")
				return
			}
			rep.Eval("", nil)
		}
		if got := registry.getWalletsPublicKeys(); len(got) != 0 {
			rep.Diverge(key+":register", "a wallet exists in the registry although every registration failed", c0.X, 0, len(got))
		}
		return
	}

	// ---- stage 4: node restart: a second registry loaded from the same persistence
	reloaded, err := newWalletRegistry(persistence, lc.CalculateWalletID)
	if err != nil {
		t.Fatalf("harness: registry reload: %v", err)
	}
	pub := shares[firstKey(regIdx)].PublicKey()
	byIdx := map[int]*signer{}
	for _, s := range reloaded.getSigners(pub) {
		byIdx[int(s.signingGroupMemberIndex)] = s
	}
	cached := registry.getSigners(pub)
	if len(byIdx) != len(regIdx) || len(cached) != len(regIdx) {
		rep.Diverge(key+":reload", "number of stored signers differs from the number of registered members", c0.X, len(regIdx), map[string]int{"reloaded": len(byIdx), "cache": len(cached)})
		return
	}
	for m, i := range regIdx {
		s := byIdx[i]
		if s == nil || s.privateKeyShare.Data().ShareID.Cmp(shares[m].Data().ShareID) != 0 ||
			!c08Eq(c08SeatsOf(operators, s.wallet.signingGroupOperators), members[m-1].Get("ops").Ints()) {
			rep.Diverge(key+":reload", fmt.Sprintf("signer of member %d read back from storage does not carry its final index / share / operators", m), c0.X, nil, nil)
			return
		}
	}

	// ---- stage 5: signing identities for every selected signer set of the group
	for _, c := range cases {
		ckey := fmt.Sprintf("%s,signers=%s", key, c.Get("signers").JSON())
		signers := c.Get("signers").Ints()
		ok := true
		for _, mv := range c.Get("members").List() {
			m := mv.Get("m").Int()
			if !mv.Get("selected").Bool() {
				continue
			}
			s := byIdx[regIdx[m]]
			w := s.wallet
			G := w.groupSize()
			var attemptExcluded []group.MemberIndex
			for i := 1; i <= G; i++ {
				if !c08Contains(signers, i) {
					attemptExcluded = append(attemptExcluded, group.MemberIndex(i))
				}
			}
			// what signingExecutor.sign derives from the stored wallet, against the specification's DeriveParameters
			pr := c.Get("proto")
			if G != pr.Get("size").Int() || w.groupDishonestThreshold(gp.HonestThreshold) != pr.Get("dishonest").Int() ||
				!c08Eq(c08Ints(attemptExcluded), pr.Get("excl").Ints()) {
				rep.Diverge(ckey+":parameters", "protocol parameters derived from the stored wallet differ from the specification", c.X, pr.X,
					map[string]interface{}{"size": G, "dishonest": w.groupDishonestThreshold(gp.HonestThreshold), "excl": c08Ints(attemptExcluded)})
				ok = false
				break
			}
			sp, err := signing.VerifC08SigningParties(s.signingGroupMemberIndex, s.privateKeyShare, G,
				w.groupDishonestThreshold(gp.HonestThreshold), attemptExcluded, big.NewInt(100))
			rep.Count("signing_members", 1)
			if err != nil {
				rep.Diverge(ckey+":signing", fmt.Sprintf("signer with final index %d (seat %d) cannot set up its TSS party: %v", regIdx[m], m, err), c.X, c.Get("outcome").Str(), err.Error())
				ok = false
				break
			}
			exp := map[string]interface{}{"operating": signers, "own": mv.Get("sgParty").Int() - specSeed,
				"ctx": c08SpecRel(mv.Get("sgCtx"), specSeed), "back": mv.Get("idx").Int(), "threshold": h - 1}
			obs := map[string]interface{}{"operating": sp.Operating, "own": c08Rel1(sp.Own, seed), "ctx": c08Rel(sp.Sorted, seed),
				"back": sp.OwnBack, "threshold": sp.Threshold}
			if kit.Hash(exp) != kit.Hash(obs) {
				rep.Diverge(ckey+":signing", fmt.Sprintf("signer with final index %d (seat %d, %s): TSS identity differs from the specification", regIdx[m], m, variant), c.X, exp, obs)
				ok = false
				break
			}
			// THE PROPERTY, on values that all come from real code: the party
			// identity used for signing is the one used for key generation
			if sp.Own != kg[m].Own || sp.OwnID != kg[m].OwnID || sp.Own != s.privateKeyShare.Data().ShareID.Text(10) {
				rep.Diverge(ckey+":identity", fmt.Sprintf("seat %d signs as party %s but generated its key share as party %s", m, sp.Own, kg[m].Own), c.X, kg[m].Own, sp.Own)
				ok = false
				break
			}
			// peers: every selected final index resolves to the key-generation key of its seat and back
			for _, mv2 := range c.Get("members").List() {
				if !mv2.Get("selected").Bool() {
					continue
				}
				m2, f2 := mv2.Get("m").Int(), mv2.Get("idx").Int()
				if sp.Resolved[f2] != kg[m2].Own || sp.ConvKey[f2] != kg[m2].Own {
					rep.Diverge(ckey+":identity", fmt.Sprintf("signer %d addresses peer final index %d as party %q, but that seat (%d) generated its share as party %s",
						regIdx[m], f2, sp.Resolved[f2], m2, kg[m2].Own), c.X, kg[m2].Own, sp.Resolved[f2])
					ok = false
				}
			}
			for i, k := range sp.Sorted {
				if sp.Resolved[sp.SortedBack[i]] != k {
					rep.Diverge(ckey+":identity", "signing identity converter is not a bijection on the context", c.X, nil, sp)
					ok = false
				}
			}
			if sp.PartyCount != len(signers) || sp.Sorted[sp.OwnIndex] != sp.Own {
				rep.Diverge(ckey+":signing", "inconsistent TSS parameters", c.X, nil, sp)
				ok = false
			}
			if !ok {
				break
			}
		}
		if ok && c.Get("outcome").Str() != "valid" {
			rep.Diverge(ckey+":signing", "the real pipeline yields a consistent signing set-up but the specification does not", c.X, c.Get("outcome").Str(), "valid")
		}
		nt := ""
		if nontrivial != "" {
			nt = nontrivial + ",signers=" + c.Get("signers").JSON()
		}
		var sample interface{}
		if gi%7 == 0 && variant == "seed200" {
			sample = map[string]interface{}{"n": n, "excluded": excluded, "signers": signers, "final": regIdx}
		}
		rep.Eval(nt, sample)
	}
}

func firstKey(m map[int]int) int {
	ks := make([]int, 0, len(m))
	for k := range m {
		ks = append(ks, k)
	}
	sort.Ints(ks)
	return ks[0]
}

// ---------------------------------------------------------------- real signing

type c08Seat struct {
	priv     *operator.PrivateKey
	pub      *operator.PublicKey
	address  chain.Address
	provider netlocal.Provider
}

func c08Seats(t *testing.T, lc *localChain, n int) []*c08Seat {
	seats := make([]*c08Seat, n)
	for i := range seats {
		priv, pub, err := operator.GenerateKeyPair(local_v1.DefaultCurve)
		if err != nil {
			t.Fatalf("harness: operator key: %v", err)
		}
		addr, err := lc.Signing().PublicKeyToAddress(pub)
		if err != nil {
			t.Fatalf("harness: address: %v", err)
		}
		seats[i] = &c08Seat{priv: priv, pub: pub, address: addr, provider: netlocal.ConnectWithKey(pub)}
	}
	return seats
}

// c08Register runs the real registerSigner for every operating seat and returns
// the signers read back from a registry reloaded from the same persistence.
func c08Register(t *testing.T, rep *kit.Report, key string, lc *localChain, gp *GroupParameters, operators []chain.Address,
	results map[int]*dkg.Result) map[int]*signer {
	persistence := &mockPersistenceHandle{}
	registry, err := newWalletRegistry(persistence, lc.CalculateWalletID)
	if err != nil {
		t.Fatalf("harness: registry: %v", err)
	}
	de := &dkgExecutor{groupParameters: gp, walletRegistry: registry}
	var pub *ecdsa.PublicKey
	for m, r := range results {
		if _, err := de.registerSigner(r, group.MemberIndex(m), append([]chain.Address{}, operators...)); err != nil {
			rep.Diverge(key+":register", fmt.Sprintf("registerSigner failed for operating member %d: %v", m, err), nil, "ok", err.Error())
			return nil
		}
		pub = r.PrivateKeyShare.PublicKey()
	}
	reloaded, err := newWalletRegistry(persistence, lc.CalculateWalletID)
	if err != nil {
		t.Fatalf("harness: registry reload: %v", err)
	}
	out := map[int]*signer{}
	for _, s := range reloaded.getSigners(pub) {
		out[int(s.signingGroupMemberIndex)] = s
	}
	return out
}

// c08Chan records what a member sends before handing it to the real channel.
type c08Chan struct {
	net.BroadcastChannel
	onSend func(m net.TaggedMarshaler)
}

func (c *c08Chan) Send(ctx context.Context, m net.TaggedMarshaler, st ...net.RetransmissionStrategy) error {
	c.onSend(m)
	return c.BroadcastChannel.Send(ctx, m, st...)
}

type c08SignOutcome struct {
	sig *tecdsa.Signature
	err error
}

var c08ChannelSeq int

// c08SignWith runs the real signing.Execute for the signers with the given
// final indices (arguments computed as signingExecutor.sign computes them) and
// checks the C08 observations. intruders are unselected final indices whose
// signers run Execute nevertheless (with the same excluded list).
func c08SignWith(t *testing.T, rep *kit.Report, key string, lc *localChain, gp *GroupParameters, seats []*c08Seat,
	all []chain.Address, byIdx map[int]*signer, selected []int, intruders []int, message *big.Int, budget time.Duration) bool {
	c08ChannelSeq++
	chName := fmt.Sprintf("verif-c08-%d-%d-%d", kit.Seed(), time.Now().UnixNano(), c08ChannelSeq)
	ctx, cancel := context.WithTimeout(context.Background(), budget)
	defer cancel()
	sessionID := fmt.Sprintf("%v-%v", message.Text(16), 1)
	var mu sync.Mutex
	wireDiverged := false
	// what a selected signer puts on the wire: point-to-point parts exactly for the other selected signers
	onSend := func(f int) func(m net.TaggedMarshaler) {
		return func(m net.TaggedMarshaler) {
			typ, sender, session, peers, hasPeers := signing.VerifC08Describe(m)
			if typ == "" || c08Contains(intruders, f) {
				return
			}
			var want []int
			for _, x := range selected {
				if x != f {
					want = append(want, x)
				}
			}
			bad := sender != f || session != sessionID || (hasPeers && !c08Eq(peers, want))
			rep.Count("wire_messages", 1)
			mu.Lock()
			defer mu.Unlock()
			if bad && !wireDiverged {
				wireDiverged = true
				rep.Diverge(key+":wire", fmt.Sprintf("signer with final index %d sent %s as member %d of session %q addressing members %v; the attempt's other signers are %v",
					f, typ, sender, session, peers, want), map[string]interface{}{"signers": selected}, want, peers)
				cancel() // no point in waiting for a set-up that cannot complete
			}
		}
	}
	run := func(f int, out chan<- c08SignOutcome) {
		s := byIdx[f]
		if s == nil {
			out <- c08SignOutcome{nil, fmt.Errorf("no signer is stored under final index %d", f)}
			return
		}
		w := s.wallet
		seat := c08SeatOf(all, w.signingGroupOperators[f-1])
		if seat == 0 {
			out <- c08SignOutcome{nil, fmt.Errorf("final operators list entry %d is not a selected operator", f)}
			return
		}
		ch, err := seats[seat-1].provider.BroadcastChannelFor(chName)
		if err != nil {
			out <- c08SignOutcome{nil, fmt.Errorf("harness: channel: %v", err)}
			return
		}
		signing.RegisterUnmarshallers(ch)
		ch = &c08Chan{BroadcastChannel: ch, onSend: onSend(f)}
		validator := group.NewMembershipValidator(&testutils.MockLogger{}, w.signingGroupOperators, lc.Signing())
		var excl []group.MemberIndex
		for i := 1; i <= w.groupSize(); i++ {
			if !c08Contains(selected, i) {
				excl = append(excl, group.MemberIndex(i))
			}
		}
		defer func() {
			if r := recover(); r != nil {
				out <- c08SignOutcome{nil, fmt.Errorf("panic: %v", r)}
			}
		}()
		res, err := signing.Execute(ctx, &testutils.MockLogger{}, message, sessionID, s.signingGroupMemberIndex, s.privateKeyShare,
			w.groupSize(), w.groupDishonestThreshold(gp.HonestThreshold), excl, ch, validator)
		if err != nil {
			out <- c08SignOutcome{nil, err}
			return
		}
		out <- c08SignOutcome{res.Signature, nil}
	}
	type c08Done struct {
		f int
		o c08SignOutcome
	}
	merged := make(chan c08Done, len(selected))
	for _, f := range selected {
		go func(f int) {
			ch := make(chan c08SignOutcome, 2)
			run(f, ch)
			merged <- c08Done{f, <-ch}
		}(f)
	}
	intr := make([]chan c08SignOutcome, len(intruders))
	for i, f := range intruders {
		intr[i] = make(chan c08SignOutcome, 2)
		go run(f, intr[i])
	}
	t0 := time.Now()
	sigBy := map[int]*tecdsa.Signature{}
	good := true
	for range selected {
		d := <-merged
		if d.o.err == nil {
			sigBy[d.f] = d.o.sig
			continue
		}
		mu.Lock()
		wd := wireDiverged
		mu.Unlock()
		if wd || !good {
			// consequence of a divergence already recorded for this attempt (the context was cancelled)
			good = false
			continue
		}
		if ctx.Err() == context.DeadlineExceeded && !strings.HasPrefix(d.o.err.Error(), "panic:") {
			// the budget ran out: slowness must never become a violation
			if rep.NDivergences() > 0 {
				rep.Note("signing of %s did not finish within %v after earlier divergences", key, budget)
				return false
			}
			t.Fatalf("harness: signing of %s did not finish within %v (signer %d: %v)", key, budget, d.f, d.o.err)
		}
		rep.Diverge(key+":sign", fmt.Sprintf("signer with final index %d failed: %v", d.f, d.o.err), map[string]interface{}{"signers": selected}, "signature", d.o.err.Error())
		good = false
		cancel() // the attempt cannot complete without this signer
	}
	var sigs []*tecdsa.Signature
	for _, f := range selected {
		if sigBy[f] != nil {
			sigs = append(sigs, sigBy[f])
		}
	}
	rep.Count("real_signings", 1)
	rep.Extra["last_signing_wall_s"] = time.Since(t0).Seconds()
	if !good {
		return false
	}
	pub := byIdx[selected[0]].wallet.publicKey
	halfN := new(big.Int).Rsh(tecdsa.Curve.Params().N, 1)
	for i, sg := range sigs {
		if !sg.Equals(sigs[0]) {
			rep.Diverge(key+":sign", "signers of one attempt returned different signatures", map[string]interface{}{"signers": selected}, sigs[0].String(), sg.String())
			good = false
		}
		if !ecdsa.Verify(pub, message.Bytes(), sg.R, sg.S) {
			rep.Diverge(key+":verify", fmt.Sprintf("signature returned by signer %d does not verify under the wallet public key", selected[i]),
				map[string]interface{}{"signers": selected, "message": message.Text(16)}, "valid", sg.String())
			good = false
		}
		if sg.S.Cmp(halfN) > 0 || sg.S.Sign() <= 0 || sg.R.Sign() <= 0 {
			rep.Diverge(key+":lowS", "signature does not have a low S value", map[string]interface{}{"signers": selected}, "S <= N/2", sg.String())
			good = false
		}
		if sg.RecoveryID < 0 || sg.RecoveryID > 3 {
			rep.Diverge(key+":recid", "recovery id outside 0..3", map[string]interface{}{"signers": selected}, "0..3", sg.RecoveryID)
			good = false
		}
	}
	for i, f := range intruders {
		// an unselected signer must not have obtained a signature by the time the attempt's members finished
		select {
		case o := <-intr[i]:
			if o.err == nil {
				rep.Diverge(key+":intruder", fmt.Sprintf("the signer with unselected final index %d completed the signing attempt", f),
					map[string]interface{}{"signers": selected}, "no result", o.sig.String())
				good = false
			}
		default:
		}
		rep.Count("intruder_runs", 1)
	}
	return good
}

func c08Message(rnd interface{ Int63() int64 }, k int) *big.Int {
	switch k % 3 {
	case 0:
		return big.NewInt(100 + rnd.Int63()%1000)
	default:
		b := make([]byte, 32)
		for i := range b {
			b[i] = byte(rnd.Int63())
		}
		v := new(big.Int).SetBytes(b)
		return v.Mod(v, tecdsa.Curve.Params().N)
	}
}

// c08FixtureResults: what a key generation of the 5-seat fixture group without
// the excluded seats saves -- real key-generation identities (dkg member set-up),
// fixture share data restricted to the operating seats.
func c08FixtureResults(rep *kit.Report, key string, fix []keygen.LocalPartySaveData, n int, gp *GroupParameters, excluded []int) map[int]*dkg.Result {
	seed := big.NewInt(200)
	results := map[int]*dkg.Result{}
	for m := 1; m <= n; m++ {
		if c08Contains(excluded, m) {
			continue
		}
		p, err := dkg.VerifC08KeygenParties(seed, group.MemberIndex(m), n, gp.DishonestThreshold(), c08Idx(excluded), &fix[m-1].LocalPreParams)
		if err != nil {
			rep.Diverge(key+":keygen", fmt.Sprintf("key generation member %d could not set up its TSS party: %v", m, err), nil, nil, err.Error())
			return nil
		}
		keys := make([]*big.Int, len(p.Sorted))
		for i, k := range p.Sorted {
			keys[i], _ = new(big.Int).SetString(k, 10)
			if p.SortedBack[i] < 1 || p.SortedBack[i] > n || c08Rel1(k, seed) != p.SortedBack[i] {
				rep.Diverge(key+":keygen", fmt.Sprintf("key generation member %d: party %s of its context maps back to member %d", m, k, p.SortedBack[i]), nil, c08Rel1(k, seed), p.SortedBack[i])
				return nil
			}
		}
		results[m] = &dkg.Result{Group: p.Group, PrivateKeyShare: c08Share(fix, keys, p.SortedBack, p.OwnIndex)}
	}
	return results
}

func TestVerif_C08_Sign(t *testing.T) {
	kit.RequireEngine(t)
	rep := kit.NewReport("C08", "sign")
	defer rep.Write(t)
	fix := c08Fixtures(t)
	lc := Connect()
	runs := kit.LoadCases(t, "runs.ndjson")
	budget := time.Duration(kit.IntEnv("VERIF_SIGN_BUDGET_S", 900)) * time.Second
	rnd := kit.Rand(88)
	for ri, r := range runs {
		if rep.NDivergences() > 0 || c08PipelineDiverged > 0 {
			rep.Note("real signing runs skipped after a divergence")
			rep.Eval("", nil)
			continue
		}
		n, h, q := r.Get("n").Int(), r.Get("h").Int(), r.Get("quorum").Int()
		if n != 5 || h != 3 {
			t.Fatalf("harness: real signing needs the 3-of-5 fixture group, got n=%d h=%d", n, h)
		}
		gp := &GroupParameters{GroupSize: n, GroupQuorum: q, HonestThreshold: h}
		excluded, selected, intruders := r.Get("excluded").Ints(), r.Get("signers").Ints(), r.Get("intruders").Ints()
		key := fmt.Sprintf("sign:excl=%s,signers=%s", r.Get("excluded").JSON(), r.Get("signers").JSON())
		seats := c08Seats(t, lc, n)
		all := make([]chain.Address, n)
		for i, s := range seats {
			all[i] = s.address
		}
		results := c08FixtureResults(rep, key, fix, n, gp, excluded)
		if results == nil {
			continue
		}
		byIdx := c08Register(t, rep, key, lc, gp, all, results)
		if byIdx == nil {
			continue
		}
		msg := c08Message(rnd, ri)
		ok := c08SignWith(t, rep, key, lc, gp, seats, all, byIdx, selected, intruders, msg, budget)
		nt := ""
		if len(excluded) > 0 {
			nt = key
		}
		rep.Eval(nt, map[string]interface{}{"excluded": excluded, "signers": selected, "message": msg.Text(16), "ok": ok})
	}
}

// TestVerif_C08_KeygenSign: real key generation with an exclusion set, real
// registration, real signing by engine-chosen signer sets.
func TestVerif_C08_KeygenSign(t *testing.T) {
	kit.RequireEngine(t)
	rep := kit.NewReport("C08", "keygensign")
	defer rep.Write(t)
	fix := c08Fixtures(t)
	lc := Connect()
	runs := kit.LoadCases(t, "keygenruns.ndjson")
	budget := time.Duration(kit.IntEnv("VERIF_SIGN_BUDGET_S", 900)) * time.Second
	kgBudget := time.Duration(kit.IntEnv("VERIF_KEYGEN_BUDGET_S", 1500)) * time.Second
	rnd := kit.Rand(89)
	for ri, r := range runs {
		if c08PipelineDiverged > 0 {
			rep.Note("real key generation skipped after a divergence of the pipeline replay")
			rep.Eval("", nil)
			continue
		}
		n, h, q := r.Get("n").Int(), r.Get("h").Int(), r.Get("quorum").Int()
		gp := &GroupParameters{GroupSize: n, GroupQuorum: q, HonestThreshold: h}
		excluded := r.Get("excluded").Ints()
		key := fmt.Sprintf("keygensign:excl=%s", r.Get("excluded").JSON())
		seats := c08Seats(t, lc, n)
		all := make([]chain.Address, n)
		for i, s := range seats {
			all[i] = s.address
		}
		seed := new(big.Int).Rand(rnd, new(big.Int).Lsh(big.NewInt(1), 256))
		validator := group.NewMembershipValidator(&testutils.MockLogger{}, all, lc.Signing())
		chName := fmt.Sprintf("verif-c08-kg-%d-%d-%d", kit.Seed(), time.Now().UnixNano(), ri)
		ctx, cancel := context.WithTimeout(context.Background(), kgBudget)
		type kgOut struct {
			m   int
			res *dkg.Result
			err error
		}
		outc := make(chan kgOut, n)
		var wg sync.WaitGroup
		var firstErr sync.Once
		realFailure := false
		t0 := time.Now()
		for m := 1; m <= n; m++ {
			if c08Contains(excluded, m) {
				continue
			}
			wg.Add(1)
			go func(m int) {
				defer wg.Done()
				defer func() {
					if r := recover(); r != nil {
						outc <- kgOut{m, nil, fmt.Errorf("panic: %v", r)}
					}
				}()
				ch, err := seats[m-1].provider.BroadcastChannelFor(chName)
				if err != nil {
					outc <- kgOut{m, nil, err}
					return
				}
				dkg.RegisterUnmarshallers(ch)
				ex := dkg.VerifNewExecutor([]*keygen.LocalPreParams{&fix[m-1].LocalPreParams}, 2)
				res, err := ex.Execute(ctx, &testutils.MockLogger{}, seed, "verif-c08-session", group.MemberIndex(m), n,
					gp.DishonestThreshold(), c08Idx(excluded), ch, validator)
				if err != nil && ctx.Err() == nil {
					firstErr.Do(func() { realFailure = true })
					cancel() // the others cannot complete without this member
				}
				outc <- kgOut{m, res, err}
			}(m)
		}
		wg.Wait()
		close(outc)
		results := map[int]*dkg.Result{}
		failed := false
		for o := range outc {
			if o.err != nil {
				if ctx.Err() == context.DeadlineExceeded && !realFailure && !strings.HasPrefix(o.err.Error(), "panic:") {
					cancel()
					t.Fatalf("harness: key generation %s did not finish within %v (member %d: %v)", key, kgBudget, o.m, o.err)
				}
				if ctx.Err() == context.Canceled && realFailure && strings.Contains(o.err.Error(), "context canceled") {
					failed = true // consequence of another member's failure
					continue
				}
				rep.Diverge(key+":keygen", fmt.Sprintf("key generation failed for member %d: %v", o.m, o.err), r.X, "result", o.err.Error())
				failed = true
				continue
			}
			results[o.m] = o.res
		}
		cancel()
		rep.Extra["keygen_wall_s"] = time.Since(t0).Seconds()
		if failed {
			continue
		}
		rep.Count("real_keygens", 1)
		// what tss-lib saved (the specification's stage-3 assumption, now observed)
		var pub *ecdsa.PublicKey
		for m, res := range results {
			d := res.PrivateKeyShare.Data()
			want := new(big.Int).Add(seed, big.NewInt(int64(m)))
			rank := 0
			for x := 1; x <= m; x++ {
				if !c08Contains(excluded, x) {
					rank++
				}
			}
			if d.ShareID.Cmp(want) != 0 || len(d.Ks) != n-len(excluded) || d.Ks[rank-1].Cmp(want) != 0 {
				rep.Diverge(key+":keygen", fmt.Sprintf("key share of member %d: ShareID/Ks are not seed+member at the member's rank", m), r.X, nil, nil)
				failed = true
			}
			if pub == nil {
				pub = res.PrivateKeyShare.PublicKey()
			} else if !pub.Equal(res.PrivateKeyShare.PublicKey()) {
				rep.Diverge(key+":keygen", "members produced different wallet public keys", r.X, nil, nil)
				failed = true
			}
			if !c08Eq(c08Ints(res.MisbehavedMembersIndexes()), excluded) {
				rep.Diverge(key+":keygen", fmt.Sprintf("member %d: misbehaved members differ from the excluded seats", m), r.X, excluded, c08Ints(res.MisbehavedMembersIndexes()))
				failed = true
			}
		}
		if failed {
			continue
		}
		byIdx := c08Register(t, rep, key, lc, gp, all, results)
		if byIdx == nil {
			continue
		}
		for si, sel := range r.Get("signerSets").List() {
			skey := fmt.Sprintf("%s,signers=%s", key, sel.JSON())
			msg := c08Message(rnd, ri+si+1)
			ok := c08SignWith(t, rep, skey, lc, gp, seats, all, byIdx, sel.Ints(), nil, msg, budget)
			rep.Eval(skey, map[string]interface{}{"excluded": excluded, "signers": sel.Ints(), "realKeygen": true, "ok": ok})
		}
	}
}
