//go:build verif

package tbtc

// C22, second harness: the real coordinationExecutor.coordinate() of ONE node
// that is a member of TWO wallets, at a window whose index is divisible by 4,
// where the heartbeat draw differs between the two wallets (spec:
// /verif/specs/Coordination, actions GetChecklist / AppendNoop on several
// executors of one process; invariants ChecklistStable and
// ChecklistDependsOnlyOnSeedAndWindow).
//
// The node is a follower for both wallets. Both coordinate() calls are started
// (in either order) and are listening when the leaders' messages arrive, so
// each follower uses its allowed-actions list after the other wallet's
// executor computed its own. Each leader first proposes a heartbeat and then a
// redemption. By the specification the allowed actions of a wallet are
// Checklist(index, draw of ITS seed) ++ <<Noop>>: the wallet whose seed draws
// the heartbeat accepts the heartbeat proposal; the other one records a leader
// mistake and accepts the redemption. What the other wallet does must not
// matter.

import (
	"context"
	"crypto/sha256"
	"encoding/hex"
	"fmt"
	"math/big"
	"testing"
	"time"

	"github.com/keep-network/keep-core/internal/testutils"
	kit "github.com/keep-network/keep-core/internal/verifkit"
	"github.com/keep-network/keep-core/pkg/bitcoin"
	"github.com/keep-network/keep-core/pkg/chain"
	"github.com/keep-network/keep-core/pkg/generator"
	"github.com/keep-network/keep-core/pkg/net"
	"github.com/keep-network/keep-core/pkg/operator"
	"github.com/keep-network/keep-core/pkg/protocol/group"
)

type c22Channel struct {
	handler    func(net.Message)
	registered chan struct{}
}

func (c *c22Channel) Name() string { return "verif-c22" }
func (c *c22Channel) Send(ctx context.Context, m net.TaggedMarshaler, s ...net.RetransmissionStrategy) error {
	return nil
}
func (c *c22Channel) Recv(ctx context.Context, handler func(m net.Message)) {
	c.handler = handler
	close(c.registered)
}
func (c *c22Channel) SetUnmarshaler(unmarshaler func() net.TaggedUnmarshaler) {}
func (c *c22Channel) SetFilter(filter net.BroadcastChannelFilter) error        { return nil }

type c22ID string

func (i c22ID) String() string { return string(i) }

type c22Msg struct {
	key     []byte
	payload interface{}
	seq     uint64
}

func (m *c22Msg) TransportSenderID() net.TransportIdentifier { return c22ID(fmt.Sprintf("%x", m.key[:8])) }
func (m *c22Msg) SenderPublicKey() []byte                    { return m.key }
func (m *c22Msg) Payload() interface{}                       { return m.payload }
func (m *c22Msg) Type() string                               { return "tbtc/coordination_message" }
func (m *c22Msg) Seqno() uint64                              { return m.seq }

func TestVerif_C22_TwoWallets(t *testing.T) {
	kit.RequireEngine(t)
	rep := kit.NewReport("C22", "twowallets")
	defer rep.Write(t)
	rounds := kit.IntEnv("VERIF_TWO_WALLETS", 6)

	// windows whose index is divisible by 4, with the specification's two checklists
	type winCase struct {
		block     uint64
		idx       int
		plain, hb []string
	}
	var wins []winCase
	for _, c := range kit.LoadCases(t, "cases.ndjson") {
		if c.Get("kind").Str() == "checklist" && c.Get("idx").Int() > 0 && c.Get("idx").Int()%4 == 0 {
			wins = append(wins, winCase{c22Block(c.Get("b").Int()), c.Get("idx").Int(), c.Get("plain").Strs(), c.Get("hb").Strs()})
		}
	}
	if len(wins) == 0 {
		t.Fatalf("no window with an index divisible by 4 among the cases")
	}
	has := func(l []string, a string) bool {
		for _, x := range l {
			if x == a {
				return true
			}
		}
		return false
	}

	node := c22Chain(6600) // the node's chain handle; its operator is a member of both wallets
	self, err := node.operatorAddress()
	if err != nil {
		t.Fatal(err)
	}
	keys := map[chain.Address][]byte{}
	var others []chain.Address
	for i := 0; i < 2; i++ {
		lc := c22Chain(int64(6601 + i))
		_, pub, err := lc.OperatorKeyPair()
		if err != nil {
			t.Fatal(err)
		}
		a, err := lc.operatorAddress()
		if err != nil {
			t.Fatal(err)
		}
		keys[a] = operator.MarshalUncompressed(pub)
		others = append(others, a)
	}
	p, q := others[0], others[1]
	walletA := generateWallet(big.NewInt(50011))
	walletA.signingGroupOperators = []chain.Address{self, p, q, p}
	walletB := generateWallet(big.NewInt(50029))
	walletB.signingGroupOperators = []chain.Address{q, self, p}
	probe := func(w wallet) *coordinationExecutor { return &coordinationExecutor{chain: node, coordinatedWallet: w} }
	hbOf := func(w wallet, seed [32]byte) bool {
		// window 1 never touches the every-fourth-window branch
		cl := probe(w).getActionsChecklist(1, seed)
		return len(cl) > 0 && cl[len(cl)-1] == ActionHeartbeat
	}

	done := 0
	for try := 0; done < rounds && try < 200000; try++ {
		win := wins[try%len(wins)]
		h := sha256.Sum256([]byte(fmt.Sprintf("verif-c22-two/%d/%d", kit.Seed(), try)))
		node.setBlockHashByNumber(win.block-coordinationSafeBlockShift, hex.EncodeToString(h[:]))
		seedA, errA := probe(walletA).getSeed(win.block)
		seedB, errB := probe(walletB).getSeed(win.block)
		if errA != nil || errB != nil {
			t.Fatalf("getSeed: %v %v", errA, errB)
		}
		hbA, hbB := hbOf(walletA, seedA), hbOf(walletB, seedB)
		leaderA, leaderB := probe(walletA).getLeader(seedA), probe(walletB).getLeader(seedB)
		if hbA == hbB || leaderA == self || leaderB == self {
			continue
		}
		for order := 0; order < 2; order++ { // which wallet's coordinate() starts first
			phaseEnd := make(chan struct{})
			waitFn := func(ctx context.Context, block uint64) error {
				select {
				case <-phaseEnd:
					return nil
				case <-ctx.Done():
					return ctx.Err()
				}
			}
			type side struct {
				name   string
				w      wallet
				leader chain.Address
				hb     bool
				ch     *c22Channel
				exec   *coordinationExecutor
				res    chan *coordinationResult
				errc   chan error
			}
			mk := func(name string, w wallet, leader chain.Address, hb bool) *side {
				s := &side{name: name, w: w, leader: leader, hb: hb, ch: &c22Channel{registered: make(chan struct{})},
					res: make(chan *coordinationResult, 1), errc: make(chan error, 1)}
				s.exec = newCoordinationExecutor(node, w, w.membersByOperator(self), self, nil, s.ch,
					group.NewMembershipValidator(&testutils.MockLogger{}, w.signingGroupOperators, node.Signing()),
					generator.NewProtocolLatch(), waitFn)
				return s
			}
			sides := []*side{mk("A", walletA, leaderA, hbA), mk("B", walletB, leaderB, hbB)}
			if order == 1 {
				sides[0], sides[1] = sides[1], sides[0]
			}
			for _, s := range sides {
				s := s
				go func() {
					r, err := s.exec.coordinate(newCoordinationWindow(win.block))
					if err != nil {
						s.errc <- err
						return
					}
					s.res <- r
				}()
				// its checklist and allowed actions are computed; it is listening now
				select {
				case <-s.ch.registered:
				case err := <-s.errc:
					t.Fatalf("coordinate() of wallet %s failed early: %v", s.name, err)
				case <-time.After(60 * time.Second):
					t.Fatalf("coordinate() of wallet %s never started listening", s.name)
				}
			}
			// the leaders speak: a heartbeat proposal, then a redemption proposal
			for _, s := range sides {
				leaderID := s.w.membersByOperator(s.leader)[0]
				pkh := bitcoin.PublicKeyHash(s.w.publicKey)
				for i, prop := range []CoordinationProposal{
					&HeartbeatProposal{Message: [16]byte{0xc2, byte(done)}},
					&RedemptionProposal{RedemptionTxFee: big.NewInt(int64(7000 + done))},
				} {
					s.ch.handler(&c22Msg{key: keys[s.leader], seq: uint64(i + 1), payload: &coordinationMessage{
						senderID: leaderID, coordinationBlock: win.block, walletPublicKeyHash: pkh, proposal: prop}})
				}
			}
			for _, s := range sides {
				cas := map[string]interface{}{"window": win.block, "windowIndex": win.idx, "wallet": s.name, "heartbeatDrawn": s.hb,
					"otherWalletHeartbeatDrawn": !s.hb, "startedFirst": sides[0].name, "safeBlockHash": hex.EncodeToString(h[:])}
				// the specification's allowed actions of THIS wallet
				allowed := append(append([]string{}, win.plain...), "Noop")
				if s.hb {
					allowed = append(append([]string{}, win.hb...), "Noop")
				}
				expAction, expFaults := "Redemption", []string{"FaultLeaderMistake"}
				if has(allowed, "Heartbeat") {
					expAction, expFaults = "Heartbeat", []string{}
				}
				var r *coordinationResult
				select {
				case r = <-s.res:
				case err := <-s.errc:
					rep.Diverge("coordinate:error", fmt.Sprintf("coordinate() of wallet %s failed: %v", s.name, err), cas, expAction, err.Error())
					rep.Eval(fmt.Sprintf("%d/%s/%d", win.block, s.name, order), cas)
					continue
				case <-time.After(60 * time.Second):
					close(phaseEnd)
					t.Fatalf("coordinate() of wallet %s did not return although two proposals of its leader were delivered", s.name)
				}
				obsFaults := []string{}
				for _, f := range r.faults {
					obsFaults = append(obsFaults, f.faultType.String())
				}
				rep.Eval(fmt.Sprintf("%d/%s/%d", win.block, s.name, order), cas)
				if r.proposal.ActionType().String() != expAction || fmt.Sprint(obsFaults) != fmt.Sprint(expFaults) {
					rep.Diverge("coordinate:allowed-actions-depend-on-other-wallet",
						fmt.Sprintf("node follows wallets A and B at window index %d; wallet %s (heartbeat %sdrawn for its seed; allowed actions by the specification: %v) returned proposal %s with faults %v, expected %s with faults %v: the other wallet's executor changed this wallet's allowed actions",
							win.idx, s.name, map[bool]string{true: "", false: "not "}[s.hb], allowed, r.proposal.ActionType(), obsFaults, expAction, expFaults),
						cas, map[string]interface{}{"proposal": expAction, "faults": expFaults},
						map[string]interface{}{"proposal": r.proposal.ActionType().String(), "faults": obsFaults})
				}
				if r.leader != s.leader {
					rep.Diverge("coordinate:leader", "coordinate() reports another leader than getLeader on a fresh executor", cas, string(s.leader), string(r.leader))
				}
			}
			close(phaseEnd)
		}
		done++
	}
	rep.Count("rounds", done)
	if done < rounds {
		t.Fatalf("found only %d of %d suitable block hashes", done, rounds)
	}
}
