//go:build verif

package tbtc

// C38 conformance harness for the tBTC wallet registry (see
// /verif/specs/Registry, Flavor "tbtc"). The real walletRegistry /
// walletStorage run over the real keep-common persistence stack (encrypted
// protected disk handle in a temporary directory) behind the fault injector of
// internal/verifc38. Signers are built from the tss-lib key share fixtures of
// pkg/internal/tecdsatest (one share per member index) and one secp256k1
// public key per wallet; after every step every signer the registry returns
// is compared byte-for-byte (signer.Marshal) with the one that was registered,
// and the lookups by public key, public key hash and wallet ID must agree.

import (
	"bytes"
	"crypto/ecdsa"
	"fmt"
	"math/big"
	"testing"

	"github.com/keep-network/keep-common/pkg/persistence"
	c38 "github.com/keep-network/keep-core/internal/verifc38"
	kit "github.com/keep-network/keep-core/internal/verifkit"
	"github.com/keep-network/keep-core/pkg/bitcoin"
	"github.com/keep-network/keep-core/pkg/chain"
	"github.com/keep-network/keep-core/pkg/internal/tecdsatest"
	"github.com/keep-network/keep-core/pkg/protocol/group"
	"github.com/keep-network/keep-core/pkg/tecdsa"
)

const c38MaxWallets, c38MaxIndexes = 4, 5

type c38Rig struct {
	chain   *localChain
	reg     *walletRegistry
	pubs    []*ecdsa.PublicKey // wallet w -> key (index w-1)
	pkh     [][20]byte
	ids     [][32]byte
	signers map[[2]int]*signer
	bytes   map[[2]int][]byte
	// signers already compared byte-for-byte, by identity (the registry keeps
	// the same objects until the next restart); holding them here also keeps
	// their addresses from being reused
	verified map[*signer][2]int
}

func newC38Rig(t *testing.T) *c38Rig {
	r := &c38Rig{chain: Connect(), signers: map[[2]int]*signer{}, bytes: map[[2]int][]byte{}, verified: map[*signer][2]int{}}
	shares, err := tecdsatest.LoadPrivateKeyShareTestFixtures(c38MaxIndexes)
	if err != nil {
		t.Fatalf("fixtures: %v", err)
	}
	for w := 1; w <= c38MaxWallets; w++ {
		x, y := tecdsa.Curve.ScalarBaseMult(big.NewInt(int64(7000 + 13*w)).Bytes())
		pub := &ecdsa.PublicKey{Curve: tecdsa.Curve, X: x, Y: y}
		r.pubs = append(r.pubs, pub)
		r.pkh = append(r.pkh, bitcoin.PublicKeyHash(pub))
		id, err := r.chain.CalculateWalletID(pub)
		if err != nil {
			t.Fatalf("wallet id: %v", err)
		}
		r.ids = append(r.ids, id)
		ops := []chain.Address{}
		for k := 1; k <= c38MaxIndexes; k++ {
			ops = append(ops, chain.Address(fmt.Sprintf("operator-%d-of-wallet-%d", k, w)))
		}
		for i := 1; i <= c38MaxIndexes; i++ {
			s := &signer{
				wallet:                  wallet{publicKey: pub, signingGroupOperators: ops},
				signingGroupMemberIndex: group.MemberIndex(i),
				privateKeyShare:         tecdsa.NewPrivateKeyShare(shares[i-1]),
			}
			b1, err := s.Marshal()
			if err != nil {
				t.Fatalf("marshal: %v", err)
			}
			// the comparison below relies on Marshal being a function of the
			// content: marshal -> unmarshal -> marshal must reproduce the bytes
			s2 := &signer{}
			if err := s2.Unmarshal(b1); err != nil {
				t.Fatalf("unmarshal: %v", err)
			}
			b2, _ := s2.Marshal()
			b3, _ := s.Marshal()
			if !bytes.Equal(b1, b2) || !bytes.Equal(b1, b3) {
				t.Fatalf("signer marshalling is not canonical; the byte-for-byte oracle cannot be used")
			}
			r.signers[[2]int{w, i}] = s
			r.bytes[[2]int{w, i}] = b1
		}
	}
	return r
}

func (r *c38Rig) Marker() string { return "keep-core/pkg/tbtc." }
func (r *c38Rig) Name() string   { return "tbtc" }

func (r *c38Rig) Start(h persistence.ProtectedHandle) error {
	reg, err := newWalletRegistry(h, r.chain.CalculateWalletID)
	if err != nil {
		return err
	}
	r.reg = reg
	return nil
}

func (r *c38Rig) Register(w, i int) error { return r.reg.registerSigner(r.signers[[2]int{w, i}]) }
func (r *c38Rig) Archive(w int) error     { return r.reg.archiveWallet(r.pkh[w-1]) }
func (r *c38Rig) Unregister(int, map[int]bool, map[int]bool) {
	panic("verif: not an operation of the wallet registry")
}
func (r *c38Rig) DirOf(w int) string { return getWalletStorageKey(r.pubs[w-1]) }
func (r *c38Rig) NumKnown() int      { return len(r.reg.getWalletsPublicKeys()) }

func (r *c38Rig) walletOfKey(k string) int {
	for w := range r.pubs {
		if getWalletStorageKey(r.pubs[w]) == k {
			return w + 1
		}
	}
	return 0
}

func (r *c38Rig) Cache() (map[int][]int, string) {
	out := map[int][]int{}
	r.reg.mutex.Lock()
	defer r.reg.mutex.Unlock()
	for k, v := range r.reg.walletCache {
		w := r.walletOfKey(k)
		if w == 0 {
			return out, "the wallet cache has an entry under an unknown key " + k
		}
		if len(v.signers) == 0 {
			return out, fmt.Sprintf("the wallet cache has an entry without signers for wallet %d", w)
		}
		for _, s := range v.signers {
			out[w] = append(out[w], int(s.signingGroupMemberIndex))
		}
		if v.walletPublicKeyHash != r.pkh[w-1] || v.walletID != r.ids[w-1] {
			return out, fmt.Sprintf("the cached public key hash / wallet ID of wallet %d are wrong", w)
		}
	}
	return out, ""
}

func (r *c38Rig) sameWallet(w int, got wallet) bool {
	exp := r.signers[[2]int{w, 1}].wallet
	if got.publicKey == nil || got.publicKey.X.Cmp(exp.publicKey.X) != 0 || got.publicKey.Y.Cmp(exp.publicKey.Y) != 0 {
		return false
	}
	if len(got.signingGroupOperators) != len(exp.signingGroupOperators) {
		return false
	}
	for k := range exp.signingGroupOperators {
		if got.signingGroupOperators[k] != exp.signingGroupOperators[k] {
			return false
		}
	}
	return true
}

func (r *c38Rig) Check(w int, idxs []int) string {
	present := len(idxs) > 0
	signers := r.reg.getSigners(r.pubs[w-1])
	if len(signers) != len(idxs) {
		return fmt.Sprintf("getSigners(wallet %d) returned %d signers, %d expected", w, len(signers), len(idxs))
	}
	seen := map[int]bool{}
	for _, s := range signers {
		i := int(s.signingGroupMemberIndex)
		seen[i] = true
		if v, done := r.verified[s]; done && v == [2]int{w, i} {
			continue
		}
		b, err := s.Marshal()
		if err != nil {
			return fmt.Sprintf("signer %d of wallet %d cannot be marshalled: %v", i, w, err)
		}
		if !bytes.Equal(b, r.bytes[[2]int{w, i}]) {
			return fmt.Sprintf("key material of signer %d of wallet %d differs from what was registered", i, w)
		}
		r.verified[s] = [2]int{w, i}
	}
	for _, i := range idxs {
		if !seen[i] {
			return fmt.Sprintf("getSigners(wallet %d) lacks member index %d", w, i)
		}
	}
	byHash, ok1 := r.reg.getWalletByPublicKeyHash(r.pkh[w-1])
	byID, ok2 := r.reg.getWalletByID(r.ids[w-1])
	if ok1 != present || ok2 != present {
		return fmt.Sprintf("lookups disagree for wallet %d: by public key %v, by public key hash %v, by wallet ID %v", w, present, ok1, ok2)
	}
	if present && (!r.sameWallet(w, byHash) || !r.sameWallet(w, byID)) {
		return fmt.Sprintf("lookup by hash / ID returned a different wallet than wallet %d", w)
	}
	listed := false
	for _, k := range r.reg.getWalletsPublicKeys() {
		if k.X.Cmp(r.pubs[w-1].X) == 0 && k.Y.Cmp(r.pubs[w-1].Y) == 0 {
			listed = true
		}
	}
	if listed != present {
		return fmt.Sprintf("getWalletsPublicKeys lists wallet %d: %v, expected %v", w, listed, present)
	}
	return ""
}

func TestVerif_C38_ReplayWallets(t *testing.T) {
	kit.RequireEngine(t)
	rep := kit.NewReport("C38", "replay_tbtc")
	defer rep.Write(t)
	cases := kit.LoadCases(t, "behaviours.ndjson")
	c38.Replay(t, rep, newC38Rig(t), cases)
}
