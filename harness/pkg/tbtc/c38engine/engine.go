//go:build verif

// Package verifc38 is the replay engine shared by the two C38 harnesses
// (pkg/tbtc and pkg/beacon/registry). It is overlaid into the repository at
// internal/verifc38 by the engine; it is not part of keep-core.
//
// A registry ("rig") runs over the real keep-common persistence stack
//
//	fault injector -> NewEncryptedProtectedPersistence -> NewProtectedDiskHandle(tmp dir)
//
// and is stepped through behaviours of /verif/specs/Registry/Gen_Registry.tla.
// The fault injector makes a Save / Archive call fail without effect, or lets
// it take effect and then ends the calling goroutine (the process died between
// the storage call and the update of the in-memory map; the instance is
// abandoned and a new one is built from the same directory). After every step
// the directory tree, the in-memory map and every lookup are compared with the
// specification's state.
package verifc38

import (
	"fmt"
	"os"
	"path/filepath"
	"regexp"
	"runtime"
	"sort"
	"strconv"
	"strings"
	"sync"
	"testing"
	"time"

	"github.com/keep-network/keep-common/pkg/persistence"
	kit "github.com/keep-network/keep-core/internal/verifkit"
)

// Rig adapts one registry.
type Rig interface {
	Name() string
	// Start builds a fresh registry instance from the storage (node start).
	Start(h persistence.ProtectedHandle) error
	Register(w, i int) error
	// Archive is archiveWallet (tbtc).
	Archive(w int) error
	// Unregister is UnregisterStaleGroups (beacon); latest = 0: no such group.
	Unregister(latest int, stale, chainErr map[int]bool)
	// Cache returns the in-memory map: wallet -> member indexes as stored.
	Cache() (map[int][]int, string)
	// Check runs every lookup for wallet w, which must know exactly idxs (none
	// = wallet unknown), and compares key material byte-for-byte.
	Check(w int, idxs []int) string
	// DirOf is the storage directory of wallet w.
	DirOf(w int) string
	// Marker is a substring of the fully qualified function names of the registry's package.
	Marker() string
	NumKnown() int // number of wallets the registry lists (getWalletsPublicKeys); -1 if not applicable
}

type outcome int

const (
	ok outcome = iota
	fail
	crashAfter
)

// FaultHandle is the fault-injecting persistence.ProtectedHandle.
type FaultHandle struct {
	mu         sync.Mutex
	inner      persistence.ProtectedHandle
	save       outcome
	archive    outcome         // for every Archive call ...
	archFail   map[string]bool // ... unless the directory is listed here (fails)
	crashAtN   int             // > 0: the n-th Archive call from now takes effect, then the goroutine ends
	nArchive   int
	unreadable map[string]bool // dir/name whose content cannot be read
	calls      []string
}

func (f *FaultHandle) note(s string) { f.calls = append(f.calls, s) }

func (f *FaultHandle) Save(data []byte, directory string, name string) error {
	f.mu.Lock()
	o := f.save
	f.note("Save " + directory + name)
	f.mu.Unlock()
	if o == fail {
		return fmt.Errorf("verif: no space left on device")
	}
	err := f.inner.Save(data, directory, name)
	if o == crashAfter {
		runtime.Goexit()
	}
	return err
}

func (f *FaultHandle) Snapshot(data []byte, directory string, name string) error {
	return f.inner.Snapshot(data, directory, name)
}

func (f *FaultHandle) Archive(directory string) error {
	f.mu.Lock()
	o := f.archive
	if f.archFail[directory] {
		o = fail
	}
	f.nArchive++
	crash := f.crashAtN > 0 && f.nArchive == f.crashAtN
	f.note("Archive " + directory)
	f.mu.Unlock()
	if o == fail && !crash {
		return fmt.Errorf("verif: cannot move directory")
	}
	err := f.inner.Archive(directory)
	if o == crashAfter || crash {
		runtime.Goexit()
	}
	return err
}

type failingDescriptor struct{ persistence.DataDescriptor }

func (d failingDescriptor) Content() ([]byte, error) {
	return nil, fmt.Errorf("verif: input/output error")
}

func (f *FaultHandle) ReadAll() (<-chan persistence.DataDescriptor, <-chan error) {
	in, inErr := f.inner.ReadAll()
	out := make(chan persistence.DataDescriptor)
	outErr := make(chan error)
	f.mu.Lock()
	unreadable := map[string]bool{}
	for k := range f.unreadable {
		unreadable[k] = true
	}
	f.mu.Unlock()
	go func() {
		defer close(outErr)
		for e := range inErr {
			outErr <- e
		}
	}()
	go func() {
		defer close(out)
		for d := range in {
			if unreadable[d.Directory()+"/"+strings.TrimPrefix(d.Name(), "/")] {
				out <- failingDescriptor{d}
			} else {
				out <- d
			}
		}
	}()
	return out, outErr
}

// ------------------------------------------------------------ observation

func fileName(i int) string { return "membership_" + strconv.Itoa(i) }

// tree reads <root>/<sub>/<dir>/<file> into wallet -> sorted indexes.
func tree(root, sub string, rig Rig, nWallets int) (map[int][]int, string) {
	out := map[int][]int{}
	dirs, err := os.ReadDir(filepath.Join(root, sub))
	if err != nil {
		return out, err.Error()
	}
	byDir := map[string]int{}
	for w := 1; w <= nWallets; w++ {
		byDir[rig.DirOf(w)] = w
	}
	for _, d := range dirs {
		w, known := byDir[d.Name()]
		if !known {
			return out, fmt.Sprintf("unexpected directory %s/%s", sub, d.Name())
		}
		files, _ := os.ReadDir(filepath.Join(root, sub, d.Name()))
		for _, f := range files {
			if !strings.HasPrefix(f.Name(), "membership_") {
				return out, fmt.Sprintf("unexpected file %s/%s/%s", sub, d.Name(), f.Name())
			}
			i, err := strconv.Atoi(strings.TrimPrefix(f.Name(), "membership_"))
			if err != nil {
				return out, fmt.Sprintf("unexpected file %s/%s/%s", sub, d.Name(), f.Name())
			}
			out[w] = append(out[w], i)
		}
		sort.Ints(out[w])
	}
	return out, ""
}

// State is the observable projection compared with the specification.
type State struct {
	Cur   [][]int `json:"cur"`   // per wallet, sorted
	Arch  [][]int `json:"arch"`  // per wallet, sorted
	Cache [][]int `json:"cache"` // per wallet, sorted (duplicates kept)
}

func specState(st kit.V) State {
	conv := func(v kit.V) [][]int {
		var out [][]int
		for _, x := range v.List() {
			l := x.Ints()
			if l == nil {
				l = []int{}
			}
			l = append([]int{}, l...)
			sort.Ints(l)
			out = append(out, l)
		}
		return out
	}
	return State{Cur: conv(st.Get("cur")), Arch: conv(st.Get("arch")), Cache: conv(st.Get("cache"))}
}

func fromMap(m map[int][]int, n int) [][]int {
	out := make([][]int, n)
	for w := 1; w <= n; w++ {
		l := append([]int{}, m[w]...)
		sort.Ints(l)
		out[w-1] = l
	}
	return out
}

func (s State) diff(e State) string {
	switch {
	case fmt.Sprint(s.Cur) != fmt.Sprint(e.Cur):
		return "storage"
	case fmt.Sprint(s.Arch) != fmt.Sprint(e.Arch):
		return "archive"
	case fmt.Sprint(s.Cache) != fmt.Sprint(e.Cache):
		return "cache"
	}
	return ""
}

type opResult struct {
	err     error
	crashed bool
	pan     interface{}
	hung    string // not empty: the operation is deadlocked (stacks of the blocked goroutines)
}

var stackHeader = regexp.MustCompile(`(?m)^goroutine \d+ \[([^\],]+)[^\]]*\]:$`)

// blockedStacks returns the stacks of all goroutines that mention marker, with
// the header reduced to the wait reason, and whether all of them are blocked.
func blockedStacks(marker string) (string, bool) {
	buf := make([]byte, 1<<20)
	buf = buf[:runtime.Stack(buf, true)]
	var keep []string
	allBlocked := true
	for _, blk := range strings.Split(string(buf), "\n\n") {
		if !strings.Contains(blk, marker) || strings.Contains(blk, "verifc38.blockedStacks") {
			continue
		}
		m := stackHeader.FindStringSubmatch(blk)
		if m == nil {
			continue
		}
		switch m[1] {
		case "running", "runnable", "syscall", "IO wait", "sleep":
			allBlocked = false
		}
		keep = append(keep, stackHeader.ReplaceAllString(blk, "goroutine ["+m[1]+"]:"))
	}
	sort.Strings(keep)
	return strings.Join(keep, "\n\n"), allBlocked && len(keep) > 0
}

// run executes one registry operation on its own goroutine: a crash ends that
// goroutine (runtime.Goexit inside the persistence call).
func run(t *testing.T, marker string, op func() error) opResult {
	done := make(chan opResult, 1)
	go func() {
		returned := false
		var err error
		defer func() {
			if x := recover(); x != nil {
				done <- opResult{pan: fmt.Sprint(x)}
			} else if !returned {
				done <- opResult{crashed: true}
			} else {
				done <- opResult{err: err}
			}
		}()
		err = op()
		returned = true
	}()
	for waited := 0; ; waited++ {
		select {
		case r := <-done:
			return r
		case <-time.After(30 * time.Second):
		}
		// slow or deadlocked? Deadlocked = every goroutine inside the registry
		// package is parked and nothing moved for several seconds.
		s1, b1 := blockedStacks(marker)
		time.Sleep(3 * time.Second)
		s2, b2 := blockedStacks(marker)
		select {
		case r := <-done:
			return r
		default:
		}
		if b1 && b2 && s1 == s2 {
			return opResult{hung: s1}
		}
		if waited >= 8 {
			t.Fatalf("verifc38: registry operation did not return\n%s", s2)
		}
	}
}

func pairs(v kit.V, rig Rig) map[string]bool {
	out := map[string]bool{}
	for _, e := range v.List() {
		w, i := e.Idx(0).Int(), e.Idx(1).Int()
		out[rig.DirOf(w)+"/"+fileName(i)] = true
	}
	return out
}

func set(v kit.V) map[int]bool {
	out := map[int]bool{}
	for _, x := range v.Ints() {
		out[x] = true
	}
	return out
}

// Replay runs every behaviour on the rig.
func Replay(t *testing.T, rep *kit.Report, rig Rig, cases []kit.V) {
	// a memory-backed directory when there is one: the disk handle syncs every file
	base, err := os.MkdirTemp("/dev/shm", "verif-c38-")
	if err != nil {
		base, err = os.MkdirTemp("", "verif-c38-")
	}
	if err != nil {
		t.Fatalf("tmp dir: %v", err)
	}
	defer os.RemoveAll(base)

	for ci, c := range cases {
		steps := c.Get("steps").List()
		n := c.Get("wallets").Int()
		key := kit.Hash(c.Get("steps").X)
		var compact []string
		for _, s := range steps {
			x := s.Get("a").Str()
			if s.Get("w").Int() > 0 {
				x += fmt.Sprintf("(w%d", s.Get("w").Int())
				if s.Get("i").Int() > 0 {
					x += fmt.Sprintf(",i%d", s.Get("i").Int())
				}
				x += ")"
			}
			if strings.HasPrefix(x, "Unregister") {
				x += fmt.Sprintf("(latest=%d stale=%v chainErr=%v archFail=%v archived=%v)", s.Get("latest").Int(),
					s.Get("S").Ints(), s.Get("E").Ints(), s.Get("F").Ints(), s.Get("A").Ints())
			}
			if k := s.Get("K"); k.Len() > 0 {
				x += " unreadable=" + k.JSON()
			}
			compact = append(compact, x)
		}
		caseX := map[string]interface{}{"wallets": n, "steps": compact}
		root := filepath.Join(base, fmt.Sprintf("b%d", ci))
		if err := os.Mkdir(root, 0o700); err != nil {
			t.Fatalf("mkdir: %v", err)
		}
		disk, err := persistence.NewProtectedDiskHandle(root)
		if err != nil {
			t.Fatalf("disk handle: %v", err)
		}
		fh := &FaultHandle{inner: persistence.NewEncryptedProtectedPersistence(disk, "verif-password")}
		if err := rig.Start(fh); err != nil {
			t.Fatalf("cannot start the registry on empty storage: %v", err)
		}
		diverge := func(s kit.V, idx int, field, what string, exp, obs interface{}) {
			rep.Diverge(fmt.Sprintf("%s:%s:%s", rig.Name(), s.Get("a").Str(), field),
				fmt.Sprintf("%s (behaviour %s, step %d %s)", what, key, idx+1, compact[idx]), caseX, exp, obs)
		}
		hung := false
		restart := func(s kit.V, idx int) bool {
			fh.mu.Lock()
			fh.save, fh.archive, fh.archFail, fh.crashAtN, fh.nArchive = ok, ok, nil, 0, 0
			fh.unreadable = pairs(s.Get("K"), rig)
			fh.mu.Unlock()
			r := run(t, rig.Marker(), func() error { return rig.Start(fh) })
			if r.hung != "" {
				diverge(s, idx, "hang", "rebuilding the registry from storage never returns (all its goroutines are blocked)", "a registry", r.hung)
				hung = true
				return false
			}
			if r.pan != nil || r.err != nil || r.crashed {
				diverge(s, idx, "start", "the registry could not be rebuilt from storage", "a registry", fmt.Sprintf("%+v", r))
				return false
			}
			return true
		}
		good := true
		diverted := false
		nontrivial := false
		for i := 0; i < len(steps) && good && !diverted; i++ {
			s := steps[i]
			a := s.Get("a").Str()
			w, idx := s.Get("w").Int(), s.Get("i").Int()
			rep.Count("step_"+a, 1)
			fh.mu.Lock()
			fh.save, fh.archive, fh.archFail, fh.crashAtN, fh.nArchive = ok, ok, nil, 0, 0
			fh.calls = nil
			fh.mu.Unlock()
			wantErr, wantCrash := false, false
			var r opResult
			switch a {
			case "RegisterOk", "RegisterFail", "RegisterCrash":
				fh.mu.Lock()
				switch a {
				case "RegisterFail":
					fh.save, wantErr, nontrivial = fail, true, true
				case "RegisterCrash":
					fh.save, wantCrash, nontrivial = crashAfter, true, true
				}
				fh.mu.Unlock()
				r = run(t, rig.Marker(), func() error { return rig.Register(w, idx) })
			case "ArchiveOk", "ArchiveFail", "ArchiveMissing", "ArchiveCrash":
				nontrivial = true
				fh.mu.Lock()
				switch a {
				case "ArchiveFail":
					fh.archive, wantErr = fail, true
				case "ArchiveMissing":
					wantErr = true
				case "ArchiveCrash":
					fh.archive, wantCrash = crashAfter, true
				}
				fh.mu.Unlock()
				r = run(t, rig.Marker(), func() error { return rig.Archive(w) })
			case "Unregister", "UnregisterCrash":
				nontrivial = true
				fh.mu.Lock()
				fh.archFail = map[string]bool{}
				for f := range set(s.Get("F")) {
					fh.archFail[rig.DirOf(f)] = true
				}
				if a == "UnregisterCrash" {
					fh.crashAtN, wantCrash = s.Get("A").Len(), true
				}
				fh.mu.Unlock()
				r = run(t, rig.Marker(), func() error {
					rig.Unregister(s.Get("latest").Int(), set(s.Get("S")), set(s.Get("E")))
					return nil
				})
			case "Restart":
				nontrivial = true
				good = restart(s, i)
			default:
				t.Fatalf("verifc38: unknown action %q", a)
			}
			if !good {
				break
			}
			if a != "Restart" {
				switch {
				case r.hung != "":
					diverge(s, i, "hang", "the operation never returns (all goroutines of the registry are blocked)", "a result", r.hung)
					good = false
					hung = true
				case r.pan != nil:
					diverge(s, i, "panic", fmt.Sprintf("the registry panicked: %v", r.pan), "no panic", r.pan)
					good = false
				case r.crashed != wantCrash:
					diverge(s, i, "call", "the operation did not reach the storage call the behaviour interrupts", wantCrash, fmt.Sprintf("%+v calls=%v", r, fh.calls))
					good = false
				case !wantCrash && (r.err != nil) != wantErr:
					diverge(s, i, "return", "the operation returned the wrong result", map[string]bool{"error": wantErr}, fmt.Sprint(r.err))
					good = false
				}
				if !good {
					break
				}
			}
			exp := specState(s.Get("st"))
			if wantCrash {
				// which groups were archived before the crash is decided by Go's
				// map iteration order: accept any set of the same size among
				// the eligible ones and stop following the behaviour then
				if a == "UnregisterCrash" {
					arch, _ := tree(root, "archive", rig, n)
					cur, _ := tree(root, "current", rig, n)
					obsA, obsC := fromMap(arch, n), fromMap(cur, n)
					if fmt.Sprint(obsA) != fmt.Sprint(exp.Arch) || fmt.Sprint(obsC) != fmt.Sprint(exp.Cur) {
						pre := specState(steps[i-1].Get("st"))
						moved, legal := 0, true
						elig := set(s.Get("EL"))
						for wi := 0; wi < n; wi++ {
							if fmt.Sprint(obsC[wi]) != fmt.Sprint(pre.Cur[wi]) {
								moved++
								if !elig[wi+1] || len(obsC[wi]) != 0 {
									legal = false
								}
							}
						}
						if legal && moved == s.Get("A").Len() {
							diverted = true
							rep.Count("crash_other_order", 1)
							break
						}
					}
				}
				if !restart(s, i) {
					good = false
					break
				}
			}
			cur, p1 := tree(root, "current", rig, n)
			arch, p2 := tree(root, "archive", rig, n)
			cache, p3 := rig.Cache()
			for _, p := range []string{p1, p2, p3} {
				if p != "" {
					diverge(s, i, "layout", p, "", "")
					good = false
				}
			}
			if !good {
				break
			}
			obs := State{Cur: fromMap(cur, n), Arch: fromMap(arch, n), Cache: fromMap(cache, n)}
			if f := obs.diff(exp); f != "" {
				diverge(s, i, f, fmt.Sprintf("%s of the real registry differs from the specification after the step", f), exp, obs)
				good = false
				break
			}
			known := 0
			for wi := 1; wi <= n; wi++ {
				if len(exp.Cache[wi-1]) > 0 {
					known++
				}
				if p := rig.Check(wi, exp.Cache[wi-1]); p != "" {
					diverge(s, i, "lookup", p, exp.Cache[wi-1], "")
					good = false
				}
			}
			if k := rig.NumKnown(); k >= 0 && k != known && good {
				diverge(s, i, "lookup", "the list of wallet public keys has the wrong length", known, k)
				good = false
			}
		}
		if good && !diverted {
			rep.Count("behaviours_completed", 1)
		}
		k := ""
		if nontrivial {
			k = key
		}
		var sample interface{}
		if ci < 3 {
			sample = caseX
		}
		rep.Eval(k, sample)
		os.RemoveAll(root)
		if hung {
			// blocked goroutines of the registry stay behind; later waits would
			// only repeat the finding
			rep.Note("replay stopped after a deadlocked operation")
			return
		}
	}
}
