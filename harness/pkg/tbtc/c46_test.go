//go:build verif

package tbtc

// C46 conformance harness (see /verif/specs/Deadlines).
//
//   TestVerif_C46_Constants  prints every timing constant of the built code
//                            that the timeline specification uses: the
//                            ValidityBlocks() of each proposal type, the
//                            safety margins / broadcast timeouts the action
//                            constructors install, signingAttemptsLimit,
//                            signingAttemptMaximumBlocks() and its parts, the
//                            heartbeat window constants. The engine writes
//                            DeadlinesConsts.tla from them.
//   TestVerif_C46_Actions    runs the real execute of every action type
//                            (fixtures of the package's own tests, local host
//                            and Bitcoin chains) for several start blocks,
//                            with a recording waitForBlockFn (the deadlines
//                            armed through withCancelOnBlock) and a recording
//                            signing executor (the start block handed over);
//                            and runs the real signingRetryLoop.start to
//                            record the block window of every attempt. The
//                            records are validated against the timeline by
//                            Trace_Deadlines.

import (
	"context"
	"crypto/ecdsa"
	"crypto/rand"
	"fmt"
	"math/big"
	"runtime"
	"sort"
	"sync"
	"testing"
	"time"

	"github.com/keep-network/keep-core/internal/testutils"
	kit "github.com/keep-network/keep-core/internal/verifkit"
	"github.com/keep-network/keep-core/pkg/bitcoin"
	"github.com/keep-network/keep-core/pkg/chain"
	"github.com/keep-network/keep-core/pkg/protocol/group"
	"github.com/keep-network/keep-core/pkg/tbtc/internal/test"
	"github.com/keep-network/keep-core/pkg/tecdsa"
	"github.com/keep-network/keep-core/pkg/tecdsa/signing"
)

// ---------------------------------------------------------------- constants

func c46Seconds(d time.Duration) int { return int(d / time.Second) }

func TestVerif_C46_Constants(t *testing.T) {
	kit.RequireEngine(t)
	rep := kit.NewReport("C46", "constants")
	defer rep.Write(t)

	nop := func(ctx context.Context, b uint64) error { return nil }
	w := wallet{}
	ds := newDepositSweepAction(logger.With(), nil, nil, w, nil, &DepositSweepProposal{SweepTxFee: big.NewInt(0)}, 0, 0, nop)
	rd := newRedemptionAction(logger.With(), nil, nil, w, nil, &RedemptionProposal{RedemptionTxFee: big.NewInt(0)}, 0, 0, nop)
	mf := newMovingFundsAction(logger.With(), nil, nil, w, nil, &MovingFundsProposal{MovingFundsTxFee: big.NewInt(0)}, 0, 0, nop)
	ms := newMovedFundsSweepAction(logger.With(), nil, nil, w, nil, &MovedFundsSweepProposal{SweepTxFee: big.NewInt(0)}, 0, 0, nop)

	type act struct {
		Validity         uint64 `json:"validity"`
		Margin           uint64 `json:"margin"`
		StartOffset      uint64 `json:"startOffset"`
		PostKind         string `json:"postKind"`
		BroadcastTimeout int    `json:"broadcastTimeoutSeconds"`
		CheckDelay       int    `json:"broadcastCheckDelaySeconds"`
	}
	actions := map[string]act{
		"depositSweep": {(&DepositSweepProposal{}).ValidityBlocks(), ds.signingTimeoutSafetyMarginBlocks, 0, "broadcast",
			c46Seconds(ds.broadcastTimeout), c46Seconds(ds.broadcastCheckDelay)},
		"redemption": {(&RedemptionProposal{}).ValidityBlocks(), rd.signingTimeoutSafetyMarginBlocks, 0, "broadcast",
			c46Seconds(rd.broadcastTimeout), c46Seconds(rd.broadcastCheckDelay)},
		"movingFunds": {(&MovingFundsProposal{}).ValidityBlocks(), mf.signingTimeoutSafetyMarginBlocks, movingFundsCommitmentConfirmationBlocks, "broadcast",
			c46Seconds(mf.broadcastTimeout), c46Seconds(mf.broadcastCheckDelay)},
		"movedFundsSweep": {(&MovedFundsSweepProposal{}).ValidityBlocks(), ms.signingTimeoutSafetyMarginBlocks, 0, "broadcast",
			c46Seconds(ms.broadcastTimeout), c46Seconds(ms.broadcastCheckDelay)},
		"heartbeat": {(&HeartbeatProposal{}).ValidityBlocks(), heartbeatInactivityClaimValidityBlocks, 0, "claim", 0, 0},
	}
	rep.Extra["constants"] = map[string]interface{}{
		"actions":                     actions,
		"claimEndMargin":              heartbeatTimeoutSafetyMarginBlocks,
		"signingAttemptsLimit":        signingAttemptsLimit,
		"signingAttemptMaximumBlocks": signingAttemptMaximumBlocks(),
		"announceDelay":               signingAttemptAnnouncementDelayBlocks,
		"announceActive":              signingAttemptAnnouncementActiveBlocks,
		"protocolBlocks":              signingAttemptMaximumProtocolBlocks,
		"coolDown":                    signingAttemptCoolDownBlocks,
		"signingBatchInterludeBlocks": signingBatchInterludeBlocks,
	}
	for name := range actions {
		rep.Eval(name, nil)
	}
}

// ---------------------------------------------------------------- recorders

// c46Blocks records the blocks handed to waitForBlockFn by the goroutines
// withCancelOnBlock starts; they stay blocked until the run is over so the
// armed contexts are alive like on a real chain.
type c46Blocks struct {
	mu      sync.Mutex
	blocks  []uint64
	release chan struct{}
}

func newC46Blocks() *c46Blocks { return &c46Blocks{release: make(chan struct{})} }

func (a *c46Blocks) fn(ctx context.Context, block uint64) error {
	a.mu.Lock()
	a.blocks = append(a.blocks, block)
	a.mu.Unlock()
	select {
	case <-a.release:
	case <-ctx.Done():
	}
	return nil
}

func (a *c46Blocks) count() int { a.mu.Lock(); defer a.mu.Unlock(); return len(a.blocks) }

func (a *c46Blocks) waitFor(n int) bool {
	deadline := time.Now().Add(60 * time.Second)
	for i := 0; a.count() < n && time.Now().Before(deadline); i++ {
		if i < 200 {
			runtime.Gosched()
		} else {
			time.Sleep(50 * time.Microsecond)
		}
	}
	return a.count() >= n
}

func (a *c46Blocks) list() []uint64 {
	a.mu.Lock()
	defer a.mu.Unlock()
	return append([]uint64{}, a.blocks...)
}

// c46Signer is the signing executor handed to the transaction actions. It
// records the request and fails, so that no post-signing (wall clock) step
// runs.
type c46Signer struct {
	armed    *c46Blocks
	called   int
	start    uint64
	messages int
	ctxLive  bool
	armedOK  bool
}

func (s *c46Signer) signBatch(ctx context.Context, messages []*big.Int, startBlock uint64) ([]*tecdsa.Signature, error) {
	s.called++
	s.start, s.messages, s.ctxLive = startBlock, len(messages), ctx.Err() == nil
	s.armedOK = s.armed.waitFor(1)
	return nil, fmt.Errorf("verif: signing request recorded")
}

type c46Record struct {
	Action    string   `json:"action"`
	Start     uint64   `json:"start"`
	Expiry    uint64   `json:"expiry"`
	Signed    bool     `json:"signed"`
	SignStart uint64   `json:"signStart"`
	CtxLive   bool     `json:"ctxLive"`
	Armed     []uint64 `json:"armed"`
	Err       string   `json:"err"`
}

// ---------------------------------------------------------------- actions

func c46DepositSweep(t *testing.T, start uint64, armed *c46Blocks, signer *c46Signer) (uint64, error) {
	scenarios, err := test.LoadDepositSweepTestScenarios()
	if err != nil {
		t.Fatal(err)
	}
	scenario := scenarios[0]
	hostChain := Connect()
	bitcoinChain := newLocalBitcoinChain()
	w := wallet{publicKey: scenario.WalletPublicKey}
	walletPublicKeyHash := bitcoin.PublicKeyHash(w.publicKey)
	for _, transaction := range scenario.InputTransactions {
		if err := bitcoinChain.BroadcastTransaction(transaction); err != nil {
			t.Fatal(err)
		}
	}
	depositsKeys := make([]struct {
		FundingTxHash      bitcoin.Hash
		FundingOutputIndex uint32
	}, len(scenario.Deposits))
	depositsExtraInfo := make([]struct {
		*Deposit
		FundingTx *bitcoin.Transaction
	}, len(scenario.Deposits))
	depositsRevealBlocks := make([]*big.Int, len(scenario.Deposits))
	for i, deposit := range scenario.Deposits {
		fundingTxHash := deposit.Utxo.Outpoint.TransactionHash
		fundingOutputIndex := deposit.Utxo.Outpoint.OutputIndex
		fundingTx, err := bitcoinChain.GetTransaction(fundingTxHash)
		if err != nil {
			t.Fatal(err)
		}
		depositsKeys[i].FundingTxHash = fundingTxHash
		depositsKeys[i].FundingOutputIndex = fundingOutputIndex
		depositsExtraInfo[i].Deposit = (*Deposit)(deposit)
		depositsExtraInfo[i].FundingTx = fundingTx
		depositRevealBlock := uint64(100 * i)
		depositsRevealBlocks[i] = big.NewInt(int64(depositRevealBlock))
		err = hostChain.setPastDepositRevealedEvents(
			&DepositRevealedEventFilter{
				StartBlock:          depositRevealBlock,
				EndBlock:            &depositRevealBlock,
				WalletPublicKeyHash: [][20]byte{walletPublicKeyHash},
			},
			[]*DepositRevealedEvent{{
				FundingTxHash:       fundingTxHash,
				FundingOutputIndex:  fundingOutputIndex,
				Depositor:           deposit.Depositor,
				Amount:              uint64(deposit.Utxo.Value),
				BlindingFactor:      deposit.BlindingFactor,
				WalletPublicKeyHash: deposit.WalletPublicKeyHash,
				RefundPublicKeyHash: deposit.RefundPublicKeyHash,
				RefundLocktime:      deposit.RefundLocktime,
				Vault:               deposit.Vault,
				BlockNumber:         depositRevealBlock,
			}},
		)
		if err != nil {
			t.Fatal(err)
		}
		hostChain.setDepositRequest(fundingTxHash, fundingOutputIndex, &DepositChainRequest{
			Depositor: deposit.Depositor,
			Amount:    uint64(deposit.Utxo.Value),
			Vault:     deposit.Vault,
			ExtraData: deposit.ExtraData,
		})
	}
	proposal := &DepositSweepProposal{
		DepositsKeys:         depositsKeys,
		SweepTxFee:           big.NewInt(scenario.Fee),
		DepositsRevealBlocks: depositsRevealBlocks,
	}
	expiry := start + proposal.ValidityBlocks()
	if err := hostChain.setDepositSweepProposalValidationResult(walletPublicKeyHash, proposal, depositsExtraInfo, true); err != nil {
		t.Fatal(err)
	}
	var walletMainUtxoHash [32]byte
	if scenario.WalletMainUtxo != nil {
		walletMainUtxoHash = hostChain.ComputeMainUtxoHash(scenario.WalletMainUtxo)
	}
	hostChain.setWallet(walletPublicKeyHash, &WalletChainData{MainUtxoHash: walletMainUtxoHash})
	action := newDepositSweepAction(logger.With(), hostChain, bitcoinChain, w, signer, proposal, start, expiry, armed.fn)
	action.requiredFundingTxConfirmations = 1
	return expiry, action.execute()
}

func c46Redemption(t *testing.T, start uint64, armed *c46Blocks, signer *c46Signer) (uint64, error) {
	scenarios, err := test.LoadRedemptionTestScenarios()
	if err != nil {
		t.Fatal(err)
	}
	scenario := scenarios[0]
	hostChain := Connect()
	bitcoinChain := newLocalBitcoinChain()
	w := wallet{publicKey: scenario.WalletPublicKey}
	walletPublicKeyHash := bitcoin.PublicKeyHash(w.publicKey)
	if err := bitcoinChain.BroadcastTransaction(scenario.InputTransaction); err != nil {
		t.Fatal(err)
	}
	redeemersOutputScripts := make([]bitcoin.Script, len(scenario.RedemptionRequests))
	for i, request := range scenario.RedemptionRequests {
		hostChain.setPendingRedemptionRequest(walletPublicKeyHash, &RedemptionRequest{
			Redeemer:             request.Redeemer,
			RedeemerOutputScript: request.RedeemerOutputScript,
			RequestedAmount:      request.RequestedAmount,
			TreasuryFee:          request.TreasuryFee,
			TxMaxFee:             request.TxMaxFee,
			RequestedAt:          request.RequestedAt,
		})
		redeemersOutputScripts[i] = request.RedeemerOutputScript
	}
	totalFee := int64(0)
	for _, feeShare := range scenario.FeeShares {
		totalFee += feeShare
	}
	proposal := &RedemptionProposal{RedeemersOutputScripts: redeemersOutputScripts, RedemptionTxFee: big.NewInt(totalFee)}
	expiry := start + proposal.ValidityBlocks()
	if err := hostChain.setRedemptionProposalValidationResult(walletPublicKeyHash, proposal, true); err != nil {
		t.Fatal(err)
	}
	var walletMainUtxoHash [32]byte
	if scenario.WalletMainUtxo != nil {
		walletMainUtxoHash = hostChain.ComputeMainUtxoHash(scenario.WalletMainUtxo)
	}
	hostChain.setWallet(walletPublicKeyHash, &WalletChainData{MainUtxoHash: walletMainUtxoHash})
	action := newRedemptionAction(logger.With(), hostChain, bitcoinChain, w, signer, proposal, start, expiry, armed.fn)
	action.feeDistribution = func(requests []*RedemptionRequest) []int64 { return scenario.FeeShares }
	action.transactionShape = RedemptionChangeLast
	return expiry, action.execute()
}

func c46MovingFunds(t *testing.T, start uint64, armed *c46Blocks, signer *c46Signer) (uint64, error) {
	scenarios, err := test.LoadMovingFundsTestScenarios()
	if err != nil {
		t.Fatal(err)
	}
	scenario := scenarios[0]
	// the action waits movingFundsCommitmentConfirmationBlocks real blocks of
	// the local chain: make them short
	hostChain := Connect(time.Millisecond)
	bitcoinChain := newLocalBitcoinChain()
	w := wallet{publicKey: scenario.WalletPublicKey}
	walletPublicKeyHash := bitcoin.PublicKeyHash(w.publicKey)
	if err := bitcoinChain.BroadcastTransaction(scenario.InputTransaction); err != nil {
		t.Fatal(err)
	}
	proposal := &MovingFundsProposal{TargetWallets: scenario.TargetWallets, MovingFundsTxFee: big.NewInt(scenario.Fee)}
	expiry := start + proposal.ValidityBlocks()
	hostChain.SetMovingFundsParameters(0, 0, 0, 604800, big.NewInt(0), 0, 0, 0, 0, big.NewInt(0), 0)
	if err := hostChain.setMovingFundsProposalValidationResult(walletPublicKeyHash, scenario.WalletMainUtxo, proposal, true); err != nil {
		t.Fatal(err)
	}
	hostChain.setPastMovingFundsCommitmentSubmittedEvents(
		&MovingFundsCommitmentSubmittedEventFilter{StartBlock: 0},
		[]*MovingFundsCommitmentSubmittedEvent{},
	)
	walletMainUtxoHash := hostChain.ComputeMainUtxoHash(scenario.WalletMainUtxo)
	movingFundsCommitmentHash := hostChain.ComputeMovingFundsCommitmentHash(scenario.TargetWallets)
	hostChain.setWallet(walletPublicKeyHash, &WalletChainData{
		MainUtxoHash:                           walletMainUtxoHash,
		MovingFundsTargetWalletsCommitmentHash: movingFundsCommitmentHash,
	})
	action := newMovingFundsAction(logger.With(), hostChain, bitcoinChain, w, signer, proposal, start, expiry, armed.fn)
	return expiry, action.execute()
}

func c46MovedFundsSweep(t *testing.T, start uint64, armed *c46Blocks, signer *c46Signer) (uint64, error) {
	scenarios, err := test.LoadMovedFundsSweepTestScenarios()
	if err != nil {
		t.Fatal(err)
	}
	scenario := scenarios[0]
	hostChain := Connect()
	bitcoinChain := newLocalBitcoinChain()
	w := wallet{publicKey: scenario.WalletPublicKey}
	walletPublicKeyHash := bitcoin.PublicKeyHash(w.publicKey)
	for _, transaction := range scenario.InputTransactions {
		if err := bitcoinChain.BroadcastTransaction(transaction); err != nil {
			t.Fatal(err)
		}
	}
	proposal := &MovedFundsSweepProposal{
		SweepTxFee:               big.NewInt(scenario.Fee),
		MovingFundsTxHash:        scenario.MovedFundsUtxo.Outpoint.TransactionHash,
		MovingFundsTxOutputIndex: scenario.MovedFundsUtxo.Outpoint.OutputIndex,
	}
	expiry := start + proposal.ValidityBlocks()
	if err := hostChain.setMovedFundsSweepProposalValidationResult(walletPublicKeyHash, proposal, true); err != nil {
		t.Fatal(err)
	}
	var walletMainUtxoHash [32]byte
	if scenario.WalletMainUtxo != nil {
		walletMainUtxoHash = hostChain.ComputeMainUtxoHash(scenario.WalletMainUtxo)
	}
	hostChain.setWallet(walletPublicKeyHash, &WalletChainData{MainUtxoHash: walletMainUtxoHash})
	action := newMovedFundsSweepAction(logger.With(), hostChain, bitcoinChain, w, signer, proposal, start, expiry, armed.fn)
	return expiry, action.execute()
}

// heartbeat: the signing executor reports too few active members; with the
// failure counter preset to the threshold the inactivity claim is made too.
type c46HbSigner struct {
	armed   *c46Blocks
	called  int
	start   uint64
	ctxLive bool
	armedOK bool
}

func (s *c46HbSigner) sign(ctx context.Context, message *big.Int, startBlock uint64) (*tecdsa.Signature, *signingActivityReport, uint64, error) {
	s.called++
	s.start, s.ctxLive = startBlock, ctx.Err() == nil
	s.armedOK = s.armed.waitFor(1)
	return &tecdsa.Signature{R: big.NewInt(1), S: big.NewInt(2)},
		&signingActivityReport{activeMembers: []group.MemberIndex{1}, inactiveMembers: []group.MemberIndex{2, 3}},
		startBlock + 1, nil
}

type c46HbClaimer struct {
	armed   *c46Blocks
	called  int
	ctxLive bool
	armedOK bool
}

func (c *c46HbClaimer) claimInactivity(ctx context.Context, inactive []group.MemberIndex, heartbeatFailed bool, sessionID *big.Int) error {
	c.called++
	c.ctxLive = ctx.Err() == nil
	c.armedOK = c.armed.waitFor(2)
	return nil
}

func c46Heartbeat(t *testing.T, start uint64, armed *c46Blocks) (c46Record, *c46HbClaimer) {
	hostChain := Connect()
	hostChain.setOperatorsEligibleStake(big.NewInt(100000))
	proposal := &HeartbeatProposal{Message: [16]byte{0xff, 0xff, 0xff, 0xff, 0xff, 0xff, 0xff, 0xff, 0, 0, 0, 0, 0, 0, 0, 1}}
	hostChain.setHeartbeatProposalValidationResult(proposal, true)
	priv, err := ecdsa.GenerateKey(tecdsa.Curve, rand.Reader)
	if err != nil {
		t.Fatal(err)
	}
	w := wallet{publicKey: &priv.PublicKey}
	keyBytes, _ := marshalPublicKey(w.publicKey)
	counter := newHeartbeatFailureCounter()
	for i := 0; i < heartbeatConsecutiveFailureThreshold; i++ {
		counter.increment(fmt.Sprintf("%x", keyBytes))
	}
	signer := &c46HbSigner{armed: armed}
	claimer := &c46HbClaimer{armed: armed}
	expiry := start + proposal.ValidityBlocks()
	action := newHeartbeatAction(logger, hostChain, w, signer, proposal, counter, claimer, start, expiry, armed.fn)
	err = action.execute()
	rec := c46Record{Action: "heartbeat", Start: start, Expiry: expiry, Signed: signer.called == 1, SignStart: signer.start,
		CtxLive: signer.ctxLive && (claimer.called == 0 || claimer.ctxLive)}
	if err != nil {
		rec.Err = err.Error()
	}
	return rec, claimer
}

// ---------------------------------------------------------------- the loop

type c46LoopAnnouncer struct {
	ready   []group.MemberIndex
	stopAt  int
	cancel  context.CancelFunc
	attempt int
}

func (a *c46LoopAnnouncer) Announce(ctx context.Context, memberIndex group.MemberIndex, sessionID string) ([]group.MemberIndex, error) {
	a.attempt++
	if a.attempt > a.stopAt {
		a.cancel()
		return nil, fmt.Errorf("verif: stop")
	}
	return a.ready, nil
}

type c46LoopAttempt struct {
	K            uint64 `json:"k"`
	TimeoutBlock uint64 `json:"timeoutBlock"`
	FnStart      uint64 `json:"fnStart"`   // 0 if the member was excluded from the attempt
	FnTimeout    uint64 `json:"fnTimeout"` // 0 if the member was excluded from the attempt
}

type c46LoopDoneCheck struct {
	attempts []*c46LoopAttempt
}

func (d *c46LoopDoneCheck) listen(ctx context.Context, message *big.Int, attemptNumber uint64, attemptTimeoutBlock uint64, members []group.MemberIndex) {
	d.attempts = append(d.attempts, &c46LoopAttempt{K: attemptNumber, TimeoutBlock: attemptTimeoutBlock})
}
func (d *c46LoopDoneCheck) signalDone(ctx context.Context, memberIndex group.MemberIndex, message *big.Int, attemptNumber uint64, result *signing.Result, endBlock uint64) error {
	return nil
}
func (d *c46LoopDoneCheck) waitUntilAllDone(ctx context.Context) (*signing.Result, uint64, error) {
	return nil, 0, fmt.Errorf("verif: attempt fails")
}

type c46LoopRecord struct {
	Start    uint64            `json:"start"`
	Current  uint64            `json:"current"`
	Attempts []*c46LoopAttempt `json:"attempts"`
	Waited   []uint64          `json:"waited"` // every block handed to waitForBlockFn, sorted
}

func c46Loop(t *testing.T, start, current uint64, nAttempts int) c46LoopRecord {
	var operators chain.Addresses
	for i := 0; i < 10; i++ {
		operators = append(operators, chain.Address(fmt.Sprintf("0x%040d", i+1)))
	}
	ready := make([]group.MemberIndex, 10)
	for i := range ready {
		ready[i] = group.MemberIndex(i + 1)
	}
	ctx, cancel := context.WithCancel(context.Background())
	defer cancel()
	announcer := &c46LoopAnnouncer{ready: ready, stopAt: nAttempts, cancel: cancel}
	doneCheck := &c46LoopDoneCheck{}
	loop := newSigningRetryLoop(&testutils.MockLogger{}, big.NewInt(int64(1000+start)), start, 1, operators,
		&GroupParameters{GroupSize: 10, GroupQuorum: 8, HonestThreshold: 6}, announcer, doneCheck)
	var mu sync.Mutex
	var waited []uint64
	waitFn := func(ctx context.Context, b uint64) error {
		mu.Lock()
		waited = append(waited, b)
		mu.Unlock()
		return nil
	}
	_, _ = loop.start(ctx, waitFn, func() (uint64, error) { return current, nil },
		func(p *signingAttemptParams) (*signing.Result, uint64, error) {
			a := doneCheck.attempts[len(doneCheck.attempts)-1]
			a.FnStart, a.FnTimeout = p.startBlock, p.timeoutBlock
			if uint64(p.number) != a.K {
				a.FnStart = 0 // mismatch shows up in validation
			}
			return nil, 0, fmt.Errorf("verif: attempt fails")
		})
	// the contexts armed through withCancelOnBlock call waitFn from goroutines
	// (asynchronously). Every attempt that ran waits three times (announcement
	// start, announcement end, timeout block); the attempt at which the
	// announcer stops the loop waits twice. Wait for exactly that many records;
	// fewer after a long wait is a harness failure, never a verdict.
	expect := 3*len(doneCheck.attempts) + 2
	if !kit.Eventually(120*time.Second, func() bool { mu.Lock(); defer mu.Unlock(); return len(waited) >= expect }) {
		mu.Lock()
		n := len(waited)
		mu.Unlock()
		t.Fatalf("c46 harness: retry loop recorded %d of %d expected block waits within 120 s", n, expect)
	}
	mu.Lock()
	defer mu.Unlock()
	sort.Slice(waited, func(i, j int) bool { return waited[i] < waited[j] })
	return c46LoopRecord{Start: start, Current: current, Attempts: doneCheck.attempts, Waited: append([]uint64{}, waited...)}
}

// ---------------------------------------------------------------- the test

func TestVerif_C46_Actions(t *testing.T) {
	kit.RequireEngine(t)
	rep := kit.NewReport("C46", "actions")
	defer rep.Write(t)
	tr := kit.NewTracer(t, "trace_deadlines")
	defer tr.Close()

	rnd := kit.Rand(46)
	starts := []uint64{0, 1, 100, 20000000}
	for i := 0; i < kit.IntEnv("VERIF_STARTS", 3); i++ {
		starts = append(starts, uint64(rnd.Int63n(30000000)))
	}
	tr.Reset(nil)

	type runner func(t *testing.T, start uint64, armed *c46Blocks, signer *c46Signer) (uint64, error)
	txActions := []struct {
		name string
		run  runner
	}{
		{"depositSweep", c46DepositSweep}, {"redemption", c46Redemption},
		{"movingFunds", c46MovingFunds}, {"movedFundsSweep", c46MovedFundsSweep},
	}
	emit := func(rec c46Record) {
		tr.Emit(map[string]interface{}{"event": "Action", "action": rec.Action, "start": rec.Start, "expiry": rec.Expiry,
			"signed": rec.Signed, "signStart": rec.SignStart, "ctxLive": rec.CtxLive, "armed": rec.Armed, "err": rec.Err})
		rep.Eval(fmt.Sprintf("%s@%d", rec.Action, rec.Start), rec)
	}
	for _, start := range starts {
		for _, a := range txActions {
			armed := newC46Blocks()
			signer := &c46Signer{armed: armed}
			var expiry uint64
			var err error
			func() {
				defer func() {
					if p := recover(); p != nil {
						err = fmt.Errorf("PANIC: %v", p)
						rep.Diverge("panic:"+a.name, fmt.Sprintf("%s action panicked: %v", a.name, p), start, nil, nil)
					}
				}()
				expiry, err = a.run(t, start, armed, signer)
			}()
			close(armed.release)
			if signer.called != 1 {
				t.Fatalf("c46 harness: %s action did not reach the signing step (fixture setup broken?): %v", a.name, err)
			}
			if !signer.armedOK {
				t.Fatalf("c46 harness: %s: signing deadline not armed within 60 s", a.name)
			}
			rec := c46Record{Action: a.name, Start: start, Expiry: expiry, Signed: true, SignStart: signer.start,
				CtxLive: signer.ctxLive, Armed: armed.list()}
			if err != nil {
				rec.Err = err.Error()
			}
			emit(rec)
		}
		armed := newC46Blocks()
		rec, claimer := c46Heartbeat(t, start, armed)
		close(armed.release)
		if !rec.Signed || claimer.called != 1 {
			t.Fatalf("c46 harness: heartbeat action did not reach signing and claim: %+v", rec)
		}
		if !claimer.armedOK {
			t.Fatalf("c46 harness: heartbeat: deadlines not armed within 60 s")
		}
		rec.Armed = armed.list()
		emit(rec)
	}

	// the retry loop: windows of the attempts, without and with skipped attempts
	for i, start := range starts {
		for _, ahead := range []uint64{0, 100} {
			lr := c46Loop(t, start, start*boolTo(ahead > 0)+ahead, 7)
			if len(lr.Attempts) < 3 {
				t.Fatalf("c46 harness: retry loop executed only %d attempts", len(lr.Attempts))
			}
			tr.Emit(map[string]interface{}{"event": "Loop", "start": lr.Start, "current": lr.Current, "attempts": lr.Attempts, "waited": lr.Waited})
			rep.Eval(fmt.Sprintf("loop@%d/%d/%d", start, ahead, i), nil)
		}
	}
	rep.Extra["events"] = tr.N()
}

func boolTo(b bool) uint64 {
	if b {
		return 1
	}
	return 0
}
