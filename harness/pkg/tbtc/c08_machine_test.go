//go:build verif

package tbtc

// C08 conformance harness, part 2 (see /verif/specs/SigningMachine): the
// signing protocol as a message-driven machine -- retention of early messages
// by every state (including the silent symmetric-key state) and signing under
// skewed per-receiver delivery orders.
//
//   TestVerif_C08_Machine  (a) the specification's retention table (state x
//       message type -> kept in the shared history?) is evaluated on the REAL
//       state chain of a signer (real Next() from an initial state built as
//       signing.Execute builds it, fixture key shares): in every state a
//       message of every type from an operating peer is handed to the state's
//       real Receive and looked up in the shared history;
//       (b) every behaviour emitted by Gen_SigningMachine is replayed step by
//       step on the real state chains of all running members; after EVERY step
//       the real history (type, sender, session, envelope key, duplicates),
//       CanTransition() and the state type are compared with the
//       specification. Initiate runs for real in the two cheap states; the TSS
//       rounds are not computed (stand-in payloads of the real types).
//
//   TestVerif_C08_Skewed   a TLC-chosen behaviour in which a signer receives
//       its last ephemeral public key message late, so that its peers'
//       round-one messages reach it while it is in the silent symmetric-key
//       state, is executed with the real signing.Execute of every selected
//       signer over a scheduled channel (each message handed to a receiver
//       once, in the behaviour's per-receiver order; the silent-state window is
//       forced deterministically: the messages are handed over from the
//       machine's own "transitioning to a new state" log call for
//       symmetricKeyGenerationState). Checked: every signer returns the same
//       signature, valid under the wallet public key, low S.

import (
	"context"
	"crypto/ecdsa"
	"fmt"
	"math/big"
	"sort"
	"strings"
	"sync"
	"testing"
	"time"

	"github.com/bnb-chain/tss-lib/ecdsa/keygen"
	"github.com/keep-network/keep-core/internal/testutils"
	kit "github.com/keep-network/keep-core/internal/verifkit"
	"github.com/keep-network/keep-core/pkg/chain"
	"github.com/keep-network/keep-core/pkg/net"
	"github.com/keep-network/keep-core/pkg/operator"
	"github.com/keep-network/keep-core/pkg/protocol/group"
	"github.com/keep-network/keep-core/pkg/tecdsa"
	"github.com/keep-network/keep-core/pkg/tecdsa/signing"
)

const (
	c08SessionCur = "verif-c08-msg-2"
	c08SessionOld = "verif-c08-msg-1"
	c08Honest     = 3
)

var c08Types = []int{1, 3, 4, 5, 6, 7, 8, 9, 10, 11}

// c08MWorld: a wallet whose final signing group has g seats (fixture shares of
// seats 1..g), one operator key per seat plus an outsider key.
type c08MWorld struct {
	g         int
	seats     []*c08Seat
	outsider  []byte
	addrs     []chain.Address
	validator *group.MembershipValidator
	shares    []*tecdsa.PrivateKeyShare
}

func c08KeyBytes(s *c08Seat) []byte { return operator.MarshalUncompressed(s.pub) }

func c08BuildMWorld(t *testing.T, lc *localChain, fix []keygen.LocalPartySaveData, g int) *c08MWorld {
	if g > 5 {
		t.Fatalf("harness: at most 5 seats")
	}
	w := &c08MWorld{g: g, seats: c08Seats(t, lc, g)}
	out := c08Seats(t, lc, 1)
	w.outsider = c08KeyBytes(out[0])
	keys := make([]*big.Int, g)
	seats := make([]int, g)
	for i := 0; i < g; i++ {
		w.addrs = append(w.addrs, w.seats[i].address)
		keys[i] = big.NewInt(int64(201 + i))
		seats[i] = i + 1
	}
	for i := 0; i < g; i++ {
		w.shares = append(w.shares, c08Share(fix, keys, seats, i))
	}
	w.validator = group.NewMembershipValidator(&testutils.MockLogger{}, w.addrs, lc.Signing())
	return w
}

func (w *c08MWorld) key(k int) []byte {
	if k == 0 {
		return w.outsider
	}
	return c08KeyBytes(w.seats[k-1])
}

func (w *c08MWorld) seatOfKey(b string) int {
	if b == string(w.outsider) {
		return 0
	}
	for i, s := range w.seats {
		if string(c08KeyBytes(s)) == b {
			return i + 1
		}
	}
	return -1
}

func (w *c08MWorld) chain(i int, unselected []int) *signing.VerifChain {
	return signing.VerifC08NewChain(group.MemberIndex(i), w.shares[i-1], w.g, w.g-c08Honest, c08Idx(unselected), w.validator,
		c08SessionCur, big.NewInt(4242))
}

type c08MRec struct {
	T   int    `json:"t"`
	S   int    `json:"s"`
	K   int    `json:"k"`
	Ses string `json:"ses"`
}

func c08SortMRecs(r []c08MRec) {
	sort.Slice(r, func(i, j int) bool {
		a, b := r[i], r[j]
		if a.T != b.T {
			return a.T < b.T
		}
		if a.S != b.S {
			return a.S < b.S
		}
		if a.K != b.K {
			return a.K < b.K
		}
		return a.Ses < b.Ses
	})
}

func (w *c08MWorld) history(c *signing.VerifChain) ([]c08MRec, int) {
	recs, total := c.History()
	var out []c08MRec
	for _, r := range recs {
		ses := "?" + r.Ses
		if r.Ses == c08SessionCur {
			ses = "cur"
		} else if r.Ses == c08SessionOld {
			ses = "old"
		}
		out = append(out, c08MRec{T: r.T, S: r.S, K: w.seatOfKey(r.Key), Ses: ses})
	}
	c08SortMRecs(out)
	return out, total
}

func c08SpecMHistory(v kit.V) []c08MRec {
	var out []c08MRec
	for _, m := range v.List() {
		out = append(out, c08MRec{T: m.Get("t").Int(), S: m.Get("s").Int(), K: m.Get("k").Int(), Ses: m.Get("ses").Str()})
	}
	c08SortMRecs(out)
	return out
}

func c08Complement(g int, sel []int) []int {
	var out []int
	for i := 1; i <= g; i++ {
		if !c08Contains(sel, i) {
			out = append(out, i)
		}
	}
	return out
}

var c08MachineDiverged int

func TestVerif_C08_Machine(t *testing.T) {
	kit.RequireEngine(t)
	rep := kit.NewReport("C08", "machine")
	defer rep.Write(t)
	defer func() { c08MachineDiverged = rep.NDivergences() }()
	fix := c08Fixtures(t)
	lc := Connect()

	// ---- (a) retention table
	for _, tb := range kit.LoadCases(t, "retention.ndjson") {
		g, signers := tb.Get("g").Int(), tb.Get("signers").Ints()
		sort.Ints(signers)
		w := c08BuildMWorld(t, lc, fix, g)
		unsel := c08Complement(g, signers)
		me, peer := signers[0], signers[1]
		// a real ephemeral public key message to copy keys from
		helper := w.chain(peer, unsel)
		if err := helper.InitiateCheap(); err != nil {
			t.Fatalf("harness: %v", err)
		}
		for _, e := range tb.Get("table").List() {
			k, mt, retained := e.Get("state").Int(), e.Get("t").Int(), e.Get("retained").Bool()
			key := fmt.Sprintf("retention:state=%d,type=%d", k, mt)
			func() {
				defer func() {
					if r := recover(); r != nil {
						rep.Diverge(key+":panic", fmt.Sprintf("the signing states panicked: %v", r), e.X, nil, fmt.Sprint(r))
					}
				}()
				c := w.chain(me, unsel)
				for c.State() < k {
					if final, err := c.Next(); err != nil || final {
						rep.Diverge(key+":next", fmt.Sprintf("cannot reach state %d: Next() of %s returned (final=%v, %v)", k, c.StateName(), final, err), e.X, nil, nil)
						return
					}
				}
				if c.State() != k {
					rep.Diverge(key+":next", fmt.Sprintf("the %d-th state of the real chain is %s", k, c.StateName()), e.X, k, c.State())
					return
				}
				m, err := signing.VerifC08Standin(mt, peer, c08SessionCur, signers, helper.Ephemeral())
				if err != nil {
					t.Fatalf("%v", err)
				}
				if err := c.Receive(m, w.key(peer)); err != nil {
					rep.Diverge(key+":receive", fmt.Sprintf("Receive of %s returned an error: %v", c.StateName(), err), e.X, nil, err.Error())
					return
				}
				hist, _ := w.history(c)
				got := len(hist) == 1 && hist[0] == c08MRec{T: mt, S: peer, K: peer, Ses: "cur"}
				rep.Count("retention_cells", 1)
				if got != retained {
					what := fmt.Sprintf("state %d (%s) does not keep a message of type %d (%s) from an operating peer in the shared history: "+
						"a faster peer's message is lost for the state that needs it", k, c.StateName(), mt, signing.VerifC08TypeName(mt))
					if got {
						what = fmt.Sprintf("state %d (%s) stores a message the specification says it ignores", k, c.StateName())
					}
					rep.Diverge(key, what, e.X, retained, got)
				}
				nt := ""
				if mt > k {
					nt = key
				}
				rep.Eval(nt, nil)
			}()
		}
	}

	// ---- (b) behaviour replay
	worlds := map[int]*c08MWorld{}
	for bi, b := range kit.LoadCases(t, "sbehaviours.ndjson") {
		g := b.Get("g").Int()
		w := worlds[g]
		if w == nil {
			w = c08BuildMWorld(t, lc, fix, g)
			worlds[g] = w
		}
		key := fmt.Sprintf("machine:%s", kit.Hash(b.Get("steps").X))
		func() {
			defer func() {
				if r := recover(); r != nil {
					rep.Diverge(key+":panic", fmt.Sprintf("the signing states panicked: %v", r), nil, nil, fmt.Sprint(r))
				}
			}()
			before := rep.Evaluations
			c08ReplayMachine(t, rep, w, b, key, bi)
			if rep.Evaluations == before {
				rep.Eval("", nil)
			}
		}()
	}
}

func c08ReplayMachine(t *testing.T, rep *kit.Report, w *c08MWorld, b kit.V, key string, bi int) {
	signers := b.Get("signers").Ints()
	sort.Ints(signers)
	unsel := c08Complement(w.g, signers)
	chains := map[int]*signing.VerifChain{}
	stopped := map[int]bool{}
	var anyEph interface{}
	silent, early := 0, 0
	steps := b.Get("steps").List()
	for si, st := range steps {
		a, i := st.Get("a").Str(), st.Get("i").Int()
		after := st.Get("after")
		c := chains[i]
		where := fmt.Sprintf("step %d (%s member %d)", si+1, a, i)
		switch a {
		case "Start":
			c = w.chain(i, unsel)
			chains[i] = c
		case "Initiate":
			specFailed := after.Get("status").Str() == "failed"
			if k := c.State(); k == 1 || k == 2 {
				err := c.InitiateCheap()
				if (err != nil) != specFailed {
					rep.Diverge(key+":initiate", fmt.Sprintf("%s: Initiate of state %d returned %v, the specification says failed=%v", where, k, err, specFailed), st.X, specFailed, fmt.Sprint(err))
					return
				}
				if k == 1 && anyEph == nil {
					anyEph = c.Ephemeral()
				}
			} else if specFailed {
				rep.Count("initiate_failure_not_replayed", 1)
				stopped[i] = true
				continue
			}
		case "Transition":
			if final, err := c.Next(); err != nil || final {
				rep.Diverge(key+":next", fmt.Sprintf("%s: Next() returned (final=%v, %v)", where, final, err), st.X, after.Get("cur").Int(), nil)
				return
			}
		case "Finish":
			final, err := c.Next()
			if err != nil || !final || c.State() != 12 {
				rep.Diverge(key+":finish", fmt.Sprintf("%s: the machine would not end here (final=%v, %v, state %s)", where, final, err, c.StateName()), st.X, "final", nil)
				return
			}
			stopped[i] = true
			continue
		case "Deliver":
			if c == nil || stopped[i] {
				continue
			}
			m := st.Get("m")
			mt, ms, mk, mses := m.Get("t").Int(), m.Get("s").Int(), m.Get("k").Int(), m.Get("ses").Str()
			session := c08SessionCur
			if mses == "old" {
				session = c08SessionOld
			}
			eph := anyEph
			if src := chains[ms]; src != nil && src.Ephemeral() != nil {
				eph = src.Ephemeral()
			}
			if eph == nil {
				tmp := w.chain(signers[0], unsel)
				if err := tmp.InitiateCheap(); err != nil {
					t.Fatalf("harness: %v", err)
				}
				eph, anyEph = tmp.Ephemeral(), tmp.Ephemeral()
			}
			payload, err := signing.VerifC08Standin(mt, ms, session, m.Get("ctx").Ints(), eph)
			if err != nil {
				t.Fatalf("%v", err)
			}
			at := c.State()
			if err := c.Receive(payload, w.key(mk)); err != nil {
				rep.Diverge(key+":receive", fmt.Sprintf("%s: Receive returned an error: %v", where, err), st.X, nil, err.Error())
				return
			}
			kind := st.Get("kind").Str()
			rep.Count("deliver_"+kind, 1)
			if kind == "genuine" && at == 2 {
				silent++
			}
			if kind == "genuine" && mt > at {
				early++
			}
		default:
			t.Fatalf("harness: unknown step %q", a)
		}
		if c == nil || stopped[i] {
			continue
		}
		hist, total := w.history(c)
		want := c08SpecMHistory(after.Get("hist"))
		if fmt.Sprint(hist) != fmt.Sprint(want) || total != after.Get("nadm").Int() {
			what := "the real shared history differs from the specification's"
			if len(hist) < len(want) {
				what = fmt.Sprintf("a message the specification keeps is missing from the shared history (receiver in state %d, %s)", c.State(), c.StateName())
			} else if len(hist) > len(want) {
				what = "a message the specification rejects was admitted into the shared history"
			}
			rep.Diverge(key+":history", fmt.Sprintf("%s: %s", where, what), st.X,
				map[string]interface{}{"hist": want, "appended": after.Get("nadm").Int()}, map[string]interface{}{"hist": hist, "appended": total})
			return
		}
		if got := c.State(); got != after.Get("cur").Int() {
			rep.Diverge(key+":state", fmt.Sprintf("%s: the member is in state %d (%s), the specification in state %d", where, got, c.StateName(), after.Get("cur").Int()), st.X, after.Get("cur").Int(), got)
			return
		}
		if got := c.CanTransition(); got != after.Get("can").Bool() {
			rep.Diverge(key+":cantransition", fmt.Sprintf("%s: CanTransition() = %v in state %d, the specification says %v", where, got, c.State(), after.Get("can").Bool()), st.X, after.Get("can").Bool(), got)
			return
		}
		rep.Count("steps", 1)
	}
	rep.Count("silent_state_deliveries", silent)
	rep.Count("early_deliveries", early)
	nt := ""
	if silent > 0 {
		nt = key
	}
	var sample interface{}
	if bi < 2 {
		sample = map[string]interface{}{"g": w.g, "signers": signers, "steps": len(steps), "silentStateDeliveries": silent, "early": early}
	}
	rep.Eval(nt, sample)
}

// ---------------------------------------------------------------- real signing under a skewed schedule

type c08NetMessage struct {
	payload interface{}
	typ     string
	key     []byte
	seq     uint64
}

func (m *c08NetMessage) TransportSenderID() net.TransportIdentifier { return nil }
func (m *c08NetMessage) SenderPublicKey() []byte                    { return m.key }
func (m *c08NetMessage) Payload() interface{}                       { return m.payload }
func (m *c08NetMessage) Type() string                               { return m.typ }
func (m *c08NetMessage) Seqno() uint64                              { return m.seq }

type c08MsgKey struct{ t, s int }

type c08Hub struct {
	mu        sync.Mutex
	sent      map[c08MsgKey]net.TaggedMarshaler
	unm       map[int]map[string]func() net.TaggedUnmarshaler
	handlers  map[int]func(net.Message)
	hctx      map[int]context.Context
	delivered map[int]map[c08MsgKey]int
	keys      map[int][]byte
	seq       uint64
}

type c08Port struct {
	hub *c08Hub
	id  int
}

func c08TypeIndex(name string) int {
	for _, t := range c08Types {
		if signing.VerifC08TypeName(t) == name {
			return t
		}
	}
	return 0
}

func (p *c08Port) Name() string { return "verif-c08" }
func (p *c08Port) Send(_ context.Context, m net.TaggedMarshaler, _ ...net.RetransmissionStrategy) error {
	p.hub.mu.Lock()
	defer p.hub.mu.Unlock()
	k := c08MsgKey{c08TypeIndex(m.Type()), p.id}
	if _, dup := p.hub.sent[k]; !dup {
		p.hub.sent[k] = m
	}
	return nil
}
func (p *c08Port) Recv(ctx context.Context, h func(net.Message)) {
	p.hub.mu.Lock()
	p.hub.handlers[p.id] = h
	p.hub.hctx[p.id] = ctx
	p.hub.mu.Unlock()
}
func (p *c08Port) SetUnmarshaler(f func() net.TaggedUnmarshaler) {
	p.hub.mu.Lock()
	if p.hub.unm[p.id] == nil {
		p.hub.unm[p.id] = map[string]func() net.TaggedUnmarshaler{}
	}
	p.hub.unm[p.id][f().Type()] = f
	p.hub.mu.Unlock()
}
func (p *c08Port) SetFilter(net.BroadcastChannelFilter) error { return nil }

func (h *c08Hub) get(k c08MsgKey) net.TaggedMarshaler {
	h.mu.Lock()
	defer h.mu.Unlock()
	return h.sent[k]
}

// deliver hands message k to receiver i through the receiver's own unmarshaler.
func (h *c08Hub) deliver(i int, k c08MsgKey) (bool, error) {
	h.mu.Lock()
	m, hd, ctx := h.sent[k], h.handlers[i], h.hctx[i]
	var f func() net.TaggedUnmarshaler
	if m != nil && h.unm[i] != nil {
		f = h.unm[i][m.Type()]
	}
	h.seq++
	seq := h.seq
	if h.delivered[i] == nil {
		h.delivered[i] = map[c08MsgKey]int{}
	}
	h.mu.Unlock()
	if m == nil || hd == nil || f == nil || ctx.Err() != nil {
		return false, nil
	}
	b, err := m.Marshal()
	if err != nil {
		return false, err
	}
	u := f()
	if err := u.Unmarshal(b); err != nil {
		return false, err
	}
	done := make(chan struct{})
	go func() { hd(&c08NetMessage{payload: u, typ: m.Type(), key: h.keys[k.s], seq: seq}); close(done) }()
	select {
	case <-done:
		h.mu.Lock()
		h.delivered[i][k]++
		h.mu.Unlock()
		return true, nil
	case <-time.After(20 * time.Second):
		return false, nil
	}
}

// c08Logger observes the machine's own progress log.
type c08Logger struct {
	*testutils.MockLogger
	onState func(stateType string)
}

func (l *c08Logger) Infof(format string, args ...interface{}) {
	if l.onState != nil && strings.Contains(format, "transitioning to a new state") && len(args) >= 2 {
		l.onState(fmt.Sprintf("%T", args[1]))
	}
}

func TestVerif_C08_Skewed(t *testing.T) {
	kit.RequireEngine(t)
	rep := kit.NewReport("C08", "skewed")
	defer rep.Write(t)
	fix := c08Fixtures(t)
	lc := Connect()
	budget := time.Duration(kit.IntEnv("VERIF_SIGN_BUDGET_S", 900)) * time.Second
	rnd := kit.Rand(90)
	for bi, b := range kit.LoadCases(t, "skewed.ndjson") {
		if c08PipelineDiverged > 0 || c08MachineDiverged > 0 || rep.NDivergences() > 0 {
			rep.Note("real skewed signing runs skipped after a divergence")
			rep.Eval("", nil)
			continue
		}
		c08Skewed(t, rep, lc, fix, b, bi, budget, c08Message(rnd, bi+1))
	}
}

func c08Skewed(t *testing.T, rep *kit.Report, lc *localChain, fix []keygen.LocalPartySaveData, b kit.V, bi int, budget time.Duration, msg *big.Int) {
	g := b.Get("g").Int()
	signers := b.Get("signers").Ints()
	sort.Ints(signers)
	key := fmt.Sprintf("skewed:%s", kit.Hash(b.Get("steps").X))
	if g != 4 || len(b.Get("intruders").Ints()) != 0 {
		t.Fatalf("harness: the skewed run expects a 4-seat wallet without intruders")
	}
	// a wallet of 4 seats = the 5-seat fixture group generated with one seat excluded
	n := 5
	gp := &GroupParameters{GroupSize: n, GroupQuorum: 4, HonestThreshold: c08Honest}
	excluded := []int{1 + int(kit.Seed()+int64(bi))%n}
	seats := c08Seats(t, lc, n)
	all := make([]chain.Address, n)
	for i, s := range seats {
		all[i] = s.address
	}
	results := c08FixtureResults(rep, key, fix, n, gp, excluded)
	if results == nil {
		return
	}
	byIdx := c08Register(t, rep, key, lc, gp, all, results)
	if byIdx == nil {
		return
	}
	hub := &c08Hub{sent: map[c08MsgKey]net.TaggedMarshaler{}, unm: map[int]map[string]func() net.TaggedUnmarshaler{},
		handlers: map[int]func(net.Message){}, hctx: map[int]context.Context{}, delivered: map[int]map[c08MsgKey]int{}, keys: map[int][]byte{}}
	for f, s := range byIdx {
		seat := c08SeatOf(all, s.wallet.signingGroupOperators[f-1])
		hub.keys[f] = c08KeyBytes(seats[seat-1])
	}
	// deliveries the behaviour makes while the receiver is in the silent symmetric-key state
	steps := b.Get("steps").List()
	silentFor := map[int][]c08MsgKey{}
	isSilent := map[int]bool{}
	for si, st := range steps {
		if st.Get("a").Str() == "Deliver" && st.Get("at").Int() == 2 && st.Get("kind").Str() == "genuine" {
			i := st.Get("i").Int()
			silentFor[i] = append(silentFor[i], c08MsgKey{st.Get("m").Get("t").Int(), st.Get("m").Get("s").Int()})
			isSilent[si] = true
		}
	}
	ctx, cancel := context.WithTimeout(context.Background(), budget)
	defer cancel()
	sessionID := fmt.Sprintf("%v-%v", msg.Text(16), 1)
	var mu sync.Mutex
	window := map[int]int{} // receiver -> messages handed over inside the silent-state window
	type outT struct {
		f   int
		sig *tecdsa.Signature
		err error
	}
	outc := make(chan outT, len(signers))
	started := map[int]bool{}
	start := func(f int) {
		if started[f] || !c08Contains(signers, f) {
			return
		}
		started[f] = true
		s := byIdx[f]
		port := &c08Port{hub: hub, id: f}
		signing.RegisterUnmarshallers(port)
		lg := &c08Logger{MockLogger: &testutils.MockLogger{}}
		lg.onState = func(st string) {
			if !strings.HasSuffix(st, "symmetricKeyGenerationState") {
				return
			}
			// runs on the machine's own goroutine, right after it made the silent state current: what is handed over
			// now is processed by THAT state's Receive (its transition signal comes a ticker period later)
			for _, k := range silentFor[f] {
				deadline := time.Now().Add(90 * time.Second)
				for hub.get(k) == nil && time.Now().Before(deadline) && ctx.Err() == nil {
					time.Sleep(2 * time.Millisecond)
				}
				if ok, _ := hub.deliver(f, k); ok {
					mu.Lock()
					window[f]++
					mu.Unlock()
				}
			}
		}
		go func() {
			defer func() {
				if r := recover(); r != nil {
					outc <- outT{f, nil, fmt.Errorf("panic: %v", r)}
				}
			}()
			w := s.wallet
			validator := group.NewMembershipValidator(&testutils.MockLogger{}, w.signingGroupOperators, lc.Signing())
			res, err := signing.Execute(ctx, lg, msg, sessionID, s.signingGroupMemberIndex, s.privateKeyShare, w.groupSize(),
				w.groupDishonestThreshold(gp.HonestThreshold), c08Idx(c08Complement(w.groupSize(), signers)), port, validator)
			if err != nil {
				outc <- outT{f, nil, err}
				return
			}
			outc <- outT{f, res.Signature, nil}
		}()
	}
	sigs := map[int]*tecdsa.Signature{}
	errs := map[int]error{}
	drain := func() {
		for {
			select {
			case o := <-outc:
				if o.err != nil {
					errs[o.f] = o.err
				} else {
					sigs[o.f] = o.sig
				}
			default:
				return
			}
		}
	}
	waitFor := func(cond func() bool) bool {
		for {
			if cond() {
				return true
			}
			drain()
			if len(errs) > 0 || ctx.Err() != nil {
				return false
			}
			time.Sleep(3 * time.Millisecond)
		}
	}
	t0 := time.Now()
	ok := true
	for si, st := range steps {
		a, i := st.Get("a").Str(), st.Get("i").Int()
		if a == "Start" {
			start(i)
			continue
		}
		if a != "Deliver" || isSilent[si] || !c08Contains(signers, i) {
			continue
		}
		k := c08MsgKey{st.Get("m").Get("t").Int(), st.Get("m").Get("s").Int()}
		if !waitFor(func() bool { hub.mu.Lock(); defer hub.mu.Unlock(); return hub.handlers[i] != nil }) ||
			!waitFor(func() bool { return hub.get(k) != nil }) {
			ok = false
			break
		}
		hub.mu.Lock()
		already := hub.delivered[i][k]
		hub.mu.Unlock()
		if already > 0 && st.Get("kind").Str() != "dup" {
			continue // handed over inside the silent-state window already
		}
		if _, err := hub.deliver(i, k); err != nil {
			t.Fatalf("harness: step %d: %v", si+1, err)
		}
	}
	// whatever was sent and not yet handed to a receiver is delivered now (once): the network loses nothing
	lastSweep := time.Time{}
	done := ok && waitFor(func() bool {
		if time.Since(lastSweep) > 200*time.Millisecond {
			lastSweep = time.Now()
			hub.mu.Lock()
			var todo [][2]interface{}
			for k := range hub.sent {
				for _, f := range signers {
					if hub.delivered[f][k] == 0 {
						todo = append(todo, [2]interface{}{f, k})
					}
				}
			}
			hub.mu.Unlock()
			for _, x := range todo {
				if _, err := hub.deliver(x[0].(int), x[1].(c08MsgKey)); err != nil {
					t.Fatalf("harness: sweep: %v", err)
				}
			}
		}
		drain()
		return len(sigs) == len(signers)
	})
	drain()
	mu.Lock()
	win := 0
	for _, c := range window {
		win += c
	}
	mu.Unlock()
	rep.Extra[fmt.Sprintf("skewed%d_wall_s", bi)] = time.Since(t0).Seconds()
	rep.Count("silent_window_deliveries", win)
	info := map[string]interface{}{"excluded": excluded, "signers": signers, "silentWindow": fmt.Sprint(silentFor), "message": msg.Text(16)}
	if !done {
		for f, e := range errs {
			if !(ctx.Err() == context.DeadlineExceeded && strings.Contains(e.Error(), "context")) {
				rep.Diverge(key+":sign", fmt.Sprintf("signer with final index %d failed under the skewed delivery order: %v", f, e), info, "signature", e.Error())
			}
		}
		if rep.NDivergences() == 0 {
			t.Fatalf("harness: skewed signing %s did not finish within %v (signatures %d/%d, errors %v)", key, budget, len(sigs), len(signers), errs)
		}
		return
	}
	rep.Count("real_signings", 1)
	var pub *ecdsa.PublicKey = byIdx[signers[0]].wallet.publicKey
	halfN := new(big.Int).Rsh(tecdsa.Curve.Params().N, 1)
	first := sigs[signers[0]]
	for _, f := range signers {
		sg := sigs[f]
		if !sg.Equals(first) {
			rep.Diverge(key+":sign", "signers returned different signatures under the skewed delivery order", info, first.String(), sg.String())
		}
		if !ecdsa.Verify(pub, msg.Bytes(), sg.R, sg.S) {
			rep.Diverge(key+":verify", fmt.Sprintf("signature of signer %d does not verify under the wallet public key", f), info, "valid", sg.String())
		}
		if sg.S.Cmp(halfN) > 0 || sg.S.Sign() <= 0 {
			rep.Diverge(key+":lowS", "signature does not have a low S value", info, "S <= N/2", sg.String())
		}
	}
	rep.Eval(key, info)
}
