//go:build verif

package tbtc

// C08 conformance harness, part 3: the glue between a stored wallet and the
// signing protocol -- the REAL signingExecutor.sign (announcements, retry loop,
// member selection, signing.Execute call, done check) of a node that controls
// all signers of a wallet whose stored signing group is SMALLER than the
// nominal group size (fixture shares restricted to the operating seats of a key
// generation with excluded seats, registered with the real registerSigner and
// loaded by the real node from the key store).
//
// Observed through a recording wrapper of the executor's broadcast channel and
// compared with specs/SigningGroup (DeriveParameters / NoPhantomMembers /
// QuorumRemains): the member indexes every signer's ephemeral public key
// message carries keys for (= the group the protocol was started for) are
// exactly the stored final indices; the attempt's signer set (addressees of the
// round-one messages) is a set of stored final indices of at least honest
// threshold size for which the specification has a "valid" case; the returned
// signature verifies under the wallet public key and has a low S. "No
// signature" is a divergence only when the executor itself returned its error.

import (
	"context"
	"crypto/ecdsa"
	"fmt"
	"math/big"
	"sort"
	"sync"
	"testing"
	"time"

	"github.com/bnb-chain/tss-lib/ecdsa/keygen"
	kit "github.com/keep-network/keep-core/internal/verifkit"
	"github.com/keep-network/keep-core/pkg/bitcoin"
	"github.com/keep-network/keep-core/pkg/chain"
	"github.com/keep-network/keep-core/pkg/chain/local_v1"
	"github.com/keep-network/keep-core/pkg/generator"
	"github.com/keep-network/keep-core/pkg/net"
	netlocal "github.com/keep-network/keep-core/pkg/net/local"
	"github.com/keep-network/keep-core/pkg/operator"
	"github.com/keep-network/keep-core/pkg/protocol/group"
	"github.com/keep-network/keep-core/pkg/tecdsa"
	"github.com/keep-network/keep-core/pkg/tecdsa/signing"
)

func TestVerif_C08_Executor(t *testing.T) {
	kit.RequireEngine(t)
	rep := kit.NewReport("C08", "executor")
	defer rep.Write(t)
	fix := c08Fixtures(t)
	cases := kit.LoadCases(t, "cases.ndjson")
	budget := time.Duration(kit.IntEnv("VERIF_EXECUTOR_BUDGET_S", 1500)) * time.Second
	rnd := kit.Rand(91)
	for ri, r := range kit.LoadCases(t, "executor.ndjson") {
		if c08PipelineDiverged > 0 || c08MachineDiverged > 0 || rep.NDivergences() > 0 {
			rep.Note("real signingExecutor runs skipped after a divergence")
			rep.Eval("", nil)
			continue
		}
		c08ExecutorRun(t, rep, fix, cases, r, c08Message(rnd, ri+1), budget)
	}
}

func c08ExecutorRun(t *testing.T, rep *kit.Report, fix []keygen.LocalPartySaveData, cases []kit.V, r kit.V, message *big.Int, budget time.Duration) {
	n, h, q := r.Get("n").Int(), r.Get("h").Int(), r.Get("quorum").Int()
	excluded := r.Get("excluded").Ints()
	key := fmt.Sprintf("executor:excl=%s", r.Get("excluded").JSON())
	gp := &GroupParameters{GroupSize: n, GroupQuorum: q, HonestThreshold: h}
	stored := n - len(excluded)

	// one node controls every seat (as in the repository's own signing executor tests)
	operatorPrivateKey, operatorPublicKey, err := operator.GenerateKeyPair(local_v1.DefaultCurve)
	if err != nil {
		t.Fatal(err)
	}
	localChain := ConnectWithKey(operatorPrivateKey)
	provider := netlocal.ConnectWithKey(operatorPublicKey)
	address, err := localChain.Signing().PublicKeyToAddress(operatorPublicKey)
	if err != nil {
		t.Fatal(err)
	}
	selected := make([]chain.Address, n)
	for i := range selected {
		selected[i] = address
	}
	// the wallet: key generation without the excluded seats, real registerSigner into the key store
	results := c08FixtureResults(rep, key, fix, n, gp, excluded)
	if results == nil {
		return
	}
	keyStore := &mockPersistenceHandle{}
	registry, err := newWalletRegistry(keyStore, localChain.CalculateWalletID)
	if err != nil {
		t.Fatalf("harness: registry: %v", err)
	}
	de := &dkgExecutor{groupParameters: gp, walletRegistry: registry}
	var pub *ecdsa.PublicKey
	var order []int
	for m := range results {
		order = append(order, m)
	}
	sort.Ints(order)
	for _, m := range order {
		if _, err := de.registerSigner(results[m], group.MemberIndex(m), append([]chain.Address{}, selected...)); err != nil {
			rep.Diverge(key+":register", fmt.Sprintf("registerSigner failed for operating member %d: %v", m, err), r.X, "ok", err.Error())
			return
		}
		pub = results[m].PrivateKeyShare.PublicKey()
	}
	walletID, err := localChain.CalculateWalletID(pub)
	if err != nil {
		t.Fatal(err)
	}
	localChain.setWallet(bitcoin.PublicKeyHash(pub), &WalletChainData{EcdsaWalletID: walletID, State: StateLive})
	// the node loads the signers from the key store
	node, err := newNode(gp, localChain, newLocalBitcoinChain(), provider, keyStore, &mockPersistenceHandle{},
		generator.StartScheduler(), &mockCoordinationProposalGenerator{}, Config{})
	if err != nil {
		t.Fatalf("harness: node: %v", err)
	}
	executor, ok, err := node.getSigningExecutor(pub)
	if err != nil || !ok {
		rep.Diverge(key+":executor", fmt.Sprintf("the node has no signing executor for the registered wallet (ok=%v, err=%v)", ok, err), r.X, nil, nil)
		return
	}
	executor.signingAttemptsLimit *= 8 // the test block counter is much quicker than real chains (as in signing_test.go)
	loaded := executor.wallet()
	if len(executor.signers) != stored || loaded.groupSize() != stored {
		rep.Diverge(key+":wallet", "the loaded wallet does not have one signer per stored seat", r.X, stored,
			map[string]int{"signers": len(executor.signers), "groupSize": loaded.groupSize()})
		return
	}

	ctx, cancel := context.WithTimeout(context.Background(), budget)
	defer cancel()
	var mu sync.Mutex
	phantom := false
	ephTargets := map[string]map[int][]int{} // session -> sender -> targets
	roundOne := map[string]map[int][]int{}   // session -> sender -> addressed peers
	executor.broadcastChannel = &c08Chan{BroadcastChannel: executor.broadcastChannel, onSend: func(m net.TaggedMarshaler) {
		mu.Lock()
		defer mu.Unlock()
		if sender, session, targets, ok := signing.VerifC08EphemeralTargets(m); ok {
			if ephTargets[session] == nil {
				ephTargets[session] = map[int][]int{}
			}
			ephTargets[session][sender] = targets
			var want []int
			for i := 1; i <= stored; i++ {
				if i != sender {
					want = append(want, i)
				}
			}
			rep.Count("ephemeral_messages", 1)
			if !c08Eq(targets, want) && !phantom {
				phantom = true
				rep.Diverge(key+":phantom", fmt.Sprintf("signer %d started the signing protocol for members %v (+ itself); the stored wallet has the final indices 1..%d: "+
					"members that do not exist are expected, the honest quorum can never sign", sender, targets, stored), r.X, want, targets)
				cancel()
			}
			return
		}
		if typ, sender, session, peers, hasPeers := signing.VerifC08Describe(m); typ == signing.VerifC08TypeName(3) && hasPeers {
			if roundOne[session] == nil {
				roundOne[session] = map[int][]int{}
			}
			roundOne[session][sender] = peers
		}
	}}

	t0 := time.Now()
	sig, _, _, signErr := executor.sign(ctx, message, 0)
	rep.Extra["executor_wall_s"] = time.Since(t0).Seconds()
	mu.Lock()
	defer mu.Unlock()
	if phantom {
		return
	}
	if signErr != nil {
		if ctx.Err() != nil {
			t.Fatalf("harness: signingExecutor.sign did not return within %v: %v", budget, signErr)
		}
		// the loop itself gave up: the specification says every honest quorum of this wallet signs
		rep.Diverge(key+":nosignature", fmt.Sprintf("signingExecutor.sign returned %q for a wallet of %d stored signers (nominal size %d): the honest quorum could not sign",
			signErr.Error(), stored, n), r.X, "signature", signErr.Error())
		return
	}
	rep.Count("real_executor_signings", 1)
	// the successful attempt's signer set, from the round-one messages of the last session that has them
	var sessions []string
	for s := range roundOne {
		sessions = append(sessions, s)
	}
	sort.Strings(sessions)
	if len(sessions) == 0 {
		rep.Diverge(key+":wire", "a signature was returned but no round-one message was sent", r.X, nil, nil)
		return
	}
	for _, s := range sessions {
		var signers []int
		for f := range roundOne[s] {
			signers = append(signers, f)
		}
		sort.Ints(signers)
		okSet := len(signers) >= h
		for f, peers := range roundOne[s] {
			var want []int
			for _, x := range signers {
				if x != f {
					want = append(want, x)
				}
			}
			if !c08Eq(peers, want) {
				okSet = false
			}
		}
		// the specification's case for this wallet and signer set
		var spec kit.V
		for _, c := range cases {
			if c.Get("n").Int() == n && c.Get("h").Int() == h && c.Get("quorum").Int() == q &&
				c.Get("excluded").JSON() == r.Get("excluded").JSON() && c08Eq(c.Get("signers").Ints(), signers) {
				spec = c
			}
		}
		if !okSet || spec.IsNil() || spec.Get("outcome").Str() != "valid" || spec.Get("proto").Get("size").Int() != stored ||
			!c08Eq(spec.Get("proto").Get("excl").Ints(), c08Complement(stored, signers)) {
			rep.Diverge(key+":attempt", fmt.Sprintf("attempt %q ran with signers %v, which is not a signer set the specification allows for this wallet", s, signers),
				r.X, "a set of >= H stored final indices", roundOne[s])
			return
		}
		rep.Count("attempts_checked", 1)
	}
	halfN := new(big.Int).Rsh(tecdsa.Curve.Params().N, 1)
	if !ecdsa.Verify(pub, message.Bytes(), sig.R, sig.S) {
		rep.Diverge(key+":verify", "the signature returned by signingExecutor.sign does not verify under the wallet public key", r.X, "valid", sig.String())
	}
	if sig.S.Cmp(halfN) > 0 || sig.S.Sign() <= 0 {
		rep.Diverge(key+":lowS", "the signature does not have a low S value", r.X, "S <= N/2", sig.String())
	}
	rep.Eval(key, map[string]interface{}{"excluded": excluded, "stored": stored, "nominal": n, "attempts": sessions, "message": message.Text(16)})
}
