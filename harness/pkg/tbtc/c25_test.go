//go:build verif

package tbtc

// C25 conformance harness for walletDispatcher (spec: /verif/specs/Dispatcher).
//
//   TestVerif_C25_Seq     replays every sequential behaviour of the contract
//                         grain on a real walletDispatcher: the result of every
//                         dispatch, the content of wd.actions and the number of
//                         live goroutines created by dispatch are compared with
//                         the specification after every step.
//   TestVerif_C25_Hazard  tries to realize every interleaving of the lookup and
//                         the insertion of concurrent dispatch calls (hazard
//                         grain). The fake action's actionType() is called by
//                         dispatch between the map lookup and the insertion, so
//                         a caller can be parked exactly there. With the mutex
//                         in place a second caller cannot get past Lock and the
//                         schedule is unrealizable.
//   TestVerif_C25_Hammer  records random concurrent runs (several callers,
//                         actions ended by a controller with random outcomes,
//                         peeks under the mutex) as ndjson for Trace_Dispatcher.
//   TestVerif_C25_Avail   observes that a wallet can be dispatched to again once
//                         its action ended (success and error outcome), while
//                         the other wallet keeps executing.
//
// "The goroutine is gone" is decided from runtime.Stack (goroutines whose
// "created by" frame is walletDispatcher.dispatch), never from elapsed time:
// a wait that runs out is counted as inconclusive.

import (
	"crypto/ecdsa"
	"crypto/elliptic"
	"encoding/hex"
	"fmt"
	"math/big"
	"runtime"
	"strings"
	"sync"
	"sync/atomic"
	"testing"
	"time"

	kit "github.com/keep-network/keep-core/internal/verifkit"
	"github.com/keep-network/keep-core/pkg/internal/verifhook"
)

// c25HookPoint is the observation point in walletDispatcher.dispatch right
// after the busy check and before the insertion into wd.actions.
const c25HookPoint = "tbtc.dispatch.beforeInsert"

const c25CreatedBy = "created by github.com/keep-network/keep-core/pkg/tbtc.(*walletDispatcher).dispatch"

// c25Goroutines counts the live goroutines spawned by walletDispatcher.dispatch.
func c25Goroutines() int {
	buf := make([]byte, 1<<18)
	for {
		n := runtime.Stack(buf, true)
		if n < len(buf) {
			buf = buf[:n]
			break
		}
		buf = make([]byte, 2*len(buf))
	}
	n := 0
	for _, blk := range strings.Split(string(buf), "\n\n") {
		if strings.Contains(blk, c25CreatedBy) {
			n++
		}
	}
	return n
}

// c25WaitGoroutines waits until exactly n dispatch goroutines are alive.
func c25WaitGoroutines(n int, d time.Duration) bool {
	return kit.Eventually(d, func() bool { return c25Goroutines() == n })
}

type c25World struct {
	wallets map[string]wallet // model wallet -> wallet
	names   map[string]string // hex key -> model wallet
}

func newC25World(t testing.TB) *c25World {
	w := &c25World{wallets: map[string]wallet{}, names: map[string]string{}}
	for i, name := range []string{"w1", "w2"} {
		w.wallets[name] = generateWallet(big.NewInt(int64(7100 + i)))
	}
	// a key on another curve: marshalPublicKey refuses it
	x, y := elliptic.P256().ScalarBaseMult(big.NewInt(7).Bytes())
	w.wallets["wbad"] = wallet{publicKey: &ecdsa.PublicKey{Curve: elliptic.P256(), X: x, Y: y}}
	for _, name := range []string{"w1", "w2"} {
		b, err := marshalPublicKey(w.wallets[name].publicKey)
		if err != nil {
			t.Fatalf("marshal: %v", err)
		}
		w.names[hex.EncodeToString(b)] = name
	}
	if _, err := marshalPublicKey(w.wallets["wbad"].publicKey); err == nil {
		t.Fatalf("the bad wallet key marshals")
	}
	return w
}

func c25Type(s string) WalletActionType {
	for _, t := range []WalletActionType{ActionNoop, ActionHeartbeat, ActionDepositSweep, ActionRedemption, ActionMovingFunds, ActionMovedFundsSweep} {
		if t.String() == s {
			return t
		}
	}
	panic("unknown model action type " + s)
}

// snapshot reads wd.actions under the dispatcher's mutex; with fn the caller
// can act while the mutex is still held.
func (w *c25World) snapshot(wd *walletDispatcher, fn func(map[string]string)) map[string]string {
	wd.actionsMutex.Lock()
	defer wd.actionsMutex.Unlock()
	out := map[string]string{"w1": "none", "w2": "none", "wbad": "none"}
	for k, v := range wd.actions {
		name, ok := w.names[k]
		if !ok {
			name = "unknown:" + k
		}
		out[name] = v.String()
	}
	if fn != nil {
		fn(out)
	}
	return out
}

func c25Res(err error) string {
	switch {
	case err == nil:
		return "ok"
	case err == errWalletBusy:
		return "busy"
	default:
		return "error"
	}
}

// c25Monitor watches how many actions of a wallet are inside execute().
type c25Monitor struct {
	mu      sync.Mutex
	running map[string]int
	max     map[string]int
	begun   int
}

func newC25Monitor() *c25Monitor {
	return &c25Monitor{running: map[string]int{}, max: map[string]int{}}
}
func (m *c25Monitor) enter(w string) {
	m.mu.Lock()
	m.running[w]++
	m.begun++
	if m.running[w] > m.max[w] {
		m.max[w] = m.running[w]
	}
	m.mu.Unlock()
}
func (m *c25Monitor) leave(w string) { m.mu.Lock(); m.running[w]--; m.mu.Unlock() }
func (m *c25Monitor) maxOf(w string) int {
	m.mu.Lock()
	defer m.mu.Unlock()
	return m.max[w]
}
func (m *c25Monitor) runningOf(w string) int {
	m.mu.Lock()
	defer m.mu.Unlock()
	return m.running[w]
}
func (m *c25Monitor) begunN() int { m.mu.Lock(); defer m.mu.Unlock(); return m.begun }

// c25Action is the gated fake action.
type c25Action struct {
	c     int
	name  string // model wallet
	w     wallet
	t     WalletActionType
	mon   *c25Monitor
	begin chan struct{} // closed when execute() was entered
	end   chan error    // outcome to return from execute()
	left  chan struct{} // closed right before execute() returns
	// hooks
	onBegin func(a *c25Action)
	onEnd   func(a *c25Action, err error)
	jitter  func() // called from the callbacks dispatch makes inside its critical section
	// gate inside dispatch's critical section: the n-th actionType() call
	typeCalls  int32
	parkAtCall int32         // 0 = never park
	parked     chan struct{} // closed when parked
	release    chan struct{} // closed to let the caller continue
	execCount  int32
	finished   int32
}

func newC25Action(world *c25World, mon *c25Monitor, c int, name, typ string) *c25Action {
	return &c25Action{c: c, name: name, w: world.wallets[name], t: c25Type(typ), mon: mon,
		begin: make(chan struct{}), end: make(chan error, 1), left: make(chan struct{}),
		parked: make(chan struct{}), release: make(chan struct{})}
}

func (a *c25Action) execute() error {
	if atomic.AddInt32(&a.execCount, 1) != 1 {
		panic("verif harness: action executed twice")
	}
	a.mon.enter(a.name)
	if a.onBegin != nil {
		a.onBegin(a)
	}
	close(a.begin)
	err := <-a.end
	if a.onEnd != nil {
		a.onEnd(a, err)
	}
	a.mon.leave(a.name)
	close(a.left)
	return err
}

func (a *c25Action) wallet() wallet {
	if a.jitter != nil {
		a.jitter()
	}
	return a.w
}

func (a *c25Action) actionType() WalletActionType {
	n := atomic.AddInt32(&a.typeCalls, 1)
	if a.jitter != nil {
		a.jitter()
	}
	if p := atomic.LoadInt32(&a.parkAtCall); p != 0 && n == p {
		close(a.parked)
		<-a.release
	}
	return a.t
}

// finish tells execute() to return; only the first call counts. The channel
// is buffered, so an action that never started simply keeps the token.
func (a *c25Action) finish(out string) {
	if !atomic.CompareAndSwapInt32(&a.finished, 0, 1) {
		return
	}
	if out == "ok" {
		a.end <- nil
	} else {
		a.end <- fmt.Errorf("verif: action failed on purpose")
	}
}

func c25Same(a, b map[string]string) bool {
	for _, k := range []string{"w1", "w2", "wbad"} {
		x, y := a[k], b[k]
		if x == "" {
			x = "none"
		}
		if y == "" {
			y = "none"
		}
		if x != y {
			return false
		}
	}
	for _, m := range []map[string]string{a, b} {
		for k := range m {
			if strings.HasPrefix(k, "unknown:") {
				return false
			}
		}
	}
	return true
}

func c25Entry(v kit.V) map[string]string {
	out := map[string]string{}
	for _, k := range v.Keys() {
		out[k] = v.Get(k).Str()
	}
	return out
}

const c25Long = 60 * time.Second

func c25AwaitBegin(t *testing.T, a *c25Action) {
	select {
	case <-a.begin:
	case <-time.After(c25Long):
		t.Fatalf("an accepted action did not start executing within %v", c25Long)
	}
}

// ------------------------------------------------------------------ Seq

func TestVerif_C25_Seq(t *testing.T) {
	kit.RequireEngine(t)
	rep := kit.NewReport("C25", "seq")
	defer rep.Write(t)
	world := newC25World(t)
	cases := kit.LoadCases(t, "sequences.ndjson")
	if !c25WaitGoroutines(0, c25Long) {
		t.Fatalf("dispatch goroutines alive before the test")
	}
	inconclusive := 0
	for _, cs := range cases {
		wd := newWalletDispatcher()
		mon := newC25Monitor()
		acts := map[int]*c25Action{}
		steps := cs.Get("steps").List()
		nontrivial := false
		aborted := false
		diverged := false
		hash := kit.Hash(cs.Get("steps").X)
		diverge := func(i int, key, what string, exp, obs interface{}) {
			diverged = true
			rep.Diverge(key, what, map[string]interface{}{"behaviour": hash, "step": i, "steps": cs.Get("steps").X}, exp, obs)
		}
		for i, s := range steps {
			c := s.Get("c").Int()
			wname := s.Get("w").Str()
			switch s.Get("a").Str() {
			case "Call":
				acts[c] = newC25Action(world, mon, c, wname, s.Get("t").Str())
			case "Dispatch":
				var err error
				func() {
					defer func() {
						if r := recover(); r != nil {
							err = fmt.Errorf("panic: %v", r)
							diverge(i, "seq:panic", fmt.Sprintf("dispatch panicked: %v", r), nil, fmt.Sprint(r))
						}
					}()
					err = wd.dispatch(acts[c])
				}()
				res := c25Res(err)
				exp := s.Get("res").Str()
				if exp != "ok" {
					nontrivial = true
				}
				if res != exp {
					diverge(i, "seq:dispatch-result:"+exp+"->"+res,
						fmt.Sprintf("dispatch for wallet %s returned %q (%v); the specification says %q (wd.actions before: see case)", wname, res, err, exp), exp, res)
				}
			case "Return":
			case "ExecBegin":
				select {
				case <-acts[c].begin:
				case <-time.After(c25Long):
					// either very slow or never spawned; the goroutine count below decides
					if c25Goroutines() < s.Get("live").Len() {
						diverge(i, "seq:not-executed", "dispatch accepted an action but no goroutine executes it", "execute() entered", "no goroutine created by dispatch")
					} else {
						inconclusive++
					}
					aborted = true
				}
			case "ExecEnd":
				acts[c].finish(s.Get("out").Str())
				select {
				case <-acts[c].left:
				case <-time.After(c25Long):
					inconclusive++
					aborted = true
				}
			case "Release":
				// the deferred delete cannot be held back: wait for the goroutine to be gone
				if !c25WaitGoroutines(s.Get("live").Len(), c25Long) {
					inconclusive++
					aborted = true
				}
				nontrivial = true
			}
			if aborted || diverged {
				break
			}
			// compare the observable state with the specification's after every step
			switch s.Get("a").Str() {
			case "Dispatch", "ExecBegin", "ExecEnd", "Release":
				expEntry := c25Entry(s.Get("entry"))
				obsEntry := world.snapshot(wd, nil)
				if s.Get("a").Str() == "ExecEnd" {
					// the real goroutine performs its deferred delete on its own right after
					// execute() returned: the map may already be one Release step ahead
					if !c25Same(expEntry, obsEntry) {
						expEntry[wname] = "none"
					}
				}
				if !c25Same(expEntry, obsEntry) {
					key := "seq:entry-after-" + s.Get("a").Str()
					what := fmt.Sprintf("wd.actions differs from the specification after %s(%s)", s.Get("a").Str(), wname)
					if s.Get("a").Str() == "Release" {
						key = "seq:stays-busy:" + s.Get("out").Str()
						what = fmt.Sprintf("the action of wallet %s ended (%s) and its goroutine is gone, but the wallet is still marked busy", wname, s.Get("out").Str())
					}
					diverge(i, key, what, expEntry, obsEntry)
					break
				}
				if s.Get("a").Str() != "ExecEnd" {
					if g := c25Goroutines(); g != s.Get("live").Len() {
						diverge(i, "seq:goroutines", fmt.Sprintf("after %s(%s): %d goroutines created by dispatch are alive, the specification has %d live actions",
							s.Get("a").Str(), wname, g, s.Get("live").Len()), s.Get("live").Len(), g)
					}
				}
				for _, wn := range []string{"w1", "w2", "wbad"} {
					if mon.maxOf(wn) > 1 {
						diverge(i, "seq:two-executing", "two actions of wallet "+wn+" were executing at the same time", 1, mon.maxOf(wn))
					}
				}
			}
			if diverged {
				break
			}
		}
		// clean up whatever is still running
		for _, a := range acts {
			a.finish("ok")
		}
		if !c25WaitGoroutines(0, c25Long) {
			t.Fatalf("dispatch goroutines did not exit during clean-up")
		}
		key := ""
		if nontrivial {
			key = hash
		}
		rep.Eval(key, map[string]interface{}{"steps": len(steps), "aborted": aborted})
	}
	rep.Count("inconclusive", inconclusive)
	if inconclusive > len(cases)/10 {
		t.Fatalf("too many inconclusive behaviours: %d of %d", inconclusive, len(cases))
	}
}

// ------------------------------------------------------------------ Hazard

func TestVerif_C25_Hazard(t *testing.T) {
	kit.RequireEngine(t)
	rep := kit.NewReport("C25", "hazard")
	defer rep.Write(t)
	world := newC25World(t)
	cases := kit.LoadCases(t, "schedules.ndjson")
	park := time.Duration(kit.IntEnv("VERIF_PARK_MS", 150)) * time.Millisecond
	if !c25WaitGoroutines(0, c25Long) {
		t.Fatalf("dispatch goroutines alive before the test")
	}
	for _, cs := range cases {
		for _, via := range []string{"hook", "callback"} {
			wd := newWalletDispatcher()
			mon := newC25Monitor()
			args := cs.Get("args")
			procs := args.Keys()
			acts := map[string]*c25Action{}
			results := map[string]chan error{}
			started := map[string]bool{}
			got := map[string]string{}
			// Two ways of holding a caller between the map lookup and the insertion:
			//   hook      the observation point tbtc.dispatch.beforeInsert (verifhook) that sits
			//             right after the busy check;
			//   callback  the second action.actionType() call, which dispatch makes for the
			//             value it stores (works without the hook).
			gate := kit.NewGate()
			ticket := map[string]int{}
			if via == "hook" {
				verifhook.Install(gate.Handler)
			}
			for _, p := range procs {
				a := newC25Action(world, mon, args.Get(p).Get("c").Int(), args.Get(p).Get("w").Str(), args.Get(p).Get("t").Str())
				if via == "callback" {
					a.parkAtCall = 2
				}
				acts[p] = a
				results[p] = make(chan error, 1)
			}
			start := func(p string) {
				started[p] = true
				go func() { results[p] <- wd.dispatch(acts[p]) }()
			}
			// startAndHold starts p's dispatch and waits until it is held between lookup and
			// insertion ("held"), has returned ("done") or neither within the bound ("blocked")
			startAndHold := func(p string) string {
				if via == "callback" {
					start(p)
					select {
					case <-acts[p].parked:
						return "held"
					case err := <-results[p]:
						got[p] = c25Res(err)
						return "done"
					case <-time.After(park):
						return "blocked"
					}
				}
				before := gate.Arrived(c25HookPoint)
				gate.Arm(c25HookPoint, 1)
				start(p)
				deadline := time.Now().Add(park)
				for {
					if gate.Arrived(c25HookPoint) > before {
						if !gate.WaitParked(c25HookPoint, len(ticket)+1, c25Long) {
							t.Fatalf("a caller arrived at the hook but did not park")
						}
						ticket[p] = before + 1
						return "held"
					}
					select {
					case err := <-results[p]:
						got[p] = c25Res(err)
						gate.Disarm(c25HookPoint)
						return "done"
					default:
					}
					if time.Now().After(deadline) {
						gate.Disarm(c25HookPoint)
						return "blocked"
					}
					time.Sleep(100 * time.Microsecond)
				}
			}
			held := map[string]bool{}
			letGo := func(p string) {
				delete(held, p)
				if via == "callback" {
					close(acts[p].release)
					return
				}
				if !gate.ReleaseTicket(c25HookPoint, ticket[p]) {
					t.Fatalf("caller %s is not parked at the hook", p)
				}
				delete(ticket, p)
			}
			realized := true
			overlap := false
			hash := kit.Hash(cs.Get("steps").X) + "/" + via
			for _, s := range cs.Get("steps").List() {
				p := s.Get("p").Str()
				switch s.Get("a").Str() {
				case "Check":
					if len(held) > 0 {
						overlap = true
					}
					switch startAndHold(p) {
					case "held":
						held[p] = true
					case "blocked":
						realized = false // blocked before the lookup: the mutex serializes the callers
					}
				case "Insert":
					if !held[p] {
						realized = false
						break
					}
					letGo(p)
					select {
					case err := <-results[p]:
						got[p] = c25Res(err)
					case <-time.After(c25Long):
						t.Fatalf("dispatch did not return after its caller was released")
					}
				}
				if !realized {
					break
				}
			}
			// let every call of the schedule complete
			gate.ReleaseAll()
			for _, p := range procs {
				atomic.StoreInt32(&acts[p].parkAtCall, 0)
				select {
				case <-acts[p].release:
				default:
					close(acts[p].release)
				}
			}
			for _, p := range procs {
				if !started[p] {
					start(p)
				}
				if _, ok := got[p]; !ok {
					select {
					case err := <-results[p]:
						got[p] = c25Res(err)
					case <-time.After(c25Long):
						t.Fatalf("dispatch did not return")
					}
				}
			}
			// every accepted action starts executing (they all stay inside execute())
			oks := map[string]int{}
			nOk := 0
			for _, p := range procs {
				if got[p] == "ok" {
					oks[acts[p].name]++
					nOk++
				}
			}
			kit.Eventually(10*time.Second, func() bool { return mon.begunN() >= nOk })
			key := ""
			if overlap {
				key = hash
			}
			rep.Eval(key, map[string]interface{}{"steps": cs.Get("steps").X, "via": via, "realized": realized, "results": got})
			if realized {
				rep.Count("realized", 1)
				rep.Count("realized_via_"+via, 1)
				if overlap {
					rep.Count("realized_overlapping", 1)
				}
			} else {
				rep.Unrealized++
			}
			called := map[string]int{}
			for _, p := range procs {
				called[acts[p].name]++
			}
			for _, wn := range []string{"w1", "w2"} {
				if called[wn] == 0 {
					continue
				}
				if oks[wn] != 1 || mon.maxOf(wn) > 1 {
					rep.Diverge("hazard:double-dispatch",
						fmt.Sprintf("%d concurrent dispatches for wallet %s: %d were accepted and up to %d actions executed at the same time (contract: exactly one accepted, the others refused)",
							called[wn], wn, oks[wn], mon.maxOf(wn)),
						map[string]interface{}{"schedule": cs.X, "realized": realized, "heldAt": via}, 1, map[string]interface{}{"accepted": oks[wn], "maxExecuting": mon.maxOf(wn), "results": got})
				}
			}
			// end everything and check the map empties
			for _, p := range procs {
				acts[p].finish("ok")
			}
			if !c25WaitGoroutines(0, c25Long) {
				t.Fatalf("dispatch goroutines did not exit")
			}
			if e := world.snapshot(wd, nil); !c25Same(e, map[string]string{}) {
				rep.Diverge("hazard:stays-busy", "all actions ended and their goroutines are gone but wd.actions is not empty", cs.X, map[string]string{}, e)
			}
			verifhook.Uninstall()
		}
	}
}

// TestVerif_C25_Handoff is a second way of realizing the model's double
// dispatch (Check p1, Check p2, Insert p1, Insert p2) that does not depend on
// a callback sitting between the lookup and the insertion: a holder is parked
// inside dispatch's critical section (variant A: a call for the same wallet,
// parked at the first callback, before the lookup; variant B: a call for the
// other wallet, parked at the second callback) long enough for the contenders
// queued on the mutex to be handed the mutex directly, one after the other,
// the moment the holder lets go of it. If the lookup and the insertion are
// not one critical section, the second contender's lookup then precedes the
// first contender's insertion.
func TestVerif_C25_Handoff(t *testing.T) {
	kit.RequireEngine(t)
	rep := kit.NewReport("C25", "handoff")
	defer rep.Write(t)
	world := newC25World(t)
	n := kit.IntEnv("VERIF_HANDOFF", 30)
	if !c25WaitGoroutines(0, c25Long) {
		t.Fatalf("dispatch goroutines alive before the test")
	}
	for i := 0; i < n; i++ {
		wd := newWalletDispatcher()
		mon := newC25Monitor()
		variant := []string{"A", "B"}[i%2]
		contenders := 2 + (i/2)%3
		acts := []*c25Action{}
		results := make(chan string, 8)
		var holder *c25Action
		if variant == "A" {
			holder = newC25Action(world, mon, 1, "w1", "Heartbeat")
			holder.parkAtCall = 1
		} else {
			holder = newC25Action(world, mon, 1, "w2", "Heartbeat")
			holder.parkAtCall = 2
		}
		acts = append(acts, holder)
		holderRes := make(chan string, 1)
		go func() { holderRes <- c25Res(wd.dispatch(holder)) }()
		select {
		case <-holder.parked:
		case <-time.After(c25Long):
			t.Fatalf("the holder never reached its parking point")
		}
		for k := 0; k < contenders; k++ {
			a := newC25Action(world, mon, 2+k, "w1", "Redemption")
			acts = append(acts, a)
			go func() { results <- c25Res(wd.dispatch(a)) }()
		}
		time.Sleep(time.Duration(3+i%3) * time.Millisecond) // contenders queue up on the mutex
		close(holder.release)
		oks := 0
		got := []string{}
		var hres string
		select {
		case hres = <-holderRes:
		case <-time.After(c25Long):
			t.Fatalf("dispatch did not return")
		}
		if variant == "A" {
			got = append(got, hres)
			if hres == "ok" {
				oks++
			}
		} else if hres != "ok" {
			rep.Diverge("handoff:other-wallet-refused", "a dispatch for the free wallet w2 was refused while callers for w1 were queued", map[string]interface{}{"i": i}, "ok", hres)
		}
		for k := 0; k < contenders; k++ {
			select {
			case r := <-results:
				got = append(got, r)
				if r == "ok" {
					oks++
				}
			case <-time.After(c25Long):
				t.Fatalf("dispatch did not return")
			}
		}
		kit.Eventually(5*time.Second, func() bool { return mon.begunN() >= oks })
		rep.Eval(fmt.Sprintf("%s/contenders=%d", variant, contenders), map[string]interface{}{"variant": variant, "contenders": contenders, "results": got})
		if oks != 1 || mon.maxOf("w1") > 1 {
			rep.Diverge("hazard:double-dispatch",
				fmt.Sprintf("%d concurrent dispatches for wallet w1: %d were accepted and up to %d actions executed at the same time (contract: exactly one accepted, the others refused)",
					len(got), oks, mon.maxOf("w1")),
				map[string]interface{}{"i": i, "variant": variant, "contenders": contenders}, 1, map[string]interface{}{"accepted": oks, "maxExecuting": mon.maxOf("w1"), "results": got})
		}
		for _, a := range acts {
			a.finish("ok")
		}
		if !c25WaitGoroutines(0, c25Long) {
			t.Fatalf("dispatch goroutines did not exit")
		}
	}
}

// ------------------------------------------------------------------ Hammer

func TestVerif_C25_Hammer(t *testing.T) {
	kit.RequireEngine(t)
	rep := kit.NewReport("C25", "hammer")
	defer rep.Write(t)
	world := newC25World(t)
	tr := kit.NewTracer(t, "trace_dispatcher")
	defer tr.Close()
	rounds := kit.IntEnv("VERIF_ROUNDS", 120)
	procs := []string{"p1", "p2", "p3", "p4"}
	wnames := []string{"w1", "w2", "w1", "w2", "wbad"}
	tnames := []string{"Heartbeat", "Redemption", "DepositSweep"}
	if !c25WaitGoroutines(0, c25Long) {
		t.Fatalf("dispatch goroutines alive before the test")
	}
	skipped := 0
	for round := 0; round < rounds; round++ {
		rnd := kit.Rand(int64(2500 + round))
		tr.Reset(map[string]interface{}{"round": round})
		wd := newWalletDispatcher()
		mon := newC25Monitor()
		var cid int32
		var mu sync.Mutex
		active := []*c25Action{} // entered execute(), not yet told to end
		var twoExec int32
		nProcs := 2 + rnd.Intn(3)
		calls := 1 + rnd.Intn(3)
		var wg sync.WaitGroup
		for pi := 0; pi < nProcs; pi++ {
			p := procs[pi]
			prnd := kit.Rand(int64(round*100 + pi))
			wg.Add(1)
			go func() {
				defer wg.Done()
				for k := 0; k < calls; k++ {
					for y := prnd.Intn(4); y > 0; y-- {
						runtime.Gosched()
					}
					if prnd.Intn(4) == 0 {
						time.Sleep(time.Duration(prnd.Intn(300)) * time.Microsecond)
					}
					c := int(atomic.AddInt32(&cid, 1))
					wn := wnames[prnd.Intn(len(wnames))]
					tn := tnames[prnd.Intn(len(tnames))]
					a := newC25Action(world, mon, c, wn, tn)
					// stretch the critical section now and then so that calls overlap
					j := prnd.Intn(7)
					a.jitter = func() {
						switch j {
						case 6:
							time.Sleep(1500 * time.Microsecond) // contenders get the mutex handed over
						case 0:
							time.Sleep(50 * time.Microsecond)
						case 1, 2:
							runtime.Gosched()
						}
					}
					a.onBegin = func(a *c25Action) {
						if mon.runningOf(a.name) > 1 {
							atomic.StoreInt32(&twoExec, 1)
						}
						tr.Emit(map[string]interface{}{"event": "Begin", "c": a.c, "w": a.name})
						mu.Lock()
						active = append(active, a)
						mu.Unlock()
					}
					a.onEnd = func(a *c25Action, err error) {
						out := "ok"
						if err != nil {
							out = "err"
						}
						tr.Emit(map[string]interface{}{"event": "End", "c": a.c, "w": a.name, "out": out})
					}
					tr.Emit(map[string]interface{}{"event": "Call", "p": p, "w": wn, "t": tn, "c": c})
					err := wd.dispatch(a)
					tr.Emit(map[string]interface{}{"event": "Ret", "p": p, "res": c25Res(err), "c": c})
				}
			}()
		}
		callersDone := make(chan struct{})
		go func() { wg.Wait(); close(callersDone) }()
		// controller: ends actions with random outcomes, peeks under the mutex
		peek := func(ev string) {
			world.snapshot(wd, func(e map[string]string) {
				tr.Emit(map[string]interface{}{"event": ev, "entry": e})
			})
		}
		done := false
		deadline := time.Now().Add(c25Long)
		for !done {
			if time.Now().After(deadline) {
				t.Fatalf("hammer round %d did not finish", round)
			}
			switch rnd.Intn(5) {
			case 0, 1:
				mu.Lock()
				if len(active) > 0 {
					i := rnd.Intn(len(active))
					a := active[i]
					active = append(active[:i], active[i+1:]...)
					mu.Unlock()
					if rnd.Intn(2) == 0 {
						a.finish("ok")
					} else {
						a.finish("err")
					}
				} else {
					mu.Unlock()
				}
			case 2:
				peek("Peek")
			case 3:
				runtime.Gosched()
			case 4:
				time.Sleep(time.Duration(rnd.Intn(200)) * time.Microsecond)
			}
			select {
			case <-callersDone:
				mu.Lock()
				n := len(active)
				mu.Unlock()
				if n == 0 && mon.runningOf("w1") == 0 && mon.runningOf("w2") == 0 && mon.runningOf("wbad") == 0 {
					// no caller is running; an accepted action that has not begun yet would
					// still be a live goroutine: the wait below covers it
					done = true
				}
			default:
			}
		}
		// actions that were accepted but had not entered execute() when the loop ended
		quiet := false
		for i := 0; i < 2000 && !quiet; i++ {
			mu.Lock()
			for _, a := range active {
				a.finish("ok")
			}
			active = active[:0]
			mu.Unlock()
			if c25Goroutines() == 0 {
				mu.Lock()
				quiet = len(active) == 0
				mu.Unlock()
			} else {
				time.Sleep(2 * time.Millisecond)
			}
		}
		if quiet {
			peek("Quiet")
		} else {
			skipped++
			if !c25WaitGoroutines(0, c25Long) {
				// cannot leave goroutines behind: later rounds count them
				mu.Lock()
				for _, a := range active {
					a.finish("ok")
				}
				active = active[:0]
				mu.Unlock()
				if !c25WaitGoroutines(0, c25Long) {
					t.Fatalf("dispatch goroutines did not exit after round %d", round)
				}
			}
		}
		if atomic.LoadInt32(&twoExec) == 1 || mon.maxOf("w1") > 1 || mon.maxOf("w2") > 1 {
			rep.Diverge("hammer:two-executing", "two actions of one wallet were inside execute() at the same time",
				map[string]interface{}{"round": round, "seed": kit.Seed()}, 1, map[string]int{"w1": mon.maxOf("w1"), "w2": mon.maxOf("w2")})
		}
		rep.Eval(fmt.Sprintf("round-%d", round), map[string]interface{}{"round": round, "callers": nProcs, "calls": calls})
	}
	rep.Count("rounds_without_quiet", skipped)
	rep.Count("events", tr.N())
}

// ------------------------------------------------------------------ Avail

func TestVerif_C25_Avail(t *testing.T) {
	kit.RequireEngine(t)
	rep := kit.NewReport("C25", "avail")
	defer rep.Write(t)
	world := newC25World(t)
	n := kit.IntEnv("VERIF_AVAIL", 24)
	rnd := kit.Rand(2525)
	if !c25WaitGoroutines(0, c25Long) {
		t.Fatalf("dispatch goroutines alive before the test")
	}
	inconclusive := 0
	for i := 0; i < n; i++ {
		wn, other := "w1", "w2"
		if i%2 == 1 {
			wn, other = "w2", "w1"
		}
		out := []string{"ok", "err"}[(i/2)%2]
		otherBusy := (i/4)%2 == 0
		cas := map[string]interface{}{"wallet": wn, "outcome": out, "otherWalletExecuting": otherBusy, "i": i}
		wd := newWalletDispatcher()
		mon := newC25Monitor()
		base := 0
		var ob *c25Action
		var all []*c25Action
		endAll := func() {
			for _, x := range all {
				x.finish("ok")
			}
		}
		if otherBusy {
			ob = newC25Action(world, mon, 100, other, "Redemption")
			all = append(all, ob)
			if err := wd.dispatch(ob); err != nil {
				rep.Diverge("avail:refused-free", "dispatch to a free wallet was refused", cas, "ok", c25Res(err))
				continue
			}
			c25AwaitBegin(t, ob)
			base = 1
		}
		a := newC25Action(world, mon, 1, wn, "Heartbeat")
		all = append(all, a)
		if err := wd.dispatch(a); err != nil {
			rep.Diverge("avail:blocked-by-other-wallet", fmt.Sprintf("dispatch to the free wallet %s was refused while wallet %s is executing", wn, other), cas, "ok", c25Res(err))
			endAll()
			c25WaitGoroutines(0, c25Long)
			continue
		}
		c25AwaitBegin(t, a)
		// while executing: refused
		b := newC25Action(world, mon, 2, wn, "Redemption")
		all = append(all, b)
		if err := wd.dispatch(b); err != errWalletBusy {
			rep.Diverge("avail:not-refused", "dispatch to a wallet whose action is executing was not refused with errWalletBusy", cas, "busy", c25Res(err))
			rep.Eval("", cas)
			endAll()
			if !c25WaitGoroutines(0, c25Long) {
				t.Fatalf("dispatch goroutines did not exit")
			}
			continue
		}
		if rnd.Intn(2) == 0 {
			runtime.Gosched()
		}
		a.finish(out)
		<-a.left
		// bounded wait: either the entry disappears or the goroutine is gone
		freed, gone := false, false
		t0 := time.Now()
		for time.Since(t0) < c25Long {
			if world.snapshot(wd, nil)[wn] == "none" {
				freed = true
				break
			}
			if c25Goroutines() <= base {
				gone = true
				break
			}
			time.Sleep(200 * time.Microsecond)
		}
		if !freed && gone {
			// the goroutine exited: re-read, the delete may have happened in between
			if world.snapshot(wd, nil)[wn] == "none" {
				freed = true
			}
		}
		rep.Eval(fmt.Sprintf("%s/%s/%v", wn, out, otherBusy), cas)
		switch {
		case freed:
			rep.Count("freed_after_us", int(time.Since(t0)/time.Microsecond))
			c2 := newC25Action(world, mon, 3, wn, "DepositSweep")
			all = append(all, c2)
			if err := wd.dispatch(c2); err != nil {
				rep.Diverge("avail:refused-after-end:"+out, fmt.Sprintf("the action of wallet %s ended (%s) and its entry is gone, yet the next dispatch was refused", wn, out), cas, "ok", c25Res(err))
			} else {
				c25AwaitBegin(t, c2)
				c2.finish("ok")
			}
		case gone:
			rep.Diverge("avail:stays-busy:"+out, fmt.Sprintf("the action of wallet %s ended (%s) and its goroutine is gone, but the wallet is still marked busy: it can never be dispatched to again", wn, out),
				cas, "none", world.snapshot(wd, nil)[wn])
		default:
			inconclusive++
		}
		if ob != nil {
			// the other wallet was not disturbed
			if mon.runningOf(other) != 1 || world.snapshot(wd, nil)[other] != "Redemption" {
				rep.Diverge("avail:other-wallet-disturbed", "ending an action of one wallet changed the state of the other wallet", cas,
					map[string]interface{}{"running": 1, "entry": "Redemption"},
					map[string]interface{}{"running": mon.runningOf(other), "entry": world.snapshot(wd, nil)[other]})
			}
			ob.finish("err")
		}
		endAll()
		if !c25WaitGoroutines(0, c25Long) {
			t.Fatalf("dispatch goroutines did not exit")
		}
		if e := world.snapshot(wd, nil); !c25Same(e, map[string]string{}) && !(!freed && gone) {
			rep.Diverge("avail:stays-busy-final", "all actions ended and their goroutines are gone but wd.actions is not empty", cas, map[string]string{}, e)
		}
	}
	rep.Count("inconclusive", inconclusive)
	if inconclusive > n/4 {
		t.Fatalf("too many inconclusive availability observations: %d of %d", inconclusive, n)
	}
}
