//go:build verif

package tbtc

// C40: exports for the external harness c40_test.go (package tbtc_test, which may import
// pkg/chain/ethereum without an import cycle).

import (
	"context"

	"github.com/ipfs/go-log/v2"

	"github.com/keep-network/keep-core/pkg/chain"
	"github.com/keep-network/keep-core/pkg/protocol/group"
	"github.com/keep-network/keep-core/pkg/protocol/inactivity"
	"github.com/keep-network/keep-core/pkg/tecdsa/dkg"
)

var c40Logger = log.Logger("verif-c40")

func VerifC40SignResult(c Chain, startBlock uint64, r *dkg.Result) (*dkg.SignedResult, error) {
	return newDkgResultSigner(c, startBlock).SignResult(r)
}

func VerifC40VerifyResultSignature(c Chain, startBlock uint64, s *dkg.SignedResult) (bool, error) {
	return newDkgResultSigner(c, startBlock).VerifySignature(s)
}

func VerifC40SubmitResult(ctx context.Context, c Chain, gp *GroupParameters, gsr *GroupSelectionResult,
	memberIndex group.MemberIndex, r *dkg.Result, signatures map[group.MemberIndex][]byte, wait func(context.Context, uint64) error) error {
	return newDkgResultSubmitter(c40Logger, c, gp, gsr, wait).SubmitResult(ctx, memberIndex, r, signatures)
}

// the submission delay steps (blocks per member index)
const (
	VerifC40DkgDelayStep   = dkgResultSubmissionDelayStepBlocks
	VerifC40ClaimDelayStep = inactivityClaimSubmissionDelayStepBlocks
)

func VerifC40FinalSigningGroup(selected []chain.Address, operating []group.MemberIndex, gp *GroupParameters) (
	[]chain.Address, map[group.MemberIndex]group.MemberIndex, error) {
	return finalSigningGroup(selected, operating, gp)
}

func VerifC40SignClaim(c Chain, claim *inactivity.ClaimPreimage) (*inactivity.SignedClaimHash, error) {
	return newInactivityClaimSigner(c).SignClaim(claim)
}

func VerifC40VerifyClaimSignature(c Chain, s *inactivity.SignedClaimHash) (bool, error) {
	return newInactivityClaimSigner(c).VerifySignature(s)
}

func VerifC40SubmitClaim(ctx context.Context, c Chain, gp *GroupParameters, groupMembers []uint32,
	memberIndex group.MemberIndex, claim *inactivity.ClaimPreimage, signatures map[group.MemberIndex][]byte, wait func(context.Context, uint64) error) error {
	return newInactivityClaimSubmitter(c40Logger, c, gp, groupMembers, wait).SubmitClaim(ctx, memberIndex, claim, signatures)
}
