//go:build verif

package tbtc

// C22 conformance harness for coordinationExecutor.getSeed / getLeader /
// getActionsChecklist and coordinationWindow.index (spec:
// /verif/specs/Coordination).
//
// The specification does not model SHA-256 or math/rand: their results are
// hidden choices. The harness therefore records the real calls made by three
// members (separate executors and chain handles) for many concrete seeds
// (wallet public key x safe block hash) with the operator lists and blocks
// enumerated by TLC, and Trace_Coordination checks that ONE hidden choice per
// (wallet, hash), per (seed, number of unique operators) and per seed explains
// all of them. Facts that need no hidden choice (leader is an operator, same
// leader for every order/repetition of the same operators, checklist shape
// and order, window index arithmetic, seed determinism) are also compared
// directly so that a divergence is reported with a readable case.
//
// Abstraction: model operator i = the i-th smallest of five concrete operator
// addresses (string order, which is what getLeader sorts by); model block
// q*3+r (frequency 3) = real block q*900 + {0, 1, 899}[r].

import (
	"crypto/sha256"
	"encoding/hex"
	"fmt"
	"math/big"
	"sort"
	"testing"

	kit "github.com/keep-network/keep-core/internal/verifkit"
	"github.com/keep-network/keep-core/pkg/chain"
	"github.com/keep-network/keep-core/pkg/chain/local_v1"
	"github.com/keep-network/keep-core/pkg/operator"
)

type c22Member struct {
	chain *localChain
	exec  *coordinationExecutor
}

func c22Chain(priv int64) *localChain {
	d := big.NewInt(priv)
	x, y := local_v1.DefaultCurve.ScalarBaseMult(d.Bytes())
	return ConnectWithKey(&operator.PrivateKey{
		PublicKey: operator.PublicKey{Curve: operator.Secp256k1, X: x, Y: y},
		D:         d,
	})
}

func c22Block(v int) uint64 {
	const F = uint64(coordinationFrequencyBlocks)
	return uint64(v/3)*F + map[int]uint64{0: 0, 1: 1, 2: F - 1}[v%3]
}

func c22Strings(a []WalletActionType) []string {
	out := []string{}
	for _, x := range a {
		out = append(out, x.String())
	}
	return out
}

func c22Eq(a, b []string) bool {
	if len(a) != len(b) {
		return false
	}
	for i := range a {
		if a[i] != b[i] {
			return false
		}
	}
	return true
}

func TestVerif_C22_Calls(t *testing.T) {
	kit.RequireEngine(t)
	rep := kit.NewReport("C22", "calls")
	defer rep.Write(t)
	tr := kit.NewTracer(t, "trace_coordination")
	defer tr.Close()
	cases := kit.LoadCases(t, "cases.ndjson")
	var leaderCases, checklistCases []kit.V
	bySet := map[string][]kit.V{}
	for _, c := range cases {
		if c.Get("kind").Str() == "leader" {
			leaderCases = append(leaderCases, c)
			k := c.Get("su").JSON()
			bySet[k] = append(bySet[k], c)
		} else {
			checklistCases = append(checklistCases, c)
		}
	}
	if len(leaderCases) == 0 || len(checklistCases) == 0 {
		t.Fatalf("no cases")
	}
	nSeeds := kit.IntEnv("VERIF_SEEDS", 24)
	nHb := kit.IntEnv("VERIF_HB_SEEDS", 4)
	perSeed := kit.IntEnv("VERIF_LISTS_PER_SEED", 14)
	rnd := kit.Rand(2222)

	// five operators, numbered in the order of their addresses
	var addrs []chain.Address
	for i := 0; i < 5; i++ {
		a, err := c22Chain(int64(9100 + 17*i)).operatorAddress()
		if err != nil {
			t.Fatal(err)
		}
		addrs = append(addrs, a)
	}
	sort.Slice(addrs, func(i, j int) bool { return addrs[i] < addrs[j] })
	number := map[chain.Address]int{}
	for i, a := range addrs {
		if number[a] != 0 {
			t.Fatalf("duplicate operator address")
		}
		number[a] = i + 1
	}

	// three members, each with its own chain handle and executor
	members := []*c22Member{}
	for i := 0; i < 3; i++ {
		lc := c22Chain(int64(9500 + i))
		members = append(members, &c22Member{chain: lc})
	}
	wallets := []wallet{}
	for i := 0; i < 4; i++ {
		wallets = append(wallets, generateWallet(big.NewInt(int64(8800+31*i))))
	}

	type seedCase struct {
		w       int
		hash    [32]byte
		block   uint64 // coordination block whose safe block carries the hash
		twin    uint64 // another coordination block whose safe block carries the same hash
		missing uint64 // a coordination block whose safe block is unknown
		seed    [32]byte
		hb      bool
	}
	setHashes := func(block uint64, h [32]byte, salt string) {
		for _, m := range members {
			m.chain.setBlockHashByNumber(block-coordinationSafeBlockShift, hex.EncodeToString(h[:]))
			for _, d := range []uint64{0, coordinationSafeBlockShift - 1, coordinationSafeBlockShift + 1, 1} {
				decoy := sha256.Sum256([]byte(fmt.Sprintf("decoy/%s/%d/%d", salt, block, d)))
				m.chain.setBlockHashByNumber(block-d, hex.EncodeToString(decoy[:]))
			}
			m.chain.setBlockHashByNumber(block-coordinationSafeBlockShift, hex.EncodeToString(h[:]))
		}
	}
	execFor := func(m *c22Member, w wallet, ops []chain.Address) *coordinationExecutor {
		w.signingGroupOperators = ops
		return &coordinationExecutor{chain: m.chain, coordinatedWallet: w}
	}

	// choose seeds: nHb with a heartbeat draw, the rest without
	var seeds []*seedCase
	haveHb, haveNo := 0, 0
	for i := 0; len(seeds) < nSeeds && i < 200000; i++ {
		sc := &seedCase{w: i % len(wallets)}
		sc.hash = sha256.Sum256([]byte(fmt.Sprintf("verif-c22-hash/%d/%d", kit.Seed(), i)))
		sc.block = uint64(900 * (10 + 3*len(seeds)))
		sc.twin = sc.block + 900
		sc.missing = sc.block + 1800
		setHashes(sc.block, sc.hash, "a")
		setHashes(sc.twin, sc.hash, "b")
		var err error
		sc.seed, err = execFor(members[0], wallets[sc.w], nil).getSeed(sc.block)
		if err != nil {
			t.Fatalf("getSeed: %v", err)
		}
		cl := execFor(members[0], wallets[sc.w], nil).getActionsChecklist(1, sc.seed)
		sc.hb = len(cl) > 0 && cl[len(cl)-1] == ActionHeartbeat
		if sc.hb && haveHb < nHb {
			haveHb++
			seeds = append(seeds, sc)
		} else if !sc.hb && haveNo < nSeeds-nHb {
			haveNo++
			seeds = append(seeds, sc)
		}
	}
	rep.Count("seeds", len(seeds))
	rep.Count("heartbeat_seeds", haveHb)

	seedOwner := map[string]string{} // seed hex -> "w/hash"
	for si, sc := range seeds {
		tr.Reset(map[string]interface{}{"seedCase": si})
		wname := fmt.Sprintf("w%d", sc.w+1)
		hname := hex.EncodeToString(sc.hash[:])
		seedHex := hex.EncodeToString(sc.seed[:])
		cas := map[string]interface{}{"wallet": wname, "safeBlockHash": hname, "seed": seedHex}

		// ---- getSeed: every member, both blocks carrying the hash, and a block without hash
		for mi, m := range members {
			for _, blk := range []uint64{sc.block, sc.twin} {
				s, err := execFor(m, wallets[sc.w], nil).getSeed(blk)
				if err != nil {
					rep.Diverge("seed:error", fmt.Sprintf("getSeed(%d) failed although the safe block hash is known: %v", blk, err), cas, "seed", err.Error())
					tr.Emit(map[string]interface{}{"event": "SeedError", "w": wname})
					continue
				}
				tr.Emit(map[string]interface{}{"event": "Seed", "w": wname, "h": hname, "seed": hex.EncodeToString(s[:]), "member": mi, "block": blk})
				rep.Eval("", nil)
				if s != sc.seed {
					rep.Diverge("seed:not-deterministic", fmt.Sprintf("member %d computes a different coordination seed for the same wallet and safe block hash (coordination block %d vs %d)", mi, blk, sc.block),
						cas, seedHex, hex.EncodeToString(s[:]))
				}
			}
			if mi == 0 {
				if s, err := execFor(m, wallets[sc.w], nil).getSeed(sc.missing); err == nil {
					rep.Diverge("seed:no-error", fmt.Sprintf("getSeed(%d) succeeded although the chain does not know the safe block", sc.missing), cas, "error", hex.EncodeToString(s[:]))
				} else {
					tr.Emit(map[string]interface{}{"event": "SeedError", "w": wname})
				}
			}
		}
		if prev, ok := seedOwner[seedHex]; ok && prev != wname+"/"+hname {
			rep.Diverge("seed:collision", "two different (wallet, safe block hash) pairs give the same coordination seed", cas, "distinct seeds", prev)
		}
		seedOwner[seedHex] = wname + "/" + hname

		// ---- getLeader: operator lists enumerated by TLC, several views of the same set
		// model operators 1..4 -> an order-preserving choice of 4 of the 5 addresses
		skip := rnd.Intn(5)
		var mine []chain.Address
		for i, a := range addrs {
			if i != skip {
				mine = append(mine, a)
			}
		}
		chosen := []kit.V{}
		for k := 0; k < perSeed; k++ {
			c := leaderCases[rnd.Intn(len(leaderCases))]
			chosen = append(chosen, c)
			same := bySet[c.Get("su").JSON()]
			for j := 0; j < 2; j++ {
				chosen = append(chosen, same[rnd.Intn(len(same))])
			}
		}
		if kit.Thorough() && si%25 == 0 {
			chosen = leaderCases
		}
		leaderOf := map[string]chain.Address{} // sorted unique set -> leader
		rankOf := map[int]int{}                // number of unique operators -> rank of the leader
		for ci, c := range chosen {
			if ci > 0 && ci%40 == 0 {
				// keep the call history the trace specification's pairwise invariants range over
				// short; the hidden choices persist across Reset
				tr.Reset(map[string]interface{}{"seedCase": si, "part": ci / 40})
			}
			var ops []chain.Address
			var nums []int
			for _, o := range c.Get("ops").Ints() {
				ops = append(ops, mine[o-1])
				nums = append(nums, number[mine[o-1]])
			}
			m := members[(si+ci)%len(members)]
			var leader chain.Address
			func() {
				defer func() {
					if r := recover(); r != nil {
						rep.Diverge("leader:panic", fmt.Sprintf("getLeader panicked: %v", r), cas, nil, fmt.Sprint(r))
					}
				}()
				leader = execFor(m, wallets[sc.w], ops).getLeader(sc.seed)
			}()
			tr.Emit(map[string]interface{}{"event": "Leader", "seed": seedHex, "ops": nums, "leader": number[leader]})
			lc := map[string]interface{}{"wallet": wname, "seed": seedHex, "operators": fmt.Sprint(ops), "operatorNumbers": nums}
			setKey := c.Get("su").JSON()
			nt := ""
			if len(c.Get("ops").Ints()) != c.Get("su").Len() || !sort.IntsAreSorted(c.Get("ops").Ints()) {
				nt = fmt.Sprintf("%d/%s", si, c.Get("ops").JSON())
			}
			rep.Eval(nt, lc)
			inOps := false
			for _, o := range ops {
				if o == leader {
					inOps = true
				}
			}
			if !inOps {
				rep.Diverge("leader:not-an-operator", fmt.Sprintf("getLeader returned %q which is not one of the wallet's operators", leader), lc, "one of the operators", string(leader))
				continue
			}
			if prev, ok := leaderOf[setKey]; ok && prev != leader {
				rep.Diverge("leader:depends-on-order-or-repetition",
					"two views of the same operator set (different order / repetition of seats) give different leaders for the same seed", lc, string(prev), string(leader))
			}
			leaderOf[setKey] = leader
			// rank among the sorted unique operators
			su := c.Get("su").Ints()
			rank := 0
			for i, o := range su {
				if mine[o-1] == leader {
					rank = i + 1
				}
			}
			if prev, ok := rankOf[len(su)]; ok && prev != rank {
				rep.Diverge("leader:rank-not-seed-determined", fmt.Sprintf("for the same seed and %d unique operators the leader is the %d-th smallest address in one call and the %d-th in another", len(su), prev, rank), lc, prev, rank)
			}
			rankOf[len(su)] = rank
			rep.Count(fmt.Sprintf("rank_%d_of_%d", rank, len(su)), 1)
		}

		// ---- checklist and window index
		for ci, c := range checklistCases {
			b := c22Block(c.Get("b").Int())
			m := members[(si+ci)%len(members)]
			idx := newCoordinationWindow(b).index()
			out := c22Strings(execFor(m, wallets[sc.w], nil).getActionsChecklist(idx, sc.seed))
			tr.Emit(map[string]interface{}{"event": "Checklist", "seed": seedHex, "b": b, "idx": idx, "out": out})
			cc := map[string]interface{}{"wallet": wname, "seed": seedHex, "coordinationBlock": b, "heartbeatSeed": sc.hb}
			nt := ""
			if c.Get("idx").Int() > 0 {
				nt = fmt.Sprintf("cl/%d/%d", si, b)
			}
			rep.Eval(nt, cc)
			if idx != uint64(c.Get("idx").Int()) {
				rep.Diverge("checklist:window-index", fmt.Sprintf("coordinationWindow{%d}.index() = %d, specification: %d", b, idx, c.Get("idx").Int()), cc, c.Get("idx").Int(), idx)
				continue
			}
			exp := c.Get("plain").Strs()
			if sc.hb {
				exp = c.Get("hb").Strs()
			}
			if !c22Eq(out, c.Get("plain").Strs()) && !c22Eq(out, c.Get("hb").Strs()) {
				rep.Diverge("checklist:shape", fmt.Sprintf("actions checklist for window index %d is %v; the specification allows %v or %v", idx, out, c.Get("plain").Strs(), c.Get("hb").Strs()),
					cc, []interface{}{c.Get("plain").X, c.Get("hb").X}, out)
			} else if !c22Eq(out, exp) {
				rep.Diverge("checklist:heartbeat-not-seed-determined", fmt.Sprintf("window index %d: checklist %v, but window 1 of the same seed %s a heartbeat", idx, out, map[bool]string{true: "has", false: "has no"}[sc.hb]),
					cc, exp, out)
			}
		}
	}
	rep.Count("events", tr.N())
}
