//go:build verif

package tbtc

// C22 conformance harness for coordinationExecutor.getSeed / getLeader /
// getActionsChecklist and coordinationWindow.index (spec:
// /verif/specs/Coordination).
//
// The specification does not model SHA-256 or math/rand: their results are
// hidden choices. The harness therefore records the real calls made by three
// members (separate chain handles; each member keeps ONE long-lived executor
// per wallet and view for the whole run, as the node does, and the members
// serve the seeds in different orders / subsets; control calls use fresh
// executors) for many concrete seeds
// (wallet public key x safe block hash) with the operator lists and blocks
// enumerated by TLC, and Trace_Coordination checks that ONE hidden choice per
// (wallet, hash), per (seed, number of unique operators) and per seed explains
// all of them. Facts that need no hidden choice (leader is an operator, same
// leader for every order/repetition of the same operators, checklist shape
// and order, window index arithmetic, seed determinism) are also compared
// directly so that a divergence is reported with a readable case.
//
// Abstraction: model operator i = the i-th smallest of five concrete operator
// addresses (string order, which is what getLeader sorts by); model block
// q*3+r (frequency 3) = real block q*900 + {0, 1, 899}[r].

import (
	"crypto/sha256"
	"encoding/hex"
	"fmt"
	"math/big"
	"sort"
	"testing"

	kit "github.com/keep-network/keep-core/internal/verifkit"
	"github.com/keep-network/keep-core/pkg/chain"
	"github.com/keep-network/keep-core/pkg/chain/local_v1"
	"github.com/keep-network/keep-core/pkg/operator"
)

type c22Member struct {
	chain *localChain
	exec  *coordinationExecutor
}

func c22Chain(priv int64) *localChain {
	d := big.NewInt(priv)
	x, y := local_v1.DefaultCurve.ScalarBaseMult(d.Bytes())
	return ConnectWithKey(&operator.PrivateKey{
		PublicKey: operator.PublicKey{Curve: operator.Secp256k1, X: x, Y: y},
		D:         d,
	})
}

func c22Block(v int) uint64 {
	const F = uint64(coordinationFrequencyBlocks)
	return uint64(v/3)*F + map[int]uint64{0: 0, 1: 1, 2: F - 1}[v%3]
}

func c22Strings(a []WalletActionType) []string {
	out := []string{}
	for _, x := range a {
		out = append(out, x.String())
	}
	return out
}

func c22Eq(a, b []string) bool {
	if len(a) != len(b) {
		return false
	}
	for i := range a {
		if a[i] != b[i] {
			return false
		}
	}
	return true
}

func TestVerif_C22_Calls(t *testing.T) {
	kit.RequireEngine(t)
	rep := kit.NewReport("C22", "calls")
	defer rep.Write(t)
	tr := kit.NewTracer(t, "trace_coordination")
	defer tr.Close()
	cases := kit.LoadCases(t, "cases.ndjson")
	var leaderCases, checklistCases []kit.V
	bySet := map[string][]kit.V{}
	for _, c := range cases {
		if c.Get("kind").Str() == "leader" {
			leaderCases = append(leaderCases, c)
			k := c.Get("su").JSON()
			bySet[k] = append(bySet[k], c)
		} else {
			checklistCases = append(checklistCases, c)
		}
	}
	if len(leaderCases) == 0 || len(checklistCases) == 0 {
		t.Fatalf("no cases")
	}
	nSeeds := kit.IntEnv("VERIF_SEEDS", 24)
	nHb := kit.IntEnv("VERIF_HB_SEEDS", 4)
	rnd := kit.Rand(2222)

	// five operators, numbered in the order of their addresses
	var addrs []chain.Address
	for i := 0; i < 5; i++ {
		a, err := c22Chain(int64(9100 + 17*i)).operatorAddress()
		if err != nil {
			t.Fatal(err)
		}
		addrs = append(addrs, a)
	}
	sort.Slice(addrs, func(i, j int) bool { return addrs[i] < addrs[j] })
	number := map[chain.Address]int{}
	for i, a := range addrs {
		if number[a] != 0 {
			t.Fatalf("duplicate operator address")
		}
		number[a] = i + 1
	}

	// three members, each with its own chain handle and executor
	members := []*c22Member{}
	for i := 0; i < 3; i++ {
		lc := c22Chain(int64(9500 + i))
		members = append(members, &c22Member{chain: lc})
	}
	wallets := []wallet{}
	for i := 0; i < 4; i++ {
		wallets = append(wallets, generateWallet(big.NewInt(int64(8800+31*i))))
	}

	type seedCase struct {
		w       int
		hash    [32]byte
		block   uint64 // coordination block whose safe block carries the hash
		twin    uint64 // another coordination block whose safe block carries the same hash
		missing uint64 // a coordination block whose safe block is unknown
		seed    [32]byte
		hb      bool
	}
	setHashes := func(block uint64, h [32]byte, salt string) {
		for _, m := range members {
			m.chain.setBlockHashByNumber(block-coordinationSafeBlockShift, hex.EncodeToString(h[:]))
			for _, d := range []uint64{0, coordinationSafeBlockShift - 1, coordinationSafeBlockShift + 1, 1} {
				decoy := sha256.Sum256([]byte(fmt.Sprintf("decoy/%s/%d/%d", salt, block, d)))
				m.chain.setBlockHashByNumber(block-d, hex.EncodeToString(decoy[:]))
			}
			m.chain.setBlockHashByNumber(block-coordinationSafeBlockShift, hex.EncodeToString(h[:]))
		}
	}
	execFor := func(m *c22Member, w wallet, ops []chain.Address) *coordinationExecutor {
		w.signingGroupOperators = ops
		return &coordinationExecutor{chain: m.chain, coordinatedWallet: w}
	}

	// choose seeds: nHb with a heartbeat draw, the rest without
	var seeds []*seedCase
	haveHb, haveNo := 0, 0
	for i := 0; len(seeds) < nSeeds && i < 200000; i++ {
		sc := &seedCase{w: i % len(wallets)}
		sc.hash = sha256.Sum256([]byte(fmt.Sprintf("verif-c22-hash/%d/%d", kit.Seed(), i)))
		sc.block = uint64(900 * (10 + 3*len(seeds)))
		sc.twin = sc.block + 900
		sc.missing = sc.block + 1800
		setHashes(sc.block, sc.hash, "a")
		setHashes(sc.twin, sc.hash, "b")
		var err error
		sc.seed, err = execFor(members[0], wallets[sc.w], nil).getSeed(sc.block)
		if err != nil {
			t.Fatalf("getSeed: %v", err)
		}
		cl := execFor(members[0], wallets[sc.w], nil).getActionsChecklist(1, sc.seed)
		sc.hb = len(cl) > 0 && cl[len(cl)-1] == ActionHeartbeat
		if sc.hb && haveHb < nHb {
			haveHb++
			seeds = append(seeds, sc)
		} else if !sc.hb && haveNo < nSeeds-nHb {
			haveNo++
			seeds = append(seeds, sc)
		}
	}
	rep.Count("seeds", len(seeds))
	rep.Count("heartbeat_seeds", haveHb)

	// ------------------------------------------------------------------
	// Long-lived executors. node.getCoordinationExecutor keeps ONE executor per
	// wallet for the life of the node, so every member here keeps ONE real
	// coordinationExecutor per (wallet, view of its operators) for the whole run.
	// The members handle the seeds (windows) of a wallet in different orders and
	// subsets (in order / reversed / a shuffled subset: a member that joined late
	// or skipped windows); control calls are made on fresh executors.
	nViews := kit.IntEnv("VERIF_VIEWS", 6)
	type view struct {
		c    kit.V
		ops  []chain.Address
		nums []int
	}
	views := map[int][]*view{} // wallet -> views
	for w := range wallets {
		skip := rnd.Intn(5)
		var mine []chain.Address // model operators 1..4 -> an order-preserving choice of 4 of the 5 addresses
		for i, a := range addrs {
			if i != skip {
				mine = append(mine, a)
			}
		}
		seen := map[string]bool{}
		add := func(c kit.V) {
			if seen[c.Get("ops").JSON()] {
				return
			}
			seen[c.Get("ops").JSON()] = true
			v := &view{c: c}
			for _, o := range c.Get("ops").Ints() {
				v.ops = append(v.ops, mine[o-1])
				v.nums = append(v.nums, number[mine[o-1]])
			}
			views[w] = append(views[w], v)
		}
		n := nViews
		if kit.Thorough() && w == 0 {
			n = 3 * nViews
		}
		for k := 0; k < n; k++ {
			c := leaderCases[rnd.Intn(len(leaderCases))]
			add(c)
			same := bySet[c.Get("su").JSON()]
			add(same[rnd.Intn(len(same))])
		}
	}
	type liveExec struct {
		id    string
		ce    *coordinationExecutor
		calls int
	}
	execs := map[string]*liveExec{}
	events := 0
	emit := func(ev map[string]interface{}) {
		if events > 0 && events%40 == 0 {
			// keep the record set the trace specification's pairwise invariants range over
			// short; the hidden choices and the executors persist across Reset
			tr.Reset(nil)
		}
		events++
		tr.Emit(ev)
	}
	newExec := func(id string, m *c22Member, w int, v *view) *liveExec {
		e := &liveExec{id: id, ce: execFor(m, wallets[w], v.ops)}
		nums := v.nums
		if nums == nil {
			nums = []int{}
		}
		emit(map[string]interface{}{"event": "NewExecutor", "e": id, "w": fmt.Sprintf("w%d", w+1), "ops": nums})
		return e
	}
	persistent := func(mi, w, vi int) *liveExec {
		id := fmt.Sprintf("m%d/w%d/v%d", mi, w+1, vi)
		if e, ok := execs[id]; ok {
			return e
		}
		e := newExec(id, members[mi], w, views[w][vi])
		execs[id] = e
		return e
	}

	type answer struct {
		leader chain.Address
		by     string // executor and position in its history
		view   string
	}
	leaderOf := map[string]answer{} // seed/set -> first answer
	rankOf := map[string]int{}      // seed/size -> rank
	seedOwner := map[string]string{}
	tr.Reset(nil)

	askLeader := func(e *liveExec, v *view, sc *seedCase, seedHex string) {
		var leader chain.Address
		func() {
			defer func() {
				if r := recover(); r != nil {
					rep.Diverge("leader:panic", fmt.Sprintf("getLeader panicked: %v", r), map[string]interface{}{"executor": e.id, "seed": seedHex}, nil, fmt.Sprint(r))
				}
			}()
			leader = e.ce.getLeader(sc.seed)
		}()
		e.calls++
		by := fmt.Sprintf("%s call %d", e.id, e.calls)
		emit(map[string]interface{}{"event": "Leader", "e": e.id, "seed": seedHex, "ops": v.nums, "leader": number[leader]})
		lc := map[string]interface{}{"wallet": e.id, "seed": seedHex, "operators": fmt.Sprint(v.ops), "operatorNumbers": v.nums, "askedOn": by}
		nt := ""
		if len(v.c.Get("ops").Ints()) != v.c.Get("su").Len() || !sort.IntsAreSorted(v.c.Get("ops").Ints()) || e.calls > 1 {
			nt = fmt.Sprintf("%s/%s/%d", seedHex[:8], e.id, e.calls)
		}
		rep.Eval(nt, lc)
		inOps := false
		for _, o := range v.ops {
			if o == leader {
				inOps = true
			}
		}
		if !inOps {
			rep.Diverge("leader:not-an-operator", fmt.Sprintf("getLeader returned %q which is not one of the wallet's operators", leader), lc, "one of the operators", string(leader))
			return
		}
		// keys in terms of the concrete operators (global numbering), not the model's:
		// different wallets map the model operators to different addresses
		uniq := map[int]bool{}
		for _, n := range v.nums {
			uniq[n] = true
		}
		var set []int
		for n := range uniq {
			set = append(set, n)
		}
		sort.Ints(set)
		setKey := seedHex + "/" + fmt.Sprint(set)
		viewKey := fmt.Sprint(v.nums)
		if prev, ok := leaderOf[setKey]; ok && prev.leader != leader {
			if prev.view == viewKey {
				rep.Diverge("leader:depends-on-executor-history",
					fmt.Sprintf("the same seed and the same operator list give leader %s on executor %s and leader %s on executor %s: the answer depends on the calls the executor served before", prev.leader, prev.by, leader, by),
					lc, string(prev.leader), string(leader))
			} else {
				rep.Diverge("leader:depends-on-order-or-repetition",
					"two views of the same operator set (different order / repetition of seats) give different leaders for the same seed", lc, string(prev.leader), string(leader))
			}
		} else if !ok {
			leaderOf[setKey] = answer{leader, by, viewKey}
		}
		su := v.c.Get("su").Ints()
		rank := 0
		for i, o := range su {
			for j, x := range v.c.Get("ops").Ints() {
				if x == o && v.ops[j] == leader {
					rank = i + 1
				}
			}
		}
		rk := fmt.Sprintf("%s/%d", seedHex, len(su))
		if prev, ok := rankOf[rk]; ok && prev != rank {
			rep.Diverge("leader:rank-not-seed-determined", fmt.Sprintf("for the same seed and %d unique operators the leader is the %d-th smallest address in one call and the %d-th in another", len(su), prev, rank), lc, prev, rank)
		} else if !ok {
			rankOf[rk] = rank
		}
		rep.Count(fmt.Sprintf("rank_%d_of_%d", rank, len(su)), 1)
	}

	// Every slice returned by getActionsChecklist (and every allowed-actions slice
	// derived from one the way coordinate() does) is kept, as its caller keeps it for
	// the whole active phase, and ALL of them are read again after every later call
	// on any executor: what a caller holds must never change.
	type keptSlice struct {
		k      int
		raw    []WalletActionType
		exp    []string
		what   string
		broken bool
	}
	var kept []*keptSlice
	nKept := 0
	recheck := func(after string) {
		for _, ks := range kept {
			now := c22Strings(ks.raw)
			if !c22Eq(now, ks.exp) {
				if !ks.broken {
					ks.broken = true
					emit(map[string]interface{}{"event": "Recheck", "k": ks.k, "out": now})
					rep.Diverge("checklist:changed-after-return",
						fmt.Sprintf("the %s read %v when it was returned and reads %v after a later call (%s): the slices share a backing array", ks.what, ks.exp, now, after),
						map[string]interface{}{"held": ks.what, "laterCall": after}, ks.exp, now)
				}
			}
		}
		// a seeded sample of the unchanged ones goes to the trace as well
		for j := 0; j < 2 && len(kept) > 0; j++ {
			ks := kept[rnd.Intn(len(kept))]
			if !ks.broken {
				emit(map[string]interface{}{"event": "Recheck", "k": ks.k, "out": c22Strings(ks.raw)})
			}
		}
		rep.Count("rechecks", len(kept))
	}

	seedsOf := map[int][]*seedCase{}
	for _, sc := range seeds {
		seedsOf[sc.w] = append(seedsOf[sc.w], sc)
	}
	for mi, m := range members {
		for w := range wallets {
			// this member's schedule for the wallet
			sched := append([]*seedCase{}, seedsOf[w]...)
			switch mi {
			case 1:
				for i, j := 0, len(sched)-1; i < j; i, j = i+1, j-1 {
					sched[i], sched[j] = sched[j], sched[i]
				}
			case 2:
				rnd.Shuffle(len(sched), func(i, j int) { sched[i], sched[j] = sched[j], sched[i] })
				sched = sched[:(2*len(sched)+2)/3]
			}
			wname := fmt.Sprintf("w%d", w+1)
			for si, sc := range sched {
				hname := hex.EncodeToString(sc.hash[:])
				seedHex := hex.EncodeToString(sc.seed[:])
				cas := map[string]interface{}{"wallet": wname, "safeBlockHash": hname, "seed": seedHex, "member": mi}
				main := persistent(mi, w, 0)

				// ---- getSeed on the member's long-lived executor: both blocks carrying the hash
				for _, blk := range []uint64{sc.block, sc.twin} {
					s, err := main.ce.getSeed(blk)
					main.calls++
					if err != nil {
						rep.Diverge("seed:error", fmt.Sprintf("getSeed(%d) failed although the safe block hash is known: %v", blk, err), cas, "seed", err.Error())
						emit(map[string]interface{}{"event": "SeedError", "e": main.id})
						continue
					}
					emit(map[string]interface{}{"event": "Seed", "e": main.id, "h": hname, "seed": hex.EncodeToString(s[:]), "block": blk})
					rep.Eval("", nil)
					if s != sc.seed {
						rep.Diverge("seed:not-deterministic", fmt.Sprintf("member %d computes a different coordination seed for the same wallet and safe block hash (coordination block %d vs %d)", mi, blk, sc.block),
							cas, seedHex, hex.EncodeToString(s[:]))
					}
				}
				if mi == 0 {
					if s, err := main.ce.getSeed(sc.missing); err == nil {
						rep.Diverge("seed:no-error", fmt.Sprintf("getSeed(%d) succeeded although the chain does not know the safe block", sc.missing), cas, "error", hex.EncodeToString(s[:]))
					} else {
						emit(map[string]interface{}{"event": "SeedError", "e": main.id})
					}
					main.calls++
					if prev, ok := seedOwner[seedHex]; ok && prev != wname+"/"+hname {
						rep.Diverge("seed:collision", "two different (wallet, safe block hash) pairs give the same coordination seed", cas, "distinct seeds", prev)
					}
					seedOwner[seedHex] = wname + "/" + hname
				}

				// ---- getLeader on every long-lived executor of this member and wallet
				for vi, v := range views[w] {
					e := persistent(mi, w, vi)
					askLeader(e, v, sc, seedHex)
					if (si+vi)%5 == 0 {
						askLeader(e, v, sc, seedHex) // asked again: same answer
					}
				}
				// ---- control: fresh executors
				if mi == 0 {
					for k := 0; k < 3; k++ {
						vi := rnd.Intn(len(views[w]))
						e := newExec(fmt.Sprintf("fresh/%s/%d/%d", wname, si, k), m, w, views[w][vi])
						askLeader(e, views[w][vi], sc, seedHex)
					}
				}

				// ---- checklist and window index, on the long-lived executor
				for ci, c := range checklistCases {
					if mi != 0 && (ci+si)%4 != 0 {
						continue
					}
					b := c22Block(c.Get("b").Int())
					idx := newCoordinationWindow(b).index()
					raw := main.ce.getActionsChecklist(idx, sc.seed)
					out := c22Strings(raw)
					main.calls++
					nKept++
					this := &keptSlice{k: nKept, raw: raw, exp: out, what: fmt.Sprintf("checklist of %s, seed %s.., window index %d", main.id, seedHex[:8], idx)}
					emit(map[string]interface{}{"event": "Checklist", "e": main.id, "seed": seedHex, "b": b, "idx": idx, "out": out, "k": this.k})
					recheck(this.what)
					kept = append(kept, this)
					if (ci+si+mi)%2 == 0 {
						// what coordinate() does on a follower: actionsAllowed = append(checklist, ActionNoop),
						// used for the whole active phase
						allowed := append(raw, ActionNoop)
						nKept++
						al := &keptSlice{k: nKept, raw: allowed, exp: append(append([]string{}, out...), ActionNoop.String()),
							what: fmt.Sprintf("allowed actions (checklist + Noop) of %s, seed %s.., window index %d", main.id, seedHex[:8], idx)}
						emit(map[string]interface{}{"event": "AppendNoop", "k": this.k, "k2": al.k, "out": c22Strings(allowed)})
						recheck(al.what)
						kept = append(kept, al)
					}
					cc := map[string]interface{}{"wallet": wname, "seed": seedHex, "coordinationBlock": b, "heartbeatSeed": sc.hb, "askedOn": fmt.Sprintf("%s call %d", main.id, main.calls)}
					nt := ""
					if c.Get("idx").Int() > 0 {
						nt = fmt.Sprintf("cl/%s/%d/%d", seedHex[:8], b, mi)
					}
					rep.Eval(nt, cc)
					if idx != uint64(c.Get("idx").Int()) {
						rep.Diverge("checklist:window-index", fmt.Sprintf("coordinationWindow{%d}.index() = %d, specification: %d", b, idx, c.Get("idx").Int()), cc, c.Get("idx").Int(), idx)
						continue
					}
					exp := c.Get("plain").Strs()
					if sc.hb {
						exp = c.Get("hb").Strs()
					}
					if !c22Eq(out, c.Get("plain").Strs()) && !c22Eq(out, c.Get("hb").Strs()) {
						rep.Diverge("checklist:shape", fmt.Sprintf("actions checklist for window index %d is %v; the specification allows %v or %v", idx, out, c.Get("plain").Strs(), c.Get("hb").Strs()),
							cc, []interface{}{c.Get("plain").X, c.Get("hb").X}, out)
					} else if !c22Eq(out, exp) {
						rep.Diverge("checklist:heartbeat-not-seed-determined", fmt.Sprintf("window index %d: checklist %v, but window 1 of the same seed %s a heartbeat", idx, out, map[bool]string{true: "has", false: "has no"}[sc.hb]),
							cc, exp, out)
					}
				}
			}
		}
	}
	// thorough: every operator list enumerated by TLC, on fresh executors, for two seeds
	if kit.Thorough() {
		for k, sc := range []*seedCase{seeds[0], seeds[len(seeds)-1]} {
			seedHex := hex.EncodeToString(sc.seed[:])
			for ci, c := range leaderCases {
				v := &view{c: c}
				for _, o := range c.Get("ops").Ints() {
					v.ops = append(v.ops, addrs[o-1])
					v.nums = append(v.nums, o)
				}
				e := newExec(fmt.Sprintf("all/%d/%d", k, ci), members[ci%len(members)], sc.w, v)
				askLeader(e, v, sc, seedHex)
			}
		}
	}
	rep.Count("kept_slices", len(kept))
	rep.Count("executors", len(execs))
	rep.Count("events", tr.N())
}
