//go:build verif

package tbtc

// C24 conformance harness for coordinationExecutor.executeFollowerRoutine
// (spec: /verif/specs/Follower).
//
// Every message history enumerated by TLC is replayed on the real routine:
// a coordinationExecutor of the follower with a fake broadcast channel (the
// harness calls the handler the routine registers), the real
// group.MembershipValidator and real operator keys / addresses from local
// chains. The history is delivered (a) one message at a time, waiting after
// each until the routine is parked in its select again (runtime.Stack), and
// (b) as a burst. After every message "has the routine returned" is compared
// with the specification; at the end the returned proposal (by identity), the
// error and the fault list (type and culprit address, in order).
//
// Abstraction: a message class names the key that sent the message and the
// seat it claims (see Follower.tla); classes are resolved on three seat
// layouts in which the leader holds two seats. Keys L, O, S are operators of
// the wallet, X is a fourth operator that is not. "win bad" = another
// coordination block, "wal bad" = another wallet public key hash, "act
// disallowed" = an action type outside actionsAllowed.

import (
	"context"
	"fmt"
	"math/big"
	"regexp"
	"runtime"
	"strings"
	"testing"
	"time"

	"github.com/keep-network/keep-core/internal/testutils"
	kit "github.com/keep-network/keep-core/internal/verifkit"
	"github.com/keep-network/keep-core/pkg/bitcoin"
	"github.com/keep-network/keep-core/pkg/chain"
	"github.com/keep-network/keep-core/pkg/chain/local_v1"
	"github.com/keep-network/keep-core/pkg/net"
	"github.com/keep-network/keep-core/pkg/operator"
	"github.com/keep-network/keep-core/pkg/protocol/group"
)

const (
	c24Frame = "coordinationExecutor).executeFollowerRoutine("
	c24Long  = 60 * time.Second
)

var c24Header = regexp.MustCompile(`^goroutine \d+ \[([^\],]+)`)

// c24RoutineStates returns the wait states of goroutines inside executeFollowerRoutine.
func c24RoutineStates() []string {
	buf := make([]byte, 1<<18)
	for {
		n := runtime.Stack(buf, true)
		if n < len(buf) {
			buf = buf[:n]
			break
		}
		buf = make([]byte, 2*len(buf))
	}
	var out []string
	for _, blk := range strings.Split(string(buf), "\n\n") {
		if strings.Contains(blk, c24Frame) {
			st := "?"
			if m := c24Header.FindStringSubmatch(blk); m != nil {
				st = m[1]
			}
			out = append(out, st)
		}
	}
	return out
}

func c24Chain(priv int64) *localChain {
	d := big.NewInt(priv)
	x, y := local_v1.DefaultCurve.ScalarBaseMult(d.Bytes())
	return ConnectWithKey(&operator.PrivateKey{
		PublicKey: operator.PublicKey{Curve: operator.Secp256k1, X: x, Y: y},
		D:         d,
	})
}

type c24Channel struct {
	handler    func(net.Message)
	registered chan struct{}
}

func (c *c24Channel) Name() string { return "verif-c24" }
func (c *c24Channel) Send(ctx context.Context, m net.TaggedMarshaler, s ...net.RetransmissionStrategy) error {
	return nil
}
func (c *c24Channel) Recv(ctx context.Context, handler func(m net.Message)) {
	c.handler = handler
	close(c.registered)
}
func (c *c24Channel) SetUnmarshaler(unmarshaler func() net.TaggedUnmarshaler) {}
func (c *c24Channel) SetFilter(filter net.BroadcastChannelFilter) error        { return nil }

type c24ID string

func (i c24ID) String() string { return string(i) }

type c24Msg struct {
	key     []byte
	payload interface{}
	typ     string
	seq     uint64
}

func (m *c24Msg) TransportSenderID() net.TransportIdentifier { return c24ID(fmt.Sprintf("%x", m.key[:8])) }
func (m *c24Msg) SenderPublicKey() []byte                    { return m.key }
func (m *c24Msg) Payload() interface{}                       { return m.payload }
func (m *c24Msg) Type() string                               { return m.typ }
func (m *c24Msg) Seqno() uint64                              { return m.seq }

type c24World struct {
	chain *localChain
	keys  map[string][]byte        // L O S X -> uncompressed operator public key
	addr  map[string]chain.Address // L O S X -> address
	name  map[chain.Address]string
	w     wallet
}

func newC24World(t *testing.T) *c24World {
	w := &c24World{keys: map[string][]byte{}, addr: map[string]chain.Address{}, name: map[chain.Address]string{}}
	w.chain = c24Chain(7700)
	for i, n := range []string{"L", "O", "S", "X"} {
		lc := c24Chain(int64(7711 + 13*i))
		_, pub, err := lc.OperatorKeyPair()
		if err != nil {
			t.Fatal(err)
		}
		w.keys[n] = operator.MarshalUncompressed(pub)
		a, err := lc.operatorAddress()
		if err != nil {
			t.Fatal(err)
		}
		if got := w.chain.Signing().PublicKeyBytesToAddress(w.keys[n]); got != a {
			t.Fatalf("address derivations disagree: %s vs %s", got, a)
		}
		w.addr[n] = a
		w.name[a] = n
	}
	w.w = generateWallet(big.NewInt(424242))
	return w
}

var c24Layouts = [][]string{
	{"S", "O", "L", "L", "O", "S"},
	{"L", "S", "O", "L"},
	{"O", "S", "S", "L", "O", "L", "O"},
}

func c24Seats(layout []string, op string) (lo, hi int) {
	for i, o := range layout {
		if o == op {
			if lo == 0 {
				lo = i + 1
			}
			hi = i + 1
		}
	}
	return
}

// c24Resolve mirrors Key(m) / Idx(m) of Follower.tla.
func c24Resolve(cls string, layout []string) (key string, idx int) {
	lLo, lHi := c24Seats(layout, "L")
	oLo, _ := c24Seats(layout, "O")
	sLo, _ := c24Seats(layout, "S")
	switch cls {
	case "LL":
		return "L", lLo
	case "LH":
		return "L", lHi
	case "LO":
		return "L", oLo
	case "L0":
		return "L", 0
	case "L9":
		return "L", len(layout) + 1
	case "OO":
		return "O", oLo
	case "OL":
		return "O", lLo
	case "OS":
		return "O", sLo
	case "SS":
		return "S", sLo
	case "XL":
		return "X", lLo
	case "XO":
		return "X", oLo
	case "XS":
		return "X", sLo
	case "TT":
		return "L", lLo
	}
	panic("unknown class " + cls)
}

type c24Fault struct {
	Culprit string `json:"culprit"`
	Type    string `json:"type"`
}

type c24Outcome struct {
	proposal CoordinationProposal
	faults   []*coordinationFault
	err      error
	panicked interface{}
}

func c24FaultName(t CoordinationFaultType) string {
	switch t {
	case FaultLeaderIdleness:
		return "Idleness"
	case FaultLeaderMistake:
		return "Mistake"
	case FaultLeaderImpersonation:
		return "Impersonation"
	}
	return "Unknown"
}

func TestVerif_C24_Histories(t *testing.T) {
	kit.RequireEngine(t)
	rep := kit.NewReport("C24", "histories")
	defer rep.Write(t)
	world := newC24World(t)
	cases := kit.LoadCases(t, "histories.ndjson")
	if st := c24RoutineStates(); len(st) != 0 {
		t.Fatalf("follower routines alive before the test")
	}
	inconclusive := 0
	pkh := bitcoin.PublicKeyHash(world.w.publicKey)
	badPkh := pkh
	badPkh[3] ^= 0x40

	for ci, cs := range cases {
		for mode := 0; mode < 2; mode++ { // 0 = one at a time (fenced), 1 = burst
			layout := c24Layouts[(ci+mode)%len(c24Layouts)]
			window := uint64(900 * (1 + ci%7))
			allowedSet := [][]WalletActionType{
				{ActionRedemption, ActionNoop},
				{ActionRedemption, ActionHeartbeat, ActionNoop},
				{ActionRedemption, ActionDepositSweep, ActionMovedFundsSweep, ActionMovingFunds, ActionNoop},
			}[ci%3]
			var ops []chain.Address
			for _, o := range layout {
				ops = append(ops, world.addr[o])
			}
			wlt := world.w
			wlt.signingGroupOperators = ops
			ch := &c24Channel{registered: make(chan struct{})}
			exec := &coordinationExecutor{
				chain:               world.chain,
				coordinatedWallet:   wlt,
				membersIndexes:      wlt.membersByOperator(world.addr["S"]),
				operatorAddress:     world.addr["S"],
				broadcastChannel:    ch,
				membershipValidator: group.NewMembershipValidator(&testutils.MockLogger{}, ops, world.chain.Signing()),
			}
			ctx, cancel := context.WithCancel(context.Background())
			resCh := make(chan c24Outcome, 1)
			go func() {
				var out c24Outcome
				defer func() {
					if r := recover(); r != nil {
						out.panicked = r
					}
					resCh <- out
				}()
				out.proposal, out.faults, out.err = exec.executeFollowerRoutine(ctx, world.addr["L"], window, allowedSet)
			}()
			select {
			case <-ch.registered:
			case <-time.After(c24Long):
				t.Fatalf("the routine never registered a receive handler")
			}

			msgs := cs.Get("msgs").List()
			proposals := make([]CoordinationProposal, len(msgs))
			describe := make([]string, len(msgs))
			var outcome *c24Outcome
			// fence: the routine is parked in its select (inbox drained) or has returned
			fence := func() bool {
				return kit.Eventually(c24Long, func() bool {
					if outcome != nil {
						return true
					}
					select {
					case o := <-resCh:
						outcome = &o
						return true
					default:
					}
					st := c24RoutineStates()
					return len(st) == 1 && st[0] == "select"
				})
			}
			hash := kit.Hash(cs.X)
			cas := map[string]interface{}{"history": cs.Get("msgs").X, "layout": layout, "mode": []string{"fenced", "burst"}[mode],
				"window": window, "allowed": fmt.Sprint(allowedSet)}
			diverged := false
			diverge := func(key, what string, exp, obs interface{}) {
				if !diverged {
					rep.Diverge(key, what, cas, exp, obs)
				}
				diverged = true
			}
			accepted := cs.Get("accepted").Int()
			aborted := false
			for i, m := range msgs {
				cls := m.Get("cls").Str()
				key, idx := c24Resolve(cls, layout)
				blk := window
				if m.Get("win").Str() != "ok" {
					blk = []uint64{window + 1, window + 900, window - 900}[i%3]
				}
				hashW := pkh
				if m.Get("wal").Str() != "ok" {
					hashW = badPkh
				}
				// a distinct proposal object per message; allowed / disallowed w.r.t. actionsAllowed
				var p CoordinationProposal
				if m.Get("act").Str() == "allowed" {
					switch (ci + i) % 3 {
					case 0:
						p = &RedemptionProposal{RedemptionTxFee: big.NewInt(int64(1000 + i))}
					case 1:
						p = &NoopProposal{}
					default:
						switch allowedSet[1] {
						case ActionHeartbeat:
							p = &HeartbeatProposal{Message: [16]byte{byte(i + 1)}}
						case ActionDepositSweep:
							p = &DepositSweepProposal{SweepTxFee: big.NewInt(int64(2000 + i))}
						default:
							p = &RedemptionProposal{RedemptionTxFee: big.NewInt(int64(3000 + i))}
						}
					}
				} else {
					switch allowedSet[1] {
					case ActionHeartbeat:
						p = &DepositSweepProposal{SweepTxFee: big.NewInt(int64(4000 + i))}
					default:
						p = &HeartbeatProposal{Message: [16]byte{0xee, byte(i + 1)}}
					}
				}
				proposals[i] = p
				describe[i] = fmt.Sprintf("%s(key %s, seat %d, block %d, wallet %s, %s)", cls, key, idx, blk,
					m.Get("wal").Str(), p.ActionType())
				var payload interface{} = &coordinationMessage{senderID: group.MemberIndex(idx), coordinationBlock: blk,
					walletPublicKeyHash: hashW, proposal: p}
				typ := "tbtc/coordination_message"
				if cls == "TT" {
					payload = &signingDoneMessage{senderID: group.MemberIndex(idx), message: big.NewInt(1), attemptNumber: 1, endBlock: blk}
					typ = "tbtc/signing_done_message"
				}
				ch.handler(&c24Msg{key: world.keys[key], payload: payload, typ: typ, seq: uint64(i + 1)})
				if mode == 0 || i == len(msgs)-1 {
					if !fence() {
						inconclusive++
						aborted = true
						break
					}
					shouldHaveReturned := accepted > 0 && accepted <= i+1
					if outcome != nil && !shouldHaveReturned {
						what := "the routine returned before the end of the active phase although the specification accepts none of the messages delivered so far"
						if outcome.proposal != nil {
							for j := range proposals[:i+1] {
								if proposals[j] == outcome.proposal {
									cls = msgs[j].Get("cls").Str()
									what = fmt.Sprintf("the proposal of message %d %s was returned; the specification filters it out", j+1, describe[j])
								}
							}
						}
						diverge("follower:accepted-invalid:"+cls, what, "still listening", fmt.Sprintf("returned (err=%v)", outcome.err))
						break
					}
					if outcome == nil && shouldHaveReturned {
						diverge("follower:valid-not-accepted", fmt.Sprintf("message %d %s is the leader's valid proposal but the routine keeps listening", accepted, describe[accepted-1]),
							"returned", "parked")
						break
					}
				}
			}
			if !aborted && outcome == nil {
				// end of the active phase
				cancel()
				select {
				case o := <-resCh:
					outcome = &o
				case <-time.After(c24Long):
					inconclusive++
					aborted = true
				}
			}
			cancel()
			if aborted {
				// cannot leave the routine behind
				select {
				case <-resCh:
				case <-time.After(c24Long):
					t.Fatalf("the follower routine did not return after cancellation")
				}
				continue
			}
			key := ""
			if cs.Get("faults").Len() > 0 || accepted > 0 {
				key = fmt.Sprintf("%s/%d", hash, mode)
			}
			rep.Eval(key, map[string]interface{}{"history": describe, "layout": strings.Join(layout, ""), "mode": mode})
			if diverged {
				continue
			}
			if outcome.panicked != nil {
				diverge("follower:panic", fmt.Sprintf("executeFollowerRoutine panicked: %v", outcome.panicked), nil, fmt.Sprint(outcome.panicked))
				continue
			}
			// ---- compare the final outcome
			var obsFaults []c24Fault
			for _, f := range outcome.faults {
				n, ok := world.name[f.culprit]
				if !ok {
					n = "unknown:" + string(f.culprit)
				}
				obsFaults = append(obsFaults, c24Fault{n, c24FaultName(f.faultType)})
			}
			var expFaults []c24Fault
			for _, f := range cs.Get("faults").List() {
				expFaults = append(expFaults, c24Fault{f.Get("culprit").Str(), f.Get("type").Str()})
			}
			expRes := cs.Get("result").Str()
			obsRes := "proposal"
			if outcome.err != nil {
				obsRes = "error"
			}
			if expRes != obsRes {
				diverge("follower:result", fmt.Sprintf("the routine ended with %q, the specification with %q", obsRes, expRes), expRes, obsRes)
				continue
			}
			if expRes == "proposal" {
				if outcome.proposal != proposals[accepted-1] {
					which := "an unknown proposal"
					for j := range proposals {
						if proposals[j] == outcome.proposal {
							which = fmt.Sprintf("the proposal of message %d %s", j+1, describe[j])
						}
					}
					diverge("follower:wrong-proposal", fmt.Sprintf("%s was returned; the specification returns that of message %d %s", which, accepted, describe[accepted-1]), accepted, which)
					continue
				}
			} else if outcome.proposal != nil {
				diverge("follower:proposal-with-error", "a proposal was returned together with the idleness error", nil, fmt.Sprint(outcome.proposal))
				continue
			}
			same := len(expFaults) == len(obsFaults)
			for i := 0; same && i < len(expFaults); i++ {
				same = expFaults[i] == obsFaults[i]
			}
			if !same {
				k := "follower:faults"
				what := fmt.Sprintf("fault list %v differs from the specification's %v", obsFaults, expFaults)
				for i := 0; i < len(expFaults) && i < len(obsFaults); i++ {
					if expFaults[i].Type == "Impersonation" && obsFaults[i].Type == "Impersonation" && expFaults[i].Culprit != obsFaults[i].Culprit {
						k = "follower:impersonation-culprit"
						what = fmt.Sprintf("the impersonation fault names operator %s; the message was sent with the key of operator %s", obsFaults[i].Culprit, expFaults[i].Culprit)
					}
				}
				if k == "follower:faults" && expRes == "error" && (len(obsFaults) == 0 || obsFaults[len(obsFaults)-1].Type != "Idleness") {
					k = "follower:idleness-missing"
				}
				diverge(k, what, expFaults, obsFaults)
			}
		}
	}
	rep.Count("inconclusive", inconclusive)
	if inconclusive > len(cases)/20 {
		t.Fatalf("too many inconclusive histories: %d of %d", inconclusive, 2*len(cases))
	}
	if st := c24RoutineStates(); len(st) != 0 {
		t.Fatalf("follower routines left behind: %v", st)
	}
}
