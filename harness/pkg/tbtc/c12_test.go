//go:build verif

package tbtc

// C12 conformance harness, pkg/tbtc (specs/Admission, rows
// pkg/tbtc/coordinationExecutor.executeFollowerRoutine, rule "coordinate", and
// pkg/tbtc/signingDoneCheck.listen, rule "signingDone").
//
// Coordination follower: for every case a REAL coordinationExecutor of the
// receiving operator (all seats of the receiver's operator, real
// MembershipValidator over the wallet's signing group operators, the
// package's local chain for address derivation) runs
// executeFollowerRoutine(leader, block 900, allowed {Redemption, Noop}) on a
// fake broadcast channel. The case's coordinationMessage (block 900/901,
// wallet hash right/wrong, Redemption or Noop = allowed / Heartbeat = not allowed proposal)
// is delivered; the routine either returns the proposal ("accepted") or, after
// a barrier message proves the loop processed the case's message, the context
// is cancelled and the returned faults are classified: only the closing
// LeaderIdleness fault = "ignored"; LeaderImpersonation against the SENDER's
// address = "fault:impersonation"; LeaderMistake against the leader =
// "fault:mistake". Anything else is reported as corrupted.
//
// Signing done: for every case a REAL signingDoneCheck listens (message 100,
// attempt 2, timeout block 1000, attempt members = all seats except the one
// the case leaves out); for payload class "duplicate" a valid done message of
// the rightful owner of the claimed seat is delivered first; then the case's
// message; after a barrier message doneSigners is read under the mutex:
// "accepted" = doneSigners[claimed index] is exactly the case's message.
//
// Messages go through the real Marshal, get the wire sender index and are
// decoded by the unmarshalers node.go registers (&coordinationMessage{},
// &signingDoneMessage{}); a nil signature cannot be expressed on the wire and
// is delivered as a decoded value whose signature was removed.
// No timing assumption decides anything: all waits are on channels.
//
// Streams (AdmissionLoop.tla): sequences of 1..3 messages are delivered to one
// follower routine (faults in order and the returned proposal are compared) and
// to one listener (doneSigners: member -> which message was kept).

import (
	"context"
	"encoding/hex"
	"fmt"
	"math/big"
	"testing"
	"time"

	"github.com/keep-network/keep-core/internal/testutils"
	verifadm "github.com/keep-network/keep-core/internal/verifadm"
	kit "github.com/keep-network/keep-core/internal/verifkit"
	"github.com/keep-network/keep-core/pkg/bitcoin"
	"github.com/keep-network/keep-core/pkg/chain"
	"github.com/keep-network/keep-core/pkg/net"
	"github.com/keep-network/keep-core/pkg/protocol/group"
	"github.com/keep-network/keep-core/pkg/tecdsa"
)

const (
	c12Block        = uint64(900)
	c12Attempt      = uint64(2)
	c12TimeoutBlock = uint64(1000)
)

type c12Tbtc struct {
	w         *verifadm.World
	decoder   *verifadm.Channel
	validator *group.MembershipValidator
	chain     *localChain
	wallet    wallet
	walletPKH [20]byte
}

func (h *c12Tbtc) coordinationTemplate(c *verifadm.Case) net.TaggedMarshaler {
	// two allowed proposals: a redemption (a value the harness can recognise by identity when the
	// routine returns it) and, for receivers with an even index in single-message cases, a no-op
	var proposal CoordinationProposal = &RedemptionProposal{
		RedeemersOutputScripts: []bitcoin.Script{{0x00, 0x14, 0x8d, 0xb5}}, RedemptionTxFee: big.NewInt(10000)}
	if c.Recv%2 == 0 && c.Rule != "" {
		proposal = &NoopProposal{}
	}
	m := &coordinationMessage{coordinationBlock: c12Block, walletPublicKeyHash: h.walletPKH, proposal: proposal}
	if c.BadCtx["block"] {
		m.coordinationBlock = c12Block + 1
	}
	if c.BadCtx["wallet"] {
		m.walletPublicKeyHash = [20]byte{0x01}
	}
	if c.Extra == "actionNotAllowed" {
		m.proposal = &HeartbeatProposal{Message: [16]byte{0x01, 0x02}}
	}
	return m
}

func (h *c12Tbtc) doneTemplate(c *verifadm.Case) net.TaggedMarshaler {
	m := &signingDoneMessage{message: big.NewInt(100), attemptNumber: c12Attempt,
		signature: &tecdsa.Signature{R: big.NewInt(200), S: big.NewInt(300), RecoveryID: 2}, endBlock: c12TimeoutBlock - 100}
	if c.BadCtx["message"] {
		m.message = big.NewInt(101)
	}
	if c.BadCtx["attempt"] {
		m.attemptNumber = c12Attempt + 1
	}
	if c.Extra == "lateEndBlock" {
		m.endBlock = c12TimeoutBlock + 1
	}
	return m
}

func (h *c12Tbtc) payload(c *verifadm.Case, typ string) (interface{}, error) {
	switch typ {
	case "coordinationMessage":
		return h.decoder.Decode(h.coordinationTemplate(c), c.Wire)
	case "signingDoneMessage":
		p, err := h.decoder.Decode(h.doneTemplate(c), c.Wire)
		if err == nil && c.Extra == "nilSignature" {
			p.(*signingDoneMessage).signature = nil
		}
		return p, err
	}
	return nil, fmt.Errorf("harness: unknown tbtc payload type %q", typ)
}

type c12FollowerResult struct {
	proposal CoordinationProposal
	faults   []*coordinationFault
	err      error
	panicked interface{}
}

// runFollower runs the real executeFollowerRoutine of the operator of seat recv
// with the given leader, delivers the messages in order and returns what the
// routine returned (after cancellation, if it did not return by itself).
func (h *c12Tbtc) runFollower(recv int, leaderKey string, msgs []net.Message) (*c12FollowerResult, error) {
	self := h.w.Keys[h.w.OwnerOf(recv)]
	leader := h.w.Keys[leaderKey]
	ch := verifadm.NewChannel()
	executor := &coordinationExecutor{
		chain:               h.chain,
		coordinatedWallet:   h.wallet,
		membersIndexes:      h.wallet.membersByOperator(self.Address),
		operatorAddress:     self.Address,
		broadcastChannel:    ch,
		membershipValidator: h.validator,
	}
	ctx, cancel := context.WithCancel(context.Background())
	defer cancel()
	done := make(chan struct{})
	res := &c12FollowerResult{}
	go func() {
		defer close(done)
		defer func() { res.panicked = recover() }()
		res.proposal, res.faults, res.err = executor.executeFollowerRoutine(ctx, leader.Address, c12Block,
			[]WalletActionType{ActionRedemption, ActionNoop})
	}()
	// the routine registers its handler before it starts to wait
	deadline := time.Now().Add(120 * time.Second)
	for ch.Handlers() == 0 {
		select {
		case <-done:
			return nil, fmt.Errorf("harness: follower routine ended before receiving: %v / %v", res.err, res.panicked)
		default:
		}
		if time.Now().After(deadline) {
			return nil, fmt.Errorf("harness: follower routine did not register a receive handler")
		}
		time.Sleep(50 * time.Microsecond)
	}
	for _, m := range msgs {
		ch.Deliver(m)
	}
	if !ch.Barrier(h.w, done) {
		select {
		case <-done: // the routine returned on one of the messages
		default:
			return nil, fmt.Errorf("harness: the follower loop did not reach the barrier message")
		}
	}
	cancel()
	select {
	case <-done:
	case <-time.After(120 * time.Second):
		return nil, fmt.Errorf("harness: follower routine did not return after cancellation")
	}
	return res, nil
}

func (r *c12FollowerResult) String() string {
	s := fmt.Sprintf("proposal=%v err=%v faults=", r.proposal != nil, r.err)
	for _, f := range r.faults {
		s += f.String() + ";"
	}
	return s
}

// follower drives coordinationExecutor.executeFollowerRoutine with one message.
func (h *c12Tbtc) follower(c *verifadm.Case, typ string) (string, string, error) {
	p, err := h.payload(c, typ)
	if o, d, e, stop := verifadm.Dropped(err); stop {
		return o, d, e
	}
	res, err := h.runFollower(c.Recv, c.Leader, []net.Message{h.w.Net(c, p)})
	if err != nil {
		return "", "", err
	}
	if res.panicked != nil {
		return "panic", fmt.Sprint(res.panicked), nil
	}
	leader := h.w.Keys[c.Leader]
	proposal, faults := res.proposal, res.faults
	if res.err == nil {
		sentProposal := p.(*coordinationMessage).proposal
		if proposal == nil || len(faults) != 0 || proposal.ActionType() != sentProposal.ActionType() ||
			(proposal.ActionType() == ActionRedemption && proposal != sentProposal) {
			return "corrupted", res.String(), nil
		}
		return verifadm.Accepted, res.String(), nil
	}
	if proposal != nil || len(faults) == 0 {
		return "corrupted", res.String(), nil
	}
	last := faults[len(faults)-1]
	if last.faultType != FaultLeaderIdleness || last.culprit != leader.Address {
		return "corrupted", res.String(), nil
	}
	switch rest := faults[:len(faults)-1]; {
	case len(rest) == 0:
		return verifadm.Ignored, res.String(), nil
	case len(rest) == 1 && rest[0].faultType == FaultLeaderImpersonation && rest[0].culprit == h.w.Keys[c.Key].Address:
		return verifadm.Impersonation, res.String(), nil
	case len(rest) == 1 && rest[0].faultType == FaultLeaderMistake && rest[0].culprit == leader.Address:
		return verifadm.Mistake, res.String(), nil
	}
	return "corrupted", res.String(), nil
}

// followerSequence replays a stream of coordination messages (AdmissionLoop.tla, kind untilAccept).
func (h *c12Tbtc) followerSequence(q *verifadm.Sequence) (verifadm.LoopState, string, error) {
	out := verifadm.LoopState{Faults: []verifadm.Fault{}}
	var msgs []net.Message
	number := map[CoordinationProposal]int{}
	for i, c := range q.Msgs {
		p, err := h.payload(c, "coordinationMessage")
		if _, _, e, stop := verifadm.Dropped(err); stop {
			if e != nil {
				return out, "", e
			}
			continue // dropped by the decoder
		}
		number[p.(*coordinationMessage).proposal] = i + 1
		msgs = append(msgs, h.w.Net(c, p))
	}
	res, err := h.runFollower(q.Msgs[0].Recv, q.Leader, msgs)
	if err != nil {
		return out, "", err
	}
	if res.panicked != nil {
		return verifadm.LoopState{Returned: -1}, fmt.Sprint("panic: ", res.panicked), nil
	}
	nameOf := func(a chain.Address) string {
		for name, k := range h.w.Keys {
			if k.Address == a {
				return name
			}
		}
		return "unknown:" + a.String()
	}
	faults := res.faults
	note := ""
	if res.err == nil {
		out.Returned = number[res.proposal]
		if out.Returned == 0 {
			out.Returned = -1
			note = "returned a proposal that was never delivered"
		}
	} else {
		// a routine that received no acceptable proposal closes with the leader idleness fault
		if n := len(faults); n == 0 || faults[n-1].faultType != FaultLeaderIdleness || faults[n-1].culprit != h.w.Keys[q.Leader].Address || res.proposal != nil {
			note = "no closing LeaderIdleness fault against the leader: " + res.String()
			out.Returned = -1
		} else {
			faults = faults[:n-1]
		}
	}
	for _, f := range faults {
		typ := map[CoordinationFaultType]string{FaultLeaderImpersonation: "impersonation", FaultLeaderMistake: "mistake",
			FaultLeaderIdleness: "idleness"}[f.faultType]
		out.Faults = append(out.Faults, verifadm.Fault{Type: typ, Culprit: nameOf(f.culprit)})
	}
	return out, note, nil
}

// listener drives signingDoneCheck.listen.
func (h *c12Tbtc) listener(c *verifadm.Case, typ string) (string, string, error) {
	p, err := h.payload(c, typ)
	if o, d, e, stop := verifadm.Dropped(err); stop {
		return o, d, e
	}
	var included []group.MemberIndex
	for s := 1; s <= h.w.N; s++ {
		if s != c.Excl.Who {
			included = append(included, group.MemberIndex(s))
		}
	}
	ch := verifadm.NewChannel()
	sdc := newSigningDoneCheck(h.w.N, ch, h.validator)
	ctx, cancel := context.WithCancel(context.Background())
	defer cancel()
	sdc.listen(ctx, big.NewInt(100), c12Attempt, c12TimeoutBlock, included)
	never := make(chan struct{})
	var prior *signingDoneMessage
	if seat := int(c.Wire); c.Extra == "duplicate" && seat >= 1 && seat <= h.w.N && seat != c.Excl.Who {
		good := &verifadm.Case{Key: h.w.OwnerOf(seat), Wire: c.Wire, BadCtx: map[string]bool{}, Extra: "ok"}
		pp, err := h.decoder.Decode(h.doneTemplate(good), good.Wire)
		if err != nil {
			return "", "", fmt.Errorf("harness: prior done message: %v", err)
		}
		prior = pp.(*signingDoneMessage)
		ch.Deliver(h.w.Net(good, prior))
		if !ch.Barrier(h.w, never) {
			return "", "", fmt.Errorf("harness: the listener did not reach the barrier message")
		}
		sdc.doneSignersMutex.Lock()
		stored := sdc.doneSigners[prior.senderID] == prior
		sdc.doneSignersMutex.Unlock()
		if !stored {
			// the genuine done message of the seat's owner was not admitted
			return "prior-ignored", fmt.Sprintf("the valid done message of the owner of seat %d, delivered first, was not stored", seat), nil
		}
	}
	ch.Deliver(h.w.Net(c, p))
	if !ch.Barrier(h.w, never) {
		return "", "", fmt.Errorf("harness: the listener did not reach the barrier message")
	}
	sdc.doneSignersMutex.Lock()
	defer sdc.doneSignersMutex.Unlock()
	outcome := verifadm.Ignored
	detail := fmt.Sprintf("%d done signers", len(sdc.doneSigners))
	for id, m := range sdc.doneSigners {
		switch {
		case m == prior && id == prior.senderID:
		case interface{}(m) == p && int(id) == int(c.Wire) && outcome == verifadm.Ignored:
			outcome = verifadm.Accepted
		default:
			return "corrupted", fmt.Sprintf("doneSigners[%d] holds an unexpected message from %d", id, m.senderID), nil
		}
	}
	return outcome, detail, nil
}

// c12NewTbtc builds the wallet, validator and decoder for a world.
func c12NewTbtc(t *testing.T, w *verifadm.World, localChain *localChain) *c12Tbtc {
	publicKeyHex, err := hex.DecodeString(
		"0471e30bca60f6548d7b42582a478ea37ada63b402af7b3ddd57f0c95bb6843175" +
			"aa0d2053a91a050a6797d85c38f2909cb7027f2344a01986aa2f9f8ca7a0c289")
	if err != nil {
		t.Fatal(err)
	}
	h := &c12Tbtc{w: w, decoder: verifadm.NewChannel(), chain: localChain}
	// the node derives operator addresses with its chain's Signing(): it must agree with the world's
	var operators []chain.Address
	for s := 1; s <= w.N; s++ {
		k := w.Keys[w.OwnerOf(s)]
		if got := h.chain.Signing().PublicKeyBytesToAddress(k.PubBytes); got != k.Address {
			t.Fatalf("harness: address derivation differs: %v vs %v", got, k.Address)
		}
		operators = append(operators, k.Address)
	}
	h.validator = group.NewMembershipValidator(&testutils.MockLogger{}, operators, h.chain.Signing())
	h.wallet = wallet{publicKey: unmarshalPublicKey(publicKeyHex), signingGroupOperators: operators}
	h.walletPKH = (&coordinationExecutor{coordinatedWallet: h.wallet}).walletPublicKeyHash()
	// as node.go does for the signing / coordination channels
	h.decoder.SetUnmarshaler(func() net.TaggedUnmarshaler { return &signingDoneMessage{} })
	h.decoder.SetUnmarshaler(func() net.TaggedUnmarshaler { return &coordinationMessage{} })
	return h
}

func TestVerif_C12_Tbtc(t *testing.T) {
	kit.RequireEngine(t)
	rep := kit.NewReport("C12", "admission_tbtc")
	defer rep.Write(t)
	w := verifadm.LoadWorld(t)
	steps := verifadm.LoadSteps(t, "pkg/tbtc")
	cases := verifadm.LoadCases(t)
	localChain := Connect()
	h := c12NewTbtc(t, w, localChain)
	verifadm.Run(t, rep, w, steps, cases, map[string]verifadm.Driver{
		"coordinationExecutor.executeFollowerRoutine": h.follower,
		"signingDoneCheck.listen":                     h.listener,
	})
	// streams of messages (specs/Admission/AdmissionLoop.tla), stated in their own (4-seat) world
	hl := c12NewTbtc(t, verifadm.LoadLoopWorld(t), localChain)
	verifadm.RunSequences(t, rep, "pkg/tbtc/coordinationExecutor.executeFollowerRoutine", hl.followerSequence)
	verifadm.RunSequences(t, rep, "pkg/tbtc/signingDoneCheck.listen", hl.listenerSequence)
}

// listenerSequence replays a stream of done messages (AdmissionLoop.tla, kind firstWins).
func (h *c12Tbtc) listenerSequence(q *verifadm.Sequence) (verifadm.LoopState, string, error) {
	out := verifadm.LoopState{Done: [][2]int{}}
	var included []group.MemberIndex
	for s := 1; s <= h.w.N; s++ {
		if s != q.Excl.Who {
			included = append(included, group.MemberIndex(s))
		}
	}
	ch := verifadm.NewChannel()
	sdc := newSigningDoneCheck(h.w.N, ch, h.validator)
	ctx, cancel := context.WithCancel(context.Background())
	defer cancel()
	sdc.listen(ctx, big.NewInt(100), c12Attempt, c12TimeoutBlock, included)
	number := map[*signingDoneMessage]int{}
	for i, c := range q.Msgs {
		p, err := h.payload(c, "signingDoneMessage")
		if _, _, e, stop := verifadm.Dropped(err); stop {
			if e != nil {
				return out, "", e
			}
			continue // dropped by the decoder
		}
		number[p.(*signingDoneMessage)] = i + 1
		ch.Deliver(h.w.Net(c, p))
	}
	if !ch.Barrier(h.w, make(chan struct{})) {
		return out, "", fmt.Errorf("harness: the listener did not reach the barrier message")
	}
	sdc.doneSignersMutex.Lock()
	defer sdc.doneSignersMutex.Unlock()
	for id, m := range sdc.doneSigners {
		out.Done = append(out.Done, [2]int{int(id), number[m]})
	}
	return out, "", nil
}
