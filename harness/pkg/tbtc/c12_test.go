//go:build verif

package tbtc

// C12 conformance harness, pkg/tbtc (specs/Admission, rows
// pkg/tbtc/coordinationExecutor.executeFollowerRoutine, rule "coordinate", and
// pkg/tbtc/signingDoneCheck.listen, rule "signingDone").
//
// Coordination follower: for every case a REAL coordinationExecutor of the
// receiving operator (all seats of the receiver's operator, real
// MembershipValidator over the wallet's signing group operators, the
// package's local chain for address derivation) runs
// executeFollowerRoutine(leader, block 900, allowed {Redemption, Noop}) on a
// fake broadcast channel. The case's coordinationMessage (block 900/901,
// wallet hash right/wrong, Noop = allowed / Heartbeat = not allowed proposal)
// is delivered; the routine either returns the proposal ("accepted") or, after
// a barrier message proves the loop processed the case's message, the context
// is cancelled and the returned faults are classified: only the closing
// LeaderIdleness fault = "ignored"; LeaderImpersonation against the SENDER's
// address = "fault:impersonation"; LeaderMistake against the leader =
// "fault:mistake". Anything else is reported as corrupted.
//
// Signing done: for every case a REAL signingDoneCheck listens (message 100,
// attempt 2, timeout block 1000, attempt members = all seats except the one
// the case leaves out); for payload class "duplicate" a valid done message of
// the rightful owner of the claimed seat is delivered first; then the case's
// message; after a barrier message doneSigners is read under the mutex:
// "accepted" = doneSigners[claimed index] is exactly the case's message.
//
// Messages go through the real Marshal, get the wire sender index and are
// decoded by the unmarshalers node.go registers (&coordinationMessage{},
// &signingDoneMessage{}); a nil signature cannot be expressed on the wire and
// is delivered as a decoded value whose signature was removed.
// No timing assumption decides anything: all waits are on channels.

import (
	"context"
	"encoding/hex"
	"fmt"
	"math/big"
	"testing"
	"time"

	"github.com/keep-network/keep-core/internal/testutils"
	verifadm "github.com/keep-network/keep-core/internal/verifadm"
	kit "github.com/keep-network/keep-core/internal/verifkit"
	"github.com/keep-network/keep-core/pkg/chain"
	"github.com/keep-network/keep-core/pkg/net"
	"github.com/keep-network/keep-core/pkg/protocol/group"
	"github.com/keep-network/keep-core/pkg/tecdsa"
)

const (
	c12Block        = uint64(900)
	c12Attempt      = uint64(2)
	c12TimeoutBlock = uint64(1000)
)

type c12Tbtc struct {
	w         *verifadm.World
	decoder   *verifadm.Channel
	validator *group.MembershipValidator
	chain     *localChain
	wallet    wallet
	walletPKH [20]byte
}

func (h *c12Tbtc) coordinationTemplate(c *verifadm.Case) net.TaggedMarshaler {
	m := &coordinationMessage{coordinationBlock: c12Block, walletPublicKeyHash: h.walletPKH, proposal: &NoopProposal{}}
	if c.BadCtx["block"] {
		m.coordinationBlock = c12Block + 1
	}
	if c.BadCtx["wallet"] {
		m.walletPublicKeyHash = [20]byte{0x01}
	}
	if c.Extra == "actionNotAllowed" {
		m.proposal = &HeartbeatProposal{Message: [16]byte{0x01, 0x02}}
	}
	return m
}

func (h *c12Tbtc) doneTemplate(c *verifadm.Case) net.TaggedMarshaler {
	m := &signingDoneMessage{message: big.NewInt(100), attemptNumber: c12Attempt,
		signature: &tecdsa.Signature{R: big.NewInt(200), S: big.NewInt(300), RecoveryID: 2}, endBlock: c12TimeoutBlock - 100}
	if c.BadCtx["message"] {
		m.message = big.NewInt(101)
	}
	if c.BadCtx["attempt"] {
		m.attemptNumber = c12Attempt + 1
	}
	if c.Extra == "lateEndBlock" {
		m.endBlock = c12TimeoutBlock + 1
	}
	return m
}

func (h *c12Tbtc) payload(c *verifadm.Case, typ string) (interface{}, error) {
	switch typ {
	case "coordinationMessage":
		return h.decoder.Decode(h.coordinationTemplate(c), c.Wire)
	case "signingDoneMessage":
		p, err := h.decoder.Decode(h.doneTemplate(c), c.Wire)
		if err == nil && c.Extra == "nilSignature" {
			p.(*signingDoneMessage).signature = nil
		}
		return p, err
	}
	return nil, fmt.Errorf("harness: unknown tbtc payload type %q", typ)
}

// follower drives coordinationExecutor.executeFollowerRoutine.
func (h *c12Tbtc) follower(c *verifadm.Case, typ string) (string, string, error) {
	p, err := h.payload(c, typ)
	if o, d, e, stop := verifadm.Dropped(err); stop {
		return o, d, e
	}
	self := h.w.Keys[h.w.OwnerOf(c.Recv)]
	leader := h.w.Keys[c.Leader]
	ch := verifadm.NewChannel()
	executor := &coordinationExecutor{
		chain:               h.chain,
		coordinatedWallet:   h.wallet,
		membersIndexes:      h.wallet.membersByOperator(self.Address),
		operatorAddress:     self.Address,
		broadcastChannel:    ch,
		membershipValidator: h.validator,
	}
	ctx, cancel := context.WithCancel(context.Background())
	defer cancel()
	done := make(chan struct{})
	var proposal CoordinationProposal
	var faults []*coordinationFault
	var rerr error
	var panicked interface{}
	go func() {
		defer close(done)
		defer func() { panicked = recover() }()
		proposal, faults, rerr = executor.executeFollowerRoutine(ctx, leader.Address, c12Block,
			[]WalletActionType{ActionRedemption, ActionNoop})
	}()
	// the routine registers its handler before it starts to wait
	deadline := time.Now().Add(120 * time.Second)
	for ch.Handlers() == 0 {
		select {
		case <-done:
			return "", "", fmt.Errorf("harness: follower routine ended before receiving: %v / %v", rerr, panicked)
		default:
		}
		if time.Now().After(deadline) {
			return "", "", fmt.Errorf("harness: follower routine did not register a receive handler")
		}
		time.Sleep(50 * time.Microsecond)
	}
	ch.Deliver(h.w.Net(c, p))
	if !ch.Barrier(h.w, done) {
		select {
		case <-done: // the routine returned on the case's message
		default:
			return "", "", fmt.Errorf("harness: the follower loop did not reach the barrier message")
		}
	}
	cancel()
	select {
	case <-done:
	case <-time.After(120 * time.Second):
		return "", "", fmt.Errorf("harness: follower routine did not return after cancellation")
	}
	if panicked != nil {
		return "panic", fmt.Sprint(panicked), nil
	}
	describe := func() string {
		s := fmt.Sprintf("proposal=%v err=%v faults=", proposal != nil, rerr)
		for _, f := range faults {
			s += f.String() + ";"
		}
		return s
	}
	if rerr == nil {
		if proposal == nil || len(faults) != 0 || proposal != p.(*coordinationMessage).proposal {
			return "corrupted", describe(), nil
		}
		return verifadm.Accepted, describe(), nil
	}
	if proposal != nil || len(faults) == 0 {
		return "corrupted", describe(), nil
	}
	last := faults[len(faults)-1]
	if last.faultType != FaultLeaderIdleness || last.culprit != leader.Address {
		return "corrupted", describe(), nil
	}
	switch rest := faults[:len(faults)-1]; {
	case len(rest) == 0:
		return verifadm.Ignored, describe(), nil
	case len(rest) == 1 && rest[0].faultType == FaultLeaderImpersonation && rest[0].culprit == h.w.Keys[c.Key].Address:
		return verifadm.Impersonation, describe(), nil
	case len(rest) == 1 && rest[0].faultType == FaultLeaderMistake && rest[0].culprit == leader.Address:
		return verifadm.Mistake, describe(), nil
	}
	return "corrupted", describe(), nil
}

// listener drives signingDoneCheck.listen.
func (h *c12Tbtc) listener(c *verifadm.Case, typ string) (string, string, error) {
	p, err := h.payload(c, typ)
	if o, d, e, stop := verifadm.Dropped(err); stop {
		return o, d, e
	}
	var included []group.MemberIndex
	for s := 1; s <= h.w.N; s++ {
		if s != c.Excl.Who {
			included = append(included, group.MemberIndex(s))
		}
	}
	ch := verifadm.NewChannel()
	sdc := newSigningDoneCheck(h.w.N, ch, h.validator)
	ctx, cancel := context.WithCancel(context.Background())
	defer cancel()
	sdc.listen(ctx, big.NewInt(100), c12Attempt, c12TimeoutBlock, included)
	never := make(chan struct{})
	var prior *signingDoneMessage
	if seat := int(c.Wire); c.Extra == "duplicate" && seat >= 1 && seat <= h.w.N && seat != c.Excl.Who {
		good := &verifadm.Case{Key: h.w.OwnerOf(seat), Wire: c.Wire, BadCtx: map[string]bool{}, Extra: "ok"}
		pp, err := h.decoder.Decode(h.doneTemplate(good), good.Wire)
		if err != nil {
			return "", "", fmt.Errorf("harness: prior done message: %v", err)
		}
		prior = pp.(*signingDoneMessage)
		ch.Deliver(h.w.Net(good, prior))
		if !ch.Barrier(h.w, never) {
			return "", "", fmt.Errorf("harness: the listener did not reach the barrier message")
		}
		sdc.doneSignersMutex.Lock()
		stored := sdc.doneSigners[prior.senderID] == prior
		sdc.doneSignersMutex.Unlock()
		if !stored {
			// the genuine done message of the seat's owner was not admitted
			return "prior-ignored", fmt.Sprintf("the valid done message of the owner of seat %d, delivered first, was not stored", seat), nil
		}
	}
	ch.Deliver(h.w.Net(c, p))
	if !ch.Barrier(h.w, never) {
		return "", "", fmt.Errorf("harness: the listener did not reach the barrier message")
	}
	sdc.doneSignersMutex.Lock()
	defer sdc.doneSignersMutex.Unlock()
	outcome := verifadm.Ignored
	detail := fmt.Sprintf("%d done signers", len(sdc.doneSigners))
	for id, m := range sdc.doneSigners {
		switch {
		case m == prior && id == prior.senderID:
		case interface{}(m) == p && int(id) == int(c.Wire) && outcome == verifadm.Ignored:
			outcome = verifadm.Accepted
		default:
			return "corrupted", fmt.Sprintf("doneSigners[%d] holds an unexpected message from %d", id, m.senderID), nil
		}
	}
	return outcome, detail, nil
}

func TestVerif_C12_Tbtc(t *testing.T) {
	kit.RequireEngine(t)
	rep := kit.NewReport("C12", "admission_tbtc")
	defer rep.Write(t)
	w := verifadm.LoadWorld(t)
	steps := verifadm.LoadSteps(t, "pkg/tbtc")
	cases := verifadm.LoadCases(t)
	publicKeyHex, err := hex.DecodeString(
		"0471e30bca60f6548d7b42582a478ea37ada63b402af7b3ddd57f0c95bb6843175" +
			"aa0d2053a91a050a6797d85c38f2909cb7027f2344a01986aa2f9f8ca7a0c289")
	if err != nil {
		t.Fatal(err)
	}
	h := &c12Tbtc{w: w, decoder: verifadm.NewChannel(), chain: Connect()}
	// the node derives operator addresses with its chain's Signing(): it must agree with the world's
	var operators []chain.Address
	for s := 1; s <= w.N; s++ {
		k := w.Keys[w.OwnerOf(s)]
		if got := h.chain.Signing().PublicKeyBytesToAddress(k.PubBytes); got != k.Address {
			t.Fatalf("harness: address derivation differs: %v vs %v", got, k.Address)
		}
		operators = append(operators, k.Address)
	}
	h.validator = group.NewMembershipValidator(&testutils.MockLogger{}, operators, h.chain.Signing())
	h.wallet = wallet{publicKey: unmarshalPublicKey(publicKeyHex), signingGroupOperators: operators}
	h.walletPKH = (&coordinationExecutor{coordinatedWallet: h.wallet}).walletPublicKeyHash()
	// as node.go does for the signing / coordination channels
	h.decoder.SetUnmarshaler(func() net.TaggedUnmarshaler { return &signingDoneMessage{} })
	h.decoder.SetUnmarshaler(func() net.TaggedUnmarshaler { return &coordinationMessage{} })
	verifadm.Run(t, rep, w, steps, cases, map[string]verifadm.Driver{
		"coordinationExecutor.executeFollowerRoutine": h.follower,
		"signingDoneCheck.listen":                     h.listener,
	})
}
