//go:build verif

package tbtc

import (
	"testing"

	kit "github.com/keep-network/keep-core/internal/verifkit"
)

// TestVerif_C47_Constants hands the delay-step constants of the code to the
// engine, which passes them to TLC as CONSTANTS of specs/Submission.
func TestVerif_C47_Constants(t *testing.T) {
	kit.RequireEngine(t)
	rep := kit.NewReport("C47", "tbtc_constants")
	defer rep.Write(t)
	rep.Extra["dkgResultSubmissionDelayStepBlocks"] = int(dkgResultSubmissionDelayStepBlocks)
	rep.Extra["dkgResultApprovalDelayStepBlocks"] = int(dkgResultApprovalDelayStepBlocks)
	rep.Extra["inactivityClaimSubmissionDelayStepBlocks"] = int(inactivityClaimSubmissionDelayStepBlocks)
	rep.Extra["dkgResultChallengeConfirmationBlocks"] = int(dkgResultChallengeConfirmationBlocks)
	rep.Eval("consts", rep.Extra)
}
