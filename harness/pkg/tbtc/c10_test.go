//go:build verif

package tbtc

// C10 conformance harness (see /verif/specs/AttemptSelection).
//
//   TestVerif_C10_Selection  for every input emitted by Gen_AttemptSelection
//       (canonical operator layout, need = honest threshold / group quorum,
//       loop kind, attempt number, ready set, the orders to feed, and what the
//       specification allows as excluded-member lists) real signingRetryLoop /
//       dkgRetryLoop instances are created for EVERY member index of the
//       group (same layout, same message/seed), put at the attempt number, and
//       their performMembersSelection is called with the ready list in every
//       order TLC emitted. All calls must return the same value, the value
//       must be one the specification allows, errors must be the documented
//       ones. A sample of the call histories is recorded for
//       Trace_AttemptSelection (TLC infers the hidden shuffles).

import (
	"fmt"
	"math/big"
	"strings"
	"testing"

	kit "github.com/keep-network/keep-core/internal/verifkit"
	"github.com/keep-network/keep-core/pkg/chain"
	"github.com/keep-network/keep-core/pkg/protocol/group"
)

type c10Value struct {
	Kind     string `json:"kind"` // ok | toomany | exhausted | other | panic
	Excluded []int  `json:"excluded"`
	Err      string `json:"err,omitempty"`
}

func (v c10Value) key() string { return fmt.Sprintf("%s%v", v.Kind, v.Excluded) }

func c10Classify(excluded []group.MemberIndex, err error) c10Value {
	if err != nil {
		msg := err.Error()
		switch {
		case strings.Contains(msg, "asked for too many seats"):
			return c10Value{Kind: "toomany", Excluded: []int{}}
		case strings.Contains(msg, "the retry count"):
			return c10Value{Kind: "exhausted", Excluded: []int{}}
		}
		return c10Value{Kind: "other", Excluded: []int{}, Err: msg}
	}
	out := make([]int, len(excluded))
	for i, m := range excluded {
		out[i] = int(m)
	}
	return c10Value{Kind: "ok", Excluded: out}
}

// c10Select creates a fresh loop for member index `member`, puts it at the
// attempt and runs the real member selection on the ready list.
func c10Select(kind string, operators chain.Addresses, need int, message *big.Int, member, attempt int, rseq []int) (v c10Value, mutated bool) {
	defer func() {
		if p := recover(); p != nil {
			v = c10Value{Kind: "panic", Excluded: []int{}, Err: fmt.Sprint(p)}
		}
	}()
	ready := make([]group.MemberIndex, len(rseq))
	for i, m := range rseq {
		ready[i] = group.MemberIndex(m)
	}
	ops := append(chain.Addresses{}, operators...)
	params := &GroupParameters{GroupSize: len(operators), GroupQuorum: need, HonestThreshold: need}
	var excluded []group.MemberIndex
	var err error
	if kind == "signing" {
		srl := newSigningRetryLoop(logger, message, 100, group.MemberIndex(member), ops, params, nil, nil)
		srl.attemptCounter = uint(attempt)
		excluded, err = srl.performMembersSelection(ready)
	} else {
		drl := newDkgRetryLoop(logger, message, 100, group.MemberIndex(member), ops, params, nil, 0)
		drl.attemptCounter = uint(attempt)
		excluded, err = drl.performMembersSelection(ready)
	}
	for i, m := range rseq {
		if ready[i] != group.MemberIndex(m) {
			mutated = true
		}
	}
	for i := range operators {
		if ops[i] != operators[i] {
			mutated = true
		}
	}
	return c10Classify(excluded, err), mutated
}

func c10Dots(x []int) string {
	return strings.Trim(strings.ReplaceAll(fmt.Sprint(x), " ", "."), "[]")
}

func TestVerif_C10_Selection(t *testing.T) {
	kit.RequireEngine(t)
	rep := kit.NewReport("C10", "selection")
	defer rep.Write(t)
	tr := kit.NewTracer(t, "trace_selection")
	defer tr.Close()

	cases := kit.LoadCases(t, "cases.ndjson")
	nAssign := kit.IntEnv("VERIF_ASSIGNMENTS", 2)
	nMessages := kit.IntEnv("VERIF_MESSAGES", 2)
	rnd := kit.Rand(10)

	for _, c := range cases {
		layout := c.Get("layout").Ints()
		need := c.Get("need").Int()
		kind := c.Get("kind").Str()
		attempt := c.Get("attempt").Int()
		ready := c.Get("ready").Ints()
		expect := c.Get("expect").Str()
		possible := map[string]bool{}
		for _, p := range c.Get("possible").List() {
			possible[fmt.Sprint(p.Ints())] = true
		}
		orders := c.Get("orders").List()
		traced := c.Get("trace").Bool()
		inKey := fmt.Sprintf("%s:layout=%s;need=%d;attempt=%d;ready=%s", kind, c10Dots(layout), need, attempt, c10Dots(ready))

		nOps := 0
		for _, o := range layout {
			if o > nOps {
				nOps = o
			}
		}
		for ai := 0; ai < nAssign; ai++ {
			// address assignment: first the monotone one, then seeded bijections
			perm := make([]int, nOps)
			for i := range perm {
				perm[i] = i
			}
			if ai > 0 {
				perm = rnd.Perm(nOps)
			}
			operators := make(chain.Addresses, len(layout))
			for i, o := range layout {
				operators[i] = chain.Address(fmt.Sprintf("0x%040x", (perm[o-1]+1)*104729))
			}
			for mi := 0; mi < nMessages; mi++ {
				message := new(big.Int).Rand(rnd, new(big.Int).Lsh(big.NewInt(1), 256))
				meta := map[string]interface{}{"layout": layout, "need": need, "kind": kind, "attempt": attempt,
					"ready": ready, "message": message.String(), "assignment": perm}
				diverge := func(check, what string, expected, observed interface{}) {
					rep.Diverge(inKey+":"+check, what, meta, expected, observed)
				}
				emit := traced && ai == 0 && mi == 0
				if emit {
					tr.Reset(map[string]interface{}{"layout": layout, "need": need, "kind": kind, "attempt": attempt,
						"ready": ready, "message": message.String()})
				}
				var first *c10Value
				var firstDesc string
				calls := 0
				for _, ord := range orders {
					rseq := ord.Ints()
					for member := 1; member <= len(layout); member++ {
						v, mutated := c10Select(kind, operators, need, message, member, attempt, rseq)
						calls++
						if emit {
							tr.Emit(map[string]interface{}{"event": "Select", "member": member, "rseq": rseq, "kind": v.Kind, "excluded": v.Excluded})
						}
						if mutated {
							diverge("mutated-input", "performMembersSelection modified the ready list or the operator list it was given", nil, nil)
						}
						desc := fmt.Sprintf("member %d with ready list %v", member, rseq)
						if first == nil {
							fv := v
							first, firstDesc = &fv, desc
						} else if v.key() != first.key() {
							diverge("agreement", fmt.Sprintf("the loop of %s derived excluded members %v (%s), the loop of %s derived %v (%s)",
								desc, v.Excluded, v.Kind, firstDesc, first.Excluded, first.Kind), first, v)
						}
						switch v.Kind {
						case "panic", "other":
							diverge("error", fmt.Sprintf("%s: unexpected failure: %s", desc, v.Err), expect, v)
						case "ok":
							if expect != "ok" {
								diverge("error", fmt.Sprintf("%s: a selection was returned where the specification expects the error %q", desc, expect), expect, v)
							} else if !possible[fmt.Sprint(v.Excluded)] {
								included := len(layout) - len(v.Excluded)
								diverge("outcome", fmt.Sprintf("%s: excluded members %v (%d included, need %d) is not a selection any outcome of the shuffles allows",
									desc, v.Excluded, included, need), c.Get("possible").X, v.Excluded)
							}
						default:
							if v.Kind != expect {
								diverge("error", fmt.Sprintf("%s: returned error %q, the specification expects %q", desc, v.Kind, expect), expect, v)
							}
						}
					}
				}
				rep.Count(kind+"_calls", calls)
				nontrivial := ""
				if expect == "ok" && len(orders) > 1 {
					nontrivial = inKey
				}
				rep.Eval(nontrivial, map[string]interface{}{"input": inKey, "calls": calls, "value": first})
				rep.Count("expect_"+expect, 1)
			}
		}
	}
	rep.Extra["trace_events"] = tr.N()
	rep.Extra["inputs"] = len(cases)
}
