//go:build verif

package tbtc

// C36 conformance harness (see /verif/specs/Heartbeat).
//
//   TestVerif_C36_Replay  every sequence of heartbeat executions emitted by
//                         Gen_Heartbeat is run on the real
//                         heartbeatAction.execute: one shared real
//                         heartbeatFailureCounter, a fresh heartbeatAction
//                         per execution (as node.handleHeartbeatProposal
//                         does), scripted signing executor, recording
//                         inactivity claim executor, the package's local
//                         chain for eligible stake and proposal validation.
//                         After every execution the returned error class, the
//                         signing request, the claim (members, heartbeat-failed
//                         flag, session id), the deadlines armed through
//                         withCancelOnBlock and the counters of ALL wallets
//                         are compared with the specification.
//   TestVerif_C36_Trace   long random runs over three wallets recorded as
//                         ndjson for Trace_Heartbeat.

import (
	"context"
	"crypto/ecdsa"
	"crypto/rand"
	"encoding/hex"
	"fmt"
	"math/big"
	"runtime"
	"sort"
	"strings"
	"sync"
	"testing"
	"time"

	kit "github.com/keep-network/keep-core/internal/verifkit"
	"github.com/keep-network/keep-core/pkg/bitcoin"
	"github.com/keep-network/keep-core/pkg/chain"
	"github.com/keep-network/keep-core/pkg/protocol/group"
	"github.com/keep-network/keep-core/pkg/tecdsa"
)

// ---------------------------------------------------------------- script

type c36Script struct {
	W        int    `json:"w"`
	Staking  string `json:"staking"`
	Valid    bool   `json:"valid"`
	ExpiryOK bool   `json:"expiryOK"`
	SignErr  bool   `json:"signErr"`
	Active   int    `json:"active"`
	Inactive []int  `json:"inactive"`
	ClaimErr bool   `json:"claimErr"`
}

func c36ScriptOf(v kit.V) c36Script {
	s := c36Script{W: v.Get("w").Int(), Staking: v.Get("staking").Str(), Valid: v.Get("valid").Bool(),
		ExpiryOK: v.Get("expiryOK").Bool(), SignErr: v.Get("signErr").Bool(), Active: v.Get("active").Int(),
		Inactive: v.Get("inactive").Ints(), ClaimErr: v.Get("claimErr").Bool()}
	sort.Ints(s.Inactive)
	if s.Inactive == nil {
		s.Inactive = []int{}
	}
	return s
}

// c36Obs is everything observable about one execution.
type c36Obs struct {
	Err       string `json:"err"`
	Signed    bool   `json:"signed"`
	SignArgs  string `json:"signArgs"` // "ok" or what was wrong with message/start block/context
	Claimed   bool   `json:"claimed"`
	Members   []int  `json:"members"`
	HbFailed  bool   `json:"hbFailed"`
	ClaimArgs string `json:"claimArgs"`
	Armed     []int  `json:"armed"` // expiry - block for every withCancelOnBlock
	Fail      []int  `json:"fail"`  // counters of all wallets afterwards
	Validated string `json:"validated"`
}

// ---------------------------------------------------------------- world

type c36Chain struct {
	*localChain
	mu        sync.Mutex
	script    c36Script
	validated [][20]byte
}

func (c *c36Chain) OperatorToStakingProvider() (chain.Address, bool, error) {
	c.mu.Lock()
	defer c.mu.Unlock()
	switch c.script.Staking {
	case "provider-error":
		return "", false, fmt.Errorf("scripted provider error")
	case "not-registered":
		return "", false, nil
	}
	return c.localChain.OperatorToStakingProvider()
}

func (c *c36Chain) ValidateHeartbeatProposal(pkh [20]byte, p *HeartbeatProposal) error {
	c.mu.Lock()
	c.validated = append(c.validated, pkh)
	c.mu.Unlock()
	return c.localChain.ValidateHeartbeatProposal(pkh, p)
}

type c36World struct {
	t       *testing.T
	chain   *c36Chain
	counter *heartbeatFailureCounter
	wallets []wallet
	keys    []string
	seq     uint64
	herr    string
}

func c36NewWorld(t *testing.T, nWallets int) *c36World {
	w := &c36World{t: t, counter: newHeartbeatFailureCounter()}
	w.chain = &c36Chain{localChain: Connect()}
	for i := 0; i < nWallets; i++ {
		priv, err := ecdsa.GenerateKey(tecdsa.Curve, rand.Reader)
		if err != nil {
			t.Fatal(err)
		}
		pub := &priv.PublicKey
		b, err := marshalPublicKey(pub)
		if err != nil {
			t.Fatal(err)
		}
		w.wallets = append(w.wallets, wallet{publicKey: pub})
		w.keys = append(w.keys, hex.EncodeToString(b))
	}
	return w
}

// fresh starts a new node: new shared counter, preset through its own API.
func (w *c36World) fresh(preset []int) {
	w.counter = newHeartbeatFailureCounter()
	for i, n := range preset {
		for k := 0; k < n; k++ {
			w.counter.increment(w.keys[i])
		}
	}
}

func (w *c36World) counters() []int {
	out := make([]int, len(w.keys))
	for i, k := range w.keys {
		out[i] = int(w.counter.get(k))
	}
	return out
}

type c36Signer struct {
	w        *c36World
	s        c36Script
	armed    *c36Armed
	called   int
	message  *big.Int
	start    uint64
	ctxErr   error
	armedNow int
}

func (e *c36Signer) sign(ctx context.Context, message *big.Int, startBlock uint64) (*tecdsa.Signature, *signingActivityReport, uint64, error) {
	e.called++
	e.message, e.start, e.ctxErr = message, startBlock, ctx.Err()
	e.armedNow = e.armed.waitFor(1)
	if e.s.SignErr {
		return nil, nil, 0, fmt.Errorf("scripted signing error")
	}
	rep := &signingActivityReport{activeMembers: []group.MemberIndex{}, inactiveMembers: []group.MemberIndex{}}
	for i := 1; i <= e.s.Active; i++ {
		rep.activeMembers = append(rep.activeMembers, group.MemberIndex(i))
	}
	for _, m := range e.s.Inactive {
		rep.inactiveMembers = append(rep.inactiveMembers, group.MemberIndex(m))
	}
	return &tecdsa.Signature{R: big.NewInt(1), S: big.NewInt(2)}, rep, startBlock + 1, nil
}

type c36Claimer struct {
	s        c36Script
	armed    *c36Armed
	called   int
	members  []int
	hbFailed bool
	session  *big.Int
	ctxErr   error
}

func (e *c36Claimer) claimInactivity(ctx context.Context, inactive []group.MemberIndex, heartbeatFailed bool, sessionID *big.Int) error {
	e.called++
	e.members = []int{}
	for _, m := range inactive {
		e.members = append(e.members, int(m))
	}
	e.hbFailed, e.session, e.ctxErr = heartbeatFailed, sessionID, ctx.Err()
	e.armed.waitFor(2)
	if e.s.ClaimErr {
		return fmt.Errorf("scripted claim error")
	}
	return nil
}

// c36Armed records the blocks handed to waitForBlockFn (by the goroutine
// withCancelOnBlock starts) and keeps those goroutines waiting until the
// execution is over, so the armed contexts stay alive like on a real chain.
type c36Armed struct {
	mu      sync.Mutex
	blocks  []uint64
	release chan struct{}
}

func (a *c36Armed) fn(ctx context.Context, block uint64) error {
	a.mu.Lock()
	a.blocks = append(a.blocks, block)
	a.mu.Unlock()
	select {
	case <-a.release:
	case <-ctx.Done():
	}
	return nil
}

func (a *c36Armed) count() int { a.mu.Lock(); defer a.mu.Unlock(); return len(a.blocks) }

// waitFor waits (bounded) until n deadlines were armed; returns the count.
func (a *c36Armed) waitFor(n int) int {
	deadline := time.Now().Add(60 * time.Second)
	for i := 0; a.count() < n && time.Now().Before(deadline); i++ {
		if i < 200 {
			runtime.Gosched()
		} else {
			time.Sleep(50 * time.Microsecond)
		}
	}
	return a.count()
}

func c36ErrClass(err error) string {
	if err == nil {
		return "nil"
	}
	m := err.Error()
	switch {
	case strings.Contains(m, "failed to check if the operator is unstaking"):
		return "unstaking-check"
	case strings.Contains(m, "heartbeat proposal is invalid"):
		return "invalid-proposal"
	case strings.Contains(m, "invalid proposal expiry block"):
		return "invalid-expiry"
	case strings.Contains(m, "heartbeat signing process errored out"):
		return "signing"
	case strings.Contains(m, "undetermined set of inactive members"):
		return "undetermined"
	case strings.Contains(m, "error while notifying about operator inactivity"):
		return "claim"
	}
	return "other:" + m
}

// exec runs one real heartbeatAction.execute under the script.
func (w *c36World) exec(s c36Script) (obs c36Obs) {
	w.seq++
	wi := s.W - 1
	proposal := &HeartbeatProposal{}
	copy(proposal.Message[:], []byte{0xff, 0xff, 0xff, 0xff, 0xff, 0xff, 0xff, 0xff})
	big.NewInt(int64(w.seq)).FillBytes(proposal.Message[8:])
	hash := bitcoin.ComputeHash(proposal.Message[:])
	wantMsg := new(big.Int).SetBytes(hash[:])

	// environment
	w.chain.mu.Lock()
	w.chain.script = s
	w.chain.validated = nil
	w.chain.mu.Unlock()
	switch s.Staking {
	case "unstaking":
		w.chain.setOperatorsEligibleStake(big.NewInt(0))
	case "stake-error":
		w.chain.eligibleStakesMutex.Lock()
		delete(w.chain.eligibleStakes, stakingProvider)
		w.chain.eligibleStakesMutex.Unlock()
	default:
		w.chain.setOperatorsEligibleStake(big.NewInt(100000))
	}
	w.chain.setHeartbeatProposalValidationResult(proposal, s.Valid)

	start := uint64(1000 + 7*w.seq)
	expiry := start + heartbeatTotalProposalValidityBlocks
	if !s.ExpiryOK {
		expiry = heartbeatInactivityClaimValidityBlocks - 1
	}
	armed := &c36Armed{release: make(chan struct{})}
	signer := &c36Signer{w: w, s: s, armed: armed}
	claimer := &c36Claimer{s: s, armed: armed}
	action := newHeartbeatAction(logger, w.chain, w.wallets[wi], signer, proposal, w.counter, claimer,
		start, expiry, armed.fn)

	var err error
	func() {
		defer func() {
			if p := recover(); p != nil {
				err = fmt.Errorf("PANIC: %v", p)
			}
		}()
		err = action.execute()
	}()
	// paths that arm nothing could only arm asynchronously: give a stray
	// goroutine a moment (can only make a misbehaviour go unnoticed)
	if signer.called == 0 {
		runtime.Gosched()
	}
	close(armed.release)

	obs.Err = c36ErrClass(err)
	obs.Signed = signer.called > 0
	obs.SignArgs = "ok"
	if signer.called > 1 {
		obs.SignArgs = fmt.Sprintf("sign called %d times", signer.called)
	} else if signer.called == 1 {
		switch {
		case signer.message == nil || signer.message.Cmp(wantMsg) != 0:
			obs.SignArgs = "message is not the hash of the proposal message"
		case signer.start != start:
			obs.SignArgs = fmt.Sprintf("start block %d instead of %d", signer.start, start)
		case signer.ctxErr != nil:
			obs.SignArgs = "signing context already cancelled"
		case signer.armedNow < 1:
			w.herr = "signing deadline was not armed within 60 s"
		}
	}
	obs.Claimed = claimer.called > 0
	obs.Members = []int{}
	obs.ClaimArgs = "ok"
	if claimer.called > 1 {
		obs.ClaimArgs = fmt.Sprintf("claimInactivity called %d times", claimer.called)
	} else if claimer.called == 1 {
		obs.Members = claimer.members
		obs.HbFailed = claimer.hbFailed
		switch {
		case claimer.session == nil || claimer.session.Cmp(wantMsg) != 0:
			obs.ClaimArgs = "session id is not the signed heartbeat message"
		case claimer.ctxErr != nil:
			obs.ClaimArgs = "claim context already cancelled"
		}
	}
	obs.Armed = []int{}
	armed.mu.Lock()
	for _, b := range armed.blocks {
		obs.Armed = append(obs.Armed, int(int64(expiry)-int64(b)))
	}
	armed.mu.Unlock()
	obs.Fail = w.counters()
	obs.Validated = "ok"
	w.chain.mu.Lock()
	if len(w.chain.validated) > 0 {
		want := bitcoin.PublicKeyHash(w.wallets[wi].publicKey)
		for _, v := range w.chain.validated {
			if v != want {
				obs.Validated = "proposal validated for another wallet"
			}
		}
	}
	w.chain.mu.Unlock()
	return obs
}

func c36SameInts(a, b []int) bool {
	if len(a) != len(b) {
		return false
	}
	for i := range a {
		if a[i] != b[i] {
			return false
		}
	}
	return true
}

// compare returns the name of the first field in which the observation
// differs from the specification's step ("" if none).
func c36Compare(st kit.V, obs c36Obs) string {
	members := st.Get("members").Ints()
	sort.Ints(members)
	switch {
	case strings.HasPrefix(obs.Err, "other:PANIC"):
		return "panic"
	case st.Get("signed").Bool() != obs.Signed:
		return "signed"
	case st.Get("claimed").Bool() != obs.Claimed:
		return "claimed"
	case !c36SameInts(members, obs.Members):
		return "members"
	case st.Get("hbFailed").Bool() != obs.HbFailed:
		return "heartbeat-failed-flag"
	case !c36SameInts(st.Get("fail").Ints(), obs.Fail):
		return "counters"
	case st.Get("err").Str() != obs.Err:
		return "error"
	case !c36SameInts(st.Get("armed").Ints(), obs.Armed):
		return "deadlines"
	case obs.SignArgs != "ok":
		return "sign-arguments"
	case obs.ClaimArgs != "ok":
		return "claim-arguments"
	case obs.Validated != "ok":
		return "validated-wallet"
	}
	return ""
}

// ---------------------------------------------------------------- replay

func TestVerif_C36_Replay(t *testing.T) {
	kit.RequireEngine(t)
	rep := kit.NewReport("C36", "replay")
	defer rep.Write(t)
	w := c36NewWorld(t, 2)

	type div struct {
		length    int
		key, what string
		c, e, o   interface{}
	}
	var divs []div
	nb := 0
	for _, fn := range []string{"behaviours_a.ndjson", "behaviours_b.ndjson", "behaviours_c.ndjson"} {
		lines := kit.LoadCases(t, fn)
		for _, line := range lines {
			prefix := line.Get("prefix").List()
			preset := line.Get("init").Ints()
			for _, nx := range line.Get("next").List() {
				steps := append(append([]kit.V{}, prefix...), nx)
				nb++
				w.fresh(preset)
				var hist []c36Script
				claims := 0
				for i, st := range steps {
					s := c36ScriptOf(st.Get("s"))
					hist = append(hist, s)
					obs := w.exec(s)
					if w.herr != "" {
						t.Fatalf("c36 harness: %s", w.herr)
					}
					if obs.Claimed {
						claims++
					}
					if st.Get("claimed").Bool() {
						rep.Count("claims_expected", 1)
					}
					if f := c36Compare(st, obs); f != "" {
						key := fmt.Sprintf("step:%s:%s", st.Get("kind").Str(), f)
						what := fmt.Sprintf("execution %d of the sequence (specification: %s) differs from the specification in %s", i+1, st.Get("kind").Str(), f)
						switch {
						case f == "claimed" && obs.Claimed:
							what = "an inactivity claim was made where the specification makes none: " + what
						case f == "claimed":
							what = "no inactivity claim was made where the specification makes one: " + what
						case f == "members":
							what = "the claim does not name exactly the members that did not announce readiness: " + what
						case f == "counters":
							what = "the consecutive-failure counters differ: " + what
						}
						divs = append(divs, div{len(steps), key, what,
							map[string]interface{}{"preset": preset, "history": hist, "step": i + 1}, st.X, obs})
						break
					}
				}
				key := ""
				if claims > 0 || len(steps) > 1 {
					key = kit.Hash(hist) + kit.Hash(preset)
				}
				var sample interface{}
				if claims > 0 {
					sample = map[string]interface{}{"preset": preset, "history": hist, "claims": claims}
				}
				rep.Eval(key, sample)
				rep.Count("executions", len(steps))
				rep.Count("claims", claims)
			}
		}
	}
	rep.Extra["behaviours"] = nb
	rep.Extra["code_constants"] = map[string]int{
		"heartbeatConsecutiveFailureThreshold": heartbeatConsecutiveFailureThreshold,
		"heartbeatSigningMinimumActiveMembers": heartbeatSigningMinimumActiveMembers,
		"heartbeatInactivityClaimValidityBlocks": heartbeatInactivityClaimValidityBlocks,
		"heartbeatTimeoutSafetyMarginBlocks":   heartbeatTimeoutSafetyMarginBlocks,
	}
	sort.SliceStable(divs, func(i, j int) bool { return divs[i].length < divs[j].length })
	perKey := map[string]int{}
	for _, d := range divs {
		perKey[d.key]++
		if perKey[d.key] <= 2 {
			rep.Diverge(d.key, d.what, d.c, d.e, d.o)
		}
	}
	for k, n := range perKey {
		rep.Count("div:"+k, n)
	}
}

// ---------------------------------------------------------------- trace

func TestVerif_C36_Trace(t *testing.T) {
	kit.RequireEngine(t)
	rep := kit.NewReport("C36", "trace")
	defer rep.Write(t)
	tr := kit.NewTracer(t, "trace_heartbeat")
	defer tr.Close()
	w := c36NewWorld(t, 3)
	runs := kit.IntEnv("VERIF_RUNS", 30)
	length := kit.IntEnv("VERIF_LEN", 40)
	for r := 0; r < runs; r++ {
		rnd := kit.Rand(int64(3600 + r))
		w.fresh([]int{0, 0, 0})
		tr.Reset(map[string]interface{}{"run": r})
		claims := 0
		// each run favours one kind of disturbance between low-activity heartbeats
		for i := 0; i < length; i++ {
			s := c36Script{W: 1 + rnd.Intn(3), Staking: "ok", Valid: true, ExpiryOK: true, Active: 0, Inactive: []int{}}
			if rnd.Intn(3) > 0 {
				s.W = 1 + (r % 3) // concentrate on one wallet so that runs build up
			}
			switch p := rnd.Intn(100); {
			case p < 8:
				s.Staking = []string{"unstaking", "unstaking", "provider-error", "not-registered", "stake-error"}[rnd.Intn(5)]
			case p < 14:
				s.Valid = false
			case p < 17:
				s.ExpiryOK = false
			case p < 27:
				s.SignErr = true
			}
			switch p := rnd.Intn(100); {
			case p < 18:
				s.Active = 70 + rnd.Intn(31)
			case p < 30:
				s.Active = 69
			default:
				s.Active = rnd.Intn(70)
			}
			for m := 1; m <= 5; m++ {
				if rnd.Intn(3) == 0 {
					s.Inactive = append(s.Inactive, m*7)
				}
			}
			s.ClaimErr = rnd.Intn(5) == 0
			obs := w.exec(s)
			if w.herr != "" {
				t.Fatalf("c36 harness: %s", w.herr)
			}
			if strings.HasPrefix(obs.Err, "other:PANIC") {
				rep.Diverge("panic:execute", "heartbeatAction.execute panicked: "+obs.Err, s, nil, obs)
			}
			if obs.SignArgs != "ok" || obs.ClaimArgs != "ok" || obs.Validated != "ok" {
				rep.Diverge("trace:arguments", "wrong arguments handed to the signing / claim executor or chain: "+obs.SignArgs+" / "+obs.ClaimArgs+" / "+obs.Validated, s, nil, obs)
			}
			if obs.Claimed {
				claims++
			}
			sort.Ints(obs.Members)
			tr.Emit(map[string]interface{}{"event": "Exec", "w": s.W, "staking": s.Staking, "valid": s.Valid,
				"expiryOK": s.ExpiryOK, "signErr": s.SignErr, "active": s.Active, "inactive": s.Inactive, "claimErr": s.ClaimErr,
				"obsErr": obs.Err, "obsSigned": obs.Signed, "obsClaimed": obs.Claimed, "obsMembers": obs.Members,
				"obsHbFailed": obs.HbFailed, "obsArmed": obs.Armed, "obsFail": obs.Fail,
				"signArgs": obs.SignArgs, "claimArgs": obs.ClaimArgs})
		}
		key := ""
		if claims > 0 {
			key = fmt.Sprintf("run%d", r)
		}
		rep.Eval(key, nil)
		rep.Count("claims", claims)
	}
	rep.Extra["events"] = tr.N()
}
