//go:build verif

package tbtc

// XWL: composition harness for /verif/specs/WalletLifecycle.
//
// TestVerif_XWL_Constants   prints the block constants the specification takes
//                           from the built code.
// TestVerif_XWL_Node        runs the REAL node-level path end to end, for three
//                           operators (three real `node` objects over
//                           pkg/net/local and the package's local chain) and two
//                           wallets, over several consecutive coordination
//                           windows:
//                             node.runCoordinationLayer (real window watcher,
//                             real executeCoordinationProcedure, real
//                             coordinationExecutor.coordinate with leader and
//                             followers talking over the network, real
//                             processCoordinationResult -> handle*Proposal ->
//                             walletDispatcher.dispatch) -> the real actions'
//                             execute() (heartbeat, redemption, deposit sweep)
//                             -> for heartbeats the real signingExecutor.sign
//                             with the real signingRetryLoop and announcer.
//                           Only the environment is scripted: the block
//                           counter (a clock the driver advances), the network
//                           (inbound messages are queued and delivered or
//                           dropped by the driver), the chain's proposal
//                           validation (an observation point inside execute()
//                           where an action can also be parked) and the
//                           proposal generator.  The driver acts only when
//                           every goroutine of the system is blocked
//                           (runtime.Stack fence), so nothing depends on timing.
//                           Signing attempts never reach the honest threshold
//                           of ready members (announcements are lost), so the
//                           threshold protocol (tss) never starts and every
//                           signing ends when the retry loop is exhausted.
// TestVerif_XWL_Signing     the signature path without tss: the same world, but
//                           the result handler dispatches an instrumented
//                           action (through the real walletDispatcher of the
//                           node) whose execute() wires the real
//                           signingRetryLoop, the real announcer and the real
//                           signingDoneCheck exactly like signingExecutor.sign,
//                           with a scripted attempt function.
//
// Every observation is written to an ndjson trace (events with sequence numbers
// taken at linearization points) validated against the composition by
// Trace_WalletLifecycle.tla.

import (
	"context"
	"crypto/ecdsa"
	"crypto/sha256"
	"encoding/hex"
	"fmt"
	"math/big"
	"runtime"
	"strings"
	"sync"
	"testing"
	"time"

	kit "github.com/keep-network/keep-core/internal/verifkit"
	"github.com/keep-network/keep-core/pkg/bitcoin"
	"github.com/keep-network/keep-core/pkg/chain"
	"github.com/keep-network/keep-core/pkg/chain/local_v1"
	"github.com/keep-network/keep-core/pkg/generator"
	"github.com/keep-network/keep-core/pkg/internal/tecdsatest"
	"github.com/keep-network/keep-core/pkg/internal/verifhook"
	"github.com/keep-network/keep-core/pkg/net"
	netlocal "github.com/keep-network/keep-core/pkg/net/local"
	"github.com/keep-network/keep-core/pkg/operator"
	"github.com/keep-network/keep-core/pkg/protocol/announcer"
	announcerpb "github.com/keep-network/keep-core/pkg/protocol/announcer/gen/pb"
	"github.com/keep-network/keep-core/pkg/protocol/group"
	"github.com/keep-network/keep-core/pkg/tecdsa"
	"github.com/keep-network/keep-core/pkg/tecdsa/signing"
	"google.golang.org/protobuf/proto"
)

const xwlWait = 180 * time.Second

// ---------------------------------------------------------------- constants

func TestVerif_XWL_Constants(t *testing.T) {
	kit.RequireEngine(t)
	rep := kit.NewReport("XWL", "constants")
	defer rep.Write(t)

	nop := func(ctx context.Context, b uint64) error { return nil }
	w := wallet{}
	ds := newDepositSweepAction(logger.With(), nil, nil, w, nil, &DepositSweepProposal{SweepTxFee: big.NewInt(0)}, 0, 0, nop)
	rd := newRedemptionAction(logger.With(), nil, nil, w, nil, &RedemptionProposal{RedemptionTxFee: big.NewInt(0)}, 0, 0, nop)
	mf := newMovingFundsAction(logger.With(), nil, nil, w, nil, &MovingFundsProposal{MovingFundsTxFee: big.NewInt(0)}, 0, 0, nop)
	ms := newMovedFundsSweepAction(logger.With(), nil, nil, w, nil, &MovedFundsSweepProposal{SweepTxFee: big.NewInt(0)}, 0, 0, nop)
	sec := func(d time.Duration) int { return int(d / time.Second) }
	type act struct {
		Validity         uint64 `json:"validity"`
		Margin           uint64 `json:"margin"`
		StartOffset      uint64 `json:"startOffset"`
		PostKind         string `json:"postKind"`
		BroadcastSeconds int    `json:"broadcastSeconds"`
	}
	actions := map[string]act{
		"depositSweep":    {(&DepositSweepProposal{}).ValidityBlocks(), ds.signingTimeoutSafetyMarginBlocks, 0, "broadcast", sec(ds.broadcastTimeout) + sec(ds.broadcastCheckDelay)},
		"redemption":      {(&RedemptionProposal{}).ValidityBlocks(), rd.signingTimeoutSafetyMarginBlocks, 0, "broadcast", sec(rd.broadcastTimeout) + sec(rd.broadcastCheckDelay)},
		"movingFunds":     {(&MovingFundsProposal{}).ValidityBlocks(), mf.signingTimeoutSafetyMarginBlocks, movingFundsCommitmentConfirmationBlocks, "broadcast", sec(mf.broadcastTimeout) + sec(mf.broadcastCheckDelay)},
		"movedFundsSweep": {(&MovedFundsSweepProposal{}).ValidityBlocks(), ms.signingTimeoutSafetyMarginBlocks, 0, "broadcast", sec(ms.broadcastTimeout) + sec(ms.broadcastCheckDelay)},
		"heartbeat":       {(&HeartbeatProposal{}).ValidityBlocks(), heartbeatInactivityClaimValidityBlocks, 0, "claim", 0},
	}
	win := newCoordinationWindow(coordinationFrequencyBlocks)
	rep.Extra["constants"] = map[string]interface{}{
		"actions":          actions,
		"F":                coordinationFrequencyBlocks,
		"activeBlocks":     win.activePhaseEndBlock() - win.coordinationBlock,
		"durationBlocks":   win.endBlock() - win.coordinationBlock,
		"claimEndMargin":   heartbeatTimeoutSafetyMarginBlocks,
		"attemptsLimit":    signingAttemptsLimit,
		"attemptMaxBlocks": signingAttemptMaximumBlocks(),
		"announceDelay":    signingAttemptAnnouncementDelayBlocks,
		"announceActive":   signingAttemptAnnouncementActiveBlocks,
		"protocolBlocks":   signingAttemptMaximumProtocolBlocks,
		"coolDown":         signingAttemptCoolDownBlocks,
	}
	for name := range actions {
		rep.Eval(name, nil)
	}
}

// ---------------------------------------------------------------- world

type xwlWaiter struct {
	node  int
	block uint64
	async bool // registered by the goroutine withCancelOnBlock starts
	ch    chan uint64
	fired bool
}

type xwlWatcher struct {
	ctx context.Context
	ch  chan uint64
}

type xwlDelivery struct {
	to      int
	wallet  string
	kind    string // "coord" | "ann" | "other"
	from    int    // node of the key that sent it (0 = unknown)
	seat    int
	k       uint64 // coord: window index
	act     string
	ver     int
	att     int // ann: attempt number
	sess    string
	ctx     context.Context
	handler func(net.Message)
	msg     net.Message
	done    bool
}

// xwlSent / xwlListen: what was broadcast and who listens, so that the driver
// can wait for (wall-clock) retransmissions to reach late listeners before it
// decides what to deliver.
type xwlSent struct {
	from   int
	wallet string
	kind   string // "coord" | "ann"
	key    string
	ctx    context.Context
}

type xwlListen struct {
	node   int
	wallet string
	chKind string // "coord" | "signing"
	ctx    context.Context
	got    map[string]bool
}

type xwlPlan struct {
	propose string       // what the leader's generator returns
	lose    map[int]bool // followers that never receive the coordination messages
	valid   bool         // outcome of the chain's proposal validation
	hold    map[int]bool // members whose execute() is parked in the validation call
	ann     func(to, from, att int) bool
	sign    bool // TestVerif_XWL_Signing: instrumented action with scripted attempts
	failAt  map[int]bool
}

type xwlWalletT struct {
	name    string
	w       wallet
	pkh     [20]byte
	keyHex  string
	idx     int
	members []int // seat i+1 -> node
}

type xwlNodeT struct {
	id     int
	lc     *localChain
	n      *node
	addr   chain.Address
	pubHex string
	cancel context.CancelFunc
}

type xwlProcKey struct {
	m int
	w string
	k uint64
}

type xwlWorld struct {
	t   *testing.T
	rep *kit.Report
	tr  *kit.Tracer
	tag string

	mu       sync.Mutex
	now      uint64
	waiters  []*xwlWaiter
	watchers map[int][]*xwlWatcher
	inbox    []*xwlDelivery
	curWin   uint64
	plans    map[string]*xwlPlan
	procs    map[string]*xwlProcKey // goroutine id -> result being processed
	hooked   map[string]bool
	gates    map[xwlProcKey]chan struct{}
	parked   map[xwlProcKey]bool
	fatal    string
	meets    map[string]*xwlMeet
	sends    []*xwlSent
	listens  []*xwlListen

	nodes   []*xwlNodeT // 1-based
	wallets []*xwlWalletT
	byAddr  map[chain.Address]int
	byPub   map[string]int
	counts  map[string]int
}

func xwlGoid() string {
	buf := make([]byte, 64)
	n := runtime.Stack(buf, false)
	f := strings.Fields(string(buf[:n]))
	if len(f) >= 2 {
		return f[1]
	}
	return "?"
}

func (w *xwlWorld) emit(ev string, kv ...interface{}) {
	m := map[string]interface{}{"event": ev}
	for i := 0; i+1 < len(kv); i += 2 {
		m[kv[i].(string)] = kv[i+1]
	}
	w.tr.Emit(m)
	w.mu.Lock()
	w.counts[ev]++
	w.mu.Unlock()
}

// emitLocked: as emit, for callers that hold w.mu
func (w *xwlWorld) emitLocked(ev string, kv ...interface{}) {
	m := map[string]interface{}{"event": ev}
	for i := 0; i+1 < len(kv); i += 2 {
		m[kv[i].(string)] = kv[i+1]
	}
	w.tr.Emit(m)
	w.counts[ev]++
}

// unrealized: a scenario did not unfold as scripted. Not fatal: the recorded
// run is still validated (a run that is not a behaviour of the specification
// is a violation; a valid run that misses its scenario makes the check broken).
func (w *xwlWorld) unrealized(format string, a ...interface{}) {
	w.rep.Note("unrealized: "+format, a...)
	w.rep.Count("unrealized", 1)
}

func (w *xwlWorld) fail(format string, a ...interface{}) {
	w.mu.Lock()
	if w.fatal == "" {
		w.fatal = fmt.Sprintf(format, a...)
	}
	w.mu.Unlock()
}

func (w *xwlWorld) walletByPKH(pkh [20]byte) *xwlWalletT {
	for _, x := range w.wallets {
		if x.pkh == pkh {
			return x
		}
	}
	return nil
}

func (w *xwlWorld) walletByName(name string) *xwlWalletT {
	for _, x := range w.wallets {
		if x.name == name {
			return x
		}
	}
	return nil
}

func (w *xwlWorld) walletByChannel(name string) (*xwlWalletT, string) {
	for _, x := range w.wallets {
		if strings.Contains(name, x.keyHex) {
			if strings.HasSuffix(name, "-coordination") {
				return x, "coord"
			}
			return x, "signing"
		}
	}
	return nil, ""
}

func xwlPlanKey(wal string, k uint64) string { return fmt.Sprintf("%s/%d", wal, k) }

func (w *xwlWorld) plan(wal string, k uint64) *xwlPlan {
	w.mu.Lock()
	defer w.mu.Unlock()
	p := w.plans[xwlPlanKey(wal, k)]
	if p == nil {
		p = &xwlPlan{propose: "Noop"}
	}
	return p
}

// ---------------------------------------------------------------- proposals

// the proposal's content identifies <<wallet, window, version>>
func (w *xwlWorld) makeProposal(wal *xwlWalletT, k uint64, act string, ver int) CoordinationProposal {
	id := int64(wal.idx)*1000000 + int64(k)*100 + int64(ver)
	switch act {
	case "Heartbeat":
		var m [16]byte
		copy(m[:], []byte{0xff, 0xff, 0xff, 0xff, 0xff, 0xff, 0xff, 0xff})
		m[8], m[9], m[10], m[11] = byte(wal.idx), byte(k>>8), byte(k), byte(ver)
		copy(m[12:], []byte(w.tag + "    ")[:4])
		return &HeartbeatProposal{Message: m}
	case "Redemption":
		script, _ := hex.DecodeString("00148db50eb52063ea9d98b3eac91489a90f738986f6")
		return &RedemptionProposal{RedeemersOutputScripts: []bitcoin.Script{script}, RedemptionTxFee: big.NewInt(id)}
	case "DepositSweep":
		return &DepositSweepProposal{SweepTxFee: big.NewInt(id)}
	}
	return &NoopProposal{}
}

func xwlDecodeProposal(p CoordinationProposal) (act string, k uint64, ver int) {
	if p == nil {
		return "Noop", 0, 0
	}
	act = p.ActionType().String()
	switch x := p.(type) {
	case *HeartbeatProposal:
		return act, uint64(x.Message[9])<<8 | uint64(x.Message[10]), int(x.Message[11])
	case *RedemptionProposal:
		id := x.RedemptionTxFee.Int64()
		return act, uint64(id % 1000000 / 100), int(id % 100)
	case *DepositSweepProposal:
		id := x.SweepTxFee.Int64()
		return act, uint64(id % 1000000 / 100), int(id % 100)
	}
	return act, 0, 1
}

type xwlGenerator struct {
	w    *xwlWorld
	node int
}

func (g *xwlGenerator) Generate(req *CoordinationProposalRequest) (CoordinationProposal, error) {
	wal := g.w.walletByPKH(req.WalletPublicKeyHash)
	if wal == nil {
		return nil, fmt.Errorf("verif: unknown wallet")
	}
	g.w.mu.Lock()
	k := g.w.curWin
	g.w.mu.Unlock()
	cl := []string{}
	for _, a := range req.ActionsChecklist {
		cl = append(cl, a.String())
	}
	g.w.emit("Generate", "m", g.node, "w", wal.name, "k", k, "checklist", cl)
	return g.w.makeProposal(wal, k, g.w.plan(wal.name, k).propose, 1), nil
}

// ---------------------------------------------------------------- chain

// xwlChain is the node's chain handle: the package's local chain with the
// proposal validation calls (made by the actions' execute()) turned into
// observation / parking points.
type xwlChain struct {
	*localChain
	w    *xwlWorld
	node int
}

func (c *xwlChain) validate(pkh [20]byte, p CoordinationProposal) error {
	wal := c.w.walletByPKH(pkh)
	if wal == nil {
		return fmt.Errorf("verif: unknown wallet")
	}
	act, k, ver := xwlDecodeProposal(p)
	key := xwlProcKey{c.node, wal.name, k}
	c.w.emit("ExecBegin", "m", c.node, "w", wal.name, "k", k, "a", act, "v", ver)
	plan := c.w.plan(wal.name, k)
	if plan.hold[c.node] {
		c.w.mu.Lock()
		g := c.w.gates[key]
		if g == nil {
			g = make(chan struct{})
			c.w.gates[key] = g
		}
		c.w.parked[key] = true
		c.w.mu.Unlock()
		<-g
		c.w.mu.Lock()
		delete(c.w.parked, key)
		c.w.mu.Unlock()
	}
	ok := c.w.plan(wal.name, k).valid
	c.w.emit("ExecValid", "m", c.node, "w", wal.name, "k", k, "ok", ok)
	if !ok {
		return fmt.Errorf("verif: proposal not valid on the chain")
	}
	return nil
}

func (c *xwlChain) ValidateHeartbeatProposal(pkh [20]byte, p *HeartbeatProposal) error {
	return c.validate(pkh, p)
}
func (c *xwlChain) ValidateRedemptionProposal(pkh [20]byte, p *RedemptionProposal) error {
	return c.validate(pkh, p)
}
func (c *xwlChain) ValidateDepositSweepProposal(pkh [20]byte, p *DepositSweepProposal, extra []struct {
	*Deposit
	FundingTx *bitcoin.Transaction
}) error {
	return c.validate(pkh, p)
}

// ---------------------------------------------------------------- clock

type xwlClockView struct {
	w    *xwlWorld
	node int
}

func (v *xwlClockView) CurrentBlock() (uint64, error) {
	v.w.mu.Lock()
	defer v.w.mu.Unlock()
	return v.w.now, nil
}

func (v *xwlClockView) WaitForBlockHeight(b uint64) error {
	ch, _ := v.BlockHeightWaiter(b)
	<-ch
	return nil
}

func (v *xwlClockView) BlockHeightWaiter(b uint64) (<-chan uint64, error) {
	async := false
	pcs := make([]uintptr, 16)
	n := runtime.Callers(2, pcs)
	frames := runtime.CallersFrames(pcs[:n])
	for {
		f, more := frames.Next()
		if strings.Contains(f.Function, "withCancelOnBlock") {
			async = true
		}
		if !more {
			break
		}
	}
	wt := &xwlWaiter{node: v.node, block: b, async: async, ch: make(chan uint64, 1)}
	v.w.mu.Lock()
	defer v.w.mu.Unlock()
	v.w.emitLocked("Wait", "m", v.node, "b", b, "async", async)
	if b <= v.w.now {
		wt.fired = true
		wt.ch <- v.w.now
	}
	v.w.waiters = append(v.w.waiters, wt)
	return wt.ch, nil
}

func (v *xwlClockView) WatchBlocks(ctx context.Context) <-chan uint64 {
	wt := &xwlWatcher{ctx: ctx, ch: make(chan uint64)}
	v.w.mu.Lock()
	v.w.watchers[v.node] = append(v.w.watchers[v.node], wt)
	v.w.mu.Unlock()
	return wt.ch
}

// ---------------------------------------------------------------- network

type xwlProvider struct {
	inner netlocal.Provider
	w     *xwlWorld
	node  int
}

func (p *xwlProvider) ID() net.TransportIdentifier              { return p.inner.ID() }
func (p *xwlProvider) Type() string                             { return p.inner.Type() }
func (p *xwlProvider) ConnectionManager() net.ConnectionManager { return p.inner.ConnectionManager() }
func (p *xwlProvider) CreateTransportIdentifier(k *operator.PublicKey) (net.TransportIdentifier, error) {
	return p.inner.CreateTransportIdentifier(k)
}
func (p *xwlProvider) BroadcastChannelForwarderFor(name string) {}
func (p *xwlProvider) BroadcastChannelFor(name string) (net.BroadcastChannel, error) {
	inner, err := p.inner.BroadcastChannelFor(name)
	if err != nil {
		return nil, err
	}
	return &xwlChannel{inner: inner, w: p.w, node: p.node, name: name}, nil
}

type xwlChannel struct {
	inner net.BroadcastChannel
	w     *xwlWorld
	node  int
	name  string
}

func (c *xwlChannel) Name() string                                  { return c.inner.Name() }
func (c *xwlChannel) SetUnmarshaler(u func() net.TaggedUnmarshaler) { c.inner.SetUnmarshaler(u) }
func (c *xwlChannel) SetFilter(filter net.BroadcastChannelFilter) error {
	return c.inner.SetFilter(filter)
}

type xwlMarshaler interface{ Marshal() ([]byte, error) }

func xwlAnnouncement(payload interface{}) (seat int, session string, att int, ok bool) {
	mm, isM := payload.(xwlMarshaler)
	if !isM {
		return
	}
	b, err := mm.Marshal()
	if err != nil {
		return
	}
	var pbm announcerpb.AnnouncementMessage
	if err := proto.Unmarshal(b, &pbm); err != nil {
		return
	}
	i := strings.LastIndex(pbm.SessionID, "-")
	if i < 0 {
		return
	}
	fmt.Sscanf(pbm.SessionID[i+1:], "%d", &att)
	return int(pbm.SenderID), pbm.SessionID[:i], att, true
}

func (c *xwlChannel) Send(ctx context.Context, m net.TaggedMarshaler, s ...net.RetransmissionStrategy) error {
	wal, kind := c.w.walletByChannel(c.name)
	if wal != nil {
		switch {
		case kind == "coord" && m.Type() == (&coordinationMessage{}).Type():
			cm := m.(*coordinationMessage)
			act, _, ver := xwlDecodeProposal(cm.proposal)
			c.w.emit("Propose", "m", c.node, "w", wal.name, "k", xwlIndex(cm.coordinationBlock), "seat", int(cm.senderID), "a", act, "v", ver)
			c.w.mu.Lock()
			c.w.sends = append(c.w.sends, &xwlSent{from: c.node, wallet: wal.name, kind: "coord",
				key: fmt.Sprintf("coord/%d/%d", c.node, xwlIndex(cm.coordinationBlock)), ctx: ctx})
			c.w.mu.Unlock()
		case kind == "signing" && strings.Contains(m.Type(), "announcement"):
			seat, sess, att, ok := xwlAnnouncement(m)
			if ok {
				c.w.emit("AnnSend", "m", c.node, "w", wal.name, "seat", seat, "n", att)
				c.w.mu.Lock()
				c.w.sends = append(c.w.sends, &xwlSent{from: c.node, wallet: wal.name, kind: "ann",
					key: fmt.Sprintf("ann/%d/%s/%d", c.node, sess, att), ctx: ctx})
				c.w.mu.Unlock()
			}
		}
	}
	return c.inner.Send(ctx, m, s...)
}

func xwlIndex(block uint64) uint64 {
	if block%coordinationFrequencyBlocks == 0 {
		return block / coordinationFrequencyBlocks
	}
	return 0
}

func (c *xwlChannel) Recv(ctx context.Context, handler func(m net.Message)) {
	var lst *xwlListen
	if wal, kind := c.w.walletByChannel(c.name); wal != nil {
		lst = &xwlListen{node: c.node, wallet: wal.name, chKind: kind, ctx: ctx, got: map[string]bool{}}
		c.w.mu.Lock()
		c.w.listens = append(c.w.listens, lst)
		c.w.mu.Unlock()
	}
	c.inner.Recv(ctx, func(m net.Message) {
		wal, kind := c.w.walletByChannel(c.name)
		if wal == nil {
			handler(m)
			return
		}
		d := &xwlDelivery{to: c.node, wallet: wal.name, kind: "other", ctx: ctx, handler: handler, msg: m}
		c.w.mu.Lock()
		d.from = c.w.byPub[hex.EncodeToString(m.SenderPublicKey())]
		c.w.mu.Unlock()
		defer func() {
			c.w.mu.Lock()
			switch d.kind {
			case "coord":
				lst.got[fmt.Sprintf("coord/%d/%d", d.from, d.k)] = true
			case "ann":
				lst.got[fmt.Sprintf("ann/%d/%s/%d", d.from, d.sess, d.att)] = true
			}
			c.w.mu.Unlock()
		}()
		switch p := m.Payload().(type) {
		case *coordinationMessage:
			if kind == "coord" {
				d.kind = "coord"
				d.seat = int(p.senderID)
				d.k = xwlIndex(p.coordinationBlock)
				d.act, _, d.ver = xwlDecodeProposal(p.proposal)
			}
		default:
			if kind == "signing" && strings.Contains(m.Type(), "announcement") {
				if seat, sess, att, ok := xwlAnnouncement(p); ok {
					d.kind, d.seat, d.sess, d.att = "ann", seat, sess, att
				}
			}
		}
		if d.kind == "other" {
			// done checks (and anything else) are not scripted
			handler(m)
			return
		}
		if d.from == c.node {
			return // the node's own broadcast echoed back: every receiver ignores it
		}
		c.w.mu.Lock()
		c.w.inbox = append(c.w.inbox, d)
		c.w.mu.Unlock()
	})
}

// ---------------------------------------------------------------- quiescence

// xwlBusy reports a goroutine of the system under test (or of the harness)
// that is running or runnable. Everything the system does is triggered by the
// driver (clock, deliveries, gates), so when nothing is runnable the system has
// settled. Periodic retransmission tickers only re-deliver messages the
// harness has already queued.
// goroutines polling on a wall-clock ticker (signingDoneCheck.waitUntilAllDone
// looks at its confirmations every 100 ms): counted as busy for a grace period
// after they were first seen there, so that a complete set of confirmations is
// noticed before the clock moves. If the machine is so slow that the grace
// period does not cover a tick, the loop times out instead -- another
// behaviour of the specification, never a violation.
const xwlPollGrace = 2500 * time.Millisecond

var xwlPollMu sync.Mutex
var xwlPollSeen = map[string]time.Time{}

func xwlBusy() string {
	buf := make([]byte, 1<<20)
	for {
		n := runtime.Stack(buf, true)
		if n < len(buf) {
			buf = buf[:n]
			break
		}
		buf = make([]byte, 2*len(buf))
	}
	self := xwlGoid()
	for _, g := range strings.Split(string(buf), "\n\n") {
		if !strings.HasPrefix(g, "goroutine ") {
			continue
		}
		head := g
		if i := strings.Index(g, "\n"); i >= 0 {
			head = g[:i]
		}
		f := strings.Fields(head)
		if len(f) < 3 || f[1] == self {
			continue
		}
		st := head[strings.Index(head, "[")+1:]
		if strings.Contains(g, "signingDoneCheck).waitUntilAllDone") {
			xwlPollMu.Lock()
			first, seen := xwlPollSeen[f[1]]
			if !seen {
				first = time.Now()
				xwlPollSeen[f[1]] = first
			}
			xwlPollMu.Unlock()
			if time.Since(first) < xwlPollGrace {
				return head + " (polling the done check)"
			}
		}
		if !(strings.HasPrefix(st, "running") || strings.HasPrefix(st, "runnable")) {
			continue
		}
		if !strings.Contains(g, "keep-network/keep-core") {
			continue // runtime, testing, GC
		}
		if strings.Contains(g, "pkg/generator.") || strings.Contains(g, "tss-lib") || strings.Contains(g, "retransmission.NewTimeTicker") {
			continue // pre-parameter generation, retransmission tick source
		}
		return head
	}
	return ""
}

// settle waits until the system is quiescent (twice in a row).
func (w *xwlWorld) settle(what string) {
	deadline := time.Now().Add(xwlWait)
	quiet := 0
	for i := 0; ; i++ {
		b := xwlBusy()
		if b == "" {
			b = w.missingInbound()
		}
		if b == "" {
			quiet++
			if quiet >= 3 {
				break
			}
			runtime.Gosched()
			time.Sleep(200 * time.Microsecond)
			continue
		}
		quiet = 0
		if time.Now().After(deadline) {
			w.t.Fatalf("harness: the system did not settle (%s): still busy: %s", what, b)
		}
		if i < 50 {
			runtime.Gosched()
		} else {
			time.Sleep(300 * time.Microsecond)
		}
	}
	w.mu.Lock()
	f := w.fatal
	w.mu.Unlock()
	if f != "" {
		w.t.Fatalf("harness: %s", f)
	}
}

// missingInbound names a broadcast that is still being retransmitted and has
// not yet reached a live listener of its channel (the listener registered after
// the first transmission): the retransmission ticker will bring it.
func (w *xwlWorld) missingInbound() string {
	w.mu.Lock()
	defer w.mu.Unlock()
	for _, s := range w.sends {
		if s.ctx.Err() != nil {
			continue
		}
		for _, l := range w.listens {
			if l.ctx.Err() != nil || l.wallet != s.wallet || l.node == s.from {
				continue
			}
			if (s.kind == "coord") != (l.chKind == "coord") {
				continue
			}
			if !l.got[s.key] {
				return fmt.Sprintf("broadcast %s of node %d has not reached node %d yet", s.key, s.from, l.node)
			}
		}
	}
	return ""
}

// ---------------------------------------------------------------- driver

// setNow moves the clock and releases the waiters of the blocks reached:
// first the goroutines withCancelOnBlock started (contexts are cancelled
// exactly on their block), then the callers waiting for a block themselves.
func (w *xwlWorld) setNow(b uint64) {
	w.mu.Lock()
	if b <= w.now {
		w.mu.Unlock()
		return
	}
	w.now = b
	w.emitLocked("Block", "b", b)
	var first, second []*xwlWaiter
	for _, x := range w.waiters {
		if !x.fired && x.block <= b {
			x.fired = true
			if x.async {
				first = append(first, x)
			} else {
				second = append(second, x)
			}
		}
	}
	w.mu.Unlock()
	for _, x := range first {
		x.ch <- b
	}
	if len(first) > 0 {
		w.settle(fmt.Sprintf("contexts cancelled on block %d", b))
	}
	for _, x := range second {
		x.ch <- b
	}
	w.settle(fmt.Sprintf("block %d", b))
}

// nextWaiter: the earliest block > now an unfired waiter waits for (0 = none)
func (w *xwlWorld) nextWaiter(limit uint64) uint64 {
	w.mu.Lock()
	defer w.mu.Unlock()
	next := uint64(0)
	for _, x := range w.waiters {
		if !x.fired && x.block > w.now && x.block <= limit && (next == 0 || x.block < next) {
			next = x.block
		}
	}
	return next
}

// advance moves the clock to target, stopping at every block somebody waits
// for; after every stop the queued messages are handled by the policy.
func (w *xwlWorld) advance(target uint64, policy func(d *xwlDelivery) bool) {
	for {
		next := w.nextWaiter(target)
		if next == 0 {
			next = target
		}
		w.setNow(next)
		w.pump(policy)
		w.quiet()
		if next >= target {
			return
		}
	}
}

// pump hands every queued inbound message to the policy (deliver / drop), one
// at a time, settling after each delivery.
func (w *xwlWorld) pump(policy func(d *xwlDelivery) bool) {
	for {
		w.mu.Lock()
		var d *xwlDelivery
		for _, x := range w.inbox {
			if !x.done {
				d = x
				break
			}
		}
		if d != nil {
			d.done = true
		}
		w.mu.Unlock()
		if d == nil {
			return
		}
		if d.ctx.Err() != nil || policy == nil || !policy(d) {
			continue
		}
		switch d.kind {
		case "coord":
			w.emit("Recv", "m", d.to, "w", d.wallet, "from", d.from, "seat", d.seat, "k", d.k, "a", d.act, "v", d.ver)
		case "ann":
			w.emit("AnnRecv", "m", d.to, "w", d.wallet, "from", d.from, "seat", d.seat, "n", d.att)
		}
		d.handler(d.msg)
		w.settle("delivery")
	}
}

// quiet logs the dispatcher maps of all nodes (read under the dispatchers'
// mutexes) at a moment when nothing runs.
func (w *xwlWorld) quiet() {
	entries := map[string]interface{}{}
	for _, nd := range w.nodes[1:] {
		e := map[string]string{}
		nd.n.walletDispatcher.actionsMutex.Lock()
		for _, wal := range w.wallets {
			e[wal.name] = "none"
			if a, ok := nd.n.walletDispatcher.actions[wal.keyHex]; ok {
				e[wal.name] = a.String()
			}
		}
		nd.n.walletDispatcher.actionsMutex.Unlock()
		entries[fmt.Sprint(nd.id)] = e
	}
	w.emit("Quiet", "entry", entries)
}

// window delivers the coordination block of window k to the block watchers of
// the nodes that are online.
func (w *xwlWorld) window(k uint64, offline map[int]bool) {
	block := k * coordinationFrequencyBlocks
	w.mu.Lock()
	w.curWin = k
	w.mu.Unlock()
	for _, nd := range w.nodes[1:] {
		if offline[nd.id] {
			continue
		}
		w.mu.Lock()
		ws := append([]*xwlWatcher{}, w.watchers[nd.id]...)
		w.mu.Unlock()
		for _, x := range ws {
			if x.ctx.Err() != nil {
				continue
			}
			w.emit("WindowStart", "m", nd.id, "k", k)
			select {
			case x.ch <- block:
			case <-time.After(xwlWait):
				w.t.Fatalf("harness: the window watcher of node %d does not take blocks", nd.id)
			}
		}
	}
	w.settle(fmt.Sprintf("window %d", k))
}

func (w *xwlWorld) release(m int, wal string, k uint64) {
	key := xwlProcKey{m, wal, k}
	w.mu.Lock()
	g := w.gates[key]
	if g == nil {
		g = make(chan struct{})
		w.gates[key] = g
	}
	w.mu.Unlock()
	close(g)
	w.settle("gate released")
}

func (w *xwlWorld) isParked(m int, wal string, k uint64) bool {
	w.mu.Lock()
	defer w.mu.Unlock()
	return w.parked[xwlProcKey{m, wal, k}]
}

// shutdown ends a run: every context of the run gets cancelled.
func (w *xwlWorld) shutdown() {
	for _, nd := range w.nodes[1:] {
		nd.cancel()
	}
	w.mu.Lock()
	for k, g := range w.gates {
		select {
		case <-g:
		default:
			close(g)
		}
		delete(w.gates, k)
	}
	w.now = ^uint64(0) >> 1
	ws := w.waiters
	w.waiters = nil
	w.mu.Unlock()
	for _, x := range ws {
		if !x.fired {
			x.ch <- w.now
		}
	}
	deadline := time.Now().Add(20 * time.Second)
	for xwlBusy() != "" && time.Now().Before(deadline) {
		time.Sleep(time.Millisecond)
	}
}

// ---------------------------------------------------------------- set-up

type xwlBusyProtocol struct{}

func (xwlBusyProtocol) IsExecuting() bool { return true }

var xwlScheduler *generator.Scheduler
var xwlSchedulerOnce sync.Once

func xwlOperatorKey(priv int64) *operator.PrivateKey {
	d := big.NewInt(priv)
	x, y := local_v1.DefaultCurve.ScalarBaseMult(d.Bytes())
	return &operator.PrivateKey{PublicKey: operator.PublicKey{Curve: operator.Secp256k1, X: x, Y: y}, D: d}
}

// newXwlWorld builds three nodes and two wallets: w1 held by nodes 1, 2, 3
// (seats 1, 2, 3), w2 held by nodes 1 and 2 (seats 1, 2).
func newXwlWorld(t *testing.T, rep *kit.Report, tr *kit.Tracer, run int, threshold int) *xwlWorld {
	w := &xwlWorld{t: t, rep: rep, tr: tr, tag: fmt.Sprintf("%02x%02x", kit.Seed()%256, run%256),
		now: coordinationFrequencyBlocks - 1, watchers: map[int][]*xwlWatcher{}, plans: map[string]*xwlPlan{},
		procs: map[string]*xwlProcKey{}, hooked: map[string]bool{}, gates: map[xwlProcKey]chan struct{}{},
		parked: map[xwlProcKey]bool{}, meets: map[string]*xwlMeet{}, byAddr: map[chain.Address]int{}, byPub: map[string]int{}, counts: map[string]int{}}
	xwlSchedulerOnce.Do(func() {
		// no pre-parameter generation in the background: the scheduler sees a
		// protocol that is always executing
		xwlScheduler = generator.StartScheduler()
		xwlScheduler.RegisterProtocol(xwlBusyProtocol{})
		time.Sleep(1200 * time.Millisecond)
	})
	shares, err := tecdsatest.LoadPrivateKeyShareTestFixtures(1)
	if err != nil {
		t.Fatalf("harness: fixtures: %v", err)
	}
	share := tecdsa.NewPrivateKeyShare(shares[0])
	params := &GroupParameters{GroupSize: 3, GroupQuorum: 3, HonestThreshold: threshold}

	w.nodes = []*xwlNodeT{nil}
	for i := 1; i <= 3; i++ {
		priv := xwlOperatorKey(int64(7100 + i))
		lc := ConnectWithKey(priv)
		lc.blockCounter = &xwlClockView{w: w, node: i}
		lc.setOperatorsEligibleStake(big.NewInt(1000000))
		addr, err := lc.operatorAddress()
		if err != nil {
			t.Fatal(err)
		}
		pub := hex.EncodeToString(operator.MarshalUncompressed(&priv.PublicKey))
		w.byAddr[addr] = i
		w.byPub[pub] = i
		w.nodes = append(w.nodes, &xwlNodeT{id: i, lc: lc, addr: addr, pubHex: pub})
	}
	// fresh wallet keys per run: the local network's channels are global per name
	base := int64(910000) + kit.Seed()*1000 + int64(run)*10
	mk := func(name string, idx int, priv int64, members []int) *xwlWalletT {
		wl := generateWallet(big.NewInt(priv))
		for _, m := range members {
			wl.signingGroupOperators = append(wl.signingGroupOperators, w.nodes[m].addr)
		}
		kb, err := marshalPublicKey(wl.publicKey)
		if err != nil {
			t.Fatal(err)
		}
		return &xwlWalletT{name: name, w: wl, pkh: bitcoin.PublicKeyHash(wl.publicKey), keyHex: hex.EncodeToString(kb), idx: idx, members: members}
	}
	w.wallets = []*xwlWalletT{mk("w1", 1, base+1, []int{1, 2, 3}), mk("w2", 2, base+2, []int{1, 2})}

	for _, nd := range w.nodes[1:] {
		ch := &xwlChain{localChain: nd.lc, w: w, node: nd.id}
		prov := &xwlProvider{inner: netlocal.ConnectWithKey(&nd.lc.operatorPrivateKey.PublicKey), w: w, node: nd.id}
		n, err := newNode(params, ch, newLocalBitcoinChain(), prov, &mockPersistenceHandle{}, &mockPersistenceHandle{},
			xwlScheduler, &xwlGenerator{w: w, node: nd.id}, Config{})
		if err != nil {
			t.Fatalf("harness: newNode: %v", err)
		}
		nd.n = n
		for _, wal := range w.wallets {
			for seat, m := range wal.members {
				if m != nd.id {
					continue
				}
				err := n.walletRegistry.registerSigner(&signer{wallet: wal.w, signingGroupMemberIndex: group.MemberIndex(seat + 1), privateKeyShare: share})
				if err != nil {
					t.Fatalf("harness: registerSigner: %v", err)
				}
			}
		}
	}
	return w
}

func (w *xwlWorld) nodeOf(n *node) int {
	for _, nd := range w.nodes[1:] {
		if nd.n == n {
			return nd.id
		}
	}
	return 0
}

// start runs the REAL coordination layer of every node. The two settings
// functions are the real ones, wrapped only to log their entry and return.
func (w *xwlWorld) start(process func(n *node, r *coordinationResult)) {
	verifhook.Install(func(point string, kv ...interface{}) {
		if point != "tbtc.dispatch.beforeInsert" {
			return
		}
		gid := xwlGoid()
		w.mu.Lock()
		p := w.procs[gid]
		if p != nil {
			w.hooked[gid] = true
		}
		w.mu.Unlock()
		if p != nil {
			w.emit("Dispatch", "m", p.m, "w", p.w, "k", p.k)
		}
	})
	for _, nd := range w.nodes[1:] {
		ctx, cancel := context.WithCancel(context.Background())
		nd.cancel = cancel
		err := nd.n.runCoordinationLayer(ctx, &coordinationLayerSettings{
			executeCoordinationProcedureFn: func(n *node, win *coordinationWindow, pk *ecdsa.PublicKey) (*coordinationResult, bool) {
				m := w.nodeOf(n)
				wal := w.walletByPKH(bitcoin.PublicKeyHash(pk))
				k := win.index()
				w.emit("CoordStart", "m", m, "w", wal.name, "k", k)
				r, ok := executeCoordinationProcedure(n, win, pk)
				if !ok {
					w.emit("CoordEnd", "m", m, "w", wal.name, "k", k, "ok", false)
					return r, ok
				}
				act, _, ver := xwlDecodeProposal(r.proposal)
				faults := []interface{}{}
				for _, f := range r.faults {
					faults = append(faults, map[string]interface{}{"type": xwlFaultName(f.faultType), "culprit": w.byAddr[f.culprit]})
				}
				w.emit("CoordEnd", "m", m, "w", wal.name, "k", k, "ok", true, "a", act, "v", ver, "leader", w.byAddr[r.leader], "faults", faults)
				return r, ok
			},
			processCoordinationResultFn: func(n *node, r *coordinationResult) {
				m := w.nodeOf(n)
				wal := w.walletByPKH(bitcoin.PublicKeyHash(r.wallet.publicKey))
				k := r.window.index()
				gid := xwlGoid()
				w.mu.Lock()
				w.procs[gid] = &xwlProcKey{m, wal.name, k}
				w.mu.Unlock()
				w.emit("ProcBegin", "m", m, "w", wal.name, "k", k)
				process(n, r)
				w.mu.Lock()
				hooked := w.hooked[gid]
				delete(w.hooked, gid)
				delete(w.procs, gid)
				w.mu.Unlock()
				res := "busy"
				if r.proposal.ActionType() == ActionNoop {
					res = "noop"
				} else if hooked {
					res = "ok"
				}
				w.emit("ProcEnd", "m", m, "w", wal.name, "k", k, "res", res)
			},
		})
		if err != nil {
			w.t.Fatalf("harness: runCoordinationLayer: %v", err)
		}
	}
	w.settle("coordination layers started")
}

func xwlFaultName(t CoordinationFaultType) string {
	switch t {
	case FaultLeaderIdleness:
		return "Idleness"
	case FaultLeaderMistake:
		return "Mistake"
	case FaultLeaderImpersonation:
		return "Impersonation"
	}
	return "Unknown"
}

// seed picks the hash of the safe block of window k so that the REAL getSeed /
// getLeader / getActionsChecklist give the wanted leaders and heartbeat draw
// (want*: 0 / nil = any), stores it on every node's chain and logs what the
// real functions say.
func (w *xwlWorld) seed(k uint64, wantLeader map[string]int, wantHb map[string]bool) map[string]int {
	block := k * coordinationFrequencyBlocks
	probe := func(wal *xwlWalletT, h [32]byte) (int, bool, []string) {
		lc := w.nodes[1].lc
		lc.setBlockHashByNumber(block-coordinationSafeBlockShift, hex.EncodeToString(h[:]))
		ex := &coordinationExecutor{chain: lc, coordinatedWallet: wal.w}
		s, err := ex.getSeed(block)
		if err != nil {
			w.t.Fatalf("harness: getSeed: %v", err)
		}
		cl := []string{}
		hb := false
		for _, a := range ex.getActionsChecklist(k, s) {
			cl = append(cl, a.String())
			if a == ActionHeartbeat {
				hb = true
			}
		}
		return w.byAddr[ex.getLeader(s)], hb, cl
	}
	for try := 0; try < 400000; try++ {
		h := sha256.Sum256([]byte(fmt.Sprintf("verif-xwl/%s/%d/%d", w.tag, k, try)))
		ok := true
		for _, wal := range w.wallets {
			l, hb, _ := probe(wal, h)
			// (the leader shuffle and the heartbeat draw come from the same PRNG
			// seed and are correlated: after 3000 tries any leader will do)
			if want, has := wantLeader[wal.name]; has && want != 0 && want != l && try < 3000 {
				ok = false
			}
			if want, has := wantHb[wal.name]; has && want != hb {
				ok = false
			}
		}
		if !ok {
			continue
		}
		leaders := map[string]int{}
		for _, nd := range w.nodes[1:] {
			nd.lc.setBlockHashByNumber(block-coordinationSafeBlockShift, hex.EncodeToString(h[:]))
		}
		for _, wal := range w.wallets {
			l, hb, cl := probe(wal, h)
			leaders[wal.name] = l
			w.emit("Seed", "w", wal.name, "k", k, "leader", l, "hb", hb, "checklist", cl)
		}
		return leaders
	}
	w.t.Fatalf("harness: no block hash gives leaders %v / heartbeat %v at window %d", wantLeader, wantHb, k)
	return nil
}

func (w *xwlWorld) setPlan(wal string, k uint64, p *xwlPlan) {
	w.mu.Lock()
	w.plans[xwlPlanKey(wal, k)] = p
	w.mu.Unlock()
}

func (w *xwlWorld) count(ev string) int {
	w.mu.Lock()
	defer w.mu.Unlock()
	return w.counts[ev]
}

// busyNodes: nodes whose dispatcher holds an entry for the wallet
func (w *xwlWorld) entryOf(m int, wal *xwlWalletT) bool {
	d := w.nodes[m].n.walletDispatcher
	d.actionsMutex.Lock()
	defer d.actionsMutex.Unlock()
	_, ok := d.actions[wal.keyHex]
	return ok
}

// ---------------------------------------------------------------- TestVerif_XWL_Node

func xwlOthers(all []int, not int) []int {
	out := []int{}
	for _, x := range all {
		if x != not {
			out = append(out, x)
		}
	}
	return out
}

func TestVerif_XWL_Node(t *testing.T) {
	kit.RequireEngine(t)
	rep := kit.NewReport("XWL", "node")
	defer rep.Write(t)
	tr := kit.NewTracer(t, "xwl_node")
	defer tr.Close()
	defer verifhook.Uninstall()

	runs := kit.IntEnv("VERIF_XWL_RUNS", 1)
	windows := kit.IntEnv("VERIF_XWL_WINDOWS", 6)
	for run := 0; run < runs; run++ {
		xwlNodeRun(t, rep, tr, run, windows)
	}
}

// One run: `windows` consecutive coordination windows. The scenario of each
// window is drawn with the run's PRNG from the kinds below; the first windows
// go through every kind once.
//
//	heartbeat   the seed draws a heartbeat, the leader proposes it, every member
//	            dispatches it; the real signing loops run until exhausted
//	            (announcements partly lost)
//	loss        the leader proposes a redemption, one follower never receives
//	            it (leader idleness on that follower only)
//	busy        a redemption whose execute() is parked in its chain call on one
//	            member; it is still running at the NEXT window, whose result for
//	            that wallet is dropped on that member while the second wallet of
//	            the same node is dispatched
//	silent      the leader's node misses the window: nobody dispatches
//	disallowed  the leader's generator returns a deposit sweep at a window
//	            whose checklist does not have it: followers record a mistake,
//	            only the leader dispatches
//	noop        the leader proposes nothing
func xwlNodeRun(t *testing.T, rep *kit.Report, tr *kit.Tracer, run int, windows int) {
	r := kit.Rand(int64(9100 + run))
	w := newXwlWorld(t, rep, tr, run, 3)
	tr.Reset(map[string]interface{}{"run": run, "test": "node"})
	w.start(processCoordinationResult)
	defer w.shutdown()

	kinds := []string{"heartbeat", "busy", "after-busy", "silent", "disallowed", "loss", "noop"}
	w1, w2 := w.walletByName("w1"), w.walletByName("w2")
	var held []xwlProcKey
	pending := "" // kind forced for the next window
	for i := 0; i < windows; i++ {
		k := uint64(i + 1)
		kind := ""
		switch {
		case pending != "":
			kind, pending = pending, ""
		case i < len(kinds):
			kind = kinds[i]
		default:
			kind = []string{"heartbeat", "busy", "silent", "disallowed", "loss", "noop"}[r.Intn(6)]
		}
		if kind == "busy" && i == windows-1 {
			kind = "loss"
		}
		if k%4 == 0 && kind == "disallowed" {
			kind = "loss" // the deposit sweep is on the checklist of every fourth window
		}
		cas := map[string]interface{}{"run": run, "window": k, "kind": kind}

		// hidden choices of the window
		wantHb := map[string]bool{"w1": kind == "heartbeat", "w2": false}
		leaders := w.seed(k, map[string]int{"w1": 1 + r.Intn(3)}, wantHb)
		L1 := leaders["w1"]
		followers := xwlOthers(w1.members, L1)
		victim := followers[r.Intn(len(followers))]

		p1 := &xwlPlan{propose: "Redemption", valid: false, lose: map[int]bool{}, hold: map[int]bool{}}
		p2 := &xwlPlan{propose: "Redemption", valid: false, lose: map[int]bool{}, hold: map[int]bool{}}
		offline := map[int]bool{}
		switch kind {
		case "heartbeat":
			p1.propose, p1.valid = "Heartbeat", true
			// every member hears at most one other member: never three ready
			heard := map[int]int{}
			for _, m := range w1.members {
				o := xwlOthers(w1.members, m)
				heard[m] = o[r.Intn(len(o))]
			}
			mute := r.Intn(6) // one attempt in which nobody hears anybody
			p1.ann = func(to, from, att int) bool { return att != mute && heard[to] == from }
		case "loss":
			p1.lose[victim] = true
		case "busy":
			p1.hold[victim] = true
			pending = "after-busy"
		case "silent":
			offline[L1] = true
		case "disallowed":
			p1.propose = "DepositSweep"
		case "noop":
			p1.propose = "Noop"
		}
		if k%3 == 0 {
			p2.propose = "Noop"
		}
		w.setPlan("w1", k, p1)
		w.setPlan("w2", k, p2)
		policy := func(d *xwlDelivery) bool {
			switch d.kind {
			case "coord":
				return !w.plan(d.wallet, d.k).lose[d.to]
			case "ann":
				// the announcement belongs to the action of the window whose plan is live
				pl := w.plan(d.wallet, w.actionWindow(d.wallet))
				return pl.ann != nil && pl.ann(d.to, d.from, d.att)
			}
			return true
		}

		// the coordination block arrives (earlier timers fire on the way)
		w.advance(k*coordinationFrequencyBlocks, policy)
		before := w.count("Dispatch")
		w.window(k, offline)
		w.pump(policy)
		w.quiet()
		// the active phase ends: followers that heard nothing give up
		w.advance(k*coordinationFrequencyBlocks+coordinationActivePhaseDurationBlocks, policy)

		// what the scenario was meant to exercise did happen (otherwise the
		// harness is broken, never a violation)
		dispatched := w.count("Dispatch") - before
		switch kind {
		case "busy":
			if !w.isParked(victim, "w1", k) {
				// (decided by the trace: if the recorded run is a behaviour of the
				// specification the engine reports a dead scenario, not a violation)
				w.unrealized("window %d: the action of member %d was not parked in its validation call", k, victim)
				pending = ""
			} else {
				held = append(held, xwlProcKey{victim, "w1", k})
			}
		case "after-busy":
			for _, h := range held {
				if !w.isParked(h.m, h.w, h.k) || !w.entryOf(h.m, w1) {
					w.unrealized("window %d: the parked action of member %d is gone", k, h.m)
				}
			}
		}
		cas["dispatched"] = dispatched
		rep.Eval(fmt.Sprintf("%s/%d", kind, dispatched), cas)
		rep.Count("window:"+kind, 1)

		if kind == "after-busy" {
			// the next window is over: the parked actions return
			for _, h := range held {
				w.release(h.m, h.w, h.k)
			}
			held = nil
			w.quiet()
		}
		// let the signing loops of this window's actions run to their end
		// (the next window is 900 blocks away; a heartbeat's loop ends 305
		// blocks after the coordination block)
		if kind != "busy" {
			w.advance(k*coordinationFrequencyBlocks+coordinationDurationBlocks+
				uint64(signingAttemptsLimit*signingAttemptMaximumBlocks())+2, policy)
		}
	}
	for _, h := range held {
		w.release(h.m, h.w, h.k)
	}
	w.advance(uint64(windows)*coordinationFrequencyBlocks+800, policy0)
	for _, nd := range w.nodes[1:] {
		for _, wal := range []*xwlWalletT{w1, w2} {
			if w.entryOf(nd.id, wal) {
				// (reported through the trace as well: the final Quiet event)
				rep.Note("node %d still holds an entry for %s at the end of run %d", nd.id, wal.name, run)
			}
		}
	}
	rep.Count("events", tr.N())
}

func policy0(d *xwlDelivery) bool { return false }

// actionWindow: the window of the action the wallet's signing channel
// currently serves (the latest window for which a plan with announcements exists)
func (w *xwlWorld) actionWindow(wal string) uint64 {
	w.mu.Lock()
	defer w.mu.Unlock()
	for k := w.curWin; k >= 1; k-- {
		if p := w.plans[xwlPlanKey(wal, k)]; p != nil && (p.ann != nil || p.sign) {
			return k
		}
	}
	return w.curWin
}

// ---------------------------------------------------------------- TestVerif_XWL_Signing

// xwlAction is the instrumented wallet action of TestVerif_XWL_Signing. Its
// execute() follows heartbeatAction.execute and signingExecutor.sign line by
// line, with the real components, except for the attempt function.
type xwlAction struct {
	w          *xwlWorld
	n          *node
	m          int
	wal        *xwlWalletT
	proposal   *HeartbeatProposal
	k          uint64
	ver        int
	startBlock uint64
	expiry     uint64
}

func (a *xwlAction) wallet() wallet               { return a.wal.w }
func (a *xwlAction) actionType() WalletActionType { return ActionHeartbeat }

func (a *xwlAction) execute() error {
	ch := &xwlChain{localChain: a.w.nodes[a.m].lc, w: a.w, node: a.m}
	if err := ch.ValidateHeartbeatProposal(a.wal.pkh, a.proposal); err != nil {
		return err
	}
	messageBytes := bitcoin.ComputeHash(a.proposal.Message[:])
	message := new(big.Int).SetBytes(messageBytes[:])
	// heartbeat.go execute
	signingCtx, cancelSigningCtx := withCancelOnBlock(context.Background(),
		a.expiry-heartbeatInactivityClaimValidityBlocks, a.n.waitForBlockHeight)
	defer cancelSigningCtx()

	executor, ok, err := a.n.getSigningExecutor(a.wal.w.publicKey)
	if err != nil || !ok {
		return fmt.Errorf("verif: no signing executor: %v", err)
	}
	se := executor
	sg := se.signers[0]
	// signing.go sign
	loopTimeoutBlock := a.startBlock + uint64(se.signingAttemptsLimit*signingAttemptMaximumBlocks())
	ann := announcer.New(fmt.Sprintf("%v-%v", ProtocolName, "signing"), se.broadcastChannel, se.membershipValidator)
	doneCheck := newSigningDoneCheck(se.groupParameters.GroupSize, se.broadcastChannel, se.membershipValidator)
	retryLoop := newSigningRetryLoop(logger.With(), message, a.startBlock, sg.signingGroupMemberIndex,
		a.wal.w.signingGroupOperators, se.groupParameters, ann, doneCheck)
	loopCtx, cancelLoopCtx := withCancelOnBlock(signingCtx, loopTimeoutBlock, se.waitForBlockFn)
	defer cancelLoopCtx()
	plan := a.w.plan(a.wal.name, a.k)
	result, err := retryLoop.start(loopCtx, se.waitForBlockFn, se.getCurrentBlockFn,
		func(p *signingAttemptParams) (*signing.Result, uint64, error) {
			excluded := []int{}
			included := []int{}
			for i := range a.wal.members {
				in := true
				for _, x := range p.excludedMembersIndexes {
					if int(x) == i+1 {
						in = false
					}
				}
				if in {
					included = append(included, i+1)
				} else {
					excluded = append(excluded, i+1)
				}
			}
			ev := func(ok bool, why string) {
				end, _ := se.getCurrentBlockFn()
				a.w.emit("AttemptRun", "m", a.m, "w", a.wal.name, "n", int(p.number), "start", p.startBlock,
					"timeout", p.timeoutBlock, "excluded", excluded, "ok", ok, "why", why, "end", end)
			}
			if plan.failAt[int(p.number)*10+a.m] {
				ev(false, "fail")
				return nil, 0, fmt.Errorf("verif: scripted attempt failure")
			}
			// like signing.Execute: the protocol completes only if every included
			// member runs the same attempt with the same included members, and it
			// is abandoned when the attempt's context ends
			attemptCtx, cancelAttemptCtx := withCancelOnBlock(loopCtx, p.timeoutBlock, se.waitForBlockFn)
			defer cancelAttemptCtx()
			select {
			case <-a.w.meet(fmt.Sprintf("%s/%d/%d", a.wal.name, a.k, p.number), a.m, included):
				ev(true, "")
				end, _ := se.getCurrentBlockFn()
				return &signing.Result{Signature: &tecdsa.Signature{R: big.NewInt(int64(4200 + a.k)), S: big.NewInt(77), RecoveryID: 1}}, end, nil
			case <-attemptCtx.Done():
				ev(false, "timeout")
				return nil, 0, fmt.Errorf("verif: attempt timed out")
			}
		})
	if err != nil {
		a.w.emit("SignEnd", "m", a.m, "w", a.wal.name, "ok", false)
		return err
	}
	active := []int{}
	for _, x := range result.activityReport.activeMembers {
		active = append(active, int(x))
	}
	a.w.emit("SignEnd", "m", a.m, "w", a.wal.name, "ok", true, "end", result.latestEndBlock,
		"timeout", result.attemptTimeoutBlock, "active", active)
	a.w.emit("PostEnd", "m", a.m, "w", a.wal.name)
	return nil
}

// xwlMeet is the rendezvous standing in for the threshold protocol of one
// attempt: a member's run completes when every member it counts as included
// has arrived with the same included set.
type xwlMeet struct {
	arrived map[int]string
	waiting map[int]chan struct{}
}

func (w *xwlWorld) meet(key string, m int, included []int) <-chan struct{} {
	w.mu.Lock()
	defer w.mu.Unlock()
	mt := w.meets[key]
	if mt == nil {
		mt = &xwlMeet{arrived: map[int]string{}, waiting: map[int]chan struct{}{}}
		w.meets[key] = mt
	}
	mine := fmt.Sprint(included)
	mt.arrived[m] = mine
	ch := make(chan struct{})
	mt.waiting[m] = ch
	for x, c := range mt.waiting {
		set := mt.arrived[x]
		all := true
		for y := 1; y <= 3; y++ {
			if strings.Contains(" "+strings.Trim(set, "[]")+" ", fmt.Sprintf(" %d ", y)) && mt.arrived[y] != set {
				all = false
			}
		}
		if all {
			close(c)
			delete(mt.waiting, x)
		}
	}
	return ch
}

func TestVerif_XWL_Signing(t *testing.T) {
	kit.RequireEngine(t)
	rep := kit.NewReport("XWL", "signing")
	defer rep.Write(t)
	tr := kit.NewTracer(t, "xwl_signing")
	defer tr.Close()
	defer verifhook.Uninstall()
	runs := kit.IntEnv("VERIF_XWL_SIGN_RUNS", 2)
	for run := 0; run < runs; run++ {
		xwlSigningRun(t, rep, tr, 100+run)
	}
}

func xwlSigningRun(t *testing.T, rep *kit.Report, tr *kit.Tracer, run int) {
	r := kit.Rand(int64(9300 + run))
	w := newXwlWorld(t, rep, tr, run, 2)
	tr.Reset(map[string]interface{}{"run": run, "test": "signing"})
	// processCoordinationResult + handleHeartbeatProposal with the instrumented action
	w.start(func(n *node, res *coordinationResult) {
		hp, ok := res.proposal.(*HeartbeatProposal)
		if !ok {
			processCoordinationResult(n, res)
			return
		}
		m := w.nodeOf(n)
		wal := w.walletByPKH(bitcoin.PublicKeyHash(res.wallet.publicKey))
		_, k, ver := xwlDecodeProposal(hp)
		startBlock := res.window.endBlock()
		expiryBlock := startBlock + res.proposal.ValidityBlocks()
		_ = n.walletDispatcher.dispatch(&xwlAction{w: w, n: n, m: m, wal: wal, proposal: hp, k: k, ver: ver,
			startBlock: startBlock, expiry: expiryBlock})
	})
	defer w.shutdown()
	w1 := w.walletByName("w1")
	windows := 2
	for i := 0; i < windows; i++ {
		k := uint64(i + 1)
		leaders := w.seed(k, map[string]int{"w1": 1 + r.Intn(3)}, map[string]bool{"w1": true, "w2": false})
		_ = leaders
		p1 := &xwlPlan{propose: "Heartbeat", valid: true, sign: true, lose: map[int]bool{}, hold: map[int]bool{}, failAt: map[int]bool{}}
		// first window: attempt 1: no announcement reaches anybody (too few ready
		// members everywhere); attempt 2: everybody ready, one member's protocol
		// run fails (if it is included the others run into the attempt's timeout);
		// attempt 3: success.
		// second window: one member misses one announcement of attempt 1, so its
		// ready set and possibly its included set differ from the others'.
		deaf := 1 + r.Intn(3)
		o := xwlOthers(w1.members, deaf)
		from := o[r.Intn(2)]
		failer := 1 + r.Intn(3)
		if i == 0 {
			p1.failAt[2*10+failer] = true
			p1.ann = func(to, f, att int) bool { return att != 1 }
		} else {
			p1.ann = func(to, f, att int) bool { return !(att == 1 && to == deaf && f == from) }
		}
		w.setPlan("w1", k, p1)
		w.setPlan("w2", k, &xwlPlan{propose: "Noop"})
		policy := func(d *xwlDelivery) bool {
			switch d.kind {
			case "coord":
				return true
			case "ann":
				pl := w.plan(d.wallet, w.actionWindow(d.wallet))
				return pl.ann != nil && pl.ann(d.to, d.from, d.att)
			}
			return true
		}
		w.advance(k*coordinationFrequencyBlocks, policy)
		w.window(k, nil)
		w.pump(policy)
		w.quiet()
		w.advance(k*coordinationFrequencyBlocks+coordinationDurationBlocks+
			uint64(signingAttemptsLimit*signingAttemptMaximumBlocks())+2, policy)
		rep.Eval(fmt.Sprintf("signing/%d", i), map[string]interface{}{"run": run, "window": k, "deaf": deaf, "failer": failer})
	}
	if w.count("SignEnd") == 0 {
		w.unrealized("no signing loop returned")
	}
	rep.Count("events", tr.N())
}
