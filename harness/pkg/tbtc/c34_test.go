//go:build verif

package tbtc

// C34 conformance harness: every scenario emitted by /verif/specs/MainUtxo
// (Bitcoin transactions around a wallet - confirmed and mempool, paying the
// wallet by P2PKH/P2WPKH or somebody else, spending deposits, moved funds
// sweep requests, unrelated outputs or earlier wallet outputs - plus the main
// UTXO hash registered in the Bridge and an optional failing chain call) is
// built with real bitcoin.Transaction values, a Bitcoin chain fake that
// implements the documented semantics of bitcoin.Chain (history, confirmed
// UTXOs, mempool UTXOs, spentness) and the package's local Bridge chain.
// The real DetermineWalletMainUtxo and, if it succeeds,
// EnsureWalletSyncedBetweenChains (called with its result, as the wallet
// actions do) are executed and compared with the specification: returned
// outpoint and value / nil / which error.

import (
	"bytes"
	"crypto/sha256"
	"fmt"
	"strings"
	"testing"

	kit "github.com/keep-network/keep-core/internal/verifkit"
	"github.com/keep-network/keep-core/pkg/bitcoin"
)

// c34Chain is a Bitcoin chain with confirmed transactions (block order) and
// mempool transactions, implementing the calls wallet.go uses as documented
// in pkg/bitcoin/chain.go.
type c34Chain struct {
	*localBitcoinChain // unrelated methods
	confirmed          []*bitcoin.Transaction
	mempool            []*bitcoin.Transaction
	fault              string
	calls              map[string]int
}

func (c *c34Chain) fail(call string) error {
	c.calls[call]++
	if c.fault == call {
		return fmt.Errorf("injected failure of %s", call)
	}
	return nil
}

func (c *c34Chain) GetTransaction(h bitcoin.Hash) (*bitcoin.Transaction, error) {
	if err := c.fail("getTx"); err != nil {
		return nil, err
	}
	for _, tx := range append(append([]*bitcoin.Transaction{}, c.confirmed...), c.mempool...) {
		if tx.Hash() == h {
			return tx, nil
		}
	}
	return nil, fmt.Errorf("transaction not found")
}

func c34Pays(tx *bitcoin.Transaction, pkh [20]byte) []int {
	p2pkh, _ := bitcoin.PayToPublicKeyHash(pkh)
	p2wpkh, _ := bitcoin.PayToWitnessPublicKeyHash(pkh)
	var idx []int
	for i, o := range tx.Outputs {
		if bytes.Equal(o.PublicKeyScript, p2pkh) || bytes.Equal(o.PublicKeyScript, p2wpkh) {
			idx = append(idx, i)
		}
	}
	return idx
}

func (c *c34Chain) GetTxHashesForPublicKeyHash(pkh [20]byte) ([]bitcoin.Hash, error) {
	if err := c.fail("txHashes"); err != nil {
		return nil, err
	}
	var out []bitcoin.Hash
	for _, tx := range c.confirmed {
		if len(c34Pays(tx, pkh)) > 0 {
			out = append(out, tx.Hash())
		}
	}
	return out, nil
}

func (c *c34Chain) spent(h bitcoin.Hash, idx uint32) bool {
	for _, tx := range append(append([]*bitcoin.Transaction{}, c.confirmed...), c.mempool...) {
		for _, in := range tx.Inputs {
			if in.Outpoint.TransactionHash == h && in.Outpoint.OutputIndex == idx {
				return true
			}
		}
	}
	return false
}

func (c *c34Chain) utxos(txs []*bitcoin.Transaction, pkh [20]byte) []*bitcoin.UnspentTransactionOutput {
	out := []*bitcoin.UnspentTransactionOutput{}
	for _, tx := range txs {
		for _, i := range c34Pays(tx, pkh) {
			if !c.spent(tx.Hash(), uint32(i)) {
				out = append(out, &bitcoin.UnspentTransactionOutput{
					Outpoint: &bitcoin.TransactionOutpoint{TransactionHash: tx.Hash(), OutputIndex: uint32(i)},
					Value:    tx.Outputs[i].Value,
				})
			}
		}
	}
	return out
}

func (c *c34Chain) GetUtxosForPublicKeyHash(pkh [20]byte) ([]*bitcoin.UnspentTransactionOutput, error) {
	if err := c.fail("utxos"); err != nil {
		return nil, err
	}
	return c.utxos(c.confirmed, pkh), nil
}

func (c *c34Chain) GetMempoolUtxosForPublicKeyHash(pkh [20]byte) ([]*bitcoin.UnspentTransactionOutput, error) {
	if err := c.fail("mempoolUtxos"); err != nil {
		return nil, err
	}
	return c.utxos(c.mempool, pkh), nil
}

// c34Bridge injects failures into the Bridge calls wallet.go uses.
type c34Bridge struct {
	*localChain
	fault string
	calls map[string]int
}

func (b *c34Bridge) GetWallet(pkh [20]byte) (*WalletChainData, error) {
	b.calls["getWallet"]++
	if b.fault == "getWallet" {
		return nil, fmt.Errorf("injected failure of getWallet")
	}
	return b.localChain.GetWallet(pkh)
}

func (b *c34Bridge) GetDepositRequest(h bitcoin.Hash, i uint32) (*DepositChainRequest, bool, error) {
	b.calls["depositRequest"]++
	if b.fault == "depositRequest" {
		return nil, false, fmt.Errorf("injected failure of depositRequest")
	}
	return b.localChain.GetDepositRequest(h, i)
}

func (b *c34Bridge) GetMovedFundsSweepRequest(h bitcoin.Hash, i uint32) (*MovedFundsSweepRequest, bool, error) {
	b.calls["movedRequest"]++
	if b.fault == "movedRequest" {
		return nil, false, fmt.Errorf("injected failure of movedRequest")
	}
	return b.localChain.GetMovedFundsSweepRequest(h, i)
}

func c34Hash(s string) [32]byte { return sha256.Sum256([]byte("verif-c34-" + s)) }

var c34MainErr = map[string]string{
	"getWallet": "cannot get on-chain data for wallet",
	"txHashes":  "cannot get transactions history for wallet",
	"getTx":     "cannot get transaction with hash",
	"notFound":  "main UTXO not found",
}

var c34SyncErr = map[string]string{
	"utxos":          "cannot get confirmed UTXOs",
	"noUtxos":        "wallet main UTXO exists but there are no UTXOs controlled by the wallet",
	"spent":          "is actually spent on Bitcoin",
	"mempoolUtxos":   "cannot get mempool UTXOs",
	"getTx":          "cannot get transaction with hash",
	"depositRequest": "cannot get deposit request for hash",
	"depositSweep":   "first Bitcoin transaction (deposit sweep)",
	"movedRequest":   "cannot get moved funds sweep request for hash",
	"movedSweep":     "first Bitcoin transaction (moved funds sweep)",
}

func TestVerif_C34_MainUtxo(t *testing.T) {
	kit.RequireEngine(t)
	rep := kit.NewReport("C34", "mainutxo")
	defer rep.Write(t)

	var pkh [20]byte
	h := c34Hash(fmt.Sprintf("wallet-%d", kit.Seed()))
	copy(pkh[:], h[:20])
	walletScripts := map[bool]bitcoin.Script{}
	walletScripts[true], _ = bitcoin.PayToPublicKeyHash(pkh)
	walletScripts[false], _ = bitcoin.PayToWitnessPublicKeyHash(pkh)
	var otherPkh [20]byte
	copy(otherPkh[:], h[12:32])
	otherScript, _ := bitcoin.PayToWitnessPublicKeyHash(otherPkh)
	lc := Connect()

	files := []string{"cases.ndjson"}
	var cases []kit.V
	for _, f := range files {
		cases = append(cases, kit.LoadCases(t, f)...)
	}
	for ci, cs := range cases {
		key := "scenario:" + kit.Hash(map[string]interface{}{"txs": cs.Get("txs").X, "registered": cs.Get("registered").X, "fault": cs.Get("fault").X})
		fault := cs.Get("fault").Str()
		// ---- build the world
		lc.wallets = map[[20]byte]*WalletChainData{}
		lc.depositRequests = map[[32]byte]*DepositChainRequest{}
		lc.movedFundsSweepRequests = map[[32]byte]*MovedFundsSweepRequest{}
		bridge := &c34Bridge{localChain: lc, fault: fault, calls: map[string]int{}}
		btc := &c34Chain{localBitcoinChain: newLocalBitcoinChain(), fault: fault, calls: map[string]int{}}
		specTxs := cs.Get("txs").List()
		built := make([]*bitcoin.Transaction, len(specTxs))
		// outputs of one transaction carry equal values in every other case (so that only the
		// output index tells them apart) and distinct values otherwise
		value := func(t, o int) int64 {
			if ci%2 == 0 {
				return int64(100000*t + 7*ci%900)
			}
			return int64(100000*t + 1000*o + 7*ci%900)
		}
		for ti, stx := range specTxs {
			tn := ti + 1
			tx := &bitcoin.Transaction{Version: 1}
			for ii, letter := range stx.Get("ins").Strs() {
				var op *bitcoin.TransactionOutpoint
				switch letter {
				case "D", "M", "S":
					op = &bitcoin.TransactionOutpoint{
						TransactionHash: bitcoin.Hash(c34Hash(fmt.Sprintf("ext-%d-%d-%d", ci, tn, ii))),
						OutputIndex:     uint32((ci + tn + ii) % 3),
					}
				case "R", "Q":
					rt, ro := stx.Get("ref").Idx(0).Int(), stx.Get("ref").Idx(1).Int()
					if rt < 1 || rt > ti {
						t.Fatalf("case %d: bad reference", ci)
					}
					op = &bitcoin.TransactionOutpoint{TransactionHash: built[rt-1].Hash(), OutputIndex: uint32(ro - 1)}
				default:
					t.Fatalf("case %d: unknown input letter %q", ci, letter)
				}
				switch letter {
				case "D":
					lc.setDepositRequest(op.TransactionHash, op.OutputIndex, &DepositChainRequest{Amount: 1})
				case "M", "Q":
					lc.movedFundsSweepRequests[buildMovedFundsSweepRequestKey(op.TransactionHash, op.OutputIndex)] = &MovedFundsSweepRequest{}
				}
				tx.Inputs = append(tx.Inputs, &bitcoin.TransactionInput{Outpoint: op, Sequence: 0xffffffff})
			}
			for oi, kind := range stx.Get("outs").Strs() {
				on := oi + 1
				script := otherScript
				if kind == "w" {
					script = walletScripts[(tn+on)%2 == 0]
				}
				tx.Outputs = append(tx.Outputs, &bitcoin.TransactionOutput{Value: value(tn, on), PublicKeyScript: script})
			}
			built[ti] = tx
			if stx.Get("where").Str() == "confirmed" {
				btc.confirmed = append(btc.confirmed, tx)
			} else {
				btc.mempool = append(btc.mempool, tx)
			}
		}
		utxoOf := func(tn, on int, delta int64) *bitcoin.UnspentTransactionOutput {
			return &bitcoin.UnspentTransactionOutput{
				Outpoint: &bitcoin.TransactionOutpoint{TransactionHash: built[tn-1].Hash(), OutputIndex: uint32(on - 1)},
				Value:    built[tn-1].Outputs[on-1].Value + delta,
			}
		}
		reg := cs.Get("registered")
		wd := &WalletChainData{State: StateLive}
		switch reg.Get("kind").Str() {
		case "none":
		case "bogus":
			wd.MainUtxoHash = c34Hash("no such utxo")
		case "out":
			wd.MainUtxoHash = lc.ComputeMainUtxoHash(utxoOf(reg.Get("t").Int(), reg.Get("o").Int(), 0))
		case "wrongvalue":
			wd.MainUtxoHash = lc.ComputeMainUtxoHash(utxoOf(reg.Get("t").Int(), reg.Get("o").Int(), 1))
		default:
			t.Fatalf("case %d: unknown registration", ci)
		}
		lc.setWallet(pkh, wd)

		// ---- the fake chain must present exactly the views the specification assumes
		refKey := func(u *bitcoin.UnspentTransactionOutput) string {
			for ti, tx := range built {
				if tx.Hash() == u.Outpoint.TransactionHash {
					return fmt.Sprintf("%d.%d", ti+1, u.Outpoint.OutputIndex+1)
				}
			}
			return "?"
		}
		listKey := func(us []*bitcoin.UnspentTransactionOutput) string {
			var s []string
			for _, u := range us {
				s = append(s, refKey(u))
			}
			return strings.Join(s, ",")
		}
		specList := func(v kit.V) string {
			var s []string
			for _, r := range v.List() {
				s = append(s, fmt.Sprintf("%d.%d", r.Idx(0).Int(), r.Idx(1).Int()))
			}
			return strings.Join(s, ",")
		}
		if got, want := listKey(btc.utxos(btc.confirmed, pkh)), specList(cs.Get("confirmedUtxos")); got != want {
			t.Fatalf("case %d: harness chain presents confirmed UTXOs %s, specification %s", ci, got, want)
		}
		if got, want := listKey(btc.utxos(btc.mempool, pkh)), specList(cs.Get("mempoolUtxos")); got != want {
			t.Fatalf("case %d: harness chain presents mempool UTXOs %s, specification %s", ci, got, want)
		}

		// ---- run the real code
		var mainUtxo *bitcoin.UnspentTransactionOutput
		var mainErr, syncErr error
		syncRan := false
		func() {
			defer func() {
				if r := recover(); r != nil {
					if !syncRan {
						mainErr = fmt.Errorf("PANIC: %v", r)
					} else {
						syncErr = fmt.Errorf("PANIC: %v", r)
					}
				}
			}()
			mainUtxo, mainErr = DetermineWalletMainUtxo(pkh, bridge, btc)
			if mainErr == nil {
				syncRan = true
				syncErr = EnsureWalletSyncedBetweenChains(pkh, mainUtxo, bridge, btc)
			}
		}()

		// ---- compare
		exp := cs.Get("main")
		expSync := cs.Get("sync").Str()
		nontrivial := ""
		if len(specTxs) > 0 && reg.Get("kind").Str() != "bogus" {
			nontrivial = key
		}
		rep.Eval(nontrivial, cs.X)
		rep.Count("main:"+map[bool]string{true: "ok", false: exp.Get("err").Str()}[exp.Get("err").Str() == ""], 1)
		rep.Count("sync:"+map[bool]string{true: "synced", false: expSync}[expSync == ""], 1)
		obs := map[string]interface{}{"mainErr": fmt.Sprint(mainErr), "syncErr": fmt.Sprint(syncErr), "syncRan": syncRan}
		if mainUtxo != nil {
			obs["main"] = fmt.Sprintf("%s value %d", refKey(mainUtxo), mainUtxo.Value)
		}
		var problems []string
		switch {
		case mainErr != nil && strings.HasPrefix(mainErr.Error(), "PANIC"):
			problems = append(problems, "DetermineWalletMainUtxo panicked: "+mainErr.Error())
		case exp.Get("err").Str() != "":
			want := c34MainErr[exp.Get("err").Str()]
			if mainErr == nil {
				problems = append(problems, fmt.Sprintf("DetermineWalletMainUtxo returned %v, expected an error (%s)", obs["main"], want))
			} else if !strings.Contains(mainErr.Error(), want) {
				problems = append(problems, fmt.Sprintf("DetermineWalletMainUtxo: error %q, expected %q", mainErr, want))
			}
		case mainErr != nil:
			problems = append(problems, "DetermineWalletMainUtxo failed: "+mainErr.Error())
		case exp.Get("t").Int() == 0:
			if mainUtxo != nil {
				problems = append(problems, fmt.Sprintf("DetermineWalletMainUtxo returned %v although no main UTXO is registered", obs["main"]))
			}
		default:
			want := utxoOf(exp.Get("t").Int(), exp.Get("o").Int(), 0)
			if mainUtxo == nil {
				problems = append(problems, fmt.Sprintf("DetermineWalletMainUtxo returned nil, expected output %d.%d", exp.Get("t").Int(), exp.Get("o").Int()))
			} else if mainUtxo.Outpoint.TransactionHash != want.Outpoint.TransactionHash ||
				mainUtxo.Outpoint.OutputIndex != want.Outpoint.OutputIndex || mainUtxo.Value != want.Value {
				problems = append(problems, fmt.Sprintf("DetermineWalletMainUtxo returned %v, expected %s value %d", obs["main"], refKey(want), want.Value))
			} else if lc.ComputeMainUtxoHash(mainUtxo) != wd.MainUtxoHash {
				problems = append(problems, "returned UTXO does not hash to the registered main UTXO hash")
			}
		}
		if len(problems) == 0 {
			switch {
			case expSync == "-":
				if syncRan {
					t.Fatalf("case %d: harness ran the sync check after a failed lookup", ci)
				}
			case !syncRan:
				t.Fatalf("case %d: sync check did not run", ci)
			case syncErr != nil && strings.HasPrefix(syncErr.Error(), "PANIC"):
				problems = append(problems, "EnsureWalletSyncedBetweenChains panicked: "+syncErr.Error())
			case expSync == "":
				if syncErr != nil {
					problems = append(problems, "EnsureWalletSyncedBetweenChains rejected a synced wallet: "+syncErr.Error())
				}
			default:
				want := c34SyncErr[expSync]
				if syncErr == nil {
					problems = append(problems, fmt.Sprintf("EnsureWalletSyncedBetweenChains passed, expected failure (%s)", want))
				} else if !strings.Contains(syncErr.Error(), want) {
					problems = append(problems, fmt.Sprintf("EnsureWalletSyncedBetweenChains: error %q, expected %q", syncErr, want))
				}
			}
		}
		if len(problems) > 0 {
			rep.Diverge(key, strings.Join(problems, "; "), cs.X, map[string]interface{}{"main": exp.X, "sync": expSync}, obs)
		}
	}
}
