//go:build verif

package tbtc

// C26 conformance harness: every case emitted by /verif/specs/TxAssembly
// (arguments of one of the four transaction assemblers plus the transaction
// the specification expects) is executed on the real assemble*Transaction
// functions with a local Bitcoin chain holding real funding transactions.
// The unsigned transaction inside the returned TransactionBuilder is compared
// with the specification: inputs' outpoints (in order), output scripts (in
// order) and output values, the recorded input values, the fee shares, and
// which documented error is returned. A sample of the assembled transactions
// is additionally signed with the wallet key and every input is executed by
// btcd's script engine against the funding output it is supposed to spend.
//
// Abstraction function (injective on the values used):
//   reference 0         -> the wallet main UTXO, reference i -> item i's UTXO
//   script "wallet"     -> P2WPKH(wallet public key hash)
//   script "rA".."rD"   -> a fixed P2WPKH / P2PKH / P2SH / P2WSH redeemer script;
//                          as a moving-funds target: P2WPKH of a fixed 20-byte hash
//   values              -> satoshi, unscaled (the spec already uses the exact integers)

import (
	"bytes"
	"crypto/ecdsa"
	"crypto/sha256"
	"encoding/binary"
	"encoding/hex"
	"fmt"
	"math/big"
	"sort"
	"strings"
	"testing"

	"github.com/btcsuite/btcd/btcec"
	"github.com/btcsuite/btcd/txscript"
	"github.com/btcsuite/btcd/wire"

	kit "github.com/keep-network/keep-core/internal/verifkit"
	"github.com/keep-network/keep-core/pkg/bitcoin"
	"github.com/keep-network/keep-core/pkg/chain"
)

type c26Env struct {
	priv      *btcec.PrivateKey
	pub       *ecdsa.PublicKey
	walletPKH [20]byte
	walletOut bitcoin.Script // P2WPKH(wallet)
	labels    map[string]bitcoin.Script
	targets   map[string][20]byte
	byScript  map[string]string // hex(script) -> label
}

func c26Hash20(s string) [20]byte {
	h := sha256.Sum256([]byte("verif-c26-" + s))
	var out [20]byte
	copy(out[:], h[:20])
	return out
}

func c26Hash32(s string) [32]byte { return sha256.Sum256([]byte("verif-c26-" + s)) }

func c26NewEnv(t *testing.T) *c26Env {
	seed := sha256.Sum256([]byte(fmt.Sprintf("verif-c26-wallet-%d", kit.Seed())))
	priv, pub := btcec.PrivKeyFromBytes(btcec.S256(), seed[:])
	e := &c26Env{priv: priv, pub: pub.ToECDSA(), labels: map[string]bitcoin.Script{},
		targets: map[string][20]byte{}, byScript: map[string]string{}}
	e.walletPKH = bitcoin.PublicKeyHash(e.pub)
	must := func(s bitcoin.Script, err error) bitcoin.Script {
		if err != nil {
			t.Fatalf("script construction: %v", err)
		}
		return s
	}
	e.walletOut = must(bitcoin.PayToWitnessPublicKeyHash(e.walletPKH))
	// redeemer scripts of the four standard kinds
	e.labels["rA"] = must(bitcoin.PayToWitnessPublicKeyHash(c26Hash20("rA")))
	e.labels["rB"] = must(bitcoin.PayToPublicKeyHash(c26Hash20("rB")))
	e.labels["rC"] = must(bitcoin.PayToScriptHash(c26Hash20("rC")))
	e.labels["rD"] = must(bitcoin.PayToWitnessScriptHash(c26Hash32("rD")))
	for _, l := range []string{"rA", "rB", "rC", "rD"} {
		e.targets[l] = c26Hash20("target-" + l)
	}
	return e
}

// c26Case holds the concrete world of one case.
type c26Case struct {
	env     *c26Env
	chain   *localBitcoinChain
	salt    string
	n       int
	prevOut map[string]*bitcoin.TransactionOutput // "hash:idx" -> funding output
}

// fund creates a funding transaction with an output (script, value); the
// output index varies (a decoy output is put first for odd counters) so that a
// wrong index is observable. The transaction is broadcast unless !known.
func (c *c26Case) fund(script bitcoin.Script, value int64, known bool) *bitcoin.UnspentTransactionOutput {
	c.n++
	prev := sha256.Sum256([]byte(fmt.Sprintf("prev-%s-%d", c.salt, c.n)))
	tx := &bitcoin.Transaction{
		Version: 1,
		Inputs: []*bitcoin.TransactionInput{{
			Outpoint: &bitcoin.TransactionOutpoint{TransactionHash: bitcoin.Hash(prev), OutputIndex: uint32(c.n)},
			Sequence: 0xffffffff,
		}},
	}
	idx := uint32(0)
	decoyScript, _ := bitcoin.PayToPublicKeyHash(c26Hash20(fmt.Sprintf("decoy-%d", c.n)))
	decoy := &bitcoin.TransactionOutput{Value: value + 777, PublicKeyScript: decoyScript}
	out := &bitcoin.TransactionOutput{Value: value, PublicKeyScript: script}
	if (c.n+int(c.salt[0]))%2 == 1 {
		tx.Outputs = []*bitcoin.TransactionOutput{decoy, out}
		idx = 1
	} else {
		tx.Outputs = []*bitcoin.TransactionOutput{out, decoy}
	}
	if known {
		if err := c.chain.BroadcastTransaction(tx); err != nil {
			panic("harness: broadcast funding transaction: " + err.Error())
		}
	}
	u := &bitcoin.UnspentTransactionOutput{
		Outpoint: &bitcoin.TransactionOutpoint{TransactionHash: tx.Hash(), OutputIndex: idx},
		Value:    value,
	}
	c.prevOut[c26OutpointKey(u.Outpoint)] = out
	return u
}

func c26OutpointKey(o *bitcoin.TransactionOutpoint) string {
	return fmt.Sprintf("%s:%d", hex.EncodeToString(o.TransactionHash[:]), o.OutputIndex)
}

// mainUtxo realizes the spec's main record.
func (c *c26Case) mainUtxo(m kit.V) *bitcoin.UnspentTransactionOutput {
	v := int64(m.Get("value").Int())
	switch m.Get("kind").Str() {
	case "none":
		return nil
	case "p2pkh":
		s, _ := bitcoin.PayToPublicKeyHash(c.env.walletPKH)
		return c.fund(s, v, true)
	case "p2wpkh":
		return c.fund(c.env.walletOut, v, true)
	case "wrongclass":
		s, _ := bitcoin.PayToWitnessScriptHash(c26Hash32("not-a-pkh"))
		return c.fund(s, v, true)
	case "unknown":
		return c.fund(c.env.walletOut, v, false)
	}
	panic("harness: unknown main kind " + m.Get("kind").Str())
}

// deposit realizes one deposit item.
func (c *c26Case) deposit(it kit.V, i int) *Deposit {
	kind := it.Get("label").Str()
	d := &Deposit{
		Depositor:           chain.Address(fmt.Sprintf("0x%x", c26Hash20(fmt.Sprintf("depositor-%d", i)))),
		WalletPublicKeyHash: c.env.walletPKH,
		RefundPublicKeyHash: c26Hash20(fmt.Sprintf("refund-%d", i)),
		RefundLocktime:      [4]byte{0x60, 0xbc, 0xea, 0x61},
	}
	binary.BigEndian.PutUint64(d.BlindingFactor[:], uint64(0xf9f0c90d00039500)+uint64(i))
	if strings.HasSuffix(kind, "+x") {
		x := c26Hash32(fmt.Sprintf("extra-%d", i))
		d.ExtraData = &x
	}
	v := int64(it.Get("value").Int())
	script, err := d.Script()
	if err != nil {
		panic("harness: deposit script: " + err.Error())
	}
	switch strings.TrimSuffix(kind, "+x") {
	case "p2sh":
		s, _ := bitcoin.PayToScriptHash(bitcoin.ScriptHash(script))
		d.Utxo = c.fund(s, v, true)
	case "p2wsh":
		s, _ := bitcoin.PayToWitnessScriptHash(bitcoin.WitnessScriptHash(script))
		d.Utxo = c.fund(s, v, true)
	case "wrongclass":
		d.Utxo = c.fund(c.env.walletOut, v, true)
	case "unknown":
		s, _ := bitcoin.PayToWitnessScriptHash(bitcoin.WitnessScriptHash(script))
		d.Utxo = c.fund(s, v, false)
	case "badscript":
		s, _ := bitcoin.PayToWitnessScriptHash(bitcoin.WitnessScriptHash(script))
		d.Utxo = c.fund(s, v, true)
		d.Depositor = chain.Address("0x1234") // not 20 bytes: Deposit.Script() fails
	default:
		panic("harness: unknown deposit kind " + kind)
	}
	return d
}

// c26Bridge is the package's local Bridge chain with real event filtering (block range and
// wallet, as an Ethereum node applies it) and on-chain proposal validation that accepts
// everything while recording what it was given: the point of the proposal scenarios is what
// the Go code resolves the proposal to, not what the contract would reject afterwards.
type c26Bridge struct {
	*localChain
	events []*DepositRevealedEvent
	extra  []struct {
		*Deposit
		FundingTx *bitcoin.Transaction
	}
}

func (b *c26Bridge) PastDepositRevealedEvents(f *DepositRevealedEventFilter) ([]*DepositRevealedEvent, error) {
	out := []*DepositRevealedEvent{}
	for _, e := range b.events {
		if f != nil {
			if e.BlockNumber < f.StartBlock || (f.EndBlock != nil && e.BlockNumber > *f.EndBlock) {
				continue
			}
			if len(f.WalletPublicKeyHash) > 0 {
				found := false
				for _, w := range f.WalletPublicKeyHash {
					found = found || w == e.WalletPublicKeyHash
				}
				if !found {
					continue
				}
			}
		}
		cp := *e
		out = append(out, &cp)
	}
	return out, nil
}

func (b *c26Bridge) ValidateDepositSweepProposal(w [20]byte, p *DepositSweepProposal, extra []struct {
	*Deposit
	FundingTx *bitcoin.Transaction
}) error {
	b.extra = extra
	return nil
}

func (b *c26Bridge) ValidateRedemptionProposal(w [20]byte, p *RedemptionProposal) error { return nil }

func (b *c26Bridge) ValidateMovedFundsSweepProposal(w [20]byte, p *MovedFundsSweepProposal) error {
	return nil
}

// c26Btc adds per-transaction confirmation counts to the local Bitcoin chain.
type c26Btc struct {
	*localBitcoinChain
	conf map[bitcoin.Hash]uint
}

func (b *c26Btc) GetTransactionConfirmations(h bitcoin.Hash) (uint, error) {
	if n, ok := b.conf[h]; ok {
		return n, nil
	}
	return 0, fmt.Errorf("transaction not found")
}

// c26DepositData returns the deposit revealed at output idx of funding transaction tx.
func (c *c26Case) c26DepositData(tx, idx int, wallet [20]byte) *Deposit {
	d := &Deposit{
		Depositor:           chain.Address(fmt.Sprintf("0x%x", c26Hash20(fmt.Sprintf("depositor-%d-%d", tx, idx)))),
		WalletPublicKeyHash: wallet,
		RefundPublicKeyHash: c26Hash20(fmt.Sprintf("refund-%d-%d", tx, idx)),
		RefundLocktime:      [4]byte{0x60, 0xbc, 0xea, 0x61},
	}
	binary.BigEndian.PutUint64(d.BlindingFactor[:], uint64(0xf9f0c90d00039500)+uint64(16*tx+idx))
	return d
}

var c26ErrText = map[string]string{
	"noDeposits":    "at least one deposit is required",
	"mainInput":     "cannot add input pointing to wallet main UTXO",
	"depositScript": "cannot get script for deposit [%d]",
	"depositInput":  "cannot add input pointing to deposit [%d] UTXO",
	"noMain":        "wallet main UTXO is required",
	"noRequests":    "at least one redemption request is required",
	"noTargets":     "at least one target wallet is required",
	"noMoved":       "moved funds UTXO is required",
	"movedLookup":   "could not get moving funds transaction",
	"movedInput":    "cannot add input pointing to moved funds UTXO",
	// proposal resolution (ValidateDepositSweepProposal / ValidateRedemptionProposal), "[i/n]" display index
	"fundingConfirmations": "cannot get funding tx confirmations count for deposit [%d/%d]",
	"fundingUnconfirmed":   "funding tx of deposit [%d/%d] has only",
	"noEvent":              "no matching DepositRevealed event for deposit [%d/%d]",
	"noRequest":            "request data not found for deposit [%d/%d]",
	"notPending":           "request [%d/%d] is not a pending redemption request",
}

type c26Observed struct {
	Err         string   `json:"err"`
	Inputs      []string `json:"inputs"`
	Outputs     []string `json:"outputs"`
	InputValues []int64  `json:"inputValues,omitempty"`
	Shares      []int64  `json:"shares,omitempty"`
	Total       int64    `json:"totalInputsValue"`
}

func TestVerif_C26_Assemble(t *testing.T) {
	kit.RequireEngine(t)
	rep := kit.NewReport("C26", "assemble")
	defer rep.Write(t)
	env := c26NewEnv(t)
	cases := kit.LoadCases(t, "cases.ndjson")
	signEvery := kit.IntEnv("VERIF_SIGN_EVERY", 10)
	signed := 0
	var weak []func()
	lc := Connect()
	otherPKH := c26Hash20("another-wallet")
	for ci, cs := range cases {
		in, exp := cs.Get("in"), cs.Get("expected")
		kind := in.Get("kind").Str()
		h := kit.Hash(in.X)
		key := kind + ":" + h
		c := &c26Case{env: env, chain: newLocalBitcoinChain(), salt: h, prevOut: map[string]*bitcoin.TransactionOutput{}}
		// label <-> script maps for this case
		byScript := map[string]string{hex.EncodeToString(env.walletOut): "wallet"}
		fee := int64(in.Get("fee").Int())
		items := in.Get("items").List()
		refs := map[int]*bitcoin.UnspentTransactionOutput{}
		var builder *bitcoin.TransactionBuilder
		var err error
		var shares []int64
		var redeemable int64 // sum of (amount - treasury fee) of the redemption requests
		var entries int      // number of proposal entries (display index of errors)
		var extraProblem string
		func() {
			defer func() {
				if r := recover(); r != nil {
					if s, ok := r.(string); ok && strings.HasPrefix(s, "harness:") {
						t.Fatalf("case %d: %s", ci, s)
					}
					err = fmt.Errorf("PANIC: %v", r)
				}
			}()
			main := c.mainUtxo(in.Get("main"))
			refs[0] = main
			switch kind {
			case "sweep":
				deposits := make([]*Deposit, len(items))
				for i, it := range items {
					deposits[i] = c.deposit(it, i+1)
					refs[i+1] = deposits[i].Utxo
				}
				builder, err = assembleDepositSweepTransaction(c.chain, env.pub, main, deposits, fee)
			case "redemption":
				requests := make([]*RedemptionRequest, len(items))
				for i, it := range items {
					script := env.labels[it.Get("label").Str()]
					byScript[hex.EncodeToString(script)] = it.Get("label").Str()
					requests[i] = &RedemptionRequest{
						Redeemer:             chain.Address(fmt.Sprintf("0x%x", c26Hash20(fmt.Sprintf("redeemer-%d", i)))),
						RedeemerOutputScript: script,
						RequestedAmount:      uint64(it.Get("value").Int()),
						TreasuryFee:          uint64(it.Get("aux").Int()),
						// the per-request fee limit: below, equal to or above the proposed share
						// (the assembler must apply the proposed shares regardless)
						TxMaxFee: uint64(in.Get("txMaxFee").Idx(i).Int()),
					}
					redeemable += int64(it.Get("value").Int() - it.Get("aux").Int())
				}
				if len(requests) > 0 {
					shares = withRedemptionTotalFee(fee)(requests)
				}
				switch in.Get("shape").Str() {
				case "default":
					// exactly what redemptionAction.execute does: fee distribution and shape of the production action
					ra := newRedemptionAction(nil, nil, c.chain, wallet{publicKey: env.pub}, nil,
						&RedemptionProposal{RedemptionTxFee: big.NewInt(fee)}, 0, 0, nil)
					builder, err = assembleRedemptionTransaction(ra.btcChain, ra.wallet().publicKey, main, requests, ra.feeDistribution, ra.transactionShape)
				case "first":
					builder, err = assembleRedemptionTransaction(c.chain, env.pub, main, requests, withRedemptionTotalFee(fee), RedemptionChangeFirst)
				case "last":
					builder, err = assembleRedemptionTransaction(c.chain, env.pub, main, requests, withRedemptionTotalFee(fee), RedemptionChangeLast)
				default:
					panic("harness: unknown shape")
				}
			case "movingFunds":
				targets := make([][20]byte, len(items))
				for i, it := range items {
					l := it.Get("label").Str()
					targets[i] = env.targets[l]
					s, _ := bitcoin.PayToWitnessPublicKeyHash(targets[i])
					byScript[hex.EncodeToString(s)] = l
				}
				builder, err = assembleMovingFundsTransaction(c.chain, main, targets, fee)
			case "movedFundsSweep":
				var moved *bitcoin.UnspentTransactionOutput
				if len(items) > 0 {
					it := items[0]
					v := int64(it.Get("value").Int())
					var u *bitcoin.UnspentTransactionOutput
					switch it.Get("label").Str() {
					case "p2pkh":
						s, _ := bitcoin.PayToPublicKeyHash(env.walletPKH)
						u = c.fund(s, v, true)
					case "p2wpkh":
						u = c.fund(env.walletOut, v, true)
					case "wrongclass":
						s, _ := bitcoin.PayToScriptHash(c26Hash20("not-a-pkh"))
						u = c.fund(s, v, true)
					case "unknown":
						u = c.fund(env.walletOut, v, false)
					default:
						panic("harness: unknown moved funds kind")
					}
					refs[1] = u
					// as movedFundsSweepAction.execute: validate the proposal, then look the moved funds
					// UTXO (value) up on the Bitcoin chain from the proposal's transaction hash and index
					proposal := &MovedFundsSweepProposal{MovingFundsTxHash: u.Outpoint.TransactionHash,
						MovingFundsTxOutputIndex: u.Outpoint.OutputIndex, SweepTxFee: big.NewInt(fee)}
					if verr := ValidateMovedFundsSweepProposal(logger, env.walletPKH, proposal, &c26Bridge{localChain: lc}); verr != nil {
						panic("harness: moved funds sweep proposal validation: " + verr.Error())
					}
					moved, err = assembleMovedFundsSweepUtxo(c.chain, proposal.MovingFundsTxHash, proposal.MovingFundsTxOutputIndex)
					if err != nil {
						return
					}
				}
				builder, err = assembleMovedFundsSweepTransaction(c.chain, env.pub, moved, main, fee)
			case "sweepProposal":
				// depositSweepAction.execute: ValidateDepositSweepProposal -> DetermineWalletMainUtxo ->
				// EnsureWalletSyncedBetweenChains -> assembleDepositSweepTransaction
				lc.wallets = map[[20]byte]*WalletChainData{}
				lc.depositRequests = map[[32]byte]*DepositChainRequest{}
				bridge := &c26Bridge{localChain: lc}
				btc := &c26Btc{localBitcoinChain: c.chain, conf: map[bitcoin.Hash]uint{}}
				wd := &WalletChainData{State: StateLive}
				if main != nil {
					wd.MainUtxoHash = lc.ComputeMainUtxoHash(main)
					btc.conf[main.Outpoint.TransactionHash] = 10
				}
				lc.setWallet(env.walletPKH, wd)
				// funding transactions: one output per potential deposit, in index order
				deps := in.Get("deposits").List()
				byTx := map[int][]kit.V{}
				var txIDs []int
				for _, d := range deps {
					tx := d.Get("tx").Int()
					if byTx[tx] == nil {
						txIDs = append(txIDs, tx)
					}
					byTx[tx] = append(byTx[tx], d)
				}
				sort.Ints(txIDs)
				txHash := map[int]bitcoin.Hash{}
				for _, tx := range txIDs {
					outs := byTx[tx]
					sort.Slice(outs, func(a, b int) bool { return outs[a].Get("idx").Int() < outs[b].Get("idx").Int() })
					ftx := &bitcoin.Transaction{Version: 1, Inputs: []*bitcoin.TransactionInput{{
						Outpoint: &bitcoin.TransactionOutpoint{TransactionHash: bitcoin.Hash(c26Hash32(fmt.Sprintf("ext-%s-%d", h, tx)))},
						Sequence: 0xffffffff}}}
					for n, d := range outs {
						if d.Get("idx").Int() != n {
							panic("harness: deposit outputs of a funding transaction must be contiguous from 0")
						}
						wallet := env.walletPKH
						if d.Get("state").Str() == "other" {
							wallet = otherPKH
						}
						script, serr := c.c26DepositData(tx, n, wallet).Script()
						if serr != nil {
							panic("harness: deposit script: " + serr.Error())
						}
						var pk bitcoin.Script
						if (tx+n)%2 == 0 {
							pk, _ = bitcoin.PayToWitnessScriptHash(bitcoin.WitnessScriptHash(script))
						} else {
							pk, _ = bitcoin.PayToScriptHash(bitcoin.ScriptHash(script))
						}
						ftx.Outputs = append(ftx.Outputs, &bitcoin.TransactionOutput{Value: int64(d.Get("value").Int()), PublicKeyScript: pk})
					}
					txHash[tx] = ftx.Hash()
					switch in.Get("txs").Idx(tx - 1).Str() {
					case "ok":
						btc.conf[ftx.Hash()] = DepositSweepRequiredFundingTxConfirmations
					case "unconfirmed":
						btc.conf[ftx.Hash()] = DepositSweepRequiredFundingTxConfirmations - 1
					}
					if in.Get("txs").Idx(tx-1).Str() != "unknown" {
						if berr := c.chain.BroadcastTransaction(ftx); berr != nil {
							panic("harness: broadcast: " + berr.Error())
						}
					}
					for n, d := range outs {
						op := &bitcoin.TransactionOutpoint{TransactionHash: ftx.Hash(), OutputIndex: uint32(n)}
						c.prevOut[c26OutpointKey(op)] = ftx.Outputs[n]
						st := d.Get("state").Str()
						if st == "absent" {
							continue
						}
						wallet := env.walletPKH
						if st == "other" {
							wallet = otherPKH
						}
						dd := c.c26DepositData(tx, n, wallet)
						bridge.events = append(bridge.events, &DepositRevealedEvent{
							FundingTxHash: ftx.Hash(), FundingOutputIndex: uint32(n), Depositor: dd.Depositor,
							Amount: uint64(d.Get("value").Int()), BlindingFactor: dd.BlindingFactor, WalletPublicKeyHash: wallet,
							RefundPublicKeyHash: dd.RefundPublicKeyHash, RefundLocktime: dd.RefundLocktime,
							BlockNumber: uint64(1000 + d.Get("block").Int()),
						})
						if st != "noreq" {
							lc.setDepositRequest(ftx.Hash(), uint32(n), &DepositChainRequest{Depositor: dd.Depositor, Amount: uint64(d.Get("value").Int())})
						}
					}
				}
				proposal := &DepositSweepProposal{SweepTxFee: big.NewInt(fee)}
				keys := in.Get("keys").List()
				entries = len(keys)
				for n, k := range keys {
					proposal.DepositsKeys = append(proposal.DepositsKeys, struct {
						FundingTxHash      bitcoin.Hash
						FundingOutputIndex uint32
					}{txHash[k.Get("tx").Int()], uint32(k.Get("idx").Int())})
					proposal.DepositsRevealBlocks = append(proposal.DepositsRevealBlocks, big.NewInt(int64(1000+k.Get("block").Int())))
					// the UTXO the proposal NAMES with key n
					refs[n+1] = &bitcoin.UnspentTransactionOutput{
						Outpoint: &bitcoin.TransactionOutpoint{TransactionHash: txHash[k.Get("tx").Int()], OutputIndex: uint32(k.Get("idx").Int())},
						Value:    int64(k.Get("value").Int())}
				}
				var deposits []*Deposit
				deposits, err = ValidateDepositSweepProposal(logger, env.walletPKH, proposal, DepositSweepRequiredFundingTxConfirmations, bridge, btc)
				if err != nil {
					return
				}
				for n, x := range bridge.extra {
					if x.Deposit == nil || x.Utxo.Outpoint.TransactionHash != proposal.DepositsKeys[n].FundingTxHash ||
						x.Utxo.Outpoint.OutputIndex != proposal.DepositsKeys[n].FundingOutputIndex {
						extraProblem = fmt.Sprintf("deposit data handed to the Bridge for key %d (%s) is the data of another deposit (%s)",
							n+1, c26OutpointKey(refs[n+1].Outpoint), c26OutpointKey(x.Utxo.Outpoint))
						break
					}
				}
				determined, derr := DetermineWalletMainUtxo(env.walletPKH, bridge, btc)
				if derr != nil || (determined == nil) != (main == nil) {
					panic(fmt.Sprintf("harness: main UTXO lookup: %v %v", determined, derr))
				}
				if serr := EnsureWalletSyncedBetweenChains(env.walletPKH, determined, bridge, btc); serr != nil {
					panic("harness: sync check: " + serr.Error())
				}
				builder, err = assembleDepositSweepTransaction(btc, env.pub, determined, deposits, proposal.SweepTxFee.Int64())
			case "redemptionProposal":
				// redemptionAction.execute: ValidateRedemptionProposal -> DetermineWalletMainUtxo ->
				// EnsureWalletSyncedBetweenChains -> assembleRedemptionTransaction
				lc.wallets = map[[20]byte]*WalletChainData{}
				lc.pendingRedemptionRequests = map[[32]byte]*RedemptionRequest{}
				bridge := &c26Bridge{localChain: lc}
				lc.setWallet(env.walletPKH, &WalletChainData{State: StateLive, MainUtxoHash: lc.ComputeMainUtxoHash(main)})
				for _, l := range in.Get("pend").Keys() {
					st := in.Get("pend").Get(l)
					byScript[hex.EncodeToString(env.labels[l])] = l
					if st.Get("p").Bool() {
						txMaxFee := uint64(1 << 40)
						for n, pl := range in.Get("scripts").Strs() {
							if pl == l {
								txMaxFee = uint64(in.Get("txMaxFee").Idx(n).Int())
							}
						}
						lc.setPendingRedemptionRequest(env.walletPKH, &RedemptionRequest{
							Redeemer: chain.Address(fmt.Sprintf("0x%x", c26Hash20("redeemer-"+l))), RedeemerOutputScript: env.labels[l],
							RequestedAmount: uint64(st.Get("amount").Int()), TreasuryFee: uint64(st.Get("treasury").Int()), TxMaxFee: txMaxFee})
					}
					if in.Get("foreign").Bool() {
						lc.setPendingRedemptionRequest(otherPKH, &RedemptionRequest{
							Redeemer: chain.Address(fmt.Sprintf("0x%x", c26Hash20("foreign-"+l))), RedeemerOutputScript: env.labels[l],
							RequestedAmount: 500002, TreasuryFee: 2, TxMaxFee: 1 << 40})
					}
				}
				proposal := &RedemptionProposal{RedemptionTxFee: big.NewInt(fee)}
				scripts := in.Get("scripts").Strs()
				entries = len(scripts)
				for _, l := range scripts {
					proposal.RedeemersOutputScripts = append(proposal.RedeemersOutputScripts, env.labels[l])
					st := in.Get("pend").Get(l)
					redeemable += int64(st.Get("amount").Int() - st.Get("treasury").Int())
				}
				var requests []*RedemptionRequest
				requests, err = ValidateRedemptionProposal(logger, env.walletPKH, proposal, bridge)
				if err != nil {
					return
				}
				determined, derr := DetermineWalletMainUtxo(env.walletPKH, bridge, c.chain)
				if derr != nil || determined == nil {
					panic(fmt.Sprintf("harness: main UTXO lookup: %v %v", determined, derr))
				}
				if serr := EnsureWalletSyncedBetweenChains(env.walletPKH, determined, bridge, c.chain); serr != nil {
					panic("harness: sync check: " + serr.Error())
				}
				ra := newRedemptionAction(nil, bridge, c.chain, wallet{publicKey: env.pub}, nil, proposal, 0, 0, nil)
				shares = ra.feeDistribution(requests)
				shape := ra.transactionShape
				if in.Get("shape").Str() == "last" {
					shape = RedemptionChangeLast
				}
				builder, err = assembleRedemptionTransaction(ra.btcChain, ra.wallet().publicKey, determined, requests, ra.feeDistribution, shape)
			default:
				panic("harness: unknown kind " + kind)
			}
		}()

		// ---- observe
		obs := c26Observed{Shares: shares}
		if err != nil {
			obs.Err = err.Error()
		}
		var unsigned *bitcoin.Transaction
		if err == nil && builder != nil {
			unsigned = builder.VerifUnsignedTransaction()
			obs.InputValues = builder.VerifInputValues()
			obs.Total = builder.TotalInputsValue()
			for _, i := range unsigned.Inputs {
				obs.Inputs = append(obs.Inputs, c26OutpointKey(i.Outpoint))
			}
			for _, o := range unsigned.Outputs {
				l, ok := byScript[hex.EncodeToString(o.PublicKeyScript)]
				if !ok {
					l = "?" + hex.EncodeToString(o.PublicKeyScript)
				}
				obs.Outputs = append(obs.Outputs, fmt.Sprintf("%s=%d", l, o.Value))
			}
		}

		// ---- compare with the specification
		expErr := exp.Get("err").Str()
		nontrivial := ""
		if expErr == "" {
			nontrivial = key
		}
		rep.Eval(nontrivial, cs.X)
		rep.Count(kind+"/"+map[bool]string{true: "built", false: "error:" + expErr}[expErr == ""], 1)
		var problems []string
		if strings.HasPrefix(obs.Err, "PANIC") {
			problems = append(problems, "assembler panicked: "+obs.Err)
		} else if expErr != "" {
			want := c26ErrText[expErr]
			if strings.Contains(want, "%d/%d") {
				want = fmt.Sprintf(want, exp.Get("errIdx").Int()+1, entries)
			} else if strings.Contains(want, "%d") {
				want = fmt.Sprintf(want, exp.Get("errIdx").Int())
			}
			if err == nil {
				problems = append(problems, fmt.Sprintf("a transaction was assembled although the arguments violate a documented precondition (expected error %q)", want))
			} else if !strings.Contains(obs.Err, want) &&
				!(expErr == "mainInput" && strings.Contains(obs.Err, "cannot add input pointing to main wallet UTXO")) { // wording of moved_funds_sweep.go
				problems = append(problems, fmt.Sprintf("wrong error: %q, expected one containing %q", obs.Err, want))
			}
		} else if err != nil {
			problems = append(problems, "assembler failed on valid arguments: "+obs.Err)
		} else {
			// inputs: exactly the intended UTXOs in the intended order
			var wantIn []string
			var wantVals []int64
			var wantTotal int64
			for _, r := range exp.Get("inputs").Ints() {
				u := refs[r]
				if u == nil {
					t.Fatalf("case %d: spec references a UTXO (%d) the harness did not create", ci, r)
				}
				wantIn = append(wantIn, c26OutpointKey(u.Outpoint))
				wantVals = append(wantVals, u.Value)
				wantTotal += u.Value
			}
			if strings.Join(obs.Inputs, ",") != strings.Join(wantIn, ",") {
				problems = append(problems, fmt.Sprintf("inputs %v, expected %v (spec refs %v)", obs.Inputs, wantIn, exp.Get("inputs").Ints()))
			}
			if fmt.Sprint(obs.InputValues) != fmt.Sprint(wantVals) || obs.Total != wantTotal {
				problems = append(problems, fmt.Sprintf("recorded input values %v (total %d), expected %v (total %d)", obs.InputValues, obs.Total, wantVals, wantTotal))
			}
			// outputs: scripts and values in order
			var wantOut []string
			var sumOut int64
			for _, o := range exp.Get("outputs").List() {
				wantOut = append(wantOut, fmt.Sprintf("%s=%d", o.Get("script").Str(), o.Get("value").Int()))
			}
			for _, o := range unsigned.Outputs {
				sumOut += o.Value
			}
			if strings.Join(obs.Outputs, ",") != strings.Join(wantOut, ",") {
				problems = append(problems, fmt.Sprintf("outputs %v, expected %v", obs.Outputs, wantOut))
			}
			// fee shares
			if kind == "redemption" || kind == "redemptionProposal" {
				for n, lim := range in.Get("txMaxFee").Ints() {
					if n < len(shares) && shares[n] > int64(lim) {
						rep.Count("redemption/share-above-TxMaxFee", 1)
						break
					}
				}
				var wantShares []int64
				var sumShares int64
				for _, s := range exp.Get("shares").Ints() {
					wantShares = append(wantShares, int64(s))
				}
				for _, s := range shares {
					sumShares += s
				}
				if fmt.Sprint(shares) != fmt.Sprint(wantShares) {
					problems = append(problems, fmt.Sprintf("fee shares %v, expected %v", shares, wantShares))
				}
				if sumShares != fee {
					problems = append(problems, fmt.Sprintf("fee shares %v add up to %d, proposed fee %d", shares, sumShares, fee))
				}
			}
			// value conservation, stated directly (not via the expected outputs)
			funded := true
			if kind == "redemption" || kind == "redemptionProposal" {
				funded = int64(in.Get("main").Get("value").Int()) >= redeemable
			}
			if extraProblem != "" {
				problems = append(problems, extraProblem)
			}
			if funded && wantTotal-sumOut != fee {
				problems = append(problems, fmt.Sprintf("inputs %d - outputs %d = %d, proposed fee %d", wantTotal, sumOut, wantTotal-sumOut, fee))
			}
		}
		if len(problems) > 0 {
			if expErr != "" && err != nil && !strings.HasPrefix(obs.Err, "PANIC") {
				// rejected, but for another reason than specified: reported after the divergences
				// in which a transaction was (or should have been) built
				weak = append(weak, func() {
					rep.Diverge(key, "assemble "+kind+": "+strings.Join(problems, "; "), cs.X, exp.X, obs)
				})
				continue
			}
			rep.Diverge(key, "assemble "+kind+": "+strings.Join(problems, "; "), cs.X, exp.X, obs)
			continue
		}

		// ---- sign a sample and run Bitcoin's script engine on every input
		if unsigned != nil && len(unsigned.Inputs) > 0 && signEvery > 0 && ci%signEvery == 0 {
			if msg := c26SignAndVerify(c, builder); msg != "" {
				rep.Diverge("sign:"+key, "assemble "+kind+": the assembled transaction cannot be signed into a valid spend of the intended UTXOs: "+msg, cs.X, exp.X, obs)
			}
			signed++
		}
	}
	for _, f := range weak {
		f()
	}
	rep.Count("signed_and_script_verified", signed)
	if signed == 0 {
		t.Fatalf("no transaction was signed and verified")
	}
}

// c26SignAndVerify signs the builder's transaction with the wallet key and
// executes every input against the funding output it must spend.
func c26SignAndVerify(c *c26Case, builder *bitcoin.TransactionBuilder) (msg string) {
	defer func() {
		if r := recover(); r != nil {
			msg = fmt.Sprintf("panic while signing: %v", r)
		}
	}()
	sigHashes, err := builder.ComputeSignatureHashes()
	if err != nil {
		return "ComputeSignatureHashes: " + err.Error()
	}
	sigs := make([]*bitcoin.SignatureContainer, len(sigHashes))
	for i, sh := range sigHashes {
		digest := make([]byte, 32)
		sh.FillBytes(digest)
		s, err := c.env.priv.Sign(digest)
		if err != nil {
			return "harness signing failed: " + err.Error()
		}
		sigs[i] = &bitcoin.SignatureContainer{R: s.R, S: s.S, PublicKey: c.env.pub}
	}
	tx, err := builder.AddSignatures(sigs)
	if err != nil {
		return "AddSignatures: " + err.Error()
	}
	var msgTx wire.MsgTx
	if err := msgTx.Deserialize(bytes.NewReader(tx.Serialize())); err != nil {
		return "signed transaction does not deserialize: " + err.Error()
	}
	hashes := txscript.NewTxSigHashes(&msgTx)
	for i, in := range tx.Inputs {
		prev, ok := c.prevOut[c26OutpointKey(in.Outpoint)]
		if !ok {
			return fmt.Sprintf("input %d spends an outpoint that is none of the intended UTXOs", i)
		}
		vm, err := txscript.NewEngine(prev.PublicKeyScript, &msgTx, i, txscript.StandardVerifyFlags, nil, hashes, prev.Value)
		if err != nil {
			return fmt.Sprintf("input %d: script engine: %v", i, err)
		}
		if err := vm.Execute(); err != nil {
			return fmt.Sprintf("input %d does not unlock its UTXO: %v", i, err)
		}
	}
	return ""
}
