//go:build verif

package tbtc

// C37 conformance harness for pkg/tbtc's event deduplicator
// (spec: /verif/specs/Dedup). Drivers live in the kit (dedup.go).

import (
	"encoding/hex"
	"math/big"
	"strconv"
	"strings"
	"testing"
	"time"

	"github.com/keep-network/keep-common/pkg/cache"
	kit "github.com/keep-network/keep-core/internal/verifkit"
	"github.com/keep-network/keep-core/pkg/internal/verifhook"
)

func c37NewDeduplicator(period time.Duration) *deduplicator {
	if period == 0 {
		return newDeduplicator()
	}
	return &deduplicator{
		dkgSeedCache:       cache.NewTimeCache(period),
		dkgResultHashCache: cache.NewTimeCache(period),
		walletClosedCache:  cache.NewTimeCache(period),
	}
}

func c37Num(k string) int64 {
	n, err := strconv.Atoi(strings.TrimLeft(k, "kv"))
	if err != nil {
		panic("c37: bad model key " + k)
	}
	return int64(n)
}

func c37Targets() []kit.DedupTarget {
	return []kit.DedupTarget{
		{Name: "tbtc.notifyDKGStarted", New: func(p time.Duration) func(string) bool {
			d := c37NewDeduplicator(p)
			return func(k string) bool { return d.notifyDKGStarted(big.NewInt(0x1000 + c37Num(k))) }
		}},
		{Name: "tbtc.notifyDKGResultSubmitted", New: func(p time.Duration) func(string) bool {
			d := c37NewDeduplicator(p)
			return func(k string) bool {
				var h DKGChainResultHash
				h[0], h[31] = byte(c37Num(k)), 0xee
				return d.notifyDKGResultSubmitted(big.NewInt(0xabc), h, uint64(100+c37Num(k)))
			}
		}},
		{Name: "tbtc.notifyWalletClosed", New: func(p time.Duration) func(string) bool {
			d := c37NewDeduplicator(p)
			return func(k string) bool {
				var id [32]byte
				id[5] = byte(c37Num(k))
				return d.notifyWalletClosed(id)
			}
		}},
	}
}

func TestVerif_C37_Schedules(t *testing.T) {
	kit.RequireEngine(t)
	rep := kit.NewReport("C37", "tbtc_schedules")
	defer rep.Write(t)
	cases := kit.LoadCases(t, "schedules.ndjson")
	kit.ReplayDedupSchedules(t, rep, cases, c37Targets(),
		func(h func(string, ...interface{})) { verifhook.Install(h) }, verifhook.Uninstall)
}

func TestVerif_C37_Sequences(t *testing.T) {
	kit.RequireEngine(t)
	rep := kit.NewReport("C37", "tbtc_sequences")
	defer rep.Write(t)
	kit.ReplayDedupSequences(t, rep, kit.LoadCases(t, "sequences.ndjson"), c37Targets())
}

func TestVerif_C37_Hammer(t *testing.T) {
	kit.RequireEngine(t)
	rep := kit.NewReport("C37", "tbtc_hammer")
	defer rep.Write(t)
	tr := kit.NewTracer(t, "trace_tbtc")
	defer tr.Close()
	for i, tg := range c37Targets() {
		kit.HammerDedup(t, rep, tr, tg, kit.IntEnv("VERIF_ROUNDS", 300), 4, int64(i))
	}
}

// TestVerif_C37_Keys lifts every confusable pair of the model's concatenated
// key encoding (hash length 2) to real events (hash length 64) and checks
// that the real deduplicator tells the two different events apart.
func TestVerif_C37_Keys(t *testing.T) {
	kit.RequireEngine(t)
	rep := kit.NewReport("C37", "tbtc_keys")
	defer rep.Write(t)
	join := func(v kit.V) string { return strings.Join(v.Strs(), "") }
	filler := strings.Repeat("0", 62)
	for _, c := range kit.LoadCases(t, "collisions.ndjson") {
		a, b := c.Get("a"), c.Get("b")
		sa, sb := join(a.Get("seed")), join(b.Get("seed"))
		m := sa + join(a.Get("hash")) + join(a.Get("block"))
		cut := len(sb)
		if cut > len(sa)+2 {
			continue // hash spans do not overlap: the pair does not lift
		}
		ml := m[:cut] + filler + m[cut:]
		mk := func(seedLen int) (*big.Int, DKGChainResultHash, uint64) {
			seed, _ := new(big.Int).SetString(ml[:seedLen], 16)
			hb, err := hex.DecodeString(ml[seedLen : seedLen+64])
			if err != nil {
				t.Fatalf("lift: %v", err)
			}
			var h DKGChainResultHash
			copy(h[:], hb)
			blk, err := strconv.ParseUint(ml[seedLen+64:], 10, 64)
			if err != nil {
				t.Fatalf("lift: %v", err)
			}
			return seed, h, blk
		}
		s1, h1, b1 := mk(len(sa))
		s2, h2, b2 := mk(len(sb))
		if s1.Cmp(s2) == 0 && h1 == h2 && b1 == b2 {
			t.Fatalf("lifted events are equal")
		}
		d := newDeduplicator()
		first := d.notifyDKGResultSubmitted(s1, h1, b1)
		second := d.notifyDKGResultSubmitted(s2, h2, b2)
		again := d.notifyDKGResultSubmitted(s1, h1, b1)
		ev := map[string]interface{}{"seedA": s1.Text(16), "hashA": hex.EncodeToString(h1[:]), "blockA": b1,
			"seedB": s2.Text(16), "hashB": hex.EncodeToString(h2[:]), "blockB": b2}
		rep.Eval(kit.Hash(c.X), ev)
		if !first || !second || again {
			rep.Diverge("dedup-keycollision",
				"notifyDKGResultSubmitted mistakes two different result-submitted events for one another (their concatenated cache keys coincide)",
				ev, []bool{true, true, false}, []bool{first, second, again})
		}
	}
}

// TestVerif_C37_Kinds replays sequences of (kind, value) events on ONE
// deduplicator built by the production constructor; the same 256-bit value is
// used as DKG seed, wallet ID and result seed/hash, so the textual cache keys
// of different kinds coincide and only separate caches keep them apart.
func TestVerif_C37_Kinds(t *testing.T) {
	kit.RequireEngine(t)
	rep := kit.NewReport("C37", "tbtc_kinds")
	defer rep.Write(t)
	value := func(v string) [32]byte {
		var b [32]byte
		for i := range b {
			b[i] = byte(0xa0 + c37Num(v)) // top nibble set: 64 hex digits, no leading zero
		}
		return b
	}
	for _, c := range kit.LoadCases(t, "kinds.ndjson") {
		d := newDeduplicator()
		var got, exp []bool
		for _, s := range c.Get("steps").List() {
			b := value(s.Get("v").Str())
			var r bool
			switch s.Get("kind").Str() {
			case "started":
				r = d.notifyDKGStarted(new(big.Int).SetBytes(b[:]))
			case "closed":
				r = d.notifyWalletClosed(b)
			case "result":
				r = d.notifyDKGResultSubmitted(new(big.Int).SetBytes(b[:]), DKGChainResultHash(b), 7)
			}
			got = append(got, r)
			exp = append(exp, s.Get("ret").Str() == "true")
		}
		rep.Eval(kit.Hash(c.X), c.X)
		for i := range got {
			if got[i] != exp[i] {
				rep.Diverge("dedup-crosskind", "events of different kinds (or a repeated event) are confused on one deduplicator instance: delivery "+strconv.Itoa(i+1)+" returned "+strconv.FormatBool(got[i]), c.X, exp, got)
				break
			}
		}
	}
}
