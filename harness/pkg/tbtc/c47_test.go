//go:build verif

package tbtc

// C47 conformance harness for the tbtc protocols of specs/Submission:
//
//   tecdsaDkg   dkgResultSubmitter.SubmitResult          (dkg_submit.go)
//   inactivity  inactivityClaimSubmitter.SubmitClaim     (inactivity.go)
//   approval    dkgExecutor.executeDkgValidation         (dkg.go)
//
//   TestVerif_C47_Tbtc_Slots       slot cases of SlotCases (every member of the
//                                  group, all three protocols)
//   TestVerif_C47_Tbtc_Behaviours  behaviours of Gen_Submission
//   TestVerif_C47_Tbtc_Validation  behaviours of Gen_Validation: the branches of
//                                  executeDkgValidation around the approval
//                                  (validity, challenge loop with its
//                                  confirmation blocks, scheduling failures)
//
// The chain handed to the code is the package's own localChain wrapped so that
// the calls relevant for the submission (state / nonce pre-checks, validity,
// block counter, the submission itself, approval subscription and parameters)
// are answered from the behaviour's World. The context of SubmitResult /
// SubmitClaim is cancelled by the harness where the upstream subscriptions of
// generateSigningGroup / claimInactivity would cancel it; the approval
// subscription is the code's own.

import (
	"context"
	"crypto/ecdsa"
	"fmt"
	"math/big"
	"sync"
	"testing"

	"github.com/keep-network/keep-core/internal/testutils"
	kit "github.com/keep-network/keep-core/internal/verifkit"
	vs "github.com/keep-network/keep-core/internal/verifsub"
	"github.com/keep-network/keep-core/pkg/bitcoin"
	"github.com/keep-network/keep-core/pkg/chain"
	"github.com/keep-network/keep-core/pkg/internal/tecdsatest"
	"github.com/keep-network/keep-core/pkg/protocol/group"
	"github.com/keep-network/keep-core/pkg/protocol/inactivity"
	"github.com/keep-network/keep-core/pkg/subscription"
	"github.com/keep-network/keep-core/pkg/tecdsa"
	"github.com/keep-network/keep-core/pkg/tecdsa/dkg"
)

// ---- shared fixtures (one local chain / key share per test binary)

var (
	c47Once   sync.Once
	c47Base   *localChain
	c47Share  *tecdsa.PrivateKeyShare
	c47OpID   chain.OperatorID
	c47OpAddr chain.Address
	c47Err    error
)

func c47Fixtures(t *testing.T) {
	c47Once.Do(func() {
		c47Base = Connect()
		data, err := tecdsatest.LoadPrivateKeyShareTestFixtures(1)
		if err != nil {
			c47Err = err
			return
		}
		c47Share = tecdsa.NewPrivateKeyShare(data[0])
		c47OpAddr, c47Err = c47Base.operatorAddress()
		if c47Err != nil {
			return
		}
		c47OpID, c47Err = c47Base.GetOperatorID(c47OpAddr)
	})
	if c47Err != nil {
		t.Fatalf("fixtures: %v", c47Err)
	}
}

func c47Params(n int) *GroupParameters {
	h := n/2 + 1
	return &GroupParameters{GroupSize: n, GroupQuorum: h + (n-h)/2, HonestThreshold: h}
}

func c47Sigs(k int) map[group.MemberIndex][]byte {
	s := map[group.MemberIndex][]byte{}
	for i := 1; i <= k; i++ {
		s[group.MemberIndex(i)] = []byte{byte(i)}
	}
	return s
}

// ---- the chain seen by one member (tecdsaDkg, inactivity)

type c47Chain struct {
	*localChain
	w *vs.World
	m *vs.Member
}

func (c *c47Chain) fault() string {
	c.w.Lock()
	defer c.w.Unlock()
	return c.m.BeginFault
}

func (c *c47Chain) BlockCounter() (chain.BlockCounter, error) {
	return &vs.Counter{M: c.m}, nil
}

func (c *c47Chain) GetDKGState() (DKGState, error) {
	c.m.Call("GetDKGState")
	if c.fault() == "precheck" {
		return 0, fmt.Errorf("verif: injected GetDKGState failure")
	}
	if c.w.IsDone() {
		return Challenge, nil
	}
	return AwaitingResult, nil
}

func (c *c47Chain) IsDKGResultValid(r *DKGChainResult) (bool, error) {
	c.m.Call("IsDKGResultValid")
	if c.fault() == "invalid" {
		if c.m.Index%2 == 0 {
			return false, fmt.Errorf("verif: injected IsDKGResultValid failure")
		}
		return false, nil
	}
	return true, nil
}

func (c *c47Chain) SubmitDKGResult(r *DKGChainResult) error {
	if int(r.SubmitterMemberIndex) != c.m.Index {
		c.w.Complain("member %d submitted a result naming member %d as submitter", c.m.Index, r.SubmitterMemberIndex)
	}
	return c.m.SubmitCall()
}

func (c *c47Chain) GetWallet(pkh [20]byte) (*WalletChainData, error) {
	c.m.Call("GetWallet")
	if c.fault() == "precheck" && c.m.Index%2 == 1 {
		return nil, fmt.Errorf("verif: injected GetWallet failure")
	}
	return &WalletChainData{EcdsaWalletID: [32]byte{7}, State: StateLive}, nil
}

const c47Nonce = 5

func (c *c47Chain) GetInactivityClaimNonce(id [32]byte) (*big.Int, error) {
	c.m.Call("GetInactivityClaimNonce")
	if c.fault() == "precheck" && c.m.Index%2 == 0 {
		return nil, fmt.Errorf("verif: injected GetInactivityClaimNonce failure")
	}
	if c.w.IsDone() {
		return big.NewInt(c47Nonce + 1), nil
	}
	return big.NewInt(c47Nonce), nil
}

func (c *c47Chain) SubmitInactivityClaim(cl *InactivityClaim, nonce *big.Int, members []uint32) error {
	if nonce.Int64() != c47Nonce {
		c.w.Complain("member %d submitted the claim with nonce %v, not the claim's nonce %d", c.m.Index, nonce, c47Nonce)
	}
	return c.m.SubmitCall()
}

// ---- adapter for tecdsaDkg and inactivity

type c47Adapter struct {
	proto string
	w     *vs.World
	n     int
	gp    *GroupParameters
}

func (a *c47Adapter) SingleCall() bool { return false }

func (a *c47Adapter) Start(i int, enough bool) {
	m := a.w.M(i)
	ctx, cancel := context.WithCancel(context.Background())
	a.w.Lock()
	m.Started = true
	m.Ctx, m.Cancel = ctx, cancel
	a.w.Unlock()
	ch := &c47Chain{localChain: c47Base, w: a.w, m: m}
	var run func() error
	switch a.proto {
	case "tecdsaDkg":
		ids := make(chain.OperatorIDs, a.n)
		addrs := make(chain.Addresses, a.n)
		for k := range ids {
			ids[k], addrs[k] = c47OpID, c47OpAddr
		}
		sub := newDkgResultSubmitter(&testutils.MockLogger{}, ch, a.gp,
			&GroupSelectionResult{OperatorsIDs: ids, OperatorsAddresses: addrs}, m.WaitFn)
		res := &dkg.Result{Group: group.NewGroup(a.gp.DishonestThreshold(), a.n), PrivateKeyShare: c47Share}
		k := a.gp.GroupQuorum
		if !enough {
			k--
		}
		run = func() error { return sub.SubmitResult(ctx, group.MemberIndex(i), res, c47Sigs(k)) }
	case "inactivity":
		members := make([]uint32, a.n)
		for k := range members {
			members[k] = uint32(c47OpID)
		}
		sub := newInactivityClaimSubmitter(&testutils.MockLogger{}, ch, a.gp, members, m.WaitFn)
		var pub *ecdsa.PublicKey = c47Share.PublicKey()
		claim := inactivity.NewClaimPreimage(big.NewInt(c47Nonce), pub, []group.MemberIndex{group.MemberIndex(a.n)}, true)
		k := a.gp.HonestThreshold
		if !enough {
			k--
		}
		run = func() error { return sub.SubmitClaim(ctx, group.MemberIndex(i), claim, c47Sigs(k)) }
	default:
		panic("unknown protocol " + a.proto)
	}
	go func() {
		var err error
		defer func() {
			if r := recover(); r != nil {
				a.w.Complain("member %d: %s panicked: %v", i, a.proto, r)
				err = fmt.Errorf("panic: %v", r)
			}
			m.Finish(err)
		}()
		err = run()
	}()
}

// Deliver does what the OnDKGResultSubmitted handler of generateSigningGroup /
// the OnInactivityClaimed handler of claimInactivity do: cancel the context.
func (a *c47Adapter) Deliver(i int, bounded bool) bool {
	a.w.Lock()
	cancel := a.w.M(i).Cancel
	a.w.Unlock()
	if cancel == nil {
		return false
	}
	cancel()
	return true
}

func (a *c47Adapter) Timeout(i int) bool { return false }

func (a *c47Adapter) Close() {
	for _, m := range a.w.Members {
		if m.Cancel != nil {
			m.Cancel()
		}
	}
}

// ---- approval: one executeDkgValidation call starts every controlled member

type c47Routine struct {
	handler func(*DKGResultApprovedEvent)
	m       *vs.Member
	ended   bool
}

type c47ApprovalChain struct {
	*localChain
	w      *vs.World
	params *DKGParameters
	expect map[int]uint64 // member -> slot of the specification (to tell the goroutines apart)
	mu     sync.Mutex
	byGo   map[string]*c47Routine
	taken  map[int]bool
}

func (c *c47ApprovalChain) IsDKGResultValid(r *DKGChainResult) (bool, error) { return true, nil }

func (c *c47ApprovalChain) DKGParameters() (*DKGParameters, error) { return c.params, nil }

func (c *c47ApprovalChain) OnDKGResultApproved(h func(*DKGResultApprovedEvent)) subscription.EventSubscription {
	r := &c47Routine{handler: h}
	c.mu.Lock()
	c.byGo[vs.GoID()] = r
	c.mu.Unlock()
	return subscription.NewEventSubscription(func() {
		// deferred by the member's goroutine: it ends
		c.mu.Lock()
		r.ended = true
		m := r.m
		c.mu.Unlock()
		if m != nil {
			m.Call("Unsubscribe")
			m.Finish(nil)
		}
	})
}

// waitFn is the executor's waitForBlockFn. The goroutine is attributed to the
// member whose specification slot it asks for (the code does not tell the
// chain which member a goroutine serves); goroutines asking for a block that
// is nobody's slot are attributed to the remaining members in index order, so
// that the mismatch is reported against a member.
func (c *c47ApprovalChain) waitFn(ctx context.Context, b uint64) error {
	c.mu.Lock()
	r := c.byGo[vs.GoID()]
	if r == nil {
		c.mu.Unlock()
		c.w.Complain("waitForBlockFn(%d) from a goroutine that did not subscribe to approvals", b)
		<-ctx.Done()
		return nil
	}
	if r.m == nil {
		pick := 0
		for i, s := range c.expect {
			if s == b && !c.taken[i] && (pick == 0 || i < pick) {
				pick = i
			}
		}
		if pick == 0 {
			for i := range c.expect {
				if !c.taken[i] && (pick == 0 || i < pick) {
					// prefer members whose slot nobody asked for
					pick = i
				}
			}
		}
		if pick == 0 {
			c.mu.Unlock()
			c.w.Complain("more approval goroutines than controlled members")
			<-ctx.Done()
			return nil
		}
		c.taken[pick] = true
		r.m = c.w.M(pick)
	}
	m := r.m
	c.mu.Unlock()
	return m.WaitFn(ctx, b)
}

func (c *c47ApprovalChain) ApproveDKGResult(r *DKGChainResult) error {
	c.mu.Lock()
	rt := c.byGo[vs.GoID()]
	c.mu.Unlock()
	if rt == nil || rt.m == nil {
		c.w.Complain("ApproveDKGResult from a goroutine that did not wait for a slot")
		return fmt.Errorf("verif: unexpected approval")
	}
	return rt.m.SubmitCall()
}

type c47ApprovalAdapter struct {
	w          *vs.World
	n          int
	controlled []int
	submitter  int
	sub        uint64
	ch         *c47ApprovalChain
}

func newC47ApprovalAdapter(w *vs.World, n int, controlled []int, submitter int, sub, challenge, precedence uint64,
	expect map[int]uint64) *c47ApprovalAdapter {
	return &c47ApprovalAdapter{w: w, n: n, controlled: controlled, submitter: submitter, sub: sub,
		ch: &c47ApprovalChain{localChain: c47Base, w: w, expect: expect, byGo: map[string]*c47Routine{}, taken: map[int]bool{},
			params: &DKGParameters{SubmissionTimeoutBlocks: 100, ChallengePeriodBlocks: challenge, ApprovePrecedencePeriodBlocks: precedence}}}
}

func (a *c47ApprovalAdapter) SingleCall() bool { return true }

func (a *c47ApprovalAdapter) Start(i int, enough bool) {
	members := make(chain.OperatorIDs, a.n)
	for k := range members {
		members[k] = c47OpID + 1000 + chain.OperatorID(k) // somebody else's
	}
	a.w.Lock()
	for _, c := range a.controlled {
		members[c-1] = c47OpID
		a.w.M(c).Started = true
	}
	a.w.Unlock()
	de := &dkgExecutor{
		groupParameters: c47Params(a.n),
		operatorIDFn:    func() (chain.OperatorID, error) { return c47OpID, nil },
		operatorAddress: c47OpAddr,
		chain:           a.ch,
		waitForBlockFn:  a.ch.waitFn,
	}
	res := &DKGChainResult{SubmitterMemberIndex: group.MemberIndex(a.submitter), GroupPublicKey: []byte{4, 1, 2}, Members: members}
	func() {
		defer func() {
			if r := recover(); r != nil {
				a.w.Complain("executeDkgValidation panicked: %v", r)
			}
		}()
		de.executeDkgValidation(big.NewInt(1), a.sub, res, [32]byte{1})
	}()
}

func (a *c47ApprovalAdapter) Deliver(i int, bounded bool) bool {
	a.ch.mu.Lock()
	var h func(*DKGResultApprovedEvent)
	for _, r := range a.ch.byGo {
		if r.m != nil && r.m.Index == i && !r.ended {
			h = r.handler
		}
	}
	a.ch.mu.Unlock()
	if h == nil {
		return false
	}
	doneCh := make(chan struct{})
	go func() { h(&DKGResultApprovedEvent{BlockNumber: a.w.Block()}); close(doneCh) }()
	return vs.Settle(func() bool {
		select {
		case <-doneCh:
			return true
		default:
			return false
		}
	})
}

func (a *c47ApprovalAdapter) Timeout(i int) bool { return false }

func (a *c47ApprovalAdapter) Close() {
	// goroutines not attributed to a member of the behaviour: tell them too
	a.ch.mu.Lock()
	var hs []func(*DKGResultApprovedEvent)
	for _, r := range a.ch.byGo {
		if !r.ended {
			hs = append(hs, r.handler)
		}
	}
	a.ch.mu.Unlock()
	for _, h := range hs {
		go h(&DKGResultApprovedEvent{})
	}
}

// ---- tests

func c47Seq(n int) []int {
	s := make([]int, n)
	for i := range s {
		s[i] = i + 1
	}
	return s
}

func TestVerif_C47_Tbtc_Slots(t *testing.T) {
	kit.RequireEngine(t)
	c47Fixtures(t)
	rep := kit.NewReport("C47", "tbtc_slots")
	defer rep.Write(t)
	for _, c := range kit.LoadCases(t, "slotcases.ndjson") {
		cs := c.Get("case")
		proto, n := cs.Get("proto").Str(), cs.Get("n").Int()
		w := vs.NewWorld(c47Seq(n))
		switch proto {
		case "tecdsaDkg", "inactivity":
			vs.ReplaySlots(t, rep, c, w, &c47Adapter{proto: proto, w: w, n: n, gp: c47Params(n)})
		case "approval":
			expect := map[int]uint64{}
			for i, s := range c.Get("slots").Ints() {
				expect[i+1] = uint64(s)
			}
			vs.ReplaySlots(t, rep, c, w, newC47ApprovalAdapter(w, n, c47Seq(n), cs.Get("submitter").Int(),
				uint64(cs.Get("ref").Int()), uint64(cs.Get("challenge").Int()), uint64(cs.Get("precedence").Int()), expect))
		}
		if rep.NDivergences() >= 12 {
			rep.Note("stopped after %d divergences", rep.NDivergences())
			break
		}
	}
}

func TestVerif_C47_Tbtc_Behaviours(t *testing.T) {
	kit.RequireEngine(t)
	c47Fixtures(t)
	rep := kit.NewReport("C47", "tbtc_behaviours")
	defer rep.Write(t)
	for _, proto := range []string{"tecdsaDkg", "inactivity", "approval"} {
		nd0 := rep.NDivergences()
		for bi, b := range kit.LoadCases(t, "behaviours_"+proto+".ndjson") {
			p := b.Get("params")
			n := p.Get("n").Int()
			ctl := p.Get("controlled").Ints()
			w := vs.NewWorld(ctl)
			var ad vs.Adapter
			if proto == "approval" {
				expect := map[int]uint64{}
				for _, sv := range p.Get("slots").List() {
					expect[sv.Get("m").Int()] = uint64(sv.Get("slot").Int())
				}
				ad = newC47ApprovalAdapter(w, n, ctl, p.Get("submitter").Int(), uint64(p.Get("start").Int()),
					uint64(p.Get("challenge").Int()), uint64(p.Get("precedence").Int()), expect)
			} else {
				ad = &c47Adapter{proto: proto, w: w, n: n, gp: c47Params(n)}
			}
			nd := vs.Replay(t, rep, b, w, ad, fmt.Sprintf("%s#%d", proto, bi))
			key := ""
			if vs.Interesting(b) {
				key = kit.Hash([]interface{}{proto, p.X, b.Get("steps").X})
			}
			rep.Eval(key, map[string]interface{}{"proto": proto, "behaviour": bi, "steps": b.Get("steps").Len(), "divergences": nd})
			if rep.NDivergences()-nd0 >= 6 {
				rep.Note("%s: stopped after %d divergences", proto, rep.NDivergences()-nd0)
				break
			}
		}
	}
	_ = bitcoin.PublicKeyHash
}

// ---- executeDkgValidation outside the approval goroutines (specs/Submission/Validation.tla)

type c47ValChain struct {
	*localChain
	mu       sync.Mutex
	verdict  string   // "valid" | "invalid" | "error"
	sched    string   // "ok" | "operatorErr" | "noMembers" | "paramsErr"
	chal     []string // responses of ChallengeDKGResult, in order
	conf     []string // responses of the confirmation (wait + state), in order
	nchal    int
	nstate   int
	waits    []uint64
	subs     int
	approves int
	extra    []string
	handlers []func(*DKGResultApprovedEvent)
}

func (c *c47ValChain) IsDKGResultValid(r *DKGChainResult) (bool, error) {
	switch c.verdict {
	case "error":
		return false, fmt.Errorf("verif: injected validity check failure")
	case "valid":
		return true, nil
	}
	return false, nil
}

func (c *c47ValChain) ChallengeDKGResult(r *DKGChainResult) error {
	c.mu.Lock()
	defer c.mu.Unlock()
	c.nchal++
	if len(c.chal) == 0 {
		c.extra = append(c.extra, "more challenges than the behaviour has")
		return fmt.Errorf("verif: script exhausted")
	}
	f := c.chal[0]
	c.chal = c.chal[1:]
	if f == "err" {
		return fmt.Errorf("verif: injected challenge failure")
	}
	return nil
}

func (c *c47ValChain) waitFn(ctx context.Context, b uint64) error {
	c.mu.Lock()
	if c.verdict == "valid" {
		// approval goroutine: wait until told that somebody approved
		c.mu.Unlock()
		<-ctx.Done()
		return nil
	}
	c.waits = append(c.waits, b)
	f := ""
	if len(c.conf) > 0 {
		f = c.conf[0]
	} else {
		c.extra = append(c.extra, "more confirmation waits than the behaviour has")
		f = "waitErr"
	}
	if f == "waitErr" && len(c.conf) > 0 {
		c.conf = c.conf[1:]
	}
	c.mu.Unlock()
	if f == "waitErr" {
		return fmt.Errorf("verif: injected wait failure")
	}
	return nil
}

func (c *c47ValChain) GetDKGState() (DKGState, error) {
	c.mu.Lock()
	defer c.mu.Unlock()
	c.nstate++
	if len(c.conf) == 0 {
		c.extra = append(c.extra, "more state checks than the behaviour has")
		return Idle, nil
	}
	f := c.conf[0]
	c.conf = c.conf[1:]
	switch f {
	case "stateErr":
		return 0, fmt.Errorf("verif: injected GetDKGState failure")
	case "challenge":
		return Challenge, nil
	}
	return AwaitingResult, nil
}

func (c *c47ValChain) DKGParameters() (*DKGParameters, error) {
	if c.sched == "paramsErr" {
		return nil, fmt.Errorf("verif: injected DKGParameters failure")
	}
	return &DKGParameters{SubmissionTimeoutBlocks: 10, ChallengePeriodBlocks: 4, ApprovePrecedencePeriodBlocks: 2}, nil
}

func (c *c47ValChain) OnDKGResultApproved(h func(*DKGResultApprovedEvent)) subscription.EventSubscription {
	c.mu.Lock()
	c.subs++
	c.handlers = append(c.handlers, h)
	c.mu.Unlock()
	return subscription.NewEventSubscription(func() {})
}

func (c *c47ValChain) ApproveDKGResult(r *DKGChainResult) error {
	c.mu.Lock()
	c.approves++
	c.mu.Unlock()
	return nil
}

func TestVerif_C47_Tbtc_Validation(t *testing.T) {
	kit.RequireEngine(t)
	c47Fixtures(t)
	rep := kit.NewReport("C47", "tbtc_validation")
	defer rep.Write(t)
	for bi, b := range kit.LoadCases(t, "validation.ndjson") {
		steps := b.Get("steps").List()
		ch := &c47ValChain{localChain: c47Base, sched: "ok"}
		for _, s := range steps {
			switch s.Get("a").Str() {
			case "Validate":
				ch.verdict, ch.sched = s.Get("v").Str(), s.Get("s").Str()
			case "Challenge":
				ch.chal = append(ch.chal, s.Get("v").Str())
			case "Confirm":
				ch.conf = append(ch.conf, s.Get("v").Str())
			}
		}
		last := steps[len(steps)-1].Get("st")
		const n = 3
		members := make(chain.OperatorIDs, n)
		for k := range members {
			members[k] = c47OpID
			if ch.sched == "noMembers" {
				members[k] = c47OpID + 77
			}
		}
		de := &dkgExecutor{
			groupParameters: c47Params(n),
			operatorIDFn: func() (chain.OperatorID, error) {
				if ch.sched == "operatorErr" {
					return 0, fmt.Errorf("verif: injected operator ID failure")
				}
				return c47OpID, nil
			},
			operatorAddress: c47OpAddr, chain: ch, waitForBlockFn: ch.waitFn,
		}
		res := &DKGChainResult{SubmitterMemberIndex: 1, GroupPublicKey: []byte{4, 9}, Members: members}
		panicked := interface{}(nil)
		func() {
			defer func() { panicked = recover() }()
			de.executeDkgValidation(big.NewInt(1), uint64(b.Get("sub").Int()), res, [32]byte{2})
		}()
		key := "validation:" + kit.Hash(b.Get("steps").X)
		if panicked != nil {
			rep.Diverge(key, fmt.Sprintf("executeDkgValidation panicked: %v", panicked), b.X, nil, nil)
			continue
		}
		scheduled := last.Get("vpc").Str() == "scheduled"
		if scheduled {
			// the approval goroutines subscribe asynchronously
			vs.Settle(func() bool { ch.mu.Lock(); defer ch.mu.Unlock(); return ch.subs == n })
		}
		ch.mu.Lock()
		obs := map[string]interface{}{"nchal": ch.nchal, "nstate": ch.nstate, "waits": ch.waits, "subscriptions": ch.subs, "extra": ch.extra}
		wantSubs := 0
		if scheduled {
			wantSubs = n
		}
		bad := ""
		switch {
		case len(ch.extra) > 0:
			bad = ch.extra[0]
		case ch.nchal != last.Get("nchal").Int():
			bad = fmt.Sprintf("%d challenge calls, specification %d", ch.nchal, last.Get("nchal").Int())
		case fmt.Sprint(ch.waits) != fmt.Sprint(func() []uint64 {
			w := []uint64{}
			for _, x := range last.Get("waits").Ints() {
				w = append(w, uint64(x))
			}
			return w
		}()):
			bad = fmt.Sprintf("confirmation blocks %v, specification %v", ch.waits, last.Get("waits").Ints())
		case ch.nstate != last.Get("nstate").Int():
			bad = fmt.Sprintf("%d DKG state checks, specification %d", ch.nstate, last.Get("nstate").Int())
		case ch.subs != wantSubs:
			bad = fmt.Sprintf("%d approval goroutines scheduled, specification %d", ch.subs, wantSubs)
		case ch.approves != 0:
			bad = "approved without waiting for a slot"
		}
		hs := append([]func(*DKGResultApprovedEvent){}, ch.handlers...)
		ch.mu.Unlock()
		for _, h := range hs {
			h(&DKGResultApprovedEvent{}) // ends the approval goroutines
		}
		rep.Eval(key, map[string]interface{}{"behaviour": bi, "steps": len(steps), "observed": obs})
		rep.Count("validation."+last.Get("vpc").Str()+"."+ch.verdict, 1)
		if bad != "" {
			rep.Diverge(key, "executeDkgValidation: "+bad, b.X, last.X, obs)
		}
	}
}
