//go:build verif

package tbtc

// C46, signing deadline inside the retry loop (see specs/Deadlines TSign).
//
//   TestVerif_C46_Sign  runs the REAL signingExecutor.sign / signBatch (real
//                       signingRetryLoop, real announcer) for one controlled
//                       signer whose peers are all offline, so every attempt
//                       fails at its announcement and the loop retries. Blocks
//                       come from a scripted clock behind waitForBlockFn /
//                       getCurrentBlockFn, advanced as a discrete-event
//                       simulation (always to the earliest block anything waits
//                       for). The caller's context is cancelled on the signing
//                       deadline block through the REAL withCancelOnBlock, as
//                       signTransaction / the heartbeat action do. Recorded: the
//                       block of every readiness announcement the node
//                       broadcast and the block at which sign returned --
//                       including messages that start less than one retry loop
//                       before the deadline (a later message of a batch).

import (
	"context"
	"fmt"
	"math/big"
	"runtime"
	"strings"
	"sync"
	"testing"
	"time"

	"github.com/keep-network/keep-core/internal/testutils"
	kit "github.com/keep-network/keep-core/internal/verifkit"
	"github.com/keep-network/keep-core/pkg/chain"
	"github.com/keep-network/keep-core/pkg/generator"
	"github.com/keep-network/keep-core/pkg/internal/tecdsatest"
	"github.com/keep-network/keep-core/pkg/net"
	"github.com/keep-network/keep-core/pkg/protocol/group"
	"github.com/keep-network/keep-core/pkg/tecdsa"
)

const c46sWait = 180 * time.Second

type c46sWaiter struct {
	block uint64
	ctx   context.Context
	async bool // called from the goroutine withCancelOnBlock starts
	fired bool // the driver has moved the clock to (or past) its block
	left  bool // the call has returned
}

type c46sAnn struct {
	block uint64
	ctx   context.Context
}

type c46sRig struct {
	mu       sync.Mutex
	cond     *sync.Cond
	now      uint64
	regs     []*c46sWaiter
	anns     []c46sAnn
	returned bool
	retBlock uint64
	retErr   error
}

func newC46sRig(now uint64) *c46sRig {
	r := &c46sRig{now: now}
	r.cond = sync.NewCond(&r.mu)
	return r
}

func (r *c46sRig) currentBlock() (uint64, error) {
	r.mu.Lock()
	defer r.mu.Unlock()
	return r.now, nil
}

func (r *c46sRig) waitForBlock(ctx context.Context, b uint64) error {
	async := false
	pcs := make([]uintptr, 8)
	n := runtime.Callers(2, pcs)
	frames := runtime.CallersFrames(pcs[:n])
	for {
		f, more := frames.Next()
		if strings.Contains(f.Function, "withCancelOnBlock") {
			async = true
		}
		if !more {
			break
		}
	}
	w := &c46sWaiter{block: b, ctx: ctx, async: async}
	stop := make(chan struct{})
	go func() {
		select {
		case <-ctx.Done():
			r.mu.Lock()
			r.cond.Broadcast()
			r.mu.Unlock()
		case <-stop:
		}
	}()
	defer close(stop)
	r.mu.Lock()
	defer r.mu.Unlock()
	r.regs = append(r.regs, w)
	r.cond.Broadcast()
	defer func() { w.left = true; r.cond.Broadcast() }()
	for r.now < b {
		if ctx.Err() != nil {
			if async {
				return nil
			}
			return ctx.Err()
		}
		r.cond.Wait()
	}
	return nil
}

// broadcast channel with every peer offline
func (r *c46sRig) Name() string { return "verif-c46-sign" }
func (r *c46sRig) Send(ctx context.Context, m net.TaggedMarshaler, s ...net.RetransmissionStrategy) error {
	if strings.Contains(m.Type(), "announcement") {
		r.mu.Lock()
		r.anns = append(r.anns, c46sAnn{block: r.now, ctx: ctx})
		r.cond.Broadcast()
		r.mu.Unlock()
	}
	return nil
}
func (r *c46sRig) Recv(ctx context.Context, handler func(m net.Message))  {}
func (r *c46sRig) SetUnmarshaler(func() net.TaggedUnmarshaler)            {}
func (r *c46sRig) SetFilter(filter net.BroadcastChannelFilter) error     { return nil }

// await polls (long bound) until cond holds under the rig's mutex; false =
// harness failure. Conditions may look at contexts, which do not signal the
// rig, hence polling.
func (r *c46sRig) await(cond func() bool) bool {
	deadline := time.Now().Add(c46sWait)
	for i := 0; ; i++ {
		r.mu.Lock()
		ok := cond()
		r.mu.Unlock()
		if ok {
			return true
		}
		if time.Now().After(deadline) {
			return false
		}
		if i < 100 {
			runtime.Gosched()
		} else {
			time.Sleep(100 * time.Microsecond)
		}
	}
}

type c46sRecord struct {
	Mstart   uint64   `json:"mstart"`
	Deadline uint64   `json:"deadline"`
	Anns     []uint64 `json:"anns"`
	Returned uint64   `json:"returned"`
	Failed   bool     `json:"failed"`
	Batch    bool     `json:"batch"`
	Bound    bool     `json:"loopBoundToCaller"`
	Err      string   `json:"err"`
}

// c46sRun drives one sign / signBatch call; returns the record or a harness
// failure.
func c46sRun(t *testing.T, executor func(r *c46sRig) *signingExecutor, mstart, deadline uint64, batch bool) (c46sRecord, string) {
	rec := c46sRecord{Mstart: mstart, Deadline: deadline, Batch: batch, Anns: []uint64{}, Bound: true}
	start := mstart
	if start >= 2 {
		start -= 2
	}
	r := newC46sRig(start)
	ex := executor(r)
	// the caller's signing context, exactly as signTransaction builds it
	signingCtx, cancelSigningCtx := withCancelOnBlock(context.Background(), deadline, r.waitForBlock)
	defer cancelSigningCtx()
	defer func() {
		r.mu.Lock()
		r.now = ^uint64(0)
		r.cond.Broadcast()
		r.mu.Unlock()
	}()
	if !r.await(func() bool { return len(r.regs) >= 1 }) {
		return rec, "deadline waiter not registered"
	}
	dw := r.regs[0]
	go func() {
		var err error
		message := big.NewInt(int64(4600 + mstart%1000))
		if batch {
			_, err = ex.signBatch(signingCtx, []*big.Int{message, big.NewInt(77)}, mstart)
		} else {
			_, _, _, err = ex.sign(signingCtx, message, mstart)
		}
		r.mu.Lock()
		r.returned, r.retErr, r.retBlock = true, err, r.now
		r.cond.Broadcast()
		r.mu.Unlock()
	}()

	// the waiter the loop goroutine itself is blocked in (not yet returned)
	ownBlocked := func() *c46sWaiter {
		for _, w := range r.regs {
			if !w.async && !w.left {
				return w
			}
		}
		return nil
	}
	nAsync := func() int {
		n := 0
		for _, w := range r.regs {
			if w.async {
				n++
			}
		}
		return n
	}
	// the loop's own context = the context of its own (synchronous) waits
	loopCtx := func() context.Context {
		for _, w := range r.regs {
			if !w.async {
				return w.ctx
			}
		}
		return nil
	}
	// settled: sign returned, or the loop goroutine is blocked in its own wait
	// for a future block under a live context, or it is inside Announce under a
	// live announcement context; and every deadline armed so far is registered
	// (the signing deadline, the loop timeout, one per announcement made)
	settled := func() bool {
		if r.returned {
			return true
		}
		if nAsync() < 2+len(r.anns) {
			return false
		}
		if w := ownBlocked(); w != nil {
			return w.block > r.now && w.ctx.Err() == nil
		}
		return len(r.anns) > 0 && r.anns[len(r.anns)-1].ctx.Err() == nil
	}
	for step := 0; step < 200; step++ {
		if !r.await(settled) {
			return rec, fmt.Sprintf("the signing executor did not settle (step %d, block %d)", step, r.now)
		}
		r.mu.Lock()
		if r.returned {
			r.mu.Unlock()
			break
		}
		// the context the loop goroutine is currently blocked under
		var loopBlockCtx context.Context
		if w := ownBlocked(); w != nil {
			loopBlockCtx = w.ctx
		} else if len(r.anns) > 0 {
			loopBlockCtx = r.anns[len(r.anns)-1].ctx
		}
		lctx := loopCtx()
		// earliest block anything waits for
		next := ^uint64(0)
		for _, w := range r.regs {
			if !w.fired && !w.left && w.block > r.now && w.block < next {
				next = w.block
			}
		}
		if next == ^uint64(0) {
			r.mu.Unlock()
			return rec, "nothing waits for a block although sign has not returned"
		}
		r.now = next
		var fired []*c46sWaiter
		for _, w := range r.regs {
			if !w.fired && !w.left && w.block <= r.now {
				w.fired = true
				fired = append(fired, w)
			}
		}
		nAnnsBefore := len(r.anns)
		r.cond.Broadcast()
		r.mu.Unlock()

		for _, w := range fired {
			w := w
			if !r.await(func() bool { return w.left }) {
				return rec, "a released block waiter did not return"
			}
		}
		// every released waiter has a consequence that is certain to happen;
		// wait for it before the clock moves again
		for _, w := range fired {
			switch {
			case w == dw:
				// the signing deadline: the real withCancelOnBlock cancels the
				// caller's context; cancellation has reached every derived
				// context by the time Err() of the parent reports it
				if !r.await(func() bool { return signingCtx.Err() != nil }) {
					return rec, "the signing context was not cancelled at its block"
				}
				if loopBlockCtx != nil && loopBlockCtx.Err() != nil {
					if !r.await(func() bool { return r.returned }) {
						return rec, "sign did not return although its loop context is cancelled"
					}
				} else {
					// the running loop does not derive from the caller's context
					rec.Bound = false
				}
			case !w.async:
				// the loop's own wait for an announcement start block
				if !r.await(func() bool { return r.returned || len(r.anns) > nAnnsBefore }) {
					return rec, "no announcement after the announcement start block"
				}
			case w.ctx == lctx:
				// the end block of the current announcement
				if !r.await(func() bool { return r.returned || (len(r.anns) > 0 && r.anns[len(r.anns)-1].ctx.Err() != nil) }) {
					return rec, "the announcement context was not cancelled at its end block"
				}
			default:
				// the loop timeout armed by sign: it cancels the loop context
				if !r.await(func() bool { return r.returned }) {
					return rec, "sign did not return after its loop timeout block"
				}
			}
		}
	}
	r.mu.Lock()
	defer r.mu.Unlock()
	if !r.returned {
		return rec, "sign did not return within 200 clock steps"
	}
	for _, a := range r.anns {
		rec.Anns = append(rec.Anns, a.block)
	}
	rec.Returned = r.retBlock
	rec.Failed = r.retErr != nil
	if r.retErr != nil {
		rec.Err = r.retErr.Error()
	}
	return rec, ""
}

func TestVerif_C46_Sign(t *testing.T) {
	kit.RequireEngine(t)
	rep := kit.NewReport("C46", "sign")
	defer rep.Write(t)
	tr := kit.NewTracer(t, "trace_sign")
	defer tr.Close()
	tr.Reset(nil)

	testData, err := tecdsatest.LoadPrivateKeyShareTestFixtures(1)
	if err != nil {
		t.Fatalf("failed to load test data: [%v]", err)
	}
	share := tecdsa.NewPrivateKeyShare(testData[0])
	operators := []chain.Address{"address-1", "address-2", "address-3", "address-4", "address-5"}
	sgn := &signer{
		wallet:                  wallet{publicKey: share.PublicKey(), signingGroupOperators: operators},
		signingGroupMemberIndex: group.MemberIndex(1),
		privateKeyShare:         share,
	}
	validator := group.NewMembershipValidator(&testutils.MockLogger{}, operators, Connect().Signing())
	executor := func(r *c46sRig) *signingExecutor {
		return newSigningExecutor([]*signer{sgn}, r, validator,
			&GroupParameters{GroupSize: 5, GroupQuorum: 4, HonestThreshold: 3},
			generator.NewProtocolLatch(), r.currentBlock, r.waitForBlock, signingAttemptsLimit)
	}

	loop := uint64(signingAttemptsLimit * signingAttemptMaximumBlocks())
	// distance between the message's start block and the signing deadline:
	// a whole loop fits / the deadline falls into attempt 5, 4, 3, 2, 1 /
	// before the first announcement. Distances at which the deadline would
	// coincide with an announcement start or end block are avoided (either
	// order of the two events would be legitimate).
	gaps := []uint64{loop + 95, loop, loop - 1, 171, 125, 90, 45, 20, 3, 0}
	rnd := kit.Rand(4646)
	bases := []uint64{100, 20000000 + uint64(rnd.Intn(100000))}
	for i := 0; i < kit.IntEnv("VERIF_SIGN_EXTRA", 2); i++ {
		g := uint64(rnd.Intn(int(loop) + 60))
		m := g % uint64(signingAttemptMaximumBlocks())
		if m == signingAttemptAnnouncementDelayBlocks || m == signingAttemptAnnouncementDelayBlocks+signingAttemptAnnouncementActiveBlocks {
			g += 2
		}
		gaps = append(gaps, g)
	}
	n := 0
	for bi, base := range bases {
		for gi, gap := range gaps {
			mstart := base + uint64(7*gi)
			rec, herr := c46sRun(t, executor, mstart, mstart+gap, (gi+bi)%2 == 1)
			if herr != "" {
				t.Fatalf("c46 sign harness: start %d deadline %d: %s", mstart, mstart+gap, herr)
			}
			n++
			tr.Emit(map[string]interface{}{"event": "Sign", "mstart": rec.Mstart, "deadline": rec.Deadline, "anns": rec.Anns,
				"returned": rec.Returned, "failed": rec.Failed, "batch": rec.Batch, "loopBoundToCaller": rec.Bound, "err": rec.Err})
			rep.Eval(fmt.Sprintf("sign@%d+%d", mstart, gap), rec)
			late := 0
			for _, a := range rec.Anns {
				if a > rec.Deadline {
					late++
				}
			}
			rep.Count("announcements", len(rec.Anns))
			rep.Count("announcements_after_deadline", late)
		}
	}
	rep.Extra["events"] = tr.N()
	rep.Extra["runs"] = n
}
