//go:build verif

package handshake

// C20 conformance harness for the three acts (see /verif/specs/Handshake).
//
// Every behaviour of the specification (all nonce values from a 3-value
// domain, all protocol id pairs, one attacker action per session: one field of
// an act changed to another domain value, or an act replaced by the one
// recorded in another session) is replayed on InitiateHandshake /
// AnswerHandshake / InitiatorAct2.Next / FinalizeHandshake. Nonces are
// scripted by replacing crypto/rand.Reader, acts travel through their real
// Marshal / Unmarshal, the attacker edits the act in flight field by field.
// After every step the error / no error outcome and every field of the act a
// side produced are compared with the specification.
//
// Besides whole-field changes the attacker flips bits: of a raw nonce ("lo" /
// "mid" / "hi": first, a middle, the last byte) and of one 8-byte word of the
// 32-byte challenge. Every behaviour with such a flip is replayed three times,
// flipping a bit in the first, a middle and the last byte of the chosen word
// (the middle byte rotates, so that every byte position 0..31 is exercised).
//
// The hash is not transcribed: the first challenge the code produces for a
// pair of model nonces is bound to that pair; the code must produce the same
// bytes for the pair ever after and different bytes for different pairs.

import (
	crand "crypto/rand"
	"crypto/sha256"
	"encoding/binary"
	"fmt"
	"io"
	"testing"

	kit "github.com/keep-network/keep-core/internal/verifkit"
)

// model nonce -> concrete nonce
var c20Nonce = map[int]uint64{1: 0x1111111111111111, 2: 0x2222222222222222, 3: 0x0000000000000001}

// c20Reader serves reads of any size: scripted nonces first (8 bytes each),
// real randomness after that. How the code draws its entropy (one nonce at a
// time, in bulk, through a pool) is its own business: whether a scripted value
// actually became the nonce is found out from the act the code produces.
type c20Reader struct {
	next []uint64
	real io.Reader
}

func (r *c20Reader) Read(p []byte) (int, error) {
	off := 0
	for ; off+8 <= len(p) && len(r.next) > 0; off += 8 {
		binary.LittleEndian.PutUint64(p[off:], r.next[0])
		r.next = r.next[1:]
	}
	if off < len(p) {
		if _, err := io.ReadFull(r.real, p[off:]); err != nil {
			return off, err
		}
	}
	return len(p), nil
}

type c20Binding struct {
	byPair map[[2]uint64][sha256.Size]byte
	byHash map[[sha256.Size]byte][2]uint64
}

// hash returns the concrete challenge for a pair of concrete nonces; pairs the
// code has not produced yet are the attacker's own computations.
func (b *c20Binding) hash(pair [2]uint64) [sha256.Size]byte {
	if h, ok := b.byPair[pair]; ok {
		return h
	}
	return hashToChallenge(pair[0], pair[1])
}

// bind records what the code produced for pair; returns a description of the
// inconsistency if there is one.
func (b *c20Binding) bind(pair [2]uint64, h [sha256.Size]byte) string {
	if old, ok := b.byPair[pair]; ok && old != h {
		return fmt.Sprintf("the challenge for nonces %x changed between two computations", pair)
	}
	if p, ok := b.byHash[h]; ok && p != pair {
		return fmt.Sprintf("nonce pairs %x and %x give the same challenge", p, pair)
	}
	b.byPair[pair] = h
	b.byHash[h] = pair
	return ""
}

// c20Variant says which byte of a flipped word / nonce is touched in this replay.
type c20Variant struct {
	which int // 0 first, 1 middle, 2 last byte of the word
	mid   int // the middle byte: 1..6
	bytes map[string]bool
	last  string // the flip applied last in this replay
	// model nonce -> concrete nonce for this behaviour: the scripted value, or the one the code
	// was seen to draw instead; used = the value has already been put into some message
	nv   map[int]uint64
	used map[int]bool
}

// learn binds model nonce k to the value the code actually drew. It fails if k
// already stands for another value in this behaviour (a coincidence of nonces
// the specification asks for cannot be arranged when nonces cannot be scripted).
func (v *c20Variant) learn(k int, actual uint64) bool {
	if v.nv[k] == actual {
		v.used[k] = true
		return true
	}
	if v.used[k] {
		return false
	}
	// different model nonces stay different values
	for j, x := range v.nv {
		if j != k && x == actual {
			if v.used[j] {
				return false
			}
			v.nv[j] = 0xa5a5a5a500000000 + uint64(j)<<8 + uint64(k)
		}
	}
	v.nv[k] = actual
	v.used[k] = true
	v.bytes["nonces_learned"] = true
	return true
}

func (v *c20Variant) wordByte() int {
	switch v.which {
	case 0:
		return 0
	case 2:
		return 7
	}
	return v.mid
}

// nonce: model record [n, f] -> concrete nonce
func (v *c20Variant) nonce(m kit.V) uint64 {
	v.used[m.Get("n").Int()] = true
	x := v.nv[m.Get("n").Int()]
	off := -1
	switch m.Get("f").Str() {
	case "lo":
		off = 0
	case "mid":
		off = v.mid
	case "hi":
		off = 7
	}
	if off >= 0 {
		x ^= uint64(0x10) << (8 * uint(off)) // little endian: byte `off` of the 8 nonce bytes
		v.bytes[fmt.Sprintf("nonce_byte_%d", off)] = true
		v.last = fmt.Sprintf("a bit of byte %d of the 8-byte nonce flipped in flight", off)
	}
	return x
}

// challenge: model vector of four words [a, b, x] -> the 32 concrete bytes
func (v *c20Variant) challenge(b *c20Binding, m kit.V) [sha256.Size]byte {
	var out [sha256.Size]byte
	for i, w := range m.List() {
		h := b.hash([2]uint64{v.nonce(w.Get("a")), v.nonce(w.Get("b"))})
		copy(out[8*i:8*i+8], h[8*i:8*i+8])
		if w.Get("x").Int() == 1 {
			k := 8*i + v.wordByte()
			out[k] ^= 0x01
			v.bytes[fmt.Sprintf("chal_byte_%d", k)] = true
			v.last = fmt.Sprintf("a bit of byte %d of the 32-byte challenge flipped in flight", k)
		}
	}
	return out
}

func (v *c20Variant) pair(m kit.V) [2]uint64 {
	w := m.Idx(0)
	return [2]uint64{v.nonce(w.Get("a")), v.nonce(w.Get("b"))}
}

type c20Flight struct {
	act int
	a1  *Act1Message
	a2  *Act2Message
	a3  *Act3Message
}

// set makes the act in flight equal to the specification's message m.
func (f *c20Flight) set(b *c20Binding, v *c20Variant, m kit.V) {
	switch f.act {
	case 1:
		f.a1 = &Act1Message{nonce1: v.nonce(m.Get("nonce")), protocol1: m.Get("proto").Str()}
	case 2:
		f.a2 = &Act2Message{nonce2: v.nonce(m.Get("nonce")), challenge: v.challenge(b, m.Get("chal")), protocol2: m.Get("proto").Str()}
	case 3:
		f.a3 = &Act3Message{challenge: v.challenge(b, m.Get("chal"))}
	}
}

func c20Flips(c kit.V) bool {
	for _, s := range c.Get("steps").List() {
		switch s.Get("a").Str() {
		case "AlterNonceBits", "AlterWord":
			return true
		}
	}
	return false
}

func TestVerif_C20_Acts(t *testing.T) {
	kit.RequireEngine(t)
	rep := kit.NewReport("C20", "acts")
	defer rep.Write(t)
	cases := kit.LoadCases(t, "behaviours_bare.ndjson")
	saved := crand.Reader
	defer func() { crand.Reader = saved }()
	rd := &c20Reader{real: saved}
	crand.Reader = rd
	bind := &c20Binding{byPair: map[[2]uint64][sha256.Size]byte{}, byHash: map[[sha256.Size]byte][2]uint64{}}
	touched := map[string]bool{}

	for ci, c0 := range cases {
		nvar := 1
		if c20Flips(c0) {
			nvar = 3
		}
		for which := 0; which < nvar; which++ {
			c := c0
			vr := &c20Variant{which: which, mid: 1 + ci%6, bytes: touched, nv: map[int]uint64{}, used: map[int]bool{}}
			for k, x := range c20Nonce {
				vr.nv[k] = x
			}
			unrealizable := false
			var (
				ia2   *InitiatorAct2
				ra3   *ResponderAct3
				fl    c20Flight
				bad   string
				key   string
				tamp  bool
				steps = c.Get("steps").List()
			)
			diverge := func(i int, k, what string, exp, obs interface{}) {
				if bad == "" {
					bad, key = what, k
					if vr.last != "" {
						what += " (" + vr.last + ")"
					}
					rep.Diverge(k, fmt.Sprintf("step %d %s: %s", i+1, steps[i].Get("a").Str(), what),
						map[string]interface{}{"behaviour": c.X, "at": i + 1}, exp, obs)
				}
			}
			func() {
				defer func() {
					if r := recover(); r != nil {
						rep.Diverge("panic", fmt.Sprintf("handshake code panicked: %v", r), c.X, nil, nil)
						bad = "panic"
					}
				}()
				for i, s := range steps {
					if bad != "" {
						return
					}
					net := s.Get("net")
					switch s.Get("a").Str() {
					case "SendAct1":
						rd.next = []uint64{c20Nonce[c.Get("n1").Int()]}
						ia1, err := InitiateHandshake(c.Get("ip").Str())
						if err != nil {
							t.Fatalf("InitiateHandshake: %v", err)
						}
						m := ia1.Message()
						if !vr.learn(c.Get("n1").Int(), m.nonce1) {
							unrealizable = true
							return
						}
						if m.nonce1 != vr.nonce(net.Get("m").Get("nonce")) || m.protocol1 != net.Get("m").Get("proto").Str() {
							diverge(i, "act1-content", "act 1 does not carry the initiator's nonce and protocol id", net.Get("m").X, fmt.Sprintf("%+v", *m))
						}
						ia2 = ia1.Next()
						fl = c20Flight{act: 1, a1: m}
					case "AlterField", "AlterNonceBits", "AlterWord", "Replay":
						tamp = true
						fl.set(bind, vr, net.Get("m"))
					case "AnswerAct1":
						wire, err := fl.a1.Marshal()
						if err != nil {
							t.Fatalf("marshal act 1: %v", err)
						}
						got := &Act1Message{}
						if err := got.Unmarshal(wire); err != nil {
							t.Fatalf("unmarshal act 1: %v", err)
						}
						n2 := s.Get("n2").Int()
						rd.next = []uint64{c20Nonce[n2]}
						if n2 == 0 {
							rd.next = []uint64{0xdead}
						}
						ra2, err := AnswerHandshake(got, c.Get("rp").Str())
						ok := s.Get("rst").Str() == "wait"
						if (err == nil) != ok {
							diverge(i, fmt.Sprintf("answer:%v->%v", ok, err == nil), fmt.Sprintf("AnswerHandshake(act1{nonce %d, protocol %q}, %q) returned %v, the specification says accepted = %v",
								got.nonce1, got.protocol1, c.Get("rp").Str(), err, ok), ok, fmt.Sprint(err))
							return
						}
						if err != nil {
							return
						}
						m := ra2.Message()
						wm := net.Get("m")
						if !vr.learn(n2, m.nonce2) {
							unrealizable = true
							return
						}
						if msg := bind.bind(vr.pair(wm.Get("chal")), m.challenge); msg != "" {
							diverge(i, "challenge", "act 2: "+msg+" (the challenge must be derived from both nonces)", wm.X, nil)
						}
						if m.nonce2 != vr.nonce(wm.Get("nonce")) || m.protocol2 != wm.Get("proto").Str() {
							diverge(i, "act2-content", "act 2 does not carry the responder's nonce and protocol id", wm.X, fmt.Sprintf("%+v", *m))
						}
						ra3 = ra2.Next()
						fl = c20Flight{act: 2, a2: m}
					case "CheckAct2":
						wire, err := fl.a2.Marshal()
						if err != nil {
							t.Fatalf("marshal act 2: %v", err)
						}
						got := &Act2Message{}
						if err := got.Unmarshal(wire); err != nil {
							t.Fatalf("unmarshal act 2: %v", err)
						}
						ia3, err := ia2.Next(got)
						ok := s.Get("ist").Str() == "done"
						if (err == nil) != ok {
							what := fmt.Sprintf("InitiatorAct2.Next returned %v, the specification says accepted = %v", err, ok)
							if err == nil {
								what += ": the initiator goes on although the act it received does not carry its protocol id and the challenge of its own nonce and the received nonce"
							}
							diverge(i, fmt.Sprintf("check2:%v->%v", ok, err == nil), what, ok, fmt.Sprint(err))
							return
						}
						if err != nil {
							return
						}
						m := ia3.Message()
						if m.challenge != vr.challenge(bind, net.Get("m").Get("chal")) {
							diverge(i, "act3-content", "act 3 does not carry the challenge of the initiator's nonce and the received nonce, unaltered", net.Get("m").X, fmt.Sprintf("%x", m.challenge))
						}
						fl = c20Flight{act: 3, a3: m}
					case "Finalize":
						wire, err := fl.a3.Marshal()
						if err != nil {
							t.Fatalf("marshal act 3: %v", err)
						}
						got := &Act3Message{}
						if err := got.Unmarshal(wire); err != nil {
							t.Fatalf("unmarshal act 3: %v", err)
						}
						err = ra3.FinalizeHandshake(got)
						ok := s.Get("rst").Str() == "done"
						if (err == nil) != ok {
							what := fmt.Sprintf("FinalizeHandshake returned %v, the specification says accepted = %v", err, ok)
							if err == nil {
								what += ": the responder completes on a challenge that is not the one derived from the nonce it received and its own"
							}
							diverge(i, fmt.Sprintf("finalize:%v->%v", ok, err == nil), what, ok, fmt.Sprint(err))
						}
					case "InitiatorSeesClose", "ResponderSeesClose":
						// the other side gave up; nothing to call
					default:
						t.Fatalf("unknown step %q", s.Get("a").Str())
					}
					rep.Count("steps", 1)
				}
			}()
			k := ""
			if tamp || c.Get("ip").Str() != c.Get("rp").Str() {
				k = kit.Hash(c.X)
			}
			if k != "" && nvar == 3 {
				k += fmt.Sprintf("/%d", which)
			}
			if unrealizable {
				// the code drew nonces of its own and the behaviour needs a coincidence of nonces
				rep.Unrealized++
				rep.Count("unrealizable_nonce_coincidence", 1)
				k = ""
			}
			rep.Eval(k, map[string]interface{}{"ip": c.Get("ip").Str(), "rp": c.Get("rp").Str(), "steps": len(steps),
				"ist": c.Get("ist").Str(), "rst": c.Get("rst").Str()})
			_ = key
		}
	}
	for b := range touched {
		rep.Count(b, 1)
	}
	var _ io.Reader = rd
}

// TestVerif_C20_Freshness binds HandshakeSessions.tla: one process (one node)
// runs many sessions with the REAL random source; the nonces it draws must be
// pairwise distinct, and the recorded acts of an earlier session, replayed
// into later sessions without the honest peer, must be rejected.
func TestVerif_C20_Freshness(t *testing.T) {
	kit.RequireEngine(t)
	rep := kit.NewReport("C20", "freshness")
	defer rep.Write(t)
	sessions := kit.IntEnv("VERIF_SESSIONS", 48)
	const proto = "p"
	type rec struct {
		a1 Act1Message
		a2 Act2Message
		a3 Act3Message
	}
	var recs []rec
	seen := map[uint64]string{}
	for i := 0; i < sessions; i++ {
		ia1, err := InitiateHandshake(proto)
		if err != nil {
			t.Fatal(err)
		}
		m1 := ia1.Message()
		ia2 := ia1.Next()
		ra2, err := AnswerHandshake(m1, proto)
		if err != nil {
			rep.Diverge("honest-run-fails", fmt.Sprintf("session %d: AnswerHandshake refused an untouched act 1: %v", i, err), nil, nil, nil)
			return
		}
		m2 := ra2.Message()
		ra3 := ra2.Next()
		ia3, err := ia2.Next(m2)
		if err != nil {
			rep.Diverge("honest-run-fails", fmt.Sprintf("session %d: the initiator refused an untouched act 2: %v", i, err), nil, nil, nil)
			return
		}
		m3 := ia3.Message()
		if err := ra3.FinalizeHandshake(m3); err != nil {
			rep.Diverge("honest-run-fails", fmt.Sprintf("session %d: the responder refused an untouched act 3: %v", i, err), nil, nil, nil)
			return
		}
		recs = append(recs, rec{*m1, *m2, *m3})
		for who, n := range map[string]uint64{"nonce1": m1.nonce1, "nonce2": m2.nonce2} {
			name := fmt.Sprintf("%s of session %d", who, i)
			if prev, dup := seen[n]; dup {
				rep.Diverge("nonce-reuse", fmt.Sprintf("one node drew the same nonce %#x twice within %d sessions: as %s and as %s", n, sessions, prev, name),
					map[string]interface{}{"sessions": sessions}, "pairwise distinct nonces", n)
			}
			seen[n] = name
		}
		rep.Eval(fmt.Sprintf("session:%d", i%7), nil)
	}
	rep.Count("nonces_compared", len(seen))
	// replay of recorded sessions into later sessions of the same node
	later := kit.IntEnv("VERIF_LATER_SESSIONS", 40)
	for ri := 0; ri < 3 && ri < len(recs); ri++ {
		r := recs[ri]
		for j := 0; j < later; j++ {
			// the node as responder: recorded act 1, then recorded act 3
			a1 := r.a1
			ra2, err := AnswerHandshake(&a1, proto)
			if err == nil {
				a3 := r.a3
				if ra2.Next().FinalizeHandshake(&a3) == nil {
					rep.Diverge("replay-accepted:responder", fmt.Sprintf("acts 1 and 3 recorded in session %d, replayed into a later session of the same responder (%d sessions later), completed the handshake: the responder drew nonce %#x again", ri, sessions-ri+j, ra2.Message().nonce2),
						map[string]interface{}{"recorded": ri, "later": j}, "rejected", "accepted")
				}
			}
		}
		for j := 0; j < later; j++ {
			// the node as initiator: recorded act 2
			ia1, err := InitiateHandshake(proto)
			if err != nil {
				t.Fatal(err)
			}
			a2 := r.a2
			if _, err := ia1.Next().Next(&a2); err == nil {
				rep.Diverge("replay-accepted:initiator", fmt.Sprintf("act 2 recorded in session %d, replayed into a later session of the same initiator, was accepted: the initiator drew nonce %#x again", ri, ia1.Message().nonce1),
					map[string]interface{}{"recorded": ri, "later": j}, "rejected", "accepted")
			}
			rep.Count("replays", 2)
		}
		rep.Eval(fmt.Sprintf("replay:%d", ri), nil)
	}
}
