//go:build verif

package libp2p

// C18 conformance harness (see /verif/specs/Envelope): real identities
// (two secp256k1 operators, one Ed25519 peer), real protobuf envelopes, fed as
// pubsub messages authored by `outer` into processPubsubMessage of a channel
// that has two raw message handlers. What reaches the handlers' queues is what
// deliver() was called with. Every envelope of the specification is replayed
// alone and inside random batches.

import (
	"bytes"
	crand "crypto/rand"
	"fmt"
	"math/big"
	"testing"

	pubsub "github.com/libp2p/go-libp2p-pubsub"
	pubsubpb "github.com/libp2p/go-libp2p-pubsub/pb"
	libp2pcrypto "github.com/libp2p/go-libp2p/core/crypto"
	"github.com/libp2p/go-libp2p/core/peer"
	"google.golang.org/protobuf/proto"

	kit "github.com/keep-network/keep-core/internal/verifkit"
	"github.com/keep-network/keep-core/pkg/net"
	"github.com/keep-network/keep-core/pkg/net/gen/pb"
	"github.com/keep-network/keep-core/pkg/operator"
)

const c18Type = "verif/c18"

type c18Msg struct{ data []byte }

func (m *c18Msg) Type() string { return c18Type }
func (m *c18Msg) Unmarshal(b []byte) error {
	if bytes.HasPrefix(b, []byte("undecodable")) {
		return fmt.Errorf("verif: payload cannot be decoded")
	}
	m.data = append([]byte(nil), b...)
	return nil
}

type c18Peer struct {
	id       peer.ID
	identity []byte // marshalled pb.Identity
	opKey    []byte // uncompressed operator public key; nil for non-operator keys
}

// c18Uncompressed is 0x04 || X (32 bytes) || Y (32 bytes), made independently of package operator.
func c18Uncompressed(x, y *big.Int) []byte {
	out := make([]byte, 65)
	out[0] = 4
	x.FillBytes(out[1:33])
	y.FillBytes(out[33:65])
	return out
}

// c18ShortKey returns the operator key with the smallest private scalar whose
// public X (wantX) or Y coordinate fits into 31 bytes.
func c18ShortKey(t *testing.T, wantX bool) *operator.PrivateKey {
	limit := new(big.Int).Lsh(big.NewInt(1), 248)
	for d := int64(1); d < 100000; d++ {
		k := big.NewInt(d)
		x, y := DefaultCurve.ScalarBaseMult(k.Bytes())
		c := y
		if wantX {
			c = x
		}
		if c.Cmp(limit) < 0 {
			return &operator.PrivateKey{PublicKey: operator.PublicKey{Curve: operator.Secp256k1, X: x, Y: y}, D: k}
		}
	}
	t.Fatalf("no key with a short coordinate found")
	return nil
}

func c18Peers(t *testing.T) map[string]c18Peer {
	out := map[string]c18Peer{}
	for _, name := range []string{"a", "b", "sx", "sy"} {
		opPriv, opPub, err := operator.GenerateKeyPair(DefaultCurve)
		if err != nil {
			t.Fatal(err)
		}
		if name == "sx" || name == "sy" {
			opPriv = c18ShortKey(t, name == "sx")
			opPub = &opPriv.PublicKey
			if short := map[string]*big.Int{"sx": opPub.X, "sy": opPub.Y}[name]; len(short.Bytes()) >= 32 {
				t.Fatalf("fixture: coordinate of %s is not short", name)
			}
		}
		npriv, _, err := operatorPrivateKeyToNetworkKeyPair(opPriv)
		if err != nil {
			t.Fatal(err)
		}
		ident, err := createIdentity(npriv)
		if err != nil {
			t.Fatal(err)
		}
		ib, err := ident.Marshal()
		if err != nil {
			t.Fatal(err)
		}
		out[name] = c18Peer{id: ident.id, identity: ib, opKey: c18Uncompressed(opPub.X, opPub.Y)}
	}
	_, edPub, err := libp2pcrypto.GenerateEd25519Key(crand.Reader)
	if err != nil {
		t.Fatal(err)
	}
	edID, err := peer.IDFromPublicKey(edPub)
	if err != nil {
		t.Fatal(err)
	}
	kb, err := libp2pcrypto.MarshalPublicKey(edPub)
	if err != nil {
		t.Fatal(err)
	}
	ib, err := proto.Marshal(&pb.Identity{PubKey: kb})
	if err != nil {
		t.Fatal(err)
	}
	out["e"] = c18Peer{id: edID, identity: ib}
	// the mirror identity (x, -y) of every operator: a well-formed secp256k1 identity with the
	// same X coordinate and another peer id; only ever used as inner identity
	for _, name := range []string{"a", "b", "sx", "sy"} {
		x := new(big.Int).SetBytes(out[name].opKey[1:33])
		y := new(big.Int).SetBytes(out[name].opKey[33:65])
		my := new(big.Int).Sub(DefaultCurve.Params().P, y)
		npub, err := operatorPublicKeyToNetworkPublicKey(&operator.PublicKey{Curve: operator.Secp256k1, X: x, Y: my})
		if err != nil {
			t.Fatal(err)
		}
		mid, err := peer.IDFromPublicKey(npub)
		if err != nil {
			t.Fatal(err)
		}
		mib, err := (&identity{id: mid, pubKey: npub}).Marshal()
		if err != nil {
			t.Fatal(err)
		}
		if mid == out[name].id {
			t.Fatalf("fixture: mirror of %s has the same peer id", name)
		}
		out["mirror:"+name] = c18Peer{id: mid, identity: mib, opKey: c18Uncompressed(x, my)}
	}
	return out
}

var c18Truncated = []byte{0x0a, 0x05, 0x01} // a length-delimited field that claims more bytes than there are

func c18Build(t *testing.T, peers map[string]c18Peer, e kit.V, serial int) (*pubsub.Message, []byte) {
	payload := []byte(fmt.Sprintf("payload-%d", serial))
	if e.Get("payload").Str() == "undecodable" {
		payload = []byte(fmt.Sprintf("undecodable-%d", serial))
	}
	var sender []byte
	switch kind, in := e.Get("inner").Idx(0).Str(), e.Get("inner").Idx(1).Str(); {
	case kind == "mirror":
		sender = peers["mirror:"+in].identity
	case kind == "peer":
		sender = peers[in].identity
	case in == "garbage":
		sender = c18Truncated
	case in == "badkey":
		sender, _ = proto.Marshal(&pb.Identity{PubKey: []byte{1, 2, 3}})
	default: // empty
		sender = nil
	}
	tpe := c18Type
	if e.Get("type").Str() == "unknown" {
		tpe = "verif/not-registered"
	}
	data, err := proto.Marshal(&pb.BroadcastNetworkMessage{Sender: sender, Payload: payload, Type: []byte(tpe),
		SequenceNumber: uint64(e.Get("seq").Int())})
	if err != nil {
		t.Fatal(err)
	}
	if e.Get("container").Str() == "garbage" {
		data = c18Truncated
	}
	return &pubsub.Message{Message: &pubsubpb.Message{Data: data, From: []byte(peers[e.Get("outer").Str()].id)}}, payload
}

func TestVerif_C18_Envelopes(t *testing.T) {
	kit.RequireEngine(t)
	rep := kit.NewReport("C18", "envelopes")
	defer rep.Write(t)
	peers := c18Peers(t)
	// sanity of the fixtures: the malformed pieces are malformed
	if proto.Unmarshal(c18Truncated, &pb.BroadcastNetworkMessage{}) == nil || proto.Unmarshal(c18Truncated, &pb.Identity{}) == nil {
		t.Fatalf("fixture: truncated bytes decode as protobuf")
	}
	for _, file := range []string{"cases.ndjson", "batches.ndjson"} {
		for ci, c := range kit.LoadCases(t, file) {
			ch := &channel{name: "verif-c18", unmarshalersByType: map[string]func() net.TaggedUnmarshaler{}}
			ch.SetUnmarshaler(func() net.TaggedUnmarshaler { return &c18Msg{} })
			q1, q2 := make(chan net.Message, 64), make(chan net.Message, 64)
			ch.messageHandlers = []*messageHandler{{channel: q1}, {channel: q2}}
			batch := c.Get("batch").List()
			verdicts := c.Get("verdicts").Strs()
			nontrivial := false
			type kept struct {
				m       net.Message
				payload []byte
				desc    string
			}
			var keep []kept
			for i, e := range batch {
				msg, payload := c18Build(t, peers, e, ci*16+i)
				var err error
				func() {
					defer func() {
						if r := recover(); r != nil {
							err = fmt.Errorf("panic: %v", r)
							rep.Diverge("panic", fmt.Sprintf("processing envelope %s panicked: %v", e.JSON(), r), c.X, nil, nil)
						}
					}()
					err = ch.processPubsubMessage(msg)
				}()
				var got []net.Message
				for _, q := range []chan net.Message{q1, q2} {
					select {
					case m := <-q:
						got = append(got, m)
					default:
					}
				}
				extra := len(q1) + len(q2)
				want := verdicts[i] == "delivered"
				if verdicts[i] != "delivered" && verdicts[i] != "container" {
					nontrivial = true
				}
				where := map[string]interface{}{"batch": c.Get("batch").X, "at": i + 1}
				desc := fmt.Sprintf("envelope %d of %d {author %s, inner identity %s, type %s, payload %s, container %s}", i+1, len(batch),
					e.Get("outer").Str(), e.Get("inner").Idx(0).Str()+" "+e.Get("inner").Idx(1).Str(), e.Get("type").Str(), e.Get("payload").Str(), e.Get("container").Str())
				switch {
				case want && (len(got) != 2 || extra != 0):
					rep.Diverge("c18:lost:"+e.Get("inner").Idx(1).Str(), fmt.Sprintf("%s is well-formed and names its author, yet %d of 2 handlers received it (error: %v)", desc, len(got), err), where, "delivered", fmt.Sprint(err))
				case !want && (len(got) != 0 || extra != 0):
					what := fmt.Sprintf("%s must be dropped (%s) but was delivered", desc, verdicts[i])
					if verdicts[i] == "mismatch" {
						what += ": the message is attributed to an identity that is not the authenticated author"
						if e.Get("inner").Idx(0).Str() == "mirror" && len(got) > 0 {
							what += fmt.Sprintf(" (delivered as sent by %s, the mirror key (x, -y) of the author's key)", got[0].TransportSenderID())
						}
					}
					rep.Diverge("c18:delivered:"+verdicts[i], what, where, verdicts[i], "delivered")
				case want && err != nil:
					rep.Diverge("c18:error-on-delivery", fmt.Sprintf("%s was delivered but processing returned %v", desc, err), where, nil, fmt.Sprint(err))
				case !want && err == nil:
					rep.Diverge("c18:silent-drop:"+verdicts[i], fmt.Sprintf("%s was dropped without an error", desc), where, verdicts[i], nil)
				}
				if want {
					p := peers[e.Get("outer").Str()]
					for _, m := range got {
						bad := ""
						if m.TransportSenderID().String() != p.id.String() {
							bad = fmt.Sprintf("sender id %s is not the author %s", m.TransportSenderID(), p.id)
						} else if !bytes.Equal(m.SenderPublicKey(), p.opKey) {
							bad = fmt.Sprintf("sender public key (%d bytes, %x) is not the author's operator key in its 65-byte uncompressed form (%x)", len(m.SenderPublicKey()), m.SenderPublicKey(), p.opKey)
						} else if m.Type() != c18Type || m.Seqno() != uint64(e.Get("seq").Int()) {
							bad = fmt.Sprintf("type %q / seqno %d differ from the envelope's", m.Type(), m.Seqno())
						} else if pm, ok := m.Payload().(*c18Msg); !ok || !bytes.Equal(pm.data, payload) {
							bad = "payload differs from the envelope's"
						}
						if bad != "" {
							rep.Diverge("c18:attribution", desc+": delivered message: "+bad, where, nil, nil)
						}
						keep = append(keep, kept{m, payload, desc})
					}
				}
				rep.Count("envelopes", 1)
				rep.Count("verdict_"+verdicts[i], 1)
			}
			// later envelopes (delivered or dropped) must not have touched what was delivered before
			for _, kp := range keep {
				if pm, ok := kp.m.Payload().(*c18Msg); !ok || !bytes.Equal(pm.data, kp.payload) {
					rep.Diverge("c18:interference", kp.desc+": the payload of the delivered message changed while later envelopes of the batch were processed",
						map[string]interface{}{"batch": c.Get("batch").X}, string(kp.payload), nil)
				}
			}
			k := ""
			if nontrivial {
				k = kit.Hash(c.Get("batch").X)
			}
			rep.Eval(k, map[string]interface{}{"batch": c.Get("batch").X, "verdicts": verdicts})
		}
	}
}
