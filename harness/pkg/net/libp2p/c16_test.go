//go:build verif

package libp2p

// C16 conformance harness for the libp2p broadcast channel (see
// /verif/specs/Broadcast and /verif/harness/kit/broadcast.go).
//
// No libp2p host is started. The rig builds channel values with real
// identities, the message unmarshaler, a retransmission ticker fed by the
// harness and a fake publisher in place of the pubsub topic. What the fake
// publisher is given (the marshalled BroadcastNetworkMessage) is handed, as a
// pubsub.Message authored by the sender's peer id, to processPubsubMessage of
// the receiving channel - the function the incoming message workers call - so
// Send, messageProto, nextSeqno, publish, processPubsubMessage,
// processContainerMessage, deliver, Recv and removeHandler all run for real.

import (
	"context"
	"fmt"
	"sync"
	"sync/atomic"
	"testing"

	pubsub "github.com/libp2p/go-libp2p-pubsub"
	pubsubpb "github.com/libp2p/go-libp2p-pubsub/pb"
	"github.com/libp2p/go-libp2p/core/peer"
	"google.golang.org/protobuf/proto"

	kit "github.com/keep-network/keep-core/internal/verifkit"
	"github.com/keep-network/keep-core/pkg/net"
	"github.com/keep-network/keep-core/pkg/net/gen/pb"
	"github.com/keep-network/keep-core/pkg/net/internal"
	"github.com/keep-network/keep-core/pkg/net/retransmission"
	"github.com/keep-network/keep-core/pkg/operator"
)

const c16Type = "verif/c16"

type c16Msg struct{ tag string }

func (m *c16Msg) Type() string             { return c16Type }
func (m *c16Msg) Marshal() ([]byte, error) { return []byte(m.tag), nil }
func (m *c16Msg) Unmarshal(b []byte) error { m.tag = string(b); return nil }

func c16Identity(t testing.TB) *identity {
	priv, _, err := operator.GenerateKeyPair(DefaultCurve)
	if err != nil {
		t.Fatal(err)
	}
	npriv, _, err := operatorPrivateKeyToNetworkKeyPair(priv)
	if err != nil {
		t.Fatal(err)
	}
	id, err := createIdentity(npriv)
	if err != nil {
		t.Fatal(err)
	}
	return id
}

type c16Rig struct {
	t      testing.TB
	recv   *channel
	real   map[string]*channel
	ticks  []chan uint64
	sctx   context.Context
	cancel context.CancelFunc

	mu       sync.Mutex
	ids      map[string]string // peer id string -> model sender
	idents   map[string]*identity
	simNext  map[string]uint64
	stored   map[string][]byte // "sender:seqno" -> first published bytes
	tagSeq   map[string]uint64
	seqTag   map[string]string
	problems []string
	handlers map[context.Context]*messageHandler
}

// c16Pub stands for the pubsub topic of one sender.
type c16Pub struct {
	r        *c16Rig
	sender   string
	failNext int32 // the next publication attempt is refused
}

var errC16Refused = fmt.Errorf("verif: publisher refused the message")

func (p *c16Pub) Publish(_ context.Context, data []byte, _ ...pubsub.PubOpt) error {
	p.r.note(p.sender, data)
	if atomic.CompareAndSwapInt32(&p.failNext, 1, 0) {
		return errC16Refused
	}
	return p.r.inject(p.sender, data)
}

func (r *c16Rig) newChannel(id *identity, pub publisher) *channel {
	ticks := make(chan uint64)
	r.ticks = append(r.ticks, ticks)
	ch := &channel{
		name:                 "verif-c16",
		clientIdentity:       id,
		publisher:            pub,
		unmarshalersByType:   make(map[string]func() net.TaggedUnmarshaler),
		retransmissionTicker: retransmission.NewTicker(ticks),
	}
	ch.SetUnmarshaler(func() net.TaggedUnmarshaler { return &c16Msg{} })
	return ch
}

func newC16Rig(t testing.TB, real []string, sim []string) kit.BcastRig {
	r := &c16Rig{t: t, real: map[string]*channel{}, ids: map[string]string{}, idents: map[string]*identity{},
		simNext: map[string]uint64{}, stored: map[string][]byte{}, tagSeq: map[string]uint64{},
		seqTag: map[string]string{}, handlers: map[context.Context]*messageHandler{}}
	r.sctx, r.cancel = context.WithCancel(context.Background())
	r.recv = r.newChannel(c16Identity(t), &c16Pub{r: r, sender: "recv"})
	for _, s := range append(append([]string{}, real...), sim...) {
		id := c16Identity(t)
		r.idents[s] = id
		r.ids[id.id.String()] = s
	}
	for _, s := range real {
		r.real[s] = r.newChannel(r.idents[s], &c16Pub{r: r, sender: s})
	}
	return r
}

// note checks sequence numbers at publication.
func (r *c16Rig) note(sender string, data []byte) {
	var mp pb.BroadcastNetworkMessage
	if err := proto.Unmarshal(data, &mp); err != nil {
		r.t.Fatalf("published bytes are not a BroadcastNetworkMessage: %v", err)
	}
	tag, n := string(mp.Payload), mp.SequenceNumber
	sk := fmt.Sprintf("%s:%d", sender, n)
	tk := sender + "/" + tag
	r.mu.Lock()
	defer r.mu.Unlock()
	if n0, ok := r.tagSeq[tk]; ok && n0 != n {
		r.problems = append(r.problems, fmt.Sprintf("message %q of channel %s was published with sequence number %d and again with %d: a retransmission must keep the number", tag, sender, n0, n))
	}
	if t0, ok := r.seqTag[sk]; ok && t0 != tag {
		r.problems = append(r.problems, fmt.Sprintf("two different messages of channel %s (%q and %q) were published with the same sequence number %d", sender, t0, tag, n))
	}
	if _, ok := r.tagSeq[tk]; !ok {
		r.tagSeq[tk] = n
	}
	if _, ok := r.seqTag[sk]; !ok {
		r.seqTag[sk] = tag
		r.stored[sk] = append([]byte(nil), data...)
	}
}

// inject is the network: the bytes arrive at the receiving channel as a
// pubsub message authored by the sender's peer id.
func (r *c16Rig) inject(sender string, data []byte) error {
	from := r.idents[sender].id
	return r.recv.processPubsubMessage(&pubsub.Message{
		Message: &pubsubpb.Message{Data: data, From: []byte(from)},
	})
}

func (r *c16Rig) conv(m net.Message) kit.BcastMsg {
	out := kit.BcastMsg{Seqno: m.Seqno()}
	r.mu.Lock()
	out.Sender = r.ids[m.TransportSenderID().String()]
	r.mu.Unlock()
	if p, ok := m.Payload().(*c16Msg); ok {
		out.Tag = p.tag
	}
	return out
}

func (r *c16Rig) Register(ctx context.Context, fn func(kit.BcastMsg)) {
	r.recv.Recv(ctx, func(m net.Message) { fn(r.conv(m)) })
	r.recv.messageHandlersMutex.Lock()
	for _, h := range r.recv.messageHandlers {
		if h.ctx == ctx {
			r.mu.Lock()
			r.handlers[ctx] = h
			r.mu.Unlock()
		}
	}
	r.recv.messageHandlersMutex.Unlock()
}

func (r *c16Rig) HandlerCtxs() []context.Context {
	r.recv.messageHandlersMutex.Lock()
	defer r.recv.messageHandlersMutex.Unlock()
	out := make([]context.Context, 0, len(r.recv.messageHandlers))
	for _, h := range r.recv.messageHandlers {
		out = append(out, h.ctx)
	}
	return out
}

func (r *c16Rig) QueueLen(ctx context.Context) int {
	r.mu.Lock()
	h := r.handlers[ctx]
	r.mu.Unlock()
	if h == nil {
		return -1
	}
	return len(h.channel)
}

func (r *c16Rig) Prime(ctx context.Context) {
	r.mu.Lock()
	h := r.handlers[ctx]
	r.mu.Unlock()
	if h == nil {
		r.t.Fatalf("no handler to prime")
	}
	h.channel <- internal.BasicMessage(peer.ID("prime"), &c16Msg{tag: "prime"}, c16Type, nil, 0)
}

func (r *c16Rig) Send(sender, tag string) (uint64, error) {
	ch := r.real[sender]
	if ch == nil {
		r.t.Fatalf("no real sender %s", sender)
	}
	if err := ch.Send(r.sctx, &c16Msg{tag: tag}); err != nil {
		return 0, err
	}
	r.mu.Lock()
	n, ok := r.tagSeq[sender+"/"+tag]
	r.mu.Unlock()
	if !ok {
		r.t.Fatalf("message %s/%s was not published", sender, tag)
	}
	return n, nil
}

func (r *c16Rig) SendFailing(sender, tag string) (uint64, error) {
	ch := r.real[sender]
	if ch == nil {
		r.t.Fatalf("no real sender %s", sender)
	}
	atomic.StoreInt32(&ch.publisher.(*c16Pub).failNext, 1)
	err := ch.Send(r.sctx, &c16Msg{tag: tag})
	r.mu.Lock()
	n, ok := r.tagSeq[sender+"/"+tag]
	r.mu.Unlock()
	if !ok {
		r.t.Fatalf("message %s/%s never reached the publisher", sender, tag)
	}
	return n, err
}

func (r *c16Rig) SimSend(sender, tag string) uint64 {
	r.mu.Lock()
	r.simNext[sender]++
	n := r.simNext[sender]
	r.mu.Unlock()
	idBytes, err := r.idents[sender].Marshal()
	if err != nil {
		r.t.Fatal(err)
	}
	data, err := proto.Marshal(&pb.BroadcastNetworkMessage{
		Payload: []byte(tag), Sender: idBytes, Type: []byte(c16Type), SequenceNumber: n,
	})
	if err != nil {
		r.t.Fatal(err)
	}
	r.note(sender, data)
	if err := r.inject(sender, data); err != nil {
		r.t.Fatalf("receiving channel refused a well-formed message: %v", err)
	}
	return n
}

func (r *c16Rig) Redeliver(sender string, seqno uint64) {
	r.mu.Lock()
	data := r.stored[fmt.Sprintf("%s:%d", sender, seqno)]
	r.mu.Unlock()
	if data == nil {
		r.t.Fatalf("no stored message %s:%d", sender, seqno)
	}
	if err := r.inject(sender, data); err != nil {
		r.t.Fatalf("receiving channel refused a retransmission: %v", err)
	}
}

func (r *c16Rig) Tick() {
	for _, c := range r.ticks {
		c <- 1
	}
}

func (r *c16Rig) Problems() []string {
	r.mu.Lock()
	defer r.mu.Unlock()
	return append([]string(nil), r.problems...)
}

func (r *c16Rig) Close() {
	r.cancel()
	for _, c := range r.ticks {
		close(c)
	}
}

var c16Target = kit.BcastTarget{Name: "libp2p", Lifecycle: "separate", Cap: messageHandlerThrottle, CanFailPublish: true, NewRig: newC16Rig}

func TestVerif_C16_Replay(t *testing.T) {
	kit.RequireEngine(t)
	rep := kit.NewReport("C16", "replay_libp2p")
	defer rep.Write(t)
	kit.ReplayBcast(t, rep, c16Target, kit.LoadCases(t, "behaviours_libp2p.ndjson"))
}

func TestVerif_C16_Trace(t *testing.T) {
	kit.RequireEngine(t)
	rep := kit.NewReport("C16", "trace_libp2p")
	defer rep.Write(t)
	rep.Extra["cap"] = messageHandlerThrottle
	tr := kit.NewTracer(t, "trace_libp2p")
	kit.RecordBcast(t, rep, c16Target, tr, kit.IntEnv("VERIF_RUNS", 30), 16)
	kit.SeqnoBcast(t, rep, c16Target, tr, kit.IntEnv("VERIF_SEQNO_ROUNDS", 4))
	kit.ForceBcast(t, rep, c16Target, tr, kit.IntEnv("VERIF_FORCE_REPS", 40))
	kit.IdleCancelBcast(t, rep, c16Target, tr, kit.IntEnv("VERIF_FORCE_REPS", 40))
	tr.Close()
	tro := kit.NewTracer(t, "trace_libp2p_overflow")
	kit.OverflowBcast(t, rep, c16Target, tro)
	tro.Close()
}
