//go:build verif

package libp2p

// End-to-end scenarios of the NetPath composition check (XNP). Each scenario
// builds a world (x_netpath_rig_test.go), drives it through a script with
// seeded variations and records what the wrappers and fakes saw. The recorded
// events are validated by TLC against /verif/specs/NetPath/Trace_NetPath.tla:
// the harness itself asserts nothing about the order or the presence of
// events, it only counts what happened (so that a run in which nothing
// interesting was exercised is reported as broken, not as a pass).

import (
	"context"
	"fmt"
	"math/rand"
	"testing"
	"time"

	kit "github.com/keep-network/keep-core/internal/verifkit"
	"github.com/keep-network/keep-core/pkg/net"
	"github.com/keep-network/keep-core/pkg/net/gen/pb"
)

type xnpRun struct {
	w      *xnpWorld
	rnd    *rand.Rand
	R, S   *xnpNode
	A      *xnpNode
	hs     map[string]*xnpHandler
	sent   int
	sctx   [3]context.Context
	scan   [3]context.CancelFunc
	nOwn   int
	nImp   int
	nGarb  int
	tags   []string
	settle time.Duration
}

func (r *xnpRun) sDial() {
	ctx, cancel := context.WithTimeout(r.w.ctx, 8*time.Second)
	defer cancel()
	_ = r.S.host.Connect(ctx, r.R.info)
	deadline := time.Now().Add(2 * time.Second)
	for time.Now().Before(deadline) && !(r.w.isUp("R", "S") && r.w.isUp("S", "R")) {
		time.Sleep(10 * time.Millisecond)
	}
	r.S.waitTopicPeer(r.R, 2*time.Second)
}

func (r *xnpRun) srUp() bool { return r.w.isUp("R", "S") && r.w.isUp("S", "R") }

func (r *xnpRun) reg(h string) {
	if r.hs[h] == nil {
		r.hs[h] = r.w.register(h)
	}
}

// send: S sends its next message (1: standard strategy, 2: backoff strategy).
func (r *xnpRun) send() string {
	if r.sent >= 2 {
		return ""
	}
	r.sent++
	k := r.sent
	r.sctx[k], r.scan[k] = context.WithCancel(r.w.ctx)
	tag := fmt.Sprintf("S%d", k)
	var err error
	if k == 1 {
		err = r.S.ch.Send(r.sctx[k], &xnpMsg{tag: tag})
	} else {
		err = r.S.ch.Send(r.sctx[k], &xnpMsg{tag: tag}, net.BackoffRetransmissionStrategy)
	}
	if err != nil {
		r.w.t.Logf("Send %s: %v", tag, err)
	}
	r.tags = append(r.tags, tag)
	return tag
}

func (r *xnpRun) tick() {
	r.w.log("event", "TickCall")
	select {
	case r.S.ticks <- 1:
		r.w.count("ticks", 1)
	case <-time.After(10 * time.Second):
		r.w.t.Fatalf("S's retransmission ticker does not read ticks")
	}
}

func (r *xnpRun) cancelSend(k int) {
	if k > r.sent || r.scan[k] == nil {
		return
	}
	r.w.log("event", "CancelSendCall", "k", k)
	r.scan[k]()
	r.w.log("event", "CancelSendRet", "k", k)
	r.scan[k] = nil
	r.w.count("send_cancelled", 1)
}

// expect waits (bounded, never judged) until the live handlers have seen tag - only to let the run get further.
func (r *xnpRun) expect(tag string) {
	if tag == "" {
		return
	}
	for h, hd := range r.hs {
		if hd.ctx.Err() == nil {
			r.w.waitDelivered(h, tag, r.settle)
		}
	}
}

func (r *xnpRun) pause() { time.Sleep(r.settle / 4) }

func (r *xnpRun) advOwn() string {
	r.nOwn++
	tag := fmt.Sprintf("Ao%d", r.nOwn)
	for _, n := range []*xnpNode{r.R, r.S} {
		if r.w.isUp(n.name, "A") {
			r.A.waitTopicPeer(n, time.Second)
		}
	}
	if err := r.A.ch.Send(r.w.ctx, &xnpMsg{tag: tag}); err != nil {
		r.w.t.Logf("adversary Send: %v", err)
	}
	r.tags = append(r.tags, tag)
	return tag
}

func (r *xnpRun) advImpostor() string {
	r.nImp++
	tag := fmt.Sprintf("Ai%d", r.nImp)
	for _, n := range []*xnpNode{r.R, r.S} {
		if r.w.isUp(n.name, "A") {
			r.A.waitTopicPeer(n, time.Second)
		}
	}
	if err := r.A.impCh.Send(r.w.ctx, &xnpMsg{tag: tag}); err != nil {
		r.w.t.Logf("adversary impostor Send: %v", err)
	}
	r.tags = append(r.tags, tag)
	return tag
}

func (r *xnpRun) advGarbage() string {
	if r.nGarb > 0 {
		return ""
	}
	r.nGarb++
	tag := "Ag1"
	err := r.A.ch.publish(&pb.BroadcastNetworkMessage{Payload: []byte(tag), Sender: []byte{0x0a, 0x05, 0x01},
		Type: []byte(xnpType), SequenceNumber: 1})
	if err != nil {
		r.w.t.Logf("adversary garbage publish: %v", err)
	}
	r.tags = append(r.tags, tag)
	return tag
}

func (r *xnpRun) advHangUp(n *xnpNode) {
	r.w.disconnect(r.A, n.name, func() { _ = r.A.host.Network().ClosePeer(n.ident.id) })
}

func (r *xnpRun) drop(a, b *xnpNode) {
	r.w.disconnect(a, b.name, func() { a.prov.ConnectionManager().DisconnectPeer(b.ident.id.String()) })
}

func xnpStart(t *testing.T, rnd *rand.Rand, neg, pos time.Duration, mode xnpMode, allow map[string][]string, recogA, bootstrap bool) *xnpRun {
	w := newXnpWorld(t, neg, pos, mode, allow, recogA)
	r := &xnpRun{w: w, rnd: rnd, hs: map[string]*xnpHandler{}, settle: 1200 * time.Millisecond}
	r.R = w.startHonest("R", nil)
	var bs []string
	if bootstrap {
		bs = []string{r.R.addr}
	}
	r.S = w.startHonest("S", bs) // with bootstrap: provider.bootstrap dials R inside Connect
	r.A = w.startAdv()
	if bootstrap {
		r.S.waitTopicPeer(r.R, 2*time.Second)
	}
	return r
}

// ------------------------------------------------------------------ scenarios

// basic: the whole path once - connections, two messages with both strategies, ticks, cancellation of a handler and
// of a Send context, the adversary's own, impostor and malformed envelopes, a replay through A.
func xnpBasic(t *testing.T, rnd *rand.Rand, recogA bool) *xnpRun {
	allow := map[string][]string{}
	if rnd.Intn(2) == 0 {
		allow["R"] = []string{"S"}
	}
	if rnd.Intn(2) == 0 {
		allow["S"] = []string{"R"}
	}
	r := xnpStart(t, rnd, 3*time.Second, 40*time.Second, xnpMode{"A", "keep", true}, allow, recogA, rnd.Intn(3) > 0)
	if !r.srUp() {
		r.sDial()
	}
	r.reg("h1")
	r.reg("h2")
	if rnd.Intn(2) == 0 {
		r.w.advDial(r.R)
	}
	if rnd.Intn(3) == 0 {
		r.w.advDial(r.S)
	}
	steps := []func(){
		func() { r.expect(r.send()) },
		func() { r.tick(); r.pause() },
		func() { r.w.advDial(r.R) },
		func() { r.expect(r.advOwn()) },
		func() { r.advImpostor(); r.pause() },
		func() { r.advGarbage(); r.pause() },
		func() { r.tick(); r.pause() },
		func() {
			if hd := r.hs["h2"]; hd != nil && hd.ctx.Err() == nil {
				r.w.cancelHandler(hd)
			}
		},
		func() { r.expect(r.send()) },
		func() { r.tick(); r.pause() },
		func() { r.reg("h3") },
		func() { r.cancelSend(1) },
		func() { r.tick(); r.pause() },
		func() {
			for _, tg := range r.tags {
				if r.w.inject(tg) {
					r.pause()
				}
			}
		},
		func() { r.tick(); r.pause() },
	}
	// keep the order mostly, swap some neighbours
	for i := 0; i+1 < len(steps); i++ {
		if rnd.Intn(4) == 0 {
			steps[i], steps[i+1] = steps[i+1], steps[i]
		}
	}
	for _, s := range steps {
		s()
	}
	return r
}

// revocation: A is a recognized operator, gets connected and delivers; the chain revokes it; within the positive
// caching period it still reconnects (cache) and a guard round keeps it; after the period it is rejected, a guard
// round drops it, and what it publishes then reaches nobody. Negative cache: recognized again, yet rejected until
// the negative entry expires.
func xnpRevocation(t *testing.T, rnd *rand.Rand, long bool) *xnpRun {
	pos := 40 * time.Second
	if long {
		pos = 8 * time.Second
	}
	r := xnpStart(t, rnd, 3*time.Second, pos, xnpMode{"A", "keep", true}, map[string][]string{"S": {"R"}, "R": {"S"}}, true, true)
	r.reg("h1")
	r.w.advDial(r.R)
	r.expect(r.advOwn())
	r.w.chainSet("A", false)
	if rnd.Intn(2) == 0 {
		r.w.guardRound(r.R) // positive cache: stays
	}
	r.advHangUp(r.R)
	r.pause()
	r.w.advDial(r.R) // admitted again, from the cache
	r.expect(r.advOwn())
	if long {
		r.w.advance("pos")
		if rnd.Intn(2) == 0 {
			r.w.guardRound(r.R) // asked, not recognized: dropped
		} else {
			r.advHangUp(r.R)
			r.pause()
			r.w.advDial(r.R) // rejected
		}
		r.advOwn()
		r.pause()
		r.w.advDial(r.R) // rejected (negative cache or asked again)
		r.w.chainSet("A", true)
		r.w.advDial(r.R) // negative cache: still rejected
		r.advOwn()
		r.pause()
		r.w.advance("neg")
		r.w.advDial(r.R) // asked again: admitted
		r.expect(r.advOwn())
	}
	return r
}

// negcache: A is not recognized: rejected, rejected from the cache, recognized but still cached, admitted after expiry.
// Also an IsRecognized failure (no admission, nothing cached).
func xnpNegCache(t *testing.T, rnd *rand.Rand) *xnpRun {
	r := xnpStart(t, rnd, 3*time.Second, 40*time.Second, xnpMode{"A", "keep", true}, map[string][]string{"S": {"R"}, "R": {"S"}}, false, true)
	r.reg("h1")
	if rnd.Intn(2) == 0 {
		r.R.fwMu.Lock()
		r.R.errOnce = true
		r.R.fwMu.Unlock()
		r.w.advDial(r.R) // the chain call fails: refused, nothing cached
	}
	r.w.advDial(r.R) // asked: no
	r.advOwn()
	r.w.advDial(r.R) // negative cache
	r.w.chainSet("A", true)
	r.w.advDial(r.R) // still the negative cache
	r.expect(r.send())
	r.advOwn()
	r.pause()
	r.w.advance("neg")
	r.w.advDial(r.R) // asked: yes
	r.expect(r.advOwn())
	r.tick()
	r.pause()
	return r
}

// relay: R rejects A, S has A on its allowlist: what A publishes reaches R's handlers through S (floodsub).
func xnpRelay(t *testing.T, rnd *rand.Rand) *xnpRun {
	r := xnpStart(t, rnd, 3*time.Second, 40*time.Second, xnpMode{"A", "keep", true}, map[string][]string{"S": {"R", "A"}}, false, true)
	r.reg("h1")
	r.w.advDial(r.R) // rejected
	r.w.advDial(r.S) // allowlisted
	r.A.waitTopicPeer(r.S, 2*time.Second)
	r.expect(r.advOwn())
	r.advImpostor()
	r.pause()
	r.expect(r.send())
	if rnd.Intn(2) == 0 {
		r.drop(r.S, r.A)
		r.pause()
		r.advOwn()
		r.pause()
	}
	return r
}

// tamper: A runs the handshake the wrong way; it gets no connection and nothing it publishes is delivered.
func xnpTamper(t *testing.T, rnd *rand.Rand, which int) *xnpRun {
	mode := []xnpMode{{"A", "evil", true}, {"A", "keep", false}, {"S", "keep", true}}[which%3]
	// A would pass every firewall: only the handshake stands between it and the network
	r := xnpStart(t, rnd, 3*time.Second, 40*time.Second, mode, map[string][]string{"R": {"A"}, "S": {"A"}}, true, true)
	r.reg("h1")
	r.w.advDial(r.R)
	r.w.advDial(r.S)
	r.advOwn()
	r.advImpostor()
	r.pause()
	r.expect(r.send())
	r.w.advDial(r.R)
	r.advOwn()
	r.tick()
	r.pause()
	return r
}

// reconnect: retransmissions across a dropped and re-established connection, a handler that registers late.
func xnpReconnect(t *testing.T, rnd *rand.Rand) *xnpRun {
	r := xnpStart(t, rnd, 3*time.Second, 40*time.Second, xnpMode{"A", "keep", true}, map[string][]string{}, rnd.Intn(2) == 0, true)
	r.reg("h1")
	r.expect(r.send())
	r.tick()
	r.pause()
	if rnd.Intn(2) == 0 {
		r.drop(r.R, r.S)
	} else {
		r.drop(r.S, r.R)
	}
	r.pause()
	r.tick() // goes nowhere
	r.pause()
	r.expect(r.send())
	r.sDial()
	r.reg("h2")
	r.tick()
	r.expect("S1")
	r.expect("S2")
	r.w.guardRound(r.R)
	r.tick()
	r.tick()
	r.pause()
	r.cancelSend(2)
	r.cancelSend(1)
	r.tick()
	r.pause()
	return r
}

func TestVerif_XNP_EndToEnd(t *testing.T) {
	kit.RequireEngine(t)
	rep := kit.NewReport("XNP", "endtoend")
	defer rep.Write(t)
	tr := kit.NewTracer(t, "trace_netpath")
	defer tr.Close()
	rounds := kit.IntEnv("VERIF_ROUNDS", 1)
	type sc struct {
		name string
		run  func(rnd *rand.Rand) *xnpRun
	}
	var list []sc
	for i := 0; i < rounds; i++ {
		list = append(list,
			sc{"basic-recognized", func(rnd *rand.Rand) *xnpRun { return xnpBasic(t, rnd, true) }},
			sc{"basic-unrecognized", func(rnd *rand.Rand) *xnpRun { return xnpBasic(t, rnd, false) }},
			sc{"revocation", func(rnd *rand.Rand) *xnpRun { return xnpRevocation(t, rnd, false) }},
			sc{"negcache", func(rnd *rand.Rand) *xnpRun { return xnpNegCache(t, rnd) }},
			sc{"relay", func(rnd *rand.Rand) *xnpRun { return xnpRelay(t, rnd) }},
			sc{"tamper-protocol", func(rnd *rand.Rand) *xnpRun { return xnpTamper(t, rnd, 0) }},
			sc{"tamper-challenge", func(rnd *rand.Rand) *xnpRun { return xnpTamper(t, rnd, 1) }},
			sc{"tamper-identity", func(rnd *rand.Rand) *xnpRun { return xnpTamper(t, rnd, 2) }},
			sc{"reconnect", func(rnd *rand.Rand) *xnpRun { return xnpReconnect(t, rnd) }},
		)
		if kit.Thorough() {
			if i%3 == 0 {
				list = append(list, sc{"revocation-expiry", func(rnd *rand.Rand) *xnpRun { return xnpRevocation(t, rnd, true) }})
			}
		}
	}
	conclusive := 0
	for si, s := range list {
		done := false
		for attempt := 0; attempt < 3 && !done; attempt++ {
			rnd := kit.Rand(int64(1000*si + attempt))
			start := time.Now()
			r := s.run(rnd)
			evs, why := r.w.close()
			if evs == nil {
				rep.Note("scenario %s (attempt %d) is inconclusive and was not recorded: %s", s.name, attempt+1, why)
				rep.Count("inconclusive", 1)
				continue
			}
			done = true
			conclusive++
			for _, e := range evs {
				tr.Emit(e)
			}
			r.w.mu.Lock()
			for k, v := range r.w.counters {
				rep.Count(k, v)
			}
			sample := map[string]interface{}{"scenario": s.name, "events": len(evs), "delivered": r.w.counters["delivered"],
				"wall_s": time.Since(start).Seconds()}
			r.w.mu.Unlock()
			rep.Count("scenario_"+s.name, 1)
			rep.Eval(fmt.Sprintf("%s/%d", s.name, si), sample)
		}
	}
	rep.Extra["scenarios"] = len(list)
	rep.Extra["conclusive"] = conclusive
}
