//go:build verif

package libp2p

// C20 conformance harness for the wire path (see /verif/specs/Handshake):
// newAuthenticatedOutboundConnection (initiator) and
// newAuthenticatedInboundConnection (responder) talk through two in-memory
// pipes with the harness in the middle. The harness forwards the three signed
// envelopes and, where the specification's behaviour has attacker steps,
// rewrites the envelope in flight exactly as the specification says: one field
// of the act changed (the signature then still covers the old bytes), another
// peer id, a signature by the attacker's own key, or the envelope recorded in
// an earlier honest session of the same two peers. Nonces are scripted through
// crypto/rand.Reader. Compared: which side completes, and every field of every
// envelope a side sends.

import (
	"bufio"
	crand "crypto/rand"
	"encoding/binary"
	"fmt"
	"net"
	"sync"
	"testing"
	"time"

	libp2pcrypto "github.com/libp2p/go-libp2p/core/crypto"
	libp2pnetwork "github.com/libp2p/go-libp2p/core/network"
	"github.com/libp2p/go-libp2p/core/peer"
	protodelim "google.golang.org/protobuf/dev/encoding/protodelim"
	"google.golang.org/protobuf/proto"

	kit "github.com/keep-network/keep-core/internal/verifkit"
	"github.com/keep-network/keep-core/pkg/net/gen/pb"
	"github.com/keep-network/keep-core/pkg/operator"
)

var c20Nonce = map[int]uint64{1: 0x1111111111111111, 2: 0x0000000000000002, 3: 0x3333333333333333}

type c20AllowAll struct{}

func (c20AllowAll) Validate(*operator.PublicKey) error { return nil }

type c20Peer struct {
	priv libp2pcrypto.PrivKey
	id   peer.ID
}

func c20NewPeer(t *testing.T) c20Peer {
	op, _, err := operator.GenerateKeyPair(DefaultCurve)
	if err != nil {
		t.Fatal(err)
	}
	priv, _, err := operatorPrivateKeyToNetworkKeyPair(op)
	if err != nil {
		t.Fatal(err)
	}
	id, err := peer.IDFromPrivateKey(priv)
	if err != nil {
		t.Fatal(err)
	}
	return c20Peer{priv, id}
}

// c20Reader scripts the 8-byte nonce reads; anything else gets real randomness.
type c20Reader struct {
	mu    sync.Mutex
	next  []uint64
	real  interface{ Read([]byte) (int, error) }
	extra int
}

func (r *c20Reader) Read(p []byte) (int, error) {
	r.mu.Lock()
	defer r.mu.Unlock()
	if len(p) == 8 && len(r.next) > 0 {
		binary.LittleEndian.PutUint64(p, r.next[0])
		r.next = r.next[1:]
		return 8, nil
	}
	r.extra++
	return r.real.Read(p)
}

type c20Session struct {
	ierr, rerr error
	sent       [4]*pb.HandshakeEnvelope // as sent, by act
}

// c20Run runs one handshake; rewrite(act, envelope as sent) returns the envelope to deliver.
func c20Run(t *testing.T, rd *c20Reader, I, R c20Peer, ip, rp string, n1, n2 uint64,
	rewrite func(act int, e *pb.HandshakeEnvelope) *pb.HandshakeEnvelope) *c20Session {
	rd.mu.Lock()
	rd.next = []uint64{n1, n2}
	rd.mu.Unlock()
	s := &c20Session{}
	iA, iB := net.Pipe()
	rA, rB := net.Pipe()
	var wg sync.WaitGroup
	wg.Add(2)
	go func() {
		defer wg.Done()
		ac, err := newAuthenticatedOutboundConnection(iA, libp2pnetwork.ConnectionState{}, I.id, I.priv, R.id, c20AllowAll{}, ip)
		s.ierr = err
		if ac != nil {
			ac.Close()
		}
	}()
	go func() {
		defer wg.Done()
		ac, err := newAuthenticatedInboundConnection(rA, libp2pnetwork.ConnectionState{}, R.id, R.priv, c20AllowAll{}, rp)
		s.rerr = err
		if ac != nil {
			ac.Close()
		}
	}()
	// the connection, with the attacker on it
	mid := make(chan struct{})
	go func() {
		defer close(mid)
		defer iB.Close()
		defer rB.Close()
		ir, rr := bufio.NewReader(iB), bufio.NewReader(rB)
		um := &protodelim.UnmarshalOptions{MaxSize: 4096}
		mo := &protodelim.MarshalOptions{}
		for act := 1; act <= 3; act++ {
			src, dst := ir, net.Conn(rB)
			if act == 2 {
				src, dst = rr, iB
			}
			var e pb.HandshakeEnvelope
			if err := um.UnmarshalFrom(src, &e); err != nil {
				return // the sender gave up
			}
			s.sent[act] = proto.Clone(&e).(*pb.HandshakeEnvelope)
			out := rewrite(act, &e)
			if _, err := mo.MarshalTo(dst, out); err != nil {
				return
			}
		}
		// keep the pipes open until both sides have made up their minds
		done := make(chan struct{})
		go func() { wg.Wait(); close(done) }()
		select {
		case <-done:
		case <-time.After(60 * time.Second):
		}
	}()
	fin := make(chan struct{})
	go func() { wg.Wait(); <-mid; close(fin) }()
	select {
	case <-fin:
	case <-time.After(120 * time.Second):
		t.Fatalf("handshake session did not terminate")
	}
	return s
}

type c20Fields struct {
	nonce uint64
	chal  string
	proto string
}

func c20Parse(t *testing.T, act int, b []byte) c20Fields {
	var f c20Fields
	switch act {
	case 1:
		var m pb.Act1Message
		if err := proto.Unmarshal(b, &m); err != nil || len(m.Nonce) != 8 {
			t.Fatalf("act 1 as sent is malformed: %v", err)
		}
		f.nonce, f.proto = binary.LittleEndian.Uint64(m.Nonce), m.Protocol
	case 2:
		var m pb.Act2Message
		if err := proto.Unmarshal(b, &m); err != nil || len(m.Nonce) != 8 {
			t.Fatalf("act 2 as sent is malformed: %v", err)
		}
		f.nonce, f.proto, f.chal = binary.LittleEndian.Uint64(m.Nonce), m.Protocol, string(m.Challenge)
	case 3:
		var m pb.Act3Message
		if err := proto.Unmarshal(b, &m); err != nil {
			t.Fatalf("act 3 as sent is malformed: %v", err)
		}
		f.chal = string(m.Challenge)
	}
	return f
}

func TestVerif_C20_Wire(t *testing.T) {
	kit.RequireEngine(t)
	rep := kit.NewReport("C20", "wire")
	defer rep.Write(t)
	cases := kit.LoadCases(t, "behaviours_wire.ndjson")
	peers := map[string]c20Peer{"I": c20NewPeer(t), "R": c20NewPeer(t), "X": c20NewPeer(t)}
	saved := crand.Reader
	rd := &c20Reader{real: saved}
	crand.Reader = rd
	defer func() { crand.Reader = saved }()
	pass := func(_ int, e *pb.HandshakeEnvelope) *pb.HandshakeEnvelope { return e }

	// challenges by model nonce pair, learned from honest runs of the real code
	nonces := []int{1, 2, 3}
	chal := map[[2]int]string{}
	seenChal := map[string][2]int{}
	honest := map[string]*c20Session{} // "n1:n2:proto"
	runHonest := func(a, b int, p string) *c20Session {
		k := fmt.Sprintf("%d:%d:%s", a, b, p)
		if s, ok := honest[k]; ok {
			return s
		}
		s := c20Run(t, rd, peers["I"], peers["R"], p, p, c20Nonce[a], c20Nonce[b], pass)
		if s.ierr != nil || s.rerr != nil {
			rep.Diverge("honest-run-fails", fmt.Sprintf("an untouched handshake of two peers on the same protocol id failed: initiator %v, responder %v", s.ierr, s.rerr),
				map[string]interface{}{"n1": a, "n2": b, "protocol": p}, "both complete", fmt.Sprint(s.ierr, s.rerr))
			return nil
		}
		honest[k] = s
		return s
	}
	for _, a := range nonces {
		for _, b := range nonces {
			s := runHonest(a, b, "p")
			if s == nil {
				rep.Eval("honest", map[string]interface{}{"n1": a, "n2": b, "outcome": "failed"})
				return
			}
			c := c20Parse(t, 2, s.sent[2].Message).chal
			if prev, dup := seenChal[c]; dup {
				rep.Diverge("challenge-collision", fmt.Sprintf("nonce pairs %v and %v give the same challenge: it is not derived from both nonces", prev, [2]int{a, b}), nil, nil, nil)
				rep.Eval("honest", map[string]interface{}{"n1": a, "n2": b, "outcome": "challenge collision"})
				return
			}
			seenChal[c] = [2]int{a, b}
			chal[[2]int{a, b}] = c
		}
	}

	// real bytes of a model message
	build := func(act int, m kit.V) []byte {
		nb := make([]byte, 8)
		binary.LittleEndian.PutUint64(nb, c20Nonce[m.Get("nonce").Int()])
		pair := [2]int{m.Get("chal").Idx(0).Int(), m.Get("chal").Idx(1).Int()}
		var msg proto.Message
		switch act {
		case 1:
			msg = &pb.Act1Message{Nonce: nb, Protocol: m.Get("proto").Str()}
		case 2:
			msg = &pb.Act2Message{Nonce: nb, Challenge: []byte(chal[pair]), Protocol: m.Get("proto").Str()}
		default:
			msg = &pb.Act3Message{Challenge: []byte(chal[pair])}
		}
		b, err := proto.Marshal(msg)
		if err != nil {
			t.Fatal(err)
		}
		return b
	}

	for _, c := range cases {
		steps := c.Get("steps").List()
		ip, rp := c.Get("ip").Str(), c.Get("rp").Str()
		old := c.Get("old")
		// n2: the responder's nonce, if it ever answers
		n2 := 0
		for _, s := range steps {
			if v := s.Get("n2").Int(); v != 0 {
				n2 = v
			}
		}
		// final envelope per act after the attacker's steps, and the specification's envelopes as sent
		type target struct {
			net    kit.V
			replay bool
		}
		final := map[int]target{}
		specSent := map[int]kit.V{}
		tampered := false
		for _, s := range steps {
			net := s.Get("net")
			switch s.Get("a").Str() {
			case "SendAct1", "AnswerAct1", "CheckAct2":
				if a := net.Get("act").Int(); a != 0 {
					specSent[a] = net
				}
			case "AlterField", "AlterEnvelope":
				final[net.Get("act").Int()] = target{net: net}
				tampered = true
			case "Replay":
				final[net.Get("act").Int()] = target{net: net, replay: true}
				tampered = true
			}
		}
		var oldS *c20Session
		for _, tg := range final {
			if tg.replay {
				oldS = runHonest(old.Get("n1").Int(), old.Get("n2").Int(), old.Get("p").Str())
				if oldS == nil {
					rep.Eval("honest", nil)
					return
				}
			}
		}
		rewrite := func(act int, e *pb.HandshakeEnvelope) *pb.HandshakeEnvelope {
			tg, ok := final[act]
			if !ok {
				return e
			}
			if tg.replay {
				// a later single alteration of a replayed envelope does not occur within the budget used here
				return proto.Clone(oldS.sent[act]).(*pb.HandshakeEnvelope)
			}
			out := &pb.HandshakeEnvelope{}
			sp := specSent[act]
			if tg.net.Get("m").JSON() == sp.Get("m").JSON() {
				out.Message = e.Message
			} else {
				out.Message = build(act, tg.net.Get("m"))
			}
			out.PeerID = []byte(peers[tg.net.Get("pid").Str()].id)
			sig := tg.net.Get("sig")
			if sig.JSON() == sp.Get("sig").JSON() {
				out.Signature = e.Signature // still the sender's signature over the bytes it sent
			} else {
				over := build(act, sig.Get("over"))
				if sig.Get("over").JSON() == sp.Get("m").JSON() {
					over = e.Message
				}
				sg, err := peers[sig.Get("by").Str()].priv.Sign(over)
				if err != nil {
					t.Fatal(err)
				}
				out.Signature = sg
			}
			return out
		}
		n2c := c20Nonce[n2]
		if n2 == 0 {
			n2c = 0xdeadbeef
		}
		s := c20Run(t, rd, peers["I"], peers["R"], ip, rp, c20Nonce[c.Get("n1").Int()], n2c, rewrite)
		wantI, wantR := c.Get("ist").Str() == "done", c.Get("rst").Str() == "done"
		gotI, gotR := s.ierr == nil, s.rerr == nil
		where := map[string]interface{}{"behaviour": c.X}
		if gotI != wantI || gotR != wantR {
			what := fmt.Sprintf("initiator on %q, responder on %q, attacker steps %v: initiator completed = %v (%v), responder completed = %v (%v); the specification says %v / %v",
				ip, rp, c20Attack(steps), gotI, s.ierr, gotR, s.rerr, wantI, wantR)
			if (gotI && !wantI) || (gotR && !wantR) {
				what += ": a side completes a handshake in which an act did not arrive as its peer sent it, or with a peer on another protocol id"
			}
			rep.Diverge(fmt.Sprintf("wire:%v/%v->%v/%v", wantI, wantR, gotI, gotR), what, where, []bool{wantI, wantR}, []bool{gotI, gotR})
		} else {
			// envelopes as sent
			for act := 1; act <= 3; act++ {
				sp, ok := specSent[act]
				if !ok || s.sent[act] == nil {
					if ok != (s.sent[act] != nil) {
						rep.Diverge("wire:sent", fmt.Sprintf("act %d: sent = %v, the specification says %v", act, s.sent[act] != nil, ok), where, ok, s.sent[act] != nil)
					}
					continue
				}
				f := c20Parse(t, act, s.sent[act].Message)
				m := sp.Get("m")
				pair := [2]int{m.Get("chal").Idx(0).Int(), m.Get("chal").Idx(1).Int()}
				bad := ""
				if act != 3 && (f.nonce != c20Nonce[m.Get("nonce").Int()] || f.proto != m.Get("proto").Str()) {
					bad = "nonce / protocol id"
				}
				if act != 1 && f.chal != chal[pair] {
					bad = fmt.Sprintf("challenge (expected the one of nonces %v)", pair)
				}
				if string(s.sent[act].PeerID) != string(peers[sp.Get("pid").Str()].id) {
					bad = "peer id"
				}
				if bad != "" {
					rep.Diverge("wire:content", fmt.Sprintf("act %d as sent differs from the specification in its %s", act, bad), where, sp.X, fmt.Sprintf("%+v", f))
				}
			}
		}
		k := ""
		if tampered || ip != rp {
			k = kit.Hash(c.X)
		}
		rep.Eval(k, map[string]interface{}{"ip": ip, "rp": rp, "attack": c20Attack(steps), "initiator": gotI, "responder": gotR})
	}
	rep.Count("honest_sessions", len(honest))
}

func c20Attack(steps []kit.V) []string {
	var out []string
	for _, s := range steps {
		switch a := s.Get("a").Str(); a {
		case "AlterField", "AlterEnvelope", "Replay":
			out = append(out, fmt.Sprintf("%s(act %d)", a, s.Get("net").Get("act").Int()))
		}
	}
	return out
}
