//go:build verif

package libp2p

// C20 conformance harness for the wire path (see /verif/specs/Handshake):
// newAuthenticatedOutboundConnection (initiator) and
// newAuthenticatedInboundConnection (responder) talk through two in-memory
// pipes with the harness in the middle. The harness forwards the three signed
// envelopes and, where the specification's behaviour has attacker steps,
// rewrites the envelope in flight exactly as the specification says: one field
// of the act changed (the signature then still covers the old bytes), another
// peer id, a signature by the attacker's own key, or the envelope recorded in
// an earlier honest session of the same two peers. Nonces are scripted through
// crypto/rand.Reader. Bit flips of a raw nonce or of one 8-byte word of the
// 32-byte challenge are applied to the real bytes in flight; a behaviour with
// such a flip is run three times (first, a middle, the last byte of the word;
// the middle byte rotates over the runs). Compared: which side completes, and
// every field of every envelope a side sends.

import (
	"bufio"
	crand "crypto/rand"
	"encoding/binary"
	"fmt"
	"net"
	"sync"
	"testing"
	"time"

	libp2pcrypto "github.com/libp2p/go-libp2p/core/crypto"
	libp2pnetwork "github.com/libp2p/go-libp2p/core/network"
	"github.com/libp2p/go-libp2p/core/peer"
	protodelim "google.golang.org/protobuf/dev/encoding/protodelim"
	"google.golang.org/protobuf/proto"

	kit "github.com/keep-network/keep-core/internal/verifkit"
	"github.com/keep-network/keep-core/pkg/net/gen/pb"
	"github.com/keep-network/keep-core/pkg/operator"
)

var c20Nonce = map[int]uint64{1: 0x1111111111111111, 2: 0x0000000000000002, 3: 0x3333333333333333}

type c20AllowAll struct{}

func (c20AllowAll) Validate(*operator.PublicKey) error { return nil }

type c20Peer struct {
	priv libp2pcrypto.PrivKey
	id   peer.ID
}

func c20NewPeer(t *testing.T) c20Peer {
	op, _, err := operator.GenerateKeyPair(DefaultCurve)
	if err != nil {
		t.Fatal(err)
	}
	priv, _, err := operatorPrivateKeyToNetworkKeyPair(op)
	if err != nil {
		t.Fatal(err)
	}
	id, err := peer.IDFromPrivateKey(priv)
	if err != nil {
		t.Fatal(err)
	}
	return c20Peer{priv, id}
}

// c20Reader scripts the 8-byte nonce reads; anything else gets real randomness.
type c20Reader struct {
	mu    sync.Mutex
	next  []uint64
	real  interface{ Read([]byte) (int, error) }
	extra int
}

func (r *c20Reader) Read(p []byte) (int, error) {
	r.mu.Lock()
	defer r.mu.Unlock()
	if len(p) == 8 && len(r.next) > 0 {
		binary.LittleEndian.PutUint64(p, r.next[0])
		r.next = r.next[1:]
		return 8, nil
	}
	// any other read (key material, bulk entropy, a pool): real randomness. Whether the scripted
	// values became the nonces is checked on the acts (calibration below).
	r.extra++
	return r.real.Read(p)
}

type c20Session struct {
	ierr, rerr error
	sent       [4]*pb.HandshakeEnvelope // as sent, by act
}

// c20Run runs one handshake; rewrite(act, envelope as sent) returns the envelope to deliver.
func c20Run(t *testing.T, rd *c20Reader, I, R c20Peer, ip, rp string, n1, n2 uint64,
	rewrite func(act int, e *pb.HandshakeEnvelope) *pb.HandshakeEnvelope) *c20Session {
	rd.mu.Lock()
	rd.next = []uint64{n1, n2}
	rd.mu.Unlock()
	s := &c20Session{}
	iA, iB := net.Pipe()
	rA, rB := net.Pipe()
	var wg sync.WaitGroup
	wg.Add(2)
	go func() {
		defer wg.Done()
		ac, err := newAuthenticatedOutboundConnection(iA, libp2pnetwork.ConnectionState{}, I.id, I.priv, R.id, c20AllowAll{}, ip)
		s.ierr = err
		if ac != nil {
			ac.Close()
		}
	}()
	go func() {
		defer wg.Done()
		ac, err := newAuthenticatedInboundConnection(rA, libp2pnetwork.ConnectionState{}, R.id, R.priv, c20AllowAll{}, rp)
		s.rerr = err
		if ac != nil {
			ac.Close()
		}
	}()
	// the connection, with the attacker on it
	mid := make(chan struct{})
	go func() {
		defer close(mid)
		defer iB.Close()
		defer rB.Close()
		ir, rr := bufio.NewReader(iB), bufio.NewReader(rB)
		um := &protodelim.UnmarshalOptions{MaxSize: 4096}
		mo := &protodelim.MarshalOptions{}
		for act := 1; act <= 3; act++ {
			src, dst := ir, net.Conn(rB)
			if act == 2 {
				src, dst = rr, iB
			}
			var e pb.HandshakeEnvelope
			if err := um.UnmarshalFrom(src, &e); err != nil {
				return // the sender gave up
			}
			s.sent[act] = proto.Clone(&e).(*pb.HandshakeEnvelope)
			out := rewrite(act, &e)
			if _, err := mo.MarshalTo(dst, out); err != nil {
				return
			}
		}
		// keep the pipes open until both sides have made up their minds
		done := make(chan struct{})
		go func() { wg.Wait(); close(done) }()
		select {
		case <-done:
		case <-time.After(60 * time.Second):
		}
	}()
	fin := make(chan struct{})
	go func() { wg.Wait(); <-mid; close(fin) }()
	select {
	case <-fin:
	case <-time.After(120 * time.Second):
		t.Fatalf("handshake session did not terminate")
	}
	return s
}

type c20Fields struct {
	nonce uint64
	chal  string
	proto string
}

func c20Parse(t *testing.T, act int, b []byte) c20Fields {
	var f c20Fields
	switch act {
	case 1:
		var m pb.Act1Message
		if err := proto.Unmarshal(b, &m); err != nil || len(m.Nonce) != 8 {
			t.Fatalf("act 1 as sent is malformed: %v", err)
		}
		f.nonce, f.proto = binary.LittleEndian.Uint64(m.Nonce), m.Protocol
	case 2:
		var m pb.Act2Message
		if err := proto.Unmarshal(b, &m); err != nil || len(m.Nonce) != 8 {
			t.Fatalf("act 2 as sent is malformed: %v", err)
		}
		f.nonce, f.proto, f.chal = binary.LittleEndian.Uint64(m.Nonce), m.Protocol, string(m.Challenge)
	case 3:
		var m pb.Act3Message
		if err := proto.Unmarshal(b, &m); err != nil {
			t.Fatalf("act 3 as sent is malformed: %v", err)
		}
		f.chal = string(m.Challenge)
	}
	return f
}

func TestVerif_C20_Wire(t *testing.T) {
	kit.RequireEngine(t)
	rep := kit.NewReport("C20", "wire")
	defer rep.Write(t)
	cases := kit.LoadCases(t, "behaviours_wire.ndjson")
	peers := map[string]c20Peer{"I": c20NewPeer(t), "R": c20NewPeer(t), "X": c20NewPeer(t)}
	saved := crand.Reader
	rd := &c20Reader{real: saved}
	crand.Reader = rd
	defer func() { crand.Reader = saved }()
	pass := func(_ int, e *pb.HandshakeEnvelope) *pb.HandshakeEnvelope { return e }

	// calibration: do scripted values become the nonces of the acts? If the code draws its entropy
	// differently (bulk reads, a pool) the behaviours, which need chosen nonce values, cannot be
	// staged on the wire; that is not a failure of the code (the acts harness then binds nonces as
	// drawn, and the freshness tests judge the nonce source).
	{
		s := c20Run(t, rd, peers["I"], peers["R"], "p", "p", c20Nonce[1], c20Nonce[2], pass)
		ok := s.ierr == nil && s.rerr == nil && s.sent[1] != nil && s.sent[2] != nil &&
			c20Parse(t, 1, s.sent[1].Message).nonce == c20Nonce[1] && c20Parse(t, 2, s.sent[2].Message).nonce == c20Nonce[2]
		if s.ierr != nil || s.rerr != nil {
			rep.Diverge("honest-run-fails", fmt.Sprintf("an untouched handshake of two peers on the same protocol id failed: initiator %v, responder %v", s.ierr, s.rerr), nil, "both complete", nil)
			rep.Eval("honest", nil)
			return
		}
		if !ok {
			rep.Note("nonces cannot be scripted through crypto/rand.Reader with this implementation: the wire behaviours were not staged")
			rep.Count("not_scriptable", len(cases))
			rep.Unrealized = len(cases)
			rep.Eval("", map[string]interface{}{"wire replay": "not applicable"})
			return
		}
	}
	// challenges by concrete nonce pair, learned from honest runs of the real code
	nonces := []int{1, 2, 3}
	chal := map[[2]uint64]string{}
	seenChal := map[string][2]uint64{}
	honest := map[string]*c20Session{} // "n1:n2:proto"
	touched := map[string]bool{}
	runHonest := func(a, b int, p string) *c20Session {
		k := fmt.Sprintf("%d:%d:%s", a, b, p)
		if s, ok := honest[k]; ok {
			return s
		}
		s := c20Run(t, rd, peers["I"], peers["R"], p, p, c20Nonce[a], c20Nonce[b], pass)
		if s.ierr != nil || s.rerr != nil {
			rep.Diverge("honest-run-fails", fmt.Sprintf("an untouched handshake of two peers on the same protocol id failed: initiator %v, responder %v", s.ierr, s.rerr),
				map[string]interface{}{"n1": a, "n2": b, "protocol": p}, "both complete", fmt.Sprint(s.ierr, s.rerr))
			return nil
		}
		honest[k] = s
		return s
	}
	for _, a := range nonces {
		for _, b := range nonces {
			s := runHonest(a, b, "p")
			if s == nil {
				rep.Eval("honest", map[string]interface{}{"n1": a, "n2": b, "outcome": "failed"})
				return
			}
			c := c20Parse(t, 2, s.sent[2].Message).chal
			pr := [2]uint64{c20Nonce[a], c20Nonce[b]}
			if prev, dup := seenChal[c]; dup {
				rep.Diverge("challenge-collision", fmt.Sprintf("nonce pairs %x and %x give the same challenge: it is not derived from both nonces", prev, pr), nil, nil, nil)
				rep.Eval("honest", map[string]interface{}{"n1": a, "n2": b, "outcome": "challenge collision"})
				return
			}
			if len(c) != 32 {
				t.Fatalf("challenge of %d bytes", len(c))
			}
			seenChal[c] = pr
			chal[pr] = c
		}
	}

	for ci, c := range cases {
		steps := c.Get("steps").List()
		ip, rp := c.Get("ip").Str(), c.Get("rp").Str()
		old := c.Get("old")
		// n2: the responder's nonce, if it ever answers
		n2 := 0
		flips := false
		for _, s := range steps {
			if v := s.Get("n2").Int(); v != 0 {
				n2 = v
			}
			if a := s.Get("a").Str(); a == "AlterNonceBits" || a == "AlterWord" {
				flips = true
			}
		}
		nvar := 1
		if flips {
			nvar = 3
		}
		for which := 0; which < nvar; which++ {
			mid := 1 + ci%6
			wordByte := []int{0, mid, 7}[which]
			realNonce := func(m kit.V) uint64 {
				x := c20Nonce[m.Get("n").Int()]
				off := map[string]int{"lo": 0, "mid": mid, "hi": 7}
				if o, ok := off[m.Get("f").Str()]; ok {
					x ^= uint64(0x10) << (8 * uint(o))
					touched[fmt.Sprintf("nonce_byte_%d", o)] = true
				}
				return x
			}
			// attacker steps per act, in order; the specification's envelopes as sent
			type astep struct {
				net    kit.V
				replay bool
			}
			attack := map[int][]astep{}
			specSent := map[int]kit.V{}
			tampered := false
			needOld := false
			for _, s := range steps {
				net := s.Get("net")
				switch s.Get("a").Str() {
				case "SendAct1", "AnswerAct1", "CheckAct2":
					if a := net.Get("act").Int(); a != 0 {
						specSent[a] = net
					}
				case "AlterField", "AlterNonceBits", "AlterWord", "AlterEnvelope":
					attack[net.Get("act").Int()] = append(attack[net.Get("act").Int()], astep{net: net})
					tampered = true
				case "Replay":
					attack[net.Get("act").Int()] = append(attack[net.Get("act").Int()], astep{net: net, replay: true})
					tampered = true
					needOld = true
				}
			}
			var oldS *c20Session
			if needOld {
				oldS = runHonest(old.Get("n1").Int(), old.Get("n2").Int(), old.Get("p").Str())
				if oldS == nil {
					rep.Eval("honest", nil)
					return
				}
			}
			// morph turns the real bytes of an act (which stand for model message `from`) into real
			// bytes for model message `to`: untouched fields and challenge words keep their real bytes.
			morph := func(act int, real []byte, from, to kit.V) []byte {
				if from.JSON() == to.JSON() {
					return real
				}
				var nonce, ch []byte
				var prot string
				var m1 pb.Act1Message
				var m2 pb.Act2Message
				var m3 pb.Act3Message
				switch act {
				case 1:
					if err := proto.Unmarshal(real, &m1); err != nil {
						t.Fatal(err)
					}
					nonce, prot = m1.Nonce, m1.Protocol
				case 2:
					if err := proto.Unmarshal(real, &m2); err != nil {
						t.Fatal(err)
					}
					nonce, prot, ch = m2.Nonce, m2.Protocol, m2.Challenge
				default:
					if err := proto.Unmarshal(real, &m3); err != nil {
						t.Fatal(err)
					}
					ch = m3.Challenge
				}
				if act != 3 {
					if from.Get("nonce").JSON() != to.Get("nonce").JSON() {
						nonce = make([]byte, 8)
						binary.LittleEndian.PutUint64(nonce, realNonce(to.Get("nonce")))
					}
					prot = to.Get("proto").Str()
				}
				if act != 1 {
					ch = append([]byte(nil), ch...)
					for i, w := range to.Get("chal").List() {
						fw := from.Get("chal").Idx(i)
						if fw.JSON() == w.JSON() {
							continue
						}
						if fw.Get("a").JSON() != w.Get("a").JSON() || fw.Get("b").JSON() != w.Get("b").JSON() {
							h, ok := chal[[2]uint64{realNonce(w.Get("a")), realNonce(w.Get("b"))}]
							if !ok {
								t.Fatalf("no challenge known for word %s", w.JSON())
							}
							copy(ch[8*i:8*i+8], h[8*i:8*i+8])
							if w.Get("x").Int() == 1 {
								ch[8*i+wordByte] ^= 0x01
								touched[fmt.Sprintf("chal_byte_%d", 8*i+wordByte)] = true
							}
						} else { // only the flip differs
							ch[8*i+wordByte] ^= 0x01
							touched[fmt.Sprintf("chal_byte_%d", 8*i+wordByte)] = true
						}
					}
				}
				var msg proto.Message
				switch act {
				case 1:
					msg = &pb.Act1Message{Nonce: nonce, Protocol: prot}
				case 2:
					msg = &pb.Act2Message{Nonce: nonce, Challenge: ch, Protocol: prot}
				default:
					msg = &pb.Act3Message{Challenge: ch}
				}
				b, err := proto.Marshal(msg)
				if err != nil {
					t.Fatal(err)
				}
				return b
			}
			rewrite := func(act int, e *pb.HandshakeEnvelope) *pb.HandshakeEnvelope {
				as := attack[act]
				if len(as) == 0 {
					return e
				}
				// the envelope the attacker works on: the one just sent, or the recorded one
				baseReal, baseSpec := e, specSent[act]
				for _, a := range as {
					if a.replay {
						baseReal, baseSpec = oldS.sent[act], a.net
					}
				}
				tg := as[len(as)-1].net
				out := &pb.HandshakeEnvelope{}
				out.Message = morph(act, baseReal.Message, baseSpec.Get("m"), tg.Get("m"))
				out.PeerID = []byte(peers[tg.Get("pid").Str()].id)
				sig := tg.Get("sig")
				if sig.JSON() == baseSpec.Get("sig").JSON() {
					out.Signature = baseReal.Signature // still the sender's signature over the bytes it sent
				} else {
					over := morph(act, baseReal.Message, baseSpec.Get("m"), sig.Get("over"))
					sg, err := peers[sig.Get("by").Str()].priv.Sign(over)
					if err != nil {
						t.Fatal(err)
					}
					out.Signature = sg
				}
				return out
			}
			n2c := c20Nonce[n2]
			if n2 == 0 {
				n2c = 0xdeadbeef
			}
			s := c20Run(t, rd, peers["I"], peers["R"], ip, rp, c20Nonce[c.Get("n1").Int()], n2c, rewrite)
			wantI, wantR := c.Get("ist").Str() == "done", c.Get("rst").Str() == "done"
			gotI, gotR := s.ierr == nil, s.rerr == nil
			where := map[string]interface{}{"behaviour": c.X}
			if gotI != wantI || gotR != wantR {
				what := fmt.Sprintf("initiator on %q, responder on %q, attacker steps %v: initiator completed = %v (%v), responder completed = %v (%v); the specification says %v / %v",
					ip, rp, c20Attack(steps), gotI, s.ierr, gotR, s.rerr, wantI, wantR)
				if (gotI && !wantI) || (gotR && !wantR) {
					what += ": a side completes a handshake in which an act did not arrive as its peer sent it, or with a peer on another protocol id"
				}
				rep.Diverge(fmt.Sprintf("wire:%v/%v->%v/%v", wantI, wantR, gotI, gotR), what, where, []bool{wantI, wantR}, []bool{gotI, gotR})
			} else {
				// envelopes as sent
				for act := 1; act <= 3; act++ {
					sp, ok := specSent[act]
					if !ok || s.sent[act] == nil {
						if ok != (s.sent[act] != nil) {
							rep.Diverge("wire:sent", fmt.Sprintf("act %d: sent = %v, the specification says %v", act, s.sent[act] != nil, ok), where, ok, s.sent[act] != nil)
						}
						continue
					}
					f := c20Parse(t, act, s.sent[act].Message)
					m := sp.Get("m")
					bad := ""
					if act != 3 && (f.nonce != realNonce(m.Get("nonce")) || f.proto != m.Get("proto").Str()) {
						bad = "nonce / protocol id"
					}
					if act != 1 {
						// what a side sends is never flipped in the specification: all four words name one pair
						w := m.Get("chal").Idx(0)
						pair := [2]uint64{realNonce(w.Get("a")), realNonce(w.Get("b"))}
						if want, ok := chal[pair]; ok {
							if f.chal != want {
								bad = fmt.Sprintf("challenge (expected the one of nonces %x)", pair)
							}
						} else if prev, dup := seenChal[f.chal]; dup && prev != pair {
							// a nonce with flipped bits reached the responder: its challenge must be a new one
							bad = fmt.Sprintf("challenge: the one of nonces %x is sent for nonces %x", prev, pair)
						}
					}
					if string(s.sent[act].PeerID) != string(peers[sp.Get("pid").Str()].id) {
						bad = "peer id"
					}
					if bad != "" {
						rep.Diverge("wire:content", fmt.Sprintf("act %d as sent differs from the specification in its %s", act, bad), where, sp.X, fmt.Sprintf("%+v", f))
					}
				}
			}
			k := ""
			if tampered || ip != rp {
				k = kit.Hash(c.X)
			}
			if k != "" && nvar == 3 {
				k += fmt.Sprintf("/%d", which)
			}
			rep.Eval(k, map[string]interface{}{"ip": ip, "rp": rp, "attack": c20Attack(steps), "initiator": gotI, "responder": gotR})
		}
	}
	for b := range touched {
		rep.Count(b, 1)
	}
	rep.Count("honest_sessions", len(honest))
}

func c20Attack(steps []kit.V) []string {
	var out []string
	for _, s := range steps {
		switch a := s.Get("a").Str(); a {
		case "AlterField", "AlterNonceBits", "AlterWord", "AlterEnvelope", "Replay":
			out = append(out, fmt.Sprintf("%s(act %d)", a, s.Get("net").Get("act").Int()))
		}
	}
	return out
}

// c20ReplayToResponder plays recorded envelopes of acts 1 and 3 to a fresh responder.
func c20ReplayToResponder(t *testing.T, R c20Peer, e1, e3 *pb.HandshakeEnvelope) (error, uint64) {
	a, b := net.Pipe()
	res := make(chan error, 1)
	go func() {
		ac, err := newAuthenticatedInboundConnection(a, libp2pnetwork.ConnectionState{}, R.id, R.priv, c20AllowAll{}, "p")
		if ac != nil {
			ac.Close()
		}
		res <- err
	}()
	var n2 uint64
	go func() {
		defer b.Close()
		mo := &protodelim.MarshalOptions{}
		um := &protodelim.UnmarshalOptions{MaxSize: 4096}
		if _, err := mo.MarshalTo(b, e1); err != nil {
			return
		}
		var e2 pb.HandshakeEnvelope
		if err := um.UnmarshalFrom(bufio.NewReader(b), &e2); err != nil {
			return
		}
		n2 = c20Parse(t, 2, e2.Message).nonce
		if _, err := mo.MarshalTo(b, e3); err != nil {
			return
		}
	}()
	select {
	case err := <-res:
		return err, n2
	case <-time.After(60 * time.Second):
		t.Fatalf("responder did not terminate")
	}
	return nil, 0
}

// c20ReplayToInitiator plays a recorded envelope of act 2 to a fresh initiator.
func c20ReplayToInitiator(t *testing.T, I c20Peer, remote peer.ID, e2 *pb.HandshakeEnvelope) error {
	a, b := net.Pipe()
	res := make(chan error, 1)
	go func() {
		ac, err := newAuthenticatedOutboundConnection(a, libp2pnetwork.ConnectionState{}, I.id, I.priv, remote, c20AllowAll{}, "p")
		if ac != nil {
			ac.Close()
		}
		res <- err
	}()
	go func() {
		defer b.Close()
		mo := &protodelim.MarshalOptions{}
		um := &protodelim.UnmarshalOptions{MaxSize: 4096}
		rd := bufio.NewReader(b)
		var e1 pb.HandshakeEnvelope
		if err := um.UnmarshalFrom(rd, &e1); err != nil {
			return
		}
		if _, err := mo.MarshalTo(b, e2); err != nil {
			return
		}
		var e3 pb.HandshakeEnvelope
		_ = um.UnmarshalFrom(rd, &e3) // act 3, if the initiator accepted
	}()
	select {
	case err := <-res:
		return err
	case <-time.After(60 * time.Second):
		t.Fatalf("initiator did not terminate")
	}
	return nil
}

// TestVerif_C20_WireFreshness: HandshakeSessions.tla on the wire path, with the
// real random source: many sessions of the same two nodes, nonces pairwise
// distinct, recorded (validly signed) envelopes replayed into later sessions
// without the honest peer must be rejected.
func TestVerif_C20_WireFreshness(t *testing.T) {
	kit.RequireEngine(t)
	rep := kit.NewReport("C20", "wire_freshness")
	defer rep.Write(t)
	I, R := c20NewPeer(t), c20NewPeer(t)
	rd := &c20Reader{real: crand.Reader} // nothing scripted: Read always passes through
	pass := func(_ int, e *pb.HandshakeEnvelope) *pb.HandshakeEnvelope { return e }
	sessions := kit.IntEnv("VERIF_SESSIONS", 48)
	var recs []*c20Session
	seen := map[uint64]string{}
	for i := 0; i < sessions; i++ {
		s := c20Run(t, rd, I, R, "p", "p", 0, 0, pass)
		if s.ierr != nil || s.rerr != nil {
			rep.Diverge("honest-run-fails", fmt.Sprintf("session %d: an untouched handshake failed: initiator %v, responder %v", i, s.ierr, s.rerr), nil, nil, nil)
			rep.Eval("honest", nil)
			return
		}
		recs = append(recs, s)
		for who, n := range map[string]uint64{"nonce1": c20Parse(t, 1, s.sent[1].Message).nonce, "nonce2": c20Parse(t, 2, s.sent[2].Message).nonce} {
			name := fmt.Sprintf("%s of session %d", who, i)
			if prev, dup := seen[n]; dup {
				rep.Diverge("nonce-reuse", fmt.Sprintf("one node drew the same nonce %#x twice within %d sessions: as %s and as %s", n, sessions, prev, name),
					map[string]interface{}{"sessions": sessions}, "pairwise distinct nonces", n)
			}
			seen[n] = name
		}
		rep.Eval(fmt.Sprintf("session:%d", i%7), nil)
	}
	rep.Count("nonces_compared", len(seen))
	later := kit.IntEnv("VERIF_LATER_SESSIONS", 40)
	for ri := 0; ri < 2; ri++ {
		r := recs[ri]
		for j := 0; j < later; j++ {
			if err, n2 := c20ReplayToResponder(t, R, r.sent[1], r.sent[3]); err == nil {
				rep.Diverge("replay-accepted:responder", fmt.Sprintf("the signed envelopes of acts 1 and 3 recorded in session %d, replayed into a later connection to the same responder, completed the handshake (the responder drew nonce %#x again)", ri, n2),
					map[string]interface{}{"recorded": ri, "later": j}, "rejected", "accepted")
			}
		}
		for j := 0; j < later; j++ {
			if err := c20ReplayToInitiator(t, I, R.id, r.sent[2]); err == nil {
				rep.Diverge("replay-accepted:initiator", fmt.Sprintf("the signed envelope of act 2 recorded in session %d, replayed to a later connection of the same initiator, was accepted", ri),
					map[string]interface{}{"recorded": ri, "later": j}, "rejected", "accepted")
			}
			rep.Count("replays", 2)
		}
		rep.Eval(fmt.Sprintf("replay:%d", ri), nil)
	}
}
