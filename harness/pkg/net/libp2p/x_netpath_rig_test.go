//go:build verif

package libp2p

// Rig of the NetPath composition check (XNP, /verif/specs/NetPath).
//
// A "world" is three peers inside this test process, talking over loopback
// TCP:
//
//	R, S  real providers made by Connect() (libp2p.go): real host, real
//	      security transport (TLS + keep handshake + firewall), real DHT, real
//	      floodsub, real channel manager and channel, a retransmission ticker
//	      whose ticks the harness feeds. The firewall handed to Connect is the
//	      real firewall.AnyApplicationPolicy (allowlist, both TimeCaches - with
//	      short periods -, one scripted Application) behind a recording wrapper.
//	A     the adversary: a libp2p host built like discoverAndListen builds one,
//	      from the package's own transport, but able to run the handshake the
//	      wrong way (other protocol id, wrong challenge in act 3, somebody
//	      else's peer id on act 1), plus the package's channel manager and
//	      channel to publish own, impostor and malformed envelopes.
//
// No hook is added to the code. Events come from objects the code is handed:
// firewall wrapper and Application (HandshakeDone, FirewallVerdict), publisher
// wrapper around the pubsub topic (Published, Retransmit), the message
// unmarshaler of R's channel (Arrived), handlers (Delivered), contexts
// (Cancel*), a ConnectionManager wrapper under a real watchtower.Guard
// (Disconnect*), and the harness' own calls.
//
// Time: the TimeCaches read the wall clock. The harness never judges timing.
// It keeps the specification's clock exact instead: Validate calls are
// serialized against Advance (a sleep of 1.25 periods during which no
// Validate runs), and every Validate checks that all cache entries it could
// meet are younger than 0.8 periods. A world that misses such a window is
// inconclusive: its events are thrown away.

import (
	"bytes"
	"context"
	"errors"
	"fmt"
	gonet "net"
	"strings"
	"sync"
	"testing"
	"time"

	"github.com/libp2p/go-libp2p"
	pubsub "github.com/libp2p/go-libp2p-pubsub"
	pubsubpb "github.com/libp2p/go-libp2p-pubsub/pb"
	libp2pcrypto "github.com/libp2p/go-libp2p/core/crypto"
	"github.com/libp2p/go-libp2p/core/host"
	"github.com/libp2p/go-libp2p/core/peer"
	"github.com/libp2p/go-libp2p/core/protocol"
	"github.com/libp2p/go-libp2p/core/sec"
	"github.com/libp2p/go-libp2p/p2p/net/upgrader"
	"google.golang.org/protobuf/proto"

	"github.com/keep-network/keep-core/internal/testutils"
	"github.com/keep-network/keep-core/pkg/firewall"
	"github.com/keep-network/keep-core/pkg/net"
	"github.com/keep-network/keep-core/pkg/net/gen/pb"
	"github.com/keep-network/keep-core/pkg/net/retransmission"
	"github.com/keep-network/keep-core/pkg/net/security/handshake"
	"github.com/keep-network/keep-core/pkg/net/watchtower"
	"github.com/keep-network/keep-core/pkg/operator"
)

const (
	xnpChannel = "verif-xnp"
	xnpType    = "verif/xnp"
)

type xnpEv = map[string]interface{}

// xnpMode is how the adversary runs its handshakes in a world.
type xnpMode struct {
	Claim  string // identity on act 1: "A" (its own) or "S"
	Proto  string // "keep" or "evil"
	ChalOK bool   // act 3 echoes the right challenge
}

func (m xnpMode) honest() bool { return m.Claim == "A" && m.Proto == "keep" && m.ChalOK }

type xnpEnv struct {
	Author, Inner string
	Seq           uint64
}

func (e xnpEnv) ev() xnpEv { return xnpEv{"author": e.Author, "inner": e.Inner, "seq": e.Seq} }

type xnpDisc struct {
	a, b    string
	renewed bool
}

type xnpWorld struct {
	t      *testing.T
	ctx    context.Context
	cancel context.CancelFunc
	neg    time.Duration
	pos    time.Duration
	mode   xnpMode

	mu       sync.Mutex
	events   []xnpEv
	closed   bool
	incon    string
	up       map[string]map[string]bool // mirror of the specification's cs: node's firewall admitted peer on a connection
	disc     []*xnpDisc
	pubReg   map[string]xnpEnv
	pubData  map[string][]byte
	pubFrom  map[string]string
	entered  map[string]int // "node/peer": firewall entered on a connection
	guardN   map[string]int // node: guard verdicts
	dlv      map[string]int // "h/tag"
	arrived  map[string]int // tag
	counters map[string]int

	chain   sync.RWMutex // Validate: RLock; chain changes and Advance: Lock
	recog   map[string]bool

	names map[string]string // operator key / peer id -> name
	nodes map[string]*xnpNode
}

type xnpNode struct {
	w      *xnpWorld
	name   string
	opPriv *operator.PrivateKey
	opPub  *operator.PublicKey
	opKey  []byte
	ident  *identity
	allow  map[string]bool
	prov   *provider
	host   host.Host
	info   peer.AddrInfo
	addr   string
	policy net.Firewall
	ticks  chan uint64
	ch     *channel
	impCh  *channel
	topic  *pubsub.Topic

	fwMu     sync.Mutex
	errOnce  bool // the next IsRecognized call of this node's policy fails
	asked    bool
	firstNeg time.Time // first negative cache entry stamped in this epoch
	firstPos time.Time // first positive cache entry stamped in this era
}

func (w *xnpWorld) log(kv ...interface{}) {
	e := xnpEv{}
	for i := 0; i+1 < len(kv); i += 2 {
		e[kv[i].(string)] = kv[i+1]
	}
	w.mu.Lock()
	if !w.closed {
		w.events = append(w.events, e)
	}
	w.mu.Unlock()
}

// logLocked appends with w.mu held.
func (w *xnpWorld) logLocked(e xnpEv) {
	if !w.closed {
		w.events = append(w.events, e)
	}
}

func (w *xnpWorld) count(name string, n int) {
	w.mu.Lock()
	w.counters[name] += n
	w.mu.Unlock()
}

func (w *xnpWorld) inconclusive(why string) {
	w.mu.Lock()
	if w.incon == "" {
		w.incon = why
	}
	w.mu.Unlock()
}

func (w *xnpWorld) nameOfKey(k *operator.PublicKey) string {
	if n, ok := w.names[k.String()]; ok {
		return n
	}
	return "unknown"
}

func (w *xnpWorld) isUp(node, peer string) bool {
	w.mu.Lock()
	defer w.mu.Unlock()
	return w.up[node][peer]
}

// ---------------------------------------------------------------- firewall

type xnpFw struct {
	n    *xnpNode
	kind string // "conn": handed to Connect (transport); "guard": handed to the harness-run watchtower
}

func (f *xnpFw) Validate(k *operator.PublicKey) error {
	n, w := f.n, f.n.w
	w.chain.RLock()
	defer w.chain.RUnlock()
	n.fwMu.Lock()
	defer n.fwMu.Unlock()
	peerName := w.nameOfKey(k)
	if f.kind == "conn" {
		w.mu.Lock()
		w.entered[n.name+"/"+peerName]++
		w.logLocked(xnpEv{"event": "HandshakeDone", "node": n.name, "peer": peerName, "ok": true})
		w.mu.Unlock()
	}
	n.asked = false
	start := time.Now()
	err := n.policy.Validate(k)
	now := time.Now()
	res := "admit"
	if err != nil {
		res = "reject"
		if strings.Contains(err.Error(), "could not validate") {
			res = "error"
		}
	}
	// every cache entry this call could have met is younger than 0.8 periods - otherwise the specification's clock is not exact
	if !n.allow[peerName] {
		if !n.firstNeg.IsZero() && now.Sub(n.firstNeg) > w.neg*8/10 {
			w.inconclusive(fmt.Sprintf("a Validate at %s ran %v after a negative entry of this epoch was stamped", n.name, now.Sub(n.firstNeg)))
		}
		if !n.firstPos.IsZero() && now.Sub(n.firstPos) > w.pos*8/10 {
			w.inconclusive(fmt.Sprintf("a Validate at %s ran %v after a positive entry of this era was stamped", n.name, now.Sub(n.firstPos)))
		}
		if n.asked && res == "reject" && n.firstNeg.IsZero() {
			n.firstNeg = start // the entry was stamped after this instant
		}
		if n.asked && res == "admit" && n.firstPos.IsZero() {
			n.firstPos = start
		}
	}
	w.mu.Lock()
	w.logLocked(xnpEv{"event": "FirewallVerdict", "node": n.name, "peer": peerName, "kind": f.kind, "res": res, "asked": n.asked})
	if f.kind == "guard" {
		w.guardN[n.name]++
	} else if res == "admit" {
		w.up[n.name][peerName] = true
		for _, d := range w.disc {
			if (d.a == n.name && d.b == peerName) || (d.b == n.name && d.a == peerName) {
				d.renewed = true
			}
		}
	}
	w.counters["fw_"+f.kind+"_"+res]++
	if !n.asked && !n.allow[peerName] {
		w.counters["fw_cached_"+res]++
	}
	w.mu.Unlock()
	return err
}

type xnpApp struct{ n *xnpNode }

var errXnpChain = errors.New("verif: the chain client failed")

// IsRecognized runs inside xnpFw.Validate (chain read-locked, node locked).
func (a *xnpApp) IsRecognized(k *operator.PublicKey) (bool, error) {
	w := a.n.w
	a.n.asked = true
	if a.n.errOnce {
		a.n.errOnce = false
		return false, errXnpChain
	}
	return w.recog[w.nameOfKey(k)], nil
}

// chainSet changes the application's answer for a peer; no Validate is in progress while it does.
func (w *xnpWorld) chainSet(peerName string, recognized bool) {
	w.chain.Lock()
	w.recog[peerName] = recognized
	w.log("event", "Chain", "peer", peerName, "recognized", recognized)
	w.chain.Unlock()
}

// advance lets every negative (kind "neg") or every (kind "pos") cache entry expire: no Validate runs during the sleep.
func (w *xnpWorld) advance(kind string) {
	w.chain.Lock()
	d := w.neg
	if kind == "pos" {
		d = w.pos
		if w.neg > d {
			d = w.neg
		}
	}
	time.Sleep(d * 5 / 4)
	w.log("event", "Advance", "kind", kind)
	for _, n := range w.nodes {
		n.firstNeg = time.Time{}
		if kind == "pos" {
			n.firstPos = time.Time{}
		}
	}
	w.chain.Unlock()
	w.count("advance_"+kind, 1)
}

// ---------------------------------------------------------------- connection manager under the watchtower

type xnpCM struct {
	net.ConnectionManager
	n *xnpNode
}

func (c *xnpCM) DisconnectPeer(peerHash string) {
	c.n.w.disconnect(c.n, c.n.w.names[peerHash], func() { c.ConnectionManager.DisconnectPeer(peerHash) })
}

// disconnect closes node a's connections with peer b, keeping the mirror as the trace specification keeps cs.
func (w *xnpWorld) disconnect(a *xnpNode, b string, do func()) {
	d := &xnpDisc{a: a.name, b: b}
	w.mu.Lock()
	w.disc = append(w.disc, d)
	w.logLocked(xnpEv{"event": "DisconnectCall", "a": a.name, "b": b})
	w.mu.Unlock()
	do()
	w.mu.Lock()
	for i, x := range w.disc {
		if x == d {
			w.disc = append(w.disc[:i], w.disc[i+1:]...)
			break
		}
	}
	if !d.renewed && (a.name == "A" || b == "A") { // as TDisconnectRet of the trace specification
		if w.up[a.name] != nil {
			w.up[a.name][b] = false
		}
		if w.up[b] != nil {
			w.up[b][a.name] = false
		}
	}
	w.logLocked(xnpEv{"event": "DisconnectRet", "a": a.name, "b": b})
	w.counters["disconnect"]++
	w.mu.Unlock()
}

// guardRound runs a real watchtower.Guard over node n until it has validated every connected peer once.
func (w *xnpWorld) guardRound(n *xnpNode) {
	gctx, gcancel := context.WithCancel(w.ctx)
	w.mu.Lock()
	before := w.guardN[n.name]
	w.mu.Unlock()
	want := len(n.prov.ConnectionManager().ConnectedPeers())
	watchtower.NewGuard(gctx, &testutils.MockLogger{}, 60*time.Millisecond, &xnpFw{n, "guard"},
		&xnpCM{ConnectionManager: n.prov.ConnectionManager(), n: n})
	deadline := time.Now().Add(2 * time.Second)
	for time.Now().Before(deadline) {
		w.mu.Lock()
		got := w.guardN[n.name] - before
		w.mu.Unlock()
		if want > 0 && got >= want {
			break
		}
		time.Sleep(10 * time.Millisecond)
	}
	gcancel()
	time.Sleep(80 * time.Millisecond) // checks in flight finish (they are recorded whenever they do)
	w.count("guard_rounds", 1)
}

// ---------------------------------------------------------------- messages

type xnpMsg struct {
	tag  string
	node string
	w    *xnpWorld
}

func (m *xnpMsg) Type() string             { return xnpType }
func (m *xnpMsg) Marshal() ([]byte, error) { return []byte(m.tag), nil }
func (m *xnpMsg) Unmarshal(b []byte) error {
	m.tag = string(b)
	if m.w != nil && m.node == "R" {
		// processContainerMessage of R's channel got this far
		w := m.w
		w.mu.Lock()
		if env, ok := w.pubReg[m.tag]; ok {
			w.logLocked(xnpEv{"event": "Arrived", "node": "R", "tag": m.tag, "env": env.ev()})
			w.arrived[m.tag]++
		} else {
			w.incon = "R unmarshalled a payload nobody published: " + m.tag
		}
		w.mu.Unlock()
	}
	return nil
}

type xnpPub struct {
	n     *xnpNode
	inner publisher
}

func (p *xnpPub) Publish(ctx context.Context, data []byte, opts ...pubsub.PubOpt) error {
	w := p.n.w
	var mp pb.BroadcastNetworkMessage
	if err := proto.Unmarshal(data, &mp); err != nil {
		w.t.Errorf("published bytes are not a BroadcastNetworkMessage: %v", err)
		return err
	}
	tag := string(mp.Payload)
	inner := "garbage"
	id := &identity{}
	if err := id.Unmarshal(mp.Sender); err == nil {
		if nm, ok := w.names[id.id.String()]; ok {
			inner = nm
		}
	}
	w.mu.Lock()
	if _, again := w.pubReg[tag]; !again {
		w.pubReg[tag] = xnpEnv{Author: p.n.name, Inner: inner, Seq: mp.SequenceNumber}
		w.pubData[tag] = append([]byte(nil), data...)
		w.pubFrom[tag] = p.n.name
		w.logLocked(xnpEv{"event": "Published", "node": p.n.name, "author": p.n.name, "inner": inner,
			"seqno": mp.SequenceNumber, "tag": tag})
		w.counters["published_"+p.n.name]++
	} else {
		k := 0
		fmt.Sscanf(tag, "S%d", &k)
		w.logLocked(xnpEv{"event": "Retransmit", "node": p.n.name, "k": k, "inner": inner,
			"seqno": mp.SequenceNumber, "tag": tag})
		w.counters["retransmit"]++
	}
	w.mu.Unlock()
	return p.inner.Publish(ctx, data, opts...)
}

func (n *xnpNode) wrapPublisher() {
	n.ch.publisherMutex.Lock()
	if t, ok := n.ch.publisher.(*pubsub.Topic); ok {
		n.topic = t
	}
	n.ch.publisher = &xnpPub{n: n, inner: n.ch.publisher}
	n.ch.publisherMutex.Unlock()
}

// waitTopicPeer waits (bounded, never judged) until n's pubsub knows that other listens on the channel.
func (n *xnpNode) waitTopicPeer(other *xnpNode, d time.Duration) bool {
	deadline := time.Now().Add(d)
	for {
		if n.topic != nil {
			for _, p := range n.topic.ListPeers() {
				if p == other.ident.id {
					return true
				}
			}
		}
		if time.Now().After(deadline) {
			return false
		}
		time.Sleep(10 * time.Millisecond)
	}
}

// ---------------------------------------------------------------- nodes

func xnpFreePort(t *testing.T) int {
	l, err := gonet.Listen("tcp", ":0")
	if err != nil {
		t.Fatalf("no free port: %v", err)
	}
	defer l.Close()
	return l.Addr().(*gonet.TCPAddr).Port
}

func xnpIdleTicker() *retransmission.Ticker {
	c := make(chan uint64)
	close(c)
	return retransmission.NewTicker(c)
}

func (n *xnpNode) finishAddr(h host.Host, port int) {
	n.host = h
	n.addr = fmt.Sprintf("/ip4/127.0.0.1/tcp/%d/ipfs/%s", port, n.ident.id.String())
	infos, err := extractMultiAddrFromPeers([]string{n.addr})
	if err != nil {
		n.w.t.Fatalf("address of %s: %v", n.name, err)
	}
	n.info = infos[0]
}

func newXnpWorld(t *testing.T, neg, pos time.Duration, mode xnpMode, allow map[string][]string, recogA bool) *xnpWorld {
	w := &xnpWorld{t: t, neg: neg, pos: pos, mode: mode,
		up: map[string]map[string]bool{"R": {}, "S": {}}, pubReg: map[string]xnpEnv{}, pubData: map[string][]byte{},
		pubFrom: map[string]string{}, entered: map[string]int{}, guardN: map[string]int{}, dlv: map[string]int{},
		arrived: map[string]int{}, counters: map[string]int{},
		recog: map[string]bool{"R": true, "S": true, "A": recogA},
		names: map[string]string{}, nodes: map[string]*xnpNode{}}
	w.ctx, w.cancel = context.WithCancel(context.Background())
	for _, name := range []string{"R", "S", "A"} {
		priv, pub, err := operator.GenerateKeyPair(DefaultCurve)
		if err != nil {
			t.Fatal(err)
		}
		npriv, _, err := operatorPrivateKeyToNetworkKeyPair(priv)
		if err != nil {
			t.Fatal(err)
		}
		id, err := createIdentity(npriv)
		if err != nil {
			t.Fatal(err)
		}
		n := &xnpNode{w: w, name: name, opPriv: priv, opPub: pub, opKey: operator.MarshalUncompressed(pub), ident: id, allow: map[string]bool{}}
		w.nodes[name] = n
		w.names[pub.String()] = name
		w.names[id.id.String()] = name
	}
	for node, list := range allow {
		for _, p := range list {
			w.nodes[node].allow[p] = true
		}
	}
	al := func(node string) []interface{} {
		out := []interface{}{}
		for _, p := range allow[node] {
			out = append(out, p)
		}
		return out
	}
	w.log("event", "Reset", "allowR", al("R"), "allowS", al("S"), "recogA", recogA,
		"adv", xnpEv{"claim": mode.Claim, "proto": mode.Proto, "chalok": mode.ChalOK})
	return w
}

// startHonest brings up R or S through Connect; bootstrap = addresses handed to Connect as bootstrap peers.
func (w *xnpWorld) startHonest(name string, bootstrap []string) *xnpNode {
	n := w.nodes[name]
	var allowed []*operator.PublicKey
	for p := range n.allow {
		allowed = append(allowed, w.nodes[p].opPub)
	}
	n.policy = firewall.AnyApplicationPolicy([]firewall.Application{&xnpApp{n}}, firewall.NewAllowList(allowed))
	if !firewall.VerifSetCachePeriods(n.policy, w.pos, w.neg) {
		w.t.Fatalf("AnyApplicationPolicy returned an unexpected type")
	}
	n.ticks = make(chan uint64)
	var lastErr error
	for try := 0; try < 5; try++ {
		port := xnpFreePort(w.t)
		p, err := Connect(w.ctx, Config{Port: port, Peers: bootstrap}, n.opPriv, &xnpFw{n, "conn"},
			retransmission.NewTicker(n.ticks))
		if err != nil {
			lastErr = err
			continue
		}
		n.prov = p.(*provider)
		n.finishAddr(n.prov.host, port)
		bc, err := p.BroadcastChannelFor(xnpChannel)
		if err != nil {
			w.t.Fatalf("channel of %s: %v", name, err)
		}
		n.ch = bc.(*channel)
		n.ch.SetUnmarshaler(func() net.TaggedUnmarshaler { return &xnpMsg{node: name, w: w} })
		n.wrapPublisher()
		return n
	}
	w.t.Fatalf("could not start provider %s: %v", name, lastErr)
	return nil
}

// ---------------------------------------------------------------- adversary

type xnpAdvTransport struct {
	*transport
	mode  xnpMode
	claim peer.ID
}

var _ sec.SecureTransport = (*xnpAdvTransport)(nil)

func (t *xnpAdvTransport) SecureInbound(ctx context.Context, c gonet.Conn, p peer.ID) (sec.SecureConn, error) {
	if !t.mode.honest() {
		c.Close()
		return nil, errors.New("verif: the adversary takes no inbound connections in this world")
	}
	return t.transport.SecureInbound(ctx, c, p)
}

func (t *xnpAdvTransport) SecureOutbound(ctx context.Context, c gonet.Conn, p peer.ID) (sec.SecureConn, error) {
	if t.mode.Claim == "A" && t.mode.ChalOK {
		return t.transport.SecureOutbound(ctx, c, p) // the package's initiator (on protocol id t.authProtocolID)
	}
	enc, err := t.encryptionLayer.SecureOutbound(ctx, c, p)
	if err != nil {
		return nil, err
	}
	remotePub, err := p.ExtractPublicKey()
	if err != nil {
		return nil, err
	}
	ac := &authenticatedConnection{Conn: enc, connState: enc.ConnState(), localPeerID: t.localPeerID,
		localPeerPrivateKey: t.privateKey, remotePeerID: p, remotePeerPublicKey: remotePub,
		firewall: t.firewall, protocol: t.authProtocolID}
	ac.initializePipe()
	fail := func(err error) (sec.SecureConn, error) { ac.Close(); return nil, err }
	a1, err := handshake.InitiateHandshake(ac.protocol)
	if err != nil {
		return fail(err)
	}
	b1, err := a1.Message().Marshal()
	if err != nil {
		return fail(err)
	}
	if t.mode.Claim != "A" {
		ac.localPeerID = t.claim // the envelope names somebody else; the signature is the adversary's
	}
	if err := ac.initiatorSendAct1(b1); err != nil {
		return fail(err)
	}
	a2 := a1.Next()
	m2, err := ac.initiatorReceiveAct2()
	if err != nil {
		return fail(err)
	}
	a3, err := a2.Next(m2)
	if err != nil {
		return fail(err)
	}
	b3, err := a3.Message().Marshal()
	if err != nil {
		return fail(err)
	}
	if !t.mode.ChalOK {
		var m pb.Act3Message
		if err := proto.Unmarshal(b3, &m); err != nil || len(m.Challenge) != 32 {
			return fail(fmt.Errorf("act 3 is not what it used to be: %v", err))
		}
		m.Challenge[13] ^= 0x20
		if b3, err = proto.Marshal(&m); err != nil {
			return fail(err)
		}
	}
	if err := ac.initiatorSendAct3(b3); err != nil {
		return fail(err)
	}
	ac.localPeerID = t.localPeerID
	return ac, nil
}

func (w *xnpWorld) startAdv() *xnpNode {
	n := w.nodes["A"]
	authProto := authProtocolID
	if w.mode.Proto != "keep" {
		authProto = "not-" + authProtocolID
	}
	var lastErr error
	for try := 0; try < 5; try++ {
		port := xnpFreePort(w.t)
		addrs, err := getListenAddrs(port)
		if err != nil {
			w.t.Fatal(err)
		}
		h, err := libp2p.New(
			libp2p.ListenAddrs(addrs...),
			libp2p.Identity(n.ident.privKey),
			libp2p.Security(securityProtocolID, func(pid protocol.ID, pk libp2pcrypto.PrivKey, muxers []upgrader.StreamMuxer) (*xnpAdvTransport, error) {
				tr, err := newEncryptedAuthenticatedTransport(pid, authProto, pk, muxers, firewall.Disabled)
				if err != nil {
					return nil, err
				}
				return &xnpAdvTransport{transport: tr, mode: w.mode, claim: w.nodes["S"].ident.id}, nil
			}),
		)
		if err != nil {
			lastErr = err
			continue
		}
		n.finishAddr(h, port)
		cm, err := newChannelManager(w.ctx, n.ident, h, xnpIdleTicker())
		if err != nil {
			w.t.Fatalf("channel manager of A: %v", err)
		}
		ch, err := cm.getChannel(xnpChannel)
		if err != nil {
			w.t.Fatalf("channel of A: %v", err)
		}
		n.ch = ch
		n.ch.SetUnmarshaler(func() net.TaggedUnmarshaler { return &xnpMsg{node: "A"} })
		n.wrapPublisher()
		// a second channel value on the same topic whose envelopes carry S's identity
		s := w.nodes["S"]
		n.impCh = &channel{name: xnpChannel, clientIdentity: &identity{id: s.ident.id, pubKey: s.ident.pubKey},
			publisher: n.ch.publisher, unmarshalersByType: map[string]func() net.TaggedUnmarshaler{},
			retransmissionTicker: xnpIdleTicker()}
		return n
	}
	w.t.Fatalf("could not start the adversary's host: %v", lastErr)
	return nil
}

// advDial: A dials node n. Returns whether A ended up connected.
func (w *xnpWorld) advDial(target *xnpNode) bool {
	a := w.nodes["A"]
	claim := w.mode.Claim
	if len(a.host.Network().ConnsToPeer(target.ident.id)) > 0 {
		return w.isUp(target.name, "A") // connected already: Connect would not dial
	}
	w.mu.Lock()
	before := w.entered[target.name+"/"+claim]
	w.mu.Unlock()
	ctx, cancel := context.WithTimeout(w.ctx, 8*time.Second)
	err := a.host.Connect(ctx, target.info)
	cancel()
	w.count("adv_dials", 1)
	// wait (bounded, not judged) until the attempt is resolved at the target: firewall entered, or the connection is gone
	deadline := time.Now().Add(3 * time.Second)
	for time.Now().Before(deadline) {
		w.mu.Lock()
		entered := w.entered[target.name+"/"+claim] > before
		w.mu.Unlock()
		if entered || err != nil || len(a.host.Network().ConnsToPeer(target.ident.id)) == 0 {
			break
		}
		time.Sleep(10 * time.Millisecond)
	}
	w.mu.Lock()
	entered := w.entered[target.name+"/"+claim] > before
	if !entered {
		w.logLocked(xnpEv{"event": "HandshakeDone", "node": target.name, "peer": claim, "ok": false})
		w.counters["handshake_failed"]++
	}
	w.mu.Unlock()
	// let the target's verdict land
	deadline = time.Now().Add(2 * time.Second)
	for entered && time.Now().Before(deadline) {
		if w.isUp(target.name, "A") || len(a.host.Network().ConnsToPeer(target.ident.id)) == 0 {
			break
		}
		time.Sleep(10 * time.Millisecond)
	}
	return w.isUp(target.name, "A")
}

// ---------------------------------------------------------------- R's handlers

type xnpHandler struct {
	name   string
	ctx    context.Context
	cancel context.CancelFunc
}

func (w *xnpWorld) register(h string) *xnpHandler {
	r := w.nodes["R"]
	hd := &xnpHandler{name: h}
	hd.ctx, hd.cancel = context.WithCancel(w.ctx)
	w.log("event", "RegisterCall", "h", h)
	r.ch.Recv(hd.ctx, func(m net.Message) {
		tag := "?"
		if p, ok := m.Payload().(*xnpMsg); ok {
			tag = p.tag
		}
		sender := w.names[m.TransportSenderID().String()]
		if sender == "" {
			sender = "unknown"
		}
		keyok := false
		if sn, ok := w.nodes[sender]; ok {
			keyok = bytes.Equal(m.SenderPublicKey(), sn.opKey)
		}
		w.mu.Lock()
		env := w.pubReg[tag]
		w.logLocked(xnpEv{"event": "Delivered", "h": h, "sender": sender, "seqno": m.Seqno(), "keyok": keyok, "tag": tag, "env": env.ev()})
		w.dlv[h+"/"+tag]++
		w.counters["delivered"]++
		w.counters["delivered_from_"+sender]++
		w.mu.Unlock()
	})
	w.log("event", "RegisterRet", "h", h)
	return hd
}

func (w *xnpWorld) cancelHandler(hd *xnpHandler) {
	w.log("event", "CancelCall", "h", hd.name)
	hd.cancel()
	w.log("event", "CancelRet", "h", hd.name)
	w.count("handler_cancelled", 1)
}

func (w *xnpWorld) delivered(h, tag string) int {
	w.mu.Lock()
	defer w.mu.Unlock()
	return w.dlv[h+"/"+tag]
}

// waitDelivered waits (bounded, never judged) for handler h to have seen tag.
func (w *xnpWorld) waitDelivered(h, tag string, d time.Duration) bool {
	deadline := time.Now().Add(d)
	for {
		if w.delivered(h, tag) > 0 {
			return true
		}
		if time.Now().After(deadline) {
			return false
		}
		time.Sleep(5 * time.Millisecond)
	}
}

// inject plays A's relay by hand: the bytes published under tag are handed to R's processPubsubMessage as a pubsub
// message of their original author. Only done while the specification, too, has A connected to R.
func (w *xnpWorld) inject(tag string) bool {
	r := w.nodes["R"]
	w.mu.Lock()
	data, ok := w.pubData[tag]
	env := w.pubReg[tag]
	from := w.pubFrom[tag]
	can := ok && w.up["R"]["A"]
	if can {
		w.logLocked(xnpEv{"event": "Inject", "tag": tag, "env": env.ev()})
	}
	w.mu.Unlock()
	if !can {
		return false
	}
	err := r.ch.processPubsubMessage(&pubsub.Message{Message: &pubsubpb.Message{Data: data, From: []byte(w.nodes[from].ident.id)}})
	if err != nil {
		reason := "other"
		switch {
		case strings.Contains(err.Error(), "does not match inner layer sender"):
			reason = "mismatch"
		case strings.Contains(err.Error(), "unmarshalling failed"), strings.Contains(err.Error(), "malformed"), strings.Contains(err.Error(), "public key"):
			reason = "identity"
		}
		w.log("event", "Dropped", "tag", tag, "env", env.ev(), "reason", reason, "error", err.Error())
		w.count("dropped_"+reason, 1)
	}
	w.count("injected", 1)
	return true
}

// close tears the world down and returns its events (nil if the world was inconclusive).
func (w *xnpWorld) close() ([]xnpEv, string) {
	time.Sleep(150 * time.Millisecond) // let what is in flight be recorded
	w.mu.Lock()
	w.closed = true
	evs, why := w.events, w.incon
	w.mu.Unlock()
	w.cancel()
	for _, n := range w.nodes {
		if n.host != nil {
			n.host.Close()
		}
		if n.ticks != nil {
			close(n.ticks)
		}
	}
	if why != "" {
		return nil, why
	}
	return evs, ""
}
