//go:build verif

package retransmission

// C16, the duplicate filter alone (see /verif/specs/Broadcast/DupFilter.tla).
//
// WithRetransmissionSupport is documented as thread-safe. Six goroutines (sixteen
// in the rounds that are only checked directly) call one wrapped handler at
// the same time with messages drawn from four (sender, seqno) keys. Before a round is let go, all its callers are held
// inside message.Seqno() - the last thing the filter does before it takes its
// mutex - so that they reach the membership test together. Call / Delegate /
// Return events are validated for linearizability against the atomic
// test-and-set of the specification; the outcome is also checked directly.

import (
	"fmt"
	"runtime"
	"sync"
	"sync/atomic"
	"testing"
	"time"

	kit "github.com/keep-network/keep-core/internal/verifkit"
	"github.com/keep-network/keep-core/pkg/net"
)

type c16Sender string

func (s c16Sender) String() string { return string(s) }

type c16FilterMsg struct {
	sender string
	seqno  uint64
	proc   string
	hold   func()
}

func (m *c16FilterMsg) TransportSenderID() net.TransportIdentifier { return c16Sender(m.sender) }
func (m *c16FilterMsg) SenderPublicKey() []byte                    { return nil }
func (m *c16FilterMsg) Payload() interface{}                       { return nil }
func (m *c16FilterMsg) Type() string                               { return "verif/c16" }
func (m *c16FilterMsg) Seqno() uint64 {
	if m.hold != nil {
		m.hold()
	}
	return m.seqno
}

func TestVerif_C16_Filter(t *testing.T) {
	kit.RequireEngine(t)
	rep := kit.NewReport("C16", "filter")
	defer rep.Write(t)
	tr := kit.NewTracer(t, "trace_filter")
	defer tr.Close()
	rounds := kit.IntEnv("VERIF_FILTER_ROUNDS", 600)
	traced := kit.IntEnv("VERIF_FILTER_TRACED", 60) // rounds recorded for trace validation; all are checked directly
	rnd := kit.Rand(1616)
	procs := []string{"p1", "p2", "p3", "p4", "p5", "p6"}
	type key struct {
		s string
		n uint64
	}
	keys := []key{{"s1", 1}, {"s1", 2}, {"s2", 1}, {"s2", 2}}

	allProcs := procs
	for i := 7; i <= 16; i++ {
		allProcs = append(allProcs, fmt.Sprintf("p%d", i))
	}
	for round := 0; round < rounds; round++ {
		// rounds that are not recorded use more callers and one fresh key per wave
		procs := procs
		if round >= traced {
			procs = allProcs
		}
		emit := func(ev map[string]interface{}) {
			if round < traced {
				tr.Emit(ev)
			}
		}
		if round < traced {
			tr.Reset(nil)
		}
		var mu sync.Mutex
		delegated := map[string]int{}
		called := map[string]bool{}
		wrapped := WithRetransmissionSupport(func(m net.Message) {
			fm := m.(*c16FilterMsg)
			k := fmt.Sprintf("%s:%d", fm.sender, fm.seqno)
			emit(map[string]interface{}{"event": "Delegate", "p": fm.proc, "k": k})
			mu.Lock()
			delegated[k]++
			mu.Unlock()
		})
		// two or three waves per round; in each wave every goroutine makes one call
		waves := 2 + rnd.Intn(2)
		if round >= traced {
			waves = len(keys)
		}
		for w := 0; w < waves; w++ {
			// mostly the same key for everybody (maximal contention), sometimes mixed
			common := keys[rnd.Intn(len(keys))]
			if round >= traced {
				common = keys[w%len(keys)] // a key this round's filter has not seen yet
			}
			var arrived sync.WaitGroup
			var release int32 // spun on, so that all callers start within nanoseconds of each other
			var done sync.WaitGroup
			for _, p := range procs {
				k := common
				if round < traced && rnd.Intn(4) == 0 {
					k = keys[rnd.Intn(len(keys))]
				}
				ks := fmt.Sprintf("%s:%d", k.s, k.n)
				mu.Lock()
				called[ks] = true
				mu.Unlock()
				arrived.Add(1)
				done.Add(1)
				msg := &c16FilterMsg{sender: k.s, seqno: k.n, proc: p}
				var once sync.Once
				msg.hold = func() {
					once.Do(func() {
						arrived.Done()
						for i := 0; atomic.LoadInt32(&release) == 0; i++ {
							if i%2000 == 1999 {
								runtime.Gosched()
							}
						}
					})
				}
				go func(p string) {
					defer done.Done()
					emit(map[string]interface{}{"event": "Call", "p": p, "k": ks})
					wrapped(msg)
					emit(map[string]interface{}{"event": "Return", "p": p})
				}(p)
			}
			// everybody is inside Seqno(), i.e. just before the filter's mutex
			ok := make(chan struct{})
			go func() { arrived.Wait(); close(ok) }()
			select {
			case <-ok:
			case <-time.After(30 * time.Second):
				// the filter does not ask for the sequence number before locking any more:
				// no barrier, the calls still race freely
				rep.Count("barrier_missed", 1)
			}
			atomic.StoreInt32(&release, 1)
			done.Wait()
		}
		mu.Lock()
		for k := range called {
			if delegated[k] != 1 {
				what := fmt.Sprintf("message %s reached the delegate %d times after concurrent deliveries (every call had returned)", k, delegated[k])
				kk := "filter-lost"
				if delegated[k] > 1 {
					kk = "filter-duplicate"
				}
				rep.Diverge(kk, what, map[string]interface{}{"round": round, "delegated": delegated}, 1, delegated[k])
			}
		}
		mu.Unlock()
		rep.Eval(fmt.Sprintf("round:%d:%d", waves, round%7), map[string]interface{}{"round": round, "waves": waves, "delegated": delegated})
	}
	rep.Count("events", tr.N())
}
