//go:build verif

package retransmission

// C16, the duplicate filter alone (see /verif/specs/Broadcast/DupFilter.tla).
//
// WithRetransmissionSupport is documented as thread-safe. Six goroutines (sixteen
// in the rounds that are only checked directly) call one wrapped handler at
// the same time with messages drawn from four (sender, seqno) keys. Before a round is let go, all its callers are held
// inside message.Seqno() - the last thing the filter does before it takes its
// mutex - so that they reach the membership test together. Call / Delegate /
// Return events are validated for linearizability against the atomic
// test-and-set of the specification; the outcome is also checked directly.
// Where the filter reads the sequence number - inside or outside a lock - is
// its own business: if the callers do not all show up at the barrier within a
// few milliseconds (one of them is holding a lock the others wait for), the
// barrier lets go, and after two such rounds it is not used any more.
//
// TestVerif_C16_FilterOrder replays, sequentially, every arrival order the
// specification enumerates (two senders x sequence numbers 1..4: out of
// order, gaps filled later, repeats), retransmitting everything seen so far
// after every step: each (sender, seqno) must reach the delegate exactly once.

import (
	"fmt"
	"runtime"
	"sync"
	"sync/atomic"
	"testing"
	"time"

	kit "github.com/keep-network/keep-core/internal/verifkit"
	"github.com/keep-network/keep-core/pkg/net"
)

type c16Sender string

func (s c16Sender) String() string { return string(s) }

type c16FilterMsg struct {
	sender string
	seqno  uint64
	proc   string
	hold   func()
}

func (m *c16FilterMsg) TransportSenderID() net.TransportIdentifier { return c16Sender(m.sender) }
func (m *c16FilterMsg) SenderPublicKey() []byte                    { return nil }
func (m *c16FilterMsg) Payload() interface{}                       { return nil }
func (m *c16FilterMsg) Type() string                               { return "verif/c16" }
func (m *c16FilterMsg) Seqno() uint64 {
	if m.hold != nil {
		m.hold()
	}
	return m.seqno
}

func TestVerif_C16_Filter(t *testing.T) {
	kit.RequireEngine(t)
	rep := kit.NewReport("C16", "filter")
	defer rep.Write(t)
	tr := kit.NewTracer(t, "trace_filter")
	defer tr.Close()
	rounds := kit.IntEnv("VERIF_FILTER_ROUNDS", 600)
	traced := kit.IntEnv("VERIF_FILTER_TRACED", 60) // rounds recorded for trace validation; all are checked directly
	rnd := kit.Rand(1616)
	procs := []string{"p1", "p2", "p3", "p4", "p5", "p6"}
	type key struct {
		s string
		n uint64
	}
	keys := []key{{"s1", 1}, {"s1", 2}, {"s2", 1}, {"s2", 2}}

	allProcs := procs
	for i := 7; i <= 16; i++ {
		allProcs = append(allProcs, fmt.Sprintf("p%d", i))
	}
	barrierMisses := 0
	for round := 0; round < rounds; round++ {
		// rounds that are not recorded use more callers and one fresh key per wave
		procs := procs
		if round >= traced {
			procs = allProcs
		}
		emit := func(ev map[string]interface{}) {
			if round < traced {
				tr.Emit(ev)
			}
		}
		if round < traced {
			tr.Reset(nil)
		}
		var mu sync.Mutex
		delegated := map[string]int{}
		called := map[string]bool{}
		wrapped := WithRetransmissionSupport(func(m net.Message) {
			fm := m.(*c16FilterMsg)
			k := fmt.Sprintf("%s:%d", fm.sender, fm.seqno)
			emit(map[string]interface{}{"event": "Delegate", "p": fm.proc, "k": k})
			mu.Lock()
			delegated[k]++
			mu.Unlock()
		})
		// two or three waves per round; in each wave every goroutine makes one call
		waves := 2 + rnd.Intn(2)
		if round >= traced {
			waves = len(keys)
		}
		for w := 0; w < waves; w++ {
			// mostly the same key for everybody (maximal contention), sometimes mixed
			common := keys[rnd.Intn(len(keys))]
			if round >= traced {
				common = keys[w%len(keys)] // a key this round's filter has not seen yet
			}
			var arrived sync.WaitGroup
			var release int32 // spun on, so that all callers start within nanoseconds of each other
			var arrivedN int32
			var done sync.WaitGroup
			for _, p := range procs {
				k := common
				if round < traced && rnd.Intn(4) == 0 {
					k = keys[rnd.Intn(len(keys))]
				}
				ks := fmt.Sprintf("%s:%d", k.s, k.n)
				mu.Lock()
				called[ks] = true
				mu.Unlock()
				arrived.Add(1)
				done.Add(1)
				msg := &c16FilterMsg{sender: k.s, seqno: k.n, proc: p}
				var once sync.Once
				if barrierMisses >= 2 {
					arrived.Done() // no barrier any more: the filter serializes its callers before Seqno()
				}
				msg.hold = func() {
					if barrierMisses >= 2 {
						return
					}
					once.Do(func() {
						atomic.AddInt32(&arrivedN, 1)
						arrived.Done()
						for i := 0; atomic.LoadInt32(&release) == 0; i++ {
							if i%2000 == 1999 {
								runtime.Gosched()
							}
						}
					})
				}
				go func(p string) {
					defer done.Done()
					emit(map[string]interface{}{"event": "Call", "p": p, "k": ks})
					wrapped(msg)
					emit(map[string]interface{}{"event": "Return", "p": p})
				}(p)
			}
			// everybody is inside Seqno(), i.e. just before the filter's mutex
			ok := make(chan struct{})
			go func() { arrived.Wait(); close(ok) }()
			select {
			case <-ok:
			case <-time.After(25 * time.Millisecond):
				// not everybody got to Seqno(): either the machine is busy or the filter asks for
				// the sequence number while holding a lock the others wait for. Let go; the calls
				// still race freely.
				if atomic.LoadInt32(&arrivedN) <= 1 {
					barrierMisses++ // one caller inside Seqno(), the others behind it: not slowness
				}
				rep.Count("barrier_missed", 1)
			}
			atomic.StoreInt32(&release, 1)
			done.Wait()
		}
		mu.Lock()
		for k := range called {
			if delegated[k] != 1 {
				what := fmt.Sprintf("message %s reached the delegate %d times after concurrent deliveries (every call had returned)", k, delegated[k])
				kk := "filter-lost"
				if delegated[k] > 1 {
					kk = "filter-duplicate"
				}
				rep.Diverge(kk, what, map[string]interface{}{"round": round, "delegated": delegated}, 1, delegated[k])
			}
		}
		mu.Unlock()
		rep.Eval(fmt.Sprintf("round:%d:%d", waves, round%7), map[string]interface{}{"round": round, "waves": waves, "delegated": delegated})
	}
	rep.Count("events", tr.N())
}

func TestVerif_C16_FilterOrder(t *testing.T) {
	kit.RequireEngine(t)
	rep := kit.NewReport("C16", "filter_order")
	defer rep.Write(t)
	for _, c := range kit.LoadCases(t, "sequences.ndjson") {
		delegated := map[string]int{}
		wrapped := WithRetransmissionSupport(func(m net.Message) {
			fm := m.(*c16FilterMsg)
			delegated[fmt.Sprintf("%s:%d", fm.sender, fm.seqno)]++
		})
		call := func(k string) {
			var sender string
			var seqno uint64
			if _, err := fmt.Sscanf(k, "s%1s:%d", &sender, &seqno); err != nil {
				t.Fatalf("bad key %q: %v", k, err)
			}
			wrapped(&c16FilterMsg{sender: "s" + sender, seqno: seqno})
		}
		var order, seen []string
		bad := false
		for i, st := range c.Get("calls").List() {
			k := st.Get("k").Str()
			before := delegated[k]
			call(k)
			order = append(order, k)
			got := delegated[k] - before
			want := 0
			if st.Get("fresh").Bool() {
				want = 1
				seen = append(seen, k)
			}
			if got != want {
				key, what := "filter-order-lost", "did not reach the delegate although it arrived for the first time"
				if got > want {
					key, what = "filter-order-duplicate", "reached the delegate again"
				}
				rep.Diverge(key, fmt.Sprintf("arrival order %v: message %s (call %d) %s", order, k, i+1, what),
					map[string]interface{}{"calls": c.Get("calls").X, "at": i + 1}, want, got)
				bad = true
				break
			}
			// retransmission of everything seen so far
			for _, r := range seen {
				b := delegated[r]
				call(r)
				if delegated[r] != b {
					rep.Diverge("filter-order-duplicate", fmt.Sprintf("arrival order %v, then a retransmission of %s: it reached the delegate a second time", order, r),
						map[string]interface{}{"calls": c.Get("calls").X, "at": i + 1, "retransmitted": r}, 1, delegated[r])
					bad = true
					break
				}
			}
			if bad {
				break
			}
			rep.Count("calls", 1+len(seen))
		}
		nt := ""
		if !bad {
			// out of order for some sender?
			last := map[byte]string{}
			for _, k := range seen {
				if p, ok := last[k[1]]; ok && k < p {
					nt = kit.Hash(c.X)
				}
				last[k[1]] = k
			}
		} else {
			nt = kit.Hash(c.X)
		}
		rep.Eval(nt, map[string]interface{}{"order": order})
	}
}
