//go:build verif

package retransmission

// C17 conformance harness (see /verif/specs/Retransmission).
//
//   TestVerif_C17_Hazard    replays every schedule of the hazard-grain model
//                           (Inc / Decide of overlapping tick callbacks) on the
//                           real Ticker + ScheduleRetransmissions +
//                           BackoffStrategy by parking the per-tick goroutines
//                           at the verifhook points. A schedule that cannot be
//                           realized (the code serializes callbacks) counts as
//                           "unrealized"; a realized schedule whose number of
//                           retransmissions differs from the contract is a
//                           violation observed on the real code.
//   TestVerif_C17_Contract  records random real runs (sequential ticks, bursts,
//                           cancellation) as ndjson for Trace_Retransmission.

import (
	"context"
	"fmt"
	"sync/atomic"
	"testing"
	"time"

	"github.com/ipfs/go-log"

	kit "github.com/keep-network/keep-core/internal/verifkit"
	"github.com/keep-network/keep-core/pkg/internal/verifhook"
	"github.com/keep-network/keep-core/pkg/net"
)

const (
	c17Counted = "retransmission.backoff.counted"
	c17Done    = "retransmission.backoff.done"
)

type c17Rig struct {
	ticks  chan uint64
	ticker *Ticker
	cancel context.CancelFunc
	retx   int64
}

func newC17Rig(t *testing.T, strategy Strategy) *c17Rig {
	r := &c17Rig{ticks: make(chan uint64)}
	r.ticker = NewTicker(r.ticks)
	ctx, cancel := context.WithCancel(context.Background())
	r.cancel = cancel
	ScheduleRetransmissions(ctx, log.Logger("verif-c17"), r.ticker, func() error {
		atomic.AddInt64(&r.retx, 1)
		return nil
	}, strategy)
	// registration happens on a goroutine: wait for it
	ok := kit.Eventually(5*time.Second, func() bool {
		r.ticker.handlersMutex.Lock()
		defer r.ticker.handlersMutex.Unlock()
		return len(r.ticker.handlers) == 1
	})
	if !ok {
		t.Fatalf("handler never registered")
	}
	return r
}

func (r *c17Rig) close() { r.cancel(); close(r.ticks) }

func c17Sched(n int) int {
	// number of scheduled retransmissions among ticks 1..n: r_1 = 1,
	// r_{k+1} = r_k + 2^(k-1) + 1 (documented: R _ R _ _ R _ _ _ _ R)
	c, rt, d := 0, 1, 1
	for rt <= n {
		c++
		rt += d + 1
		d *= 2
	}
	return c
}

func TestVerif_C17_Hazard(t *testing.T) {
	kit.RequireEngine(t)
	rep := kit.NewReport("C17", "hazard")
	defer rep.Write(t)
	cases := kit.LoadCases(t, "behaviours.ndjson")
	wait := time.Duration(kit.IntEnv("VERIF_PARK_MS", 120)) * time.Millisecond
	lostWait, lost := 30*time.Second, 0

	for _, c := range cases {
		steps := c.Get("steps").List()
		gate := kit.NewGate()
		verifhook.Install(gate.Handler)
		rig := newC17Rig(t, WithBackoffStrategy())

		ticket := map[int]int{} // model goroutine -> arrival ticket at "counted"
		sentTicks := 0
		realized := true
		overlap := false
		inflight := 0
		for _, s := range steps {
			g := s.Get("g").Int()
			switch s.Get("a").Str() {
			case "DeliverTick":
				// the callback goroutine cannot be held before its first
				// statement; the tick is sent when the model performs Inc(g)
			case "Inc":
				if inflight > 0 {
					overlap = true
				}
				gate.Arm(c17Counted, 1)
				before := gate.Arrived(c17Counted)
				rig.ticks <- uint64(sentTicks + 1)
				sentTicks++
				if !gate.WaitArrived(c17Counted, before+1, wait) {
					realized = false
				} else {
					ticket[g] = before + 1
					inflight++
				}
			case "Decide":
				doneBefore := gate.Arrived(c17Done)
				if !gate.ReleaseTicket(c17Counted, ticket[g]) {
					realized = false
				} else if !gate.WaitArrived(c17Done, doneBefore+1, 5*time.Second) {
					realized = false
				}
				inflight--
			}
			if !realized {
				break
			}
		}
		// let everything finish, deliver the remaining ticks of the behaviour
		gate.ReleaseAll()
		total := c.Get("callbacks").Int()
		for sentTicks < total {
			rig.ticks <- uint64(sentTicks + 1)
			sentTicks++
		}
		if !gate.WaitArrived(c17Done, total, lostWait) {
			lostWait = time.Second // the first occurrence was given 30 s; later ones need not wait as long
			lost++
			// every tick accepted by the ticker must run the strategy once (that is what "retransmitted at
			// ticks 1, 3, 6, ..." counts); a tick that never reaches the strategy is a lost tick
			rep.Eval("lost:"+kit.Hash(c.Get("steps").X), nil)
			rep.Diverge("hazard:lost-ticks",
				fmt.Sprintf("%d ticks were accepted by the ticker but only %d tick callbacks ran within the wait bound (30 s for the first occurrence): ticks arriving while another callback of the same message is in flight are lost", total, gate.Arrived(c17Done)),
				c.X, total, gate.Arrived(c17Done))
			rig.close()
			verifhook.Uninstall()
			if lost >= 5 {
				break
			}
			continue
		}
		observed := int(atomic.LoadInt64(&rig.retx))
		expected := c17Sched(total)
		if expected != c.Get("expectedCount").Int() {
			t.Fatalf("harness schedule function disagrees with the spec: %d vs %d", expected, c.Get("expectedCount").Int())
		}
		key := ""
		if overlap {
			key = kit.Hash(c.Get("steps").X)
		}
		rep.Eval(key, map[string]interface{}{"steps": c.Get("steps").X, "realized": realized, "observed": observed, "expected": expected})
		if realized {
			rep.Count("realized", 1)
			if overlap {
				rep.Count("realized_overlapping", 1)
			}
		} else {
			rep.Unrealized++
		}
		if observed != expected {
			rep.Diverge("hazard:"+kit.Hash(c.Get("steps").X),
				fmt.Sprintf("backoff schedule broken by overlapping tick callbacks: %d ticks produced %d retransmissions, the documented schedule gives %d", total, observed, expected),
				c.X, expected, observed)
		} else if realized && observed != c.Get("observedCount").Int() {
			rep.Note("realized schedule %s: real outcome %d differs from the hazard model's %d", kit.Hash(c.Get("steps").X), observed, c.Get("observedCount").Int())
		}
		rig.close()
		verifhook.Uninstall()
	}
}

func TestVerif_C17_Contract(t *testing.T) {
	kit.RequireEngine(t)
	rep := kit.NewReport("C17", "contract")
	defer rep.Write(t)
	runs := kit.IntEnv("VERIF_RUNS", 40)
	maxTicks := kit.IntEnv("VERIF_MAXTICKS", 24)

	for _, strat := range []string{"backoff", "standard"} {
		tr := kit.NewTracer(t, "trace_"+strat)
		rnd := kit.Rand(int64(len(strat)))
		for run := 0; run < runs; run++ {
			tr.Reset(nil)
			gate := kit.NewGate()
			verifhook.Install(gate.Handler)
			var s Strategy
			if strat == "backoff" {
				s = WithStrategy(net.BackoffRetransmissionStrategy)
			} else {
				s = WithStrategy(net.StandardRetransmissionStrategy)
			}
			rig := newC17Rig(t, s)
			nTicks := 1 + rnd.Intn(maxTicks)
			cancelAt := -1
			if rnd.Intn(3) == 0 {
				cancelAt = rnd.Intn(nTicks + 1)
			}
			sent, live := 0, 0 // live = ticks delivered while the context was live
			cancelled := false
			quiet := func() {
				// wait for every spawned callback to complete
				if strat == "backoff" {
					gate.WaitArrived(c17Done, live, 10*time.Second)
				} else {
					kit.Eventually(10*time.Second, func() bool { return int(atomic.LoadInt64(&rig.retx)) >= live })
				}
				if cancelled {
					time.Sleep(5 * time.Millisecond)
				}
				tr.Emit(map[string]interface{}{"event": "Quiet", "retx": int(atomic.LoadInt64(&rig.retx))})
			}
			for sent < nTicks {
				if sent == cancelAt && !cancelled {
					quiet()
					rig.cancel()
					cancelled = true
					tr.Emit(map[string]interface{}{"event": "Cancel"})
				}
				burst := 1
				if rnd.Intn(3) == 0 {
					burst = 1 + rnd.Intn(4)
				}
				for b := 0; b < burst && sent < nTicks; b++ {
					if sent == cancelAt && !cancelled {
						break
					}
					rig.ticks <- uint64(sent + 1)
					sent++
					if !cancelled {
						live++
					}
					tr.Emit(map[string]interface{}{"event": "Tick", "n": sent})
				}
				if cancelled {
					// fence: a second tick returns only after the previous one was fully processed
					rig.ticks <- uint64(0)
					tr.Emit(map[string]interface{}{"event": "Tick", "n": 0})
				}
				quiet()
			}
			rep.Eval(fmt.Sprintf("%s/%d/%d", strat, nTicks, cancelAt), map[string]interface{}{"strategy": strat, "ticks": nTicks, "cancelAt": cancelAt, "retx": atomic.LoadInt64(&rig.retx)})
			rig.close()
			verifhook.Uninstall()
		}
		rep.Count("events_"+strat, tr.N())
		tr.Close()
	}
}

// TestVerif_C17_Multi replays TickerMulti behaviours: several messages with
// their own contexts scheduled on ONE real Ticker through the real
// ScheduleRetransmissions; after every step the number of retransmissions of
// every message is compared with the specification (one per live tick for the
// standard strategy, the documented backoff schedule of its own live ticks for
// the backoff strategy).
func TestVerif_C17_Multi(t *testing.T) {
	kit.RequireEngine(t)
	rep := kit.NewReport("C17", "multi")
	defer rep.Write(t)
	cases := kit.LoadCases(t, "multi.ndjson")
	for ci, c := range cases {
		backoff := ci%3 == 2
		gate := kit.NewGate()
		verifhook.Install(gate.Handler)
		ticks := make(chan uint64)
		ticker := NewTicker(ticks)
		counts := map[string]*int64{}
		cancels := map[string]context.CancelFunc{}
		backoffCalls := 0
		sent := uint64(0)
		get := func(h string) int64 {
			if p, ok := counts[h]; ok {
				return atomic.LoadInt64(p)
			}
			return 0
		}
		var bad string
		for si, s := range c.Get("steps").List() {
			h := s.Get("h").Str()
			switch s.Get("a").Str() {
			case "Register":
				var n int64
				counts[h] = &n
				ctx, cancel := context.WithCancel(context.Background())
				cancels[h] = cancel
				ticker.handlersMutex.Lock()
				before := len(ticker.handlers)
				ticker.handlersMutex.Unlock()
				var strategy Strategy = WithStandardStrategy()
				if backoff {
					strategy = WithBackoffStrategy()
				}
				p := &n
				ScheduleRetransmissions(ctx, log.Logger("verif-c17"), ticker, func() error {
					atomic.AddInt64(p, 1)
					return nil
				}, strategy)
				// registration happens on a goroutine; a correct ticker adds one entry
				kit.Eventually(2*time.Second, func() bool {
					ticker.handlersMutex.Lock()
					defer ticker.handlersMutex.Unlock()
					return len(ticker.handlers) == before+1
				})
			case "Cancel":
				cancels[h]()
			case "Tick":
				sent++
				ticks <- sent
			}
			// expected retransmissions after this step
			exp := map[string]int64{}
			calls := s.Get("calls")
			total := 0
			for _, k := range calls.Keys() {
				n := calls.Get(k).Int()
				total += n
				if backoff {
					exp[k] = int64(c17Sched(n))
				} else {
					exp[k] = int64(n)
				}
			}
			if backoff {
				backoffCalls = total
				gate.WaitArrived(c17Done, backoffCalls, 5*time.Second)
			}
			kit.Eventually(5*time.Second, func() bool {
				for k, e := range exp {
					if get(k) < e {
						return false
					}
				}
				return true
			})
			time.Sleep(2 * time.Millisecond)
			for k, e := range exp {
				if g := get(k); g != e {
					bad = fmt.Sprintf("after step %d (%s %s): message %s was retransmitted %d times, the specification says %d", si+1, s.Get("a").Str(), h, k, g, e)
				}
			}
			if bad != "" {
				break
			}
		}
		if bad == "" {
			time.Sleep(10 * time.Millisecond)
			last := c.Get("steps").Idx(c.Get("steps").Len() - 1).Get("calls")
			for _, k := range last.Keys() {
				e := int64(last.Get(k).Int())
				if backoff {
					e = int64(c17Sched(last.Get(k).Int()))
				}
				if g := get(k); g != e {
					bad = fmt.Sprintf("at the end: message %s was retransmitted %d times, the specification says %d", k, g, e)
				}
			}
		}
		strat := "standard"
		if backoff {
			strat = "backoff"
		}
		rep.Eval(strat+"/"+kit.Hash(c.X), map[string]interface{}{"strategy": strat, "steps": c.Get("steps").X})
		if bad != "" {
			rep.Diverge("multi:"+strat, "messages sharing one ticker: "+bad, c.X, nil, nil)
		}
		for _, cancel := range cancels {
			cancel()
		}
		close(ticks)
		verifhook.Uninstall()
	}
}
