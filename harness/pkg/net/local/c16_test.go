//go:build verif

package local

// C16 conformance harness for the local broadcast channel (see
// /verif/specs/Broadcast and /verif/harness/kit/broadcast.go).
//
// The rig builds localChannel objects the way getBroadcastChannel does (same
// fields, registered in broadcastChannels under the package mutex), except
// that every channel gets a retransmission ticker fed by the harness instead
// of a 50 ms wall-clock ticker. One channel object receives (handlers under
// test are registered on it through the real Recv), one object per real
// sender sends through the real Send, and a tap object with a raw
// messageHandler (no duplicate filter) sees every publication, so that the
// sequence number of every published message is known.

import (
	"context"
	"fmt"
	"sync"
	"sync/atomic"
	"testing"

	kit "github.com/keep-network/keep-core/internal/verifkit"
	"github.com/keep-network/keep-core/pkg/net"
	"github.com/keep-network/keep-core/pkg/net/internal"
	"github.com/keep-network/keep-core/pkg/net/retransmission"
	"github.com/keep-network/keep-core/pkg/operator"
)

const c16Type = "verif/c16"

type c16Msg struct{ tag string }

func (m *c16Msg) Type() string             { return c16Type }
func (m *c16Msg) Marshal() ([]byte, error) { return []byte(m.tag), nil }
func (m *c16Msg) Unmarshal(b []byte) error { m.tag = string(b); return nil }

var c16RigSeq int64

type c16Rig struct {
	t      testing.TB
	name   string
	recv   *localChannel
	tapCh  chan net.Message
	real   map[string]*localChannel
	ticks  []chan uint64
	sctx   context.Context
	cancel context.CancelFunc
	key    []byte

	mu       sync.Mutex
	ids      map[string]string // transport id -> model sender
	simID    map[string]localIdentifier
	simNext  map[string]uint64
	stored   map[string]net.Message // "sender:seqno" -> first published object
	tagSeq   map[string]uint64      // "sender/tag" -> seqno
	seqTag   map[string]string      // "sender:seqno" -> tag
	problems []string
	handlers map[context.Context]*messageHandler
}

func (r *c16Rig) newChannel(pk *operator.PublicKey) *localChannel {
	ticks := make(chan uint64)
	r.ticks = append(r.ticks, ticks)
	identifier := randomLocalIdentifier()
	ch := &localChannel{
		name:                 r.name,
		identifier:           &identifier,
		operatorPublicKey:    pk,
		messageHandlers:      make([]*messageHandler, 0),
		unmarshalersByType:   make(map[string]func() net.TaggedUnmarshaler),
		retransmissionTicker: retransmission.NewTicker(ticks),
	}
	ch.SetUnmarshaler(func() net.TaggedUnmarshaler { return &c16Msg{} })
	broadcastChannelsMutex.Lock()
	if broadcastChannels == nil {
		broadcastChannels = make(map[string][]*localChannel)
	}
	broadcastChannels[r.name] = append(broadcastChannels[r.name], ch)
	broadcastChannelsMutex.Unlock()
	return ch
}

func newC16Rig(t testing.TB, real []string, sim []string) kit.BcastRig {
	_, pk, err := operator.GenerateKeyPair(DefaultCurve)
	if err != nil {
		t.Fatal(err)
	}
	r := &c16Rig{t: t, name: fmt.Sprintf("verif-c16-%d", atomic.AddInt64(&c16RigSeq, 1)),
		real: map[string]*localChannel{}, ids: map[string]string{}, simID: map[string]localIdentifier{},
		simNext: map[string]uint64{}, stored: map[string]net.Message{}, tagSeq: map[string]uint64{},
		seqTag: map[string]string{}, handlers: map[context.Context]*messageHandler{},
		key: operator.MarshalUncompressed(pk)}
	r.sctx, r.cancel = context.WithCancel(context.Background())
	tap := r.newChannel(pk)
	r.tapCh = make(chan net.Message, 1<<14)
	tap.messageHandlers = append(tap.messageHandlers, &messageHandler{ctx: context.Background(), channel: r.tapCh})
	r.recv = r.newChannel(pk)
	for _, s := range real {
		ch := r.newChannel(pk)
		r.real[s] = ch
		r.ids[ch.identifier.String()] = s
	}
	for _, s := range sim {
		id := randomLocalIdentifier()
		r.simID[s] = id
		r.ids[id.String()] = s
	}
	return r
}

func (r *c16Rig) conv(m net.Message) kit.BcastMsg {
	out := kit.BcastMsg{Seqno: m.Seqno()}
	r.mu.Lock()
	out.Sender = r.ids[m.TransportSenderID().String()]
	r.mu.Unlock()
	if p, ok := m.Payload().(*c16Msg); ok {
		out.Tag = p.tag
	}
	return out
}

// drain reads everything the tap saw and checks sequence numbers at publication.
func (r *c16Rig) drain() {
	r.mu.Lock()
	defer r.mu.Unlock()
	for {
		select {
		case m := <-r.tapCh:
			s := r.ids[m.TransportSenderID().String()]
			tag := ""
			if p, ok := m.Payload().(*c16Msg); ok {
				tag = p.tag
			}
			sk := fmt.Sprintf("%s:%d", s, m.Seqno())
			tk := s + "/" + tag
			if n, ok := r.tagSeq[tk]; ok && n != m.Seqno() {
				r.problems = append(r.problems, fmt.Sprintf("message %q of channel %s was published with sequence number %d and again with %d: a retransmission must keep the number", tag, s, n, m.Seqno()))
			}
			if t0, ok := r.seqTag[sk]; ok && t0 != tag {
				r.problems = append(r.problems, fmt.Sprintf("two different messages of channel %s (%q and %q) were published with the same sequence number %d", s, t0, tag, m.Seqno()))
			}
			if _, ok := r.tagSeq[tk]; !ok {
				r.tagSeq[tk] = m.Seqno()
			}
			if _, ok := r.seqTag[sk]; !ok {
				r.seqTag[sk] = tag
				r.stored[sk] = m
			}
		default:
			return
		}
	}
}

func (r *c16Rig) Register(ctx context.Context, fn func(kit.BcastMsg)) {
	r.recv.Recv(ctx, func(m net.Message) { fn(r.conv(m)) })
	r.recv.messageHandlersMutex.Lock()
	for _, h := range r.recv.messageHandlers {
		if h.ctx == ctx {
			r.mu.Lock()
			r.handlers[ctx] = h
			r.mu.Unlock()
		}
	}
	r.recv.messageHandlersMutex.Unlock()
}

func (r *c16Rig) HandlerCtxs() []context.Context {
	r.recv.messageHandlersMutex.Lock()
	defer r.recv.messageHandlersMutex.Unlock()
	out := make([]context.Context, 0, len(r.recv.messageHandlers))
	for _, h := range r.recv.messageHandlers {
		out = append(out, h.ctx)
	}
	return out
}

func (r *c16Rig) QueueLen(ctx context.Context) int {
	r.mu.Lock()
	h := r.handlers[ctx]
	r.mu.Unlock()
	if h == nil {
		return -1
	}
	return len(h.channel)
}

func (r *c16Rig) Prime(ctx context.Context) {
	r.mu.Lock()
	h := r.handlers[ctx]
	r.mu.Unlock()
	if h == nil {
		r.t.Fatalf("no handler to prime")
	}
	h.channel <- internal.BasicMessage(localIdentifier("prime"), &c16Msg{tag: "prime"}, c16Type, r.key, 0)
}

func (r *c16Rig) Send(sender, tag string) (uint64, error) {
	ch := r.real[sender]
	if ch == nil {
		r.t.Fatalf("no real sender %s", sender)
	}
	if err := ch.Send(r.sctx, &c16Msg{tag: tag}); err != nil {
		return 0, err
	}
	r.drain()
	r.mu.Lock()
	n, ok := r.tagSeq[sender+"/"+tag]
	r.mu.Unlock()
	if !ok {
		r.t.Fatalf("message %s/%s was not published", sender, tag)
	}
	return n, nil
}

// SendFailing: localChannel.Send has no error path after nextSeqno (broadcastMessage
// never fails); the target says so (CanFailPublish = false) and this is never called.
func (r *c16Rig) SendFailing(sender, tag string) (uint64, error) {
	r.t.Fatalf("the local channel has no failing publication")
	return 0, nil
}

func (r *c16Rig) SimSend(sender, tag string) uint64 {
	r.mu.Lock()
	r.simNext[sender]++
	n := r.simNext[sender]
	id := r.simID[sender]
	r.mu.Unlock()
	m := internal.BasicMessage(id, &c16Msg{tag: tag}, c16Type, r.key, n)
	if err := broadcastMessage(r.name, m); err != nil {
		r.t.Fatal(err)
	}
	r.drain()
	return n
}

func (r *c16Rig) Redeliver(sender string, seqno uint64) {
	r.mu.Lock()
	m := r.stored[fmt.Sprintf("%s:%d", sender, seqno)]
	r.mu.Unlock()
	if m == nil {
		r.t.Fatalf("no stored message %s:%d", sender, seqno)
	}
	// exactly what the RetransmitFn built by Send does
	if err := broadcastMessage(r.name, m); err != nil {
		r.t.Fatal(err)
	}
	r.drain()
}

func (r *c16Rig) Tick() {
	for _, c := range r.ticks {
		c <- 1
	}
}

func (r *c16Rig) Problems() []string {
	r.drain()
	r.mu.Lock()
	defer r.mu.Unlock()
	return append([]string(nil), r.problems...)
}

func (r *c16Rig) Close() {
	r.cancel()
	for _, c := range r.ticks {
		close(c)
	}
	broadcastChannelsMutex.Lock()
	delete(broadcastChannels, r.name)
	broadcastChannelsMutex.Unlock()
}

var c16Target = kit.BcastTarget{Name: "local", Lifecycle: "inline", Cap: messageHandlerThrottle, NewRig: newC16Rig}

func TestVerif_C16_Replay(t *testing.T) {
	kit.RequireEngine(t)
	rep := kit.NewReport("C16", "replay_local")
	defer rep.Write(t)
	kit.ReplayBcast(t, rep, c16Target, kit.LoadCases(t, "behaviours_local.ndjson"))
}

func TestVerif_C16_Trace(t *testing.T) {
	kit.RequireEngine(t)
	rep := kit.NewReport("C16", "trace_local")
	defer rep.Write(t)
	rep.Extra["cap"] = messageHandlerThrottle
	tr := kit.NewTracer(t, "trace_local")
	kit.RecordBcast(t, rep, c16Target, tr, kit.IntEnv("VERIF_RUNS", 30), 16)
	kit.SeqnoBcast(t, rep, c16Target, tr, kit.IntEnv("VERIF_SEQNO_ROUNDS", 4))
	kit.ForceBcast(t, rep, c16Target, tr, kit.IntEnv("VERIF_FORCE_REPS", 40))
	kit.IdleCancelBcast(t, rep, c16Target, tr, kit.IntEnv("VERIF_FORCE_REPS", 40))
	tr.Close()
	tro := kit.NewTracer(t, "trace_local_overflow")
	kit.OverflowBcast(t, rep, c16Target, tro)
	tro.Close()
}
