//go:build verif

package ethereum

// C40: lets the harness in pkg/tbtc run the real dkgResultSigner / dkgResultSubmitter /
// inactivity claim signer and submitter of pkg/tbtc on top of the real TbtcChain hashing,
// signing and assembly code. Overlaid (never part of /repo) by engine/props/C40.py.

import (
	"crypto/ecdsa"
	"math/big"

	"github.com/ethereum/go-ethereum/accounts/keystore"
	"github.com/ethereum/go-ethereum/crypto"

	ecdsaabi "github.com/keep-network/keep-core/pkg/chain/ethereum/ecdsa/gen/abi"
	"github.com/keep-network/keep-core/pkg/tbtc"
)

// VerifC40NewTbtcChain builds a TbtcChain that has the operator's chain key and the chain ID but
// no contract bindings: every method that talks to a contract must be overridden by the caller.
func VerifC40NewTbtcChain(key *ecdsa.PrivateKey, chainID *big.Int) *TbtcChain {
	return &TbtcChain{baseChain: &baseChain{
		key:     &keystore.Key{Address: crypto.PubkeyToAddress(key.PublicKey), PrivateKey: key},
		chainID: chainID,
	}}
}

// VerifC40DkgResultToAbi is the conversion SubmitDKGResult / IsDKGResultValid apply before the contract call.
func VerifC40DkgResultToAbi(r *tbtc.DKGChainResult) ecdsaabi.EcdsaDkgResult {
	return convertDkgResultToAbiType(r)
}

// VerifC40ClaimToAbi is the conversion SubmitInactivityClaim applies before the contract call.
func VerifC40ClaimToAbi(c *tbtc.InactivityClaim) ecdsaabi.EcdsaInactivityClaim {
	return convertInactivityClaimToAbiType(c)
}
