//go:build verif

package ethereum

// C40 conformance harness, chain-format side (specs/ChainRules).
//
// Every case emitted by TLC from ChainRules / InactivityClaim is replayed on
// the real functions of tbtc.go and signer.go:
//
//	SignResult / SignClaim   CalculateDKGResultSignatureHash / CalculateInactivityClaimHash on a TbtcChain of the
//	                         seat's operator (its chain key and chain ID), then Signing().Sign
//	Collect                  Signing().VerifyWithPublicKey of the submitting member (the whole body of
//	                         dkgResultSigner.VerifySignature / inactivityClaimSigner.VerifySignature)
//	Assemble                 AssembleDKGResult / AssembleInactivityClaim with the inputs in a seeded random order,
//	                         convertDkgResultToAbiType / convertInactivityClaimToAbiType
//	RegisterSigner           calculateWalletID, computeOperatorsIDsHash
//
// and compared, after every step, with the specification: hashes through the
// abstraction function of internal/verifc40 (an ABI encoder + keccak written
// from the Solidity text), result fields one by one, the contract's verdict
// through the Go transcription of the validator (compared with the TLA+
// transcription's verdict on every case), signatures by OpenZeppelin's
// recover rules. The signature gates of pkg/tbtc are replayed by the harness
// in pkg/tbtc.

import (
	"bytes"
	"crypto/ecdsa"
	"fmt"
	"math/big"
	"math/rand"
	"sort"
	"testing"

	"github.com/ethereum/go-ethereum/accounts/keystore"
	"github.com/ethereum/go-ethereum/crypto"

	c40 "github.com/keep-network/keep-core/internal/verifc40"
	kit "github.com/keep-network/keep-core/internal/verifkit"
	"github.com/keep-network/keep-core/pkg/chain"
	ecdsaabi "github.com/keep-network/keep-core/pkg/chain/ethereum/ecdsa/gen/abi"
	"github.com/keep-network/keep-core/pkg/protocol/group"
	"github.com/keep-network/keep-core/pkg/protocol/inactivity"
	"github.com/keep-network/keep-core/pkg/tbtc"
)

type c40Op struct {
	id    uint32
	key   *ecdsa.PrivateKey
	addr  c40.Address
	chain *TbtcChain
}

func c40NewChain(key *ecdsa.PrivateKey, chainID *big.Int) *TbtcChain {
	return &TbtcChain{baseChain: &baseChain{
		key:     &keystore.Key{Address: crypto.PubkeyToAddress(key.PublicKey), PrivateKey: key},
		chainID: chainID,
	}}
}

// c40World is the concrete world of one case: operators with chain keys, the sortition pool view.
type c40World struct {
	idmap    func(int) uint32
	chainID  *big.Int
	ops      map[uint32]*c40Op
	stranger *c40Op
	rnd      *rand.Rand
}

func c40NewWorld(abstractIDs []int, chainID *big.Int, pick int, rnd *rand.Rand) *c40World {
	w := &c40World{idmap: c40.IDMaps[pick%len(c40.IDMaps)], chainID: chainID, ops: map[uint32]*c40Op{}, rnd: rnd}
	for _, a := range abstractIDs {
		id := w.idmap(a)
		if _, ok := w.ops[id]; !ok {
			k := c40.OperatorKey(id)
			w.ops[id] = &c40Op{id: id, key: k, addr: c40.PubkeyAddress(&k.PublicKey), chain: c40NewChain(k, chainID)}
		}
	}
	sk := c40.StrangerKey()
	w.stranger = &c40Op{key: sk, addr: c40.PubkeyAddress(&sk.PublicKey), chain: c40NewChain(sk, chainID)}
	return w
}

func (w *c40World) operators() map[uint32]c40.Address {
	out := map[uint32]c40.Address{}
	for id, op := range w.ops {
		out[id] = op.addr
	}
	return out
}

func c40Shuffled(rnd *rand.Rand, xs []int) []group.MemberIndex {
	out := make([]group.MemberIndex, len(xs))
	for i, x := range xs {
		out[i] = group.MemberIndex(x)
	}
	rnd.Shuffle(len(out), func(i, j int) { out[i], out[j] = out[j], out[i] })
	return out
}

func c40Pick(c kit.V) int {
	h := kit.Hash(c.Get("in").X)
	var x int
	fmt.Sscanf(h[:6], "%x", &x)
	return x + int(kit.Seed())*7919
}

func c40Catch(f func()) (perr interface{}) {
	defer func() { perr = recover() }()
	f()
	return nil
}

type c40Offer struct {
	seat int
	kind string
	sig  []byte
	pub  []byte
}

// c40Signatures produces the submitter's own signature and the broadcast messages of the other seats.
// hashOf(op, other) computes the real hash on op's chain (other = over the neighbouring preimage).
func c40Signatures(rep *kit.Report, key string, c kit.V, w *c40World, seatOp func(int) *c40Op, submitter int, offers []kit.V,
	want [32]byte, hashOf func(op *c40Op, other bool) ([32]byte, error)) (own []byte, hash [32]byte, out []c40Offer, ok bool) {
	signWith := func(op *c40Op, other bool) ([]byte, [32]byte, bool) {
		h, err := hashOf(op, other)
		if err != nil {
			rep.Diverge(key+":hash-error", "the signature hash could not be computed for valid inputs: "+err.Error(), c.X, nil, nil)
			return nil, h, false
		}
		if !other && h != want {
			rep.Diverge(key+":hash", "the hash the client signs differs from the hash the contract recomputes", c.X,
				fmt.Sprintf("%x", want), fmt.Sprintf("%x", h))
			return nil, h, false
		}
		sig, err := op.chain.Signing().Sign(h[:])
		if err != nil {
			rep.Diverge(key+":sign-error", "signing failed: "+err.Error(), c.X, nil, nil)
			return nil, h, false
		}
		return sig, h, true
	}
	subOp := seatOp(submitter)
	own, hash, ok = signWith(subOp, false)
	if !ok {
		return
	}
	// every honest signature must be what the contract's recover maps to the signer
	checkHonest := func(op *c40Op, sig []byte) bool {
		rec, err := c40.OZRecover(c40.EthSignedMessageHash(want), sig)
		if err != nil || rec != op.addr {
			rep.Diverge(key+":sign-recover", fmt.Sprintf("a signature produced by the client does not recover to its signer under the contract's message hash (%v)", err),
				c.X, fmt.Sprintf("%x", op.addr), fmt.Sprintf("%x sig=%x", rec, sig))
			return false
		}
		return true
	}
	if !checkHonest(subOp, own) {
		return nil, hash, nil, false
	}
	for _, o := range offers {
		seat, kind := o.Idx(0).Int(), o.Idx(1).Str()
		if kind == "none" {
			continue
		}
		op := seatOp(seat)
		honest, _, ok1 := signWith(op, false)
		if !ok1 {
			return nil, hash, nil, false
		}
		if !checkHonest(op, honest) {
			return nil, hash, nil, false
		}
		var mis, str []byte
		if kind == "mislabelled" {
			if mis, _, ok1 = signWith(op, true); !ok1 {
				return nil, hash, nil, false
			}
		}
		if kind == "otherOperator" {
			if str, _, ok1 = signWith(w.stranger, false); !ok1 {
				return nil, hash, nil, false
			}
		}
		out = append(out, c40Offer{seat: seat, kind: kind, sig: c40.Adversarial(kind, honest, mis, str), pub: op.chain.Signing().PublicKey()})
	}
	return own, hash, out, true
}

// c40Collect runs the submitting member's signature verification over the offers and compares the accepted set.
// It returns the signatures map handed to the assembly and the hazard kinds the real code accepted.
func c40Collect(rep *kit.Report, key string, c kit.V, subOp *c40Op, submitter int, own []byte, hash [32]byte, offers []c40Offer,
	expected []int) (map[group.MemberIndex][]byte, []string, bool) {
	exp := map[int]bool{}
	for _, s := range expected {
		exp[s] = true
	}
	sigs := map[group.MemberIndex][]byte{group.MemberIndex(submitter): own}
	var hazards []string
	good := true
	for _, o := range offers {
		var ok bool
		var err error
		if p := c40Catch(func() { ok, err = subOp.chain.Signing().VerifyWithPublicKey(hash[:], o.sig, o.pub) }); p != nil {
			rep.Diverge(key+":verify-panic:"+o.kind, fmt.Sprintf("VerifyWithPublicKey panicked on a %s message: %v", o.kind, p), c.X, nil, nil)
			good = false
			continue
		}
		accepted := ok && err == nil
		rep.Count("verify/"+o.kind+fmt.Sprintf("/%v", accepted), 1)
		switch {
		case accepted && exp[o.seat]:
			sigs[group.MemberIndex(o.seat)] = o.sig
		case accepted && !exp[o.seat]:
			if c40.HazardKinds[o.kind] {
				hazards = append(hazards, o.kind)
				sigs[group.MemberIndex(o.seat)] = o.sig
			} else {
				rep.Diverge(key+":verify-accepted:"+o.kind, "VerifySignature accepted a "+o.kind+" message the specification rejects", c.X, expected, o.seat)
				good = false
			}
		case !accepted && exp[o.seat]:
			rep.Diverge(key+":verify-rejected:"+o.kind, fmt.Sprintf("VerifySignature rejected a %s message the specification accepts (err=%v)", o.kind, err), c.X, expected, o.seat)
			good = false
		}
	}
	return sigs, hazards, good
}

func c40Ints(xs []group.MemberIndex) []int {
	out := make([]int, len(xs))
	for i, x := range xs {
		out[i] = int(x)
	}
	return out
}

func c40SameInts(a, b []int) bool {
	if len(a) != len(b) {
		return false
	}
	for i := range a {
		if a[i] != b[i] {
			return false
		}
	}
	return true
}

func c40ToSol(r ecdsaabi.EcdsaDkgResult) c40.DkgResult {
	return c40.DkgResult{SubmitterMemberIndex: r.SubmitterMemberIndex, GroupPubKey: r.GroupPubKey,
		MisbehavedMembersIndices: r.MisbehavedMembersIndices, Signatures: r.Signatures,
		SigningMembersIndices: r.SigningMembersIndices, Members: r.Members, MembersHash: r.MembersHash}
}

func TestVerif_C40_Dkg(t *testing.T) {
	kit.RequireEngine(t)
	rep := kit.NewReport("C40", "dkg")
	defer rep.Write(t)
	cases := kit.LoadCases(t, "cases.ndjson")
	for _, c := range cases {
		if c.Get("pc").Str() == "aborted" {
			continue // the chain-state branch of SubmitResult: replayed in pkg/tbtc
		}
		in := c.Get("in")
		pick := c40Pick(c)
		rnd := rand.New(rand.NewSource(int64(pick)))
		key := "dkg:" + kit.Hash(in.X)
		env := in.Get("env")
		chainID := c40.IntOf(env.Get("chainID").Str(), pick)
		startBlock := c40.IntOf(env.Get("startBlock").Str(), pick/3)
		otherBlock := c40.IntOf("anotherBlock", 0)
		groupKey, keyBytes, err := c40.GroupKey(env.Get("key").Str(), pick/5)
		if err != nil {
			t.Fatal(err)
		}
		members := in.Get("members").Ints()
		n := in.Get("n").Int()
		w := c40NewWorld(members, chainID, pick/7, rnd)
		ids := make(chain.OperatorIDs, len(members))
		addrs := make(chain.Addresses, len(members))
		for i, a := range members {
			ids[i] = w.idmap(a)
			addrs[i] = chain.Address(fmt.Sprintf("0x%x", w.ops[ids[i]].addr))
		}
		seatOp := func(s int) *c40Op { return w.ops[ids[s-1]] }
		alpha := &c40.Alpha{
			Ints:  map[string]*big.Int{env.Get("chainID").Str(): chainID, env.Get("startBlock").Str(): startBlock, "anotherBlock": otherBlock},
			Keys:  map[string][]byte{env.Get("key").Str(): keyBytes},
			IDMap: w.idmap,
		}
		misb := in.Get("misbehaved").Ints()
		isMisb := map[int]bool{}
		for _, m := range misb {
			isMisb[m] = true
		}
		var operating []int
		for s := 1; s <= n; s++ {
			if !isMisb[s] {
				operating = append(operating, s)
			}
		}
		submitter := in.Get("submitter").Int()
		subOp := seatOp(submitter)
		nontrivial := ""
		if c.Get("gate").Bool() {
			nontrivial = key
		}
		rep.Eval(nontrivial, c.X)
		rep.Count("pc/"+c.Get("pc").Str(), 1)

		// ---- SignResult: the hash and the signatures
		want := alpha.Eval(c.Get("preferredHash"))
		hashOf := func(op *c40Op, other bool) (h [32]byte, err error) {
			sb := startBlock
			if other {
				sb = otherBlock
			}
			if p := c40Catch(func() {
				rh, e := op.chain.CalculateDKGResultSignatureHash(
					&ecdsa.PublicKey{Curve: groupKey.Curve, X: new(big.Int).Set(groupKey.X), Y: new(big.Int).Set(groupKey.Y)},
					c40Shuffled(rnd, misb), sb.Uint64())
				h, err = [32]byte(rh), e
			}); p != nil {
				err = fmt.Errorf("panic: %v", p)
			}
			return
		}
		own, hash, offers, ok := c40Signatures(rep, key, c, w, seatOp, submitter, in.Get("offers").List(), want, hashOf)
		if !ok {
			continue
		}
		// ---- Collect
		sigs, hazards, ok := c40Collect(rep, key, c, subOp, submitter, own, hash, offers, c.Get("accepted").Ints())
		if !ok {
			continue
		}
		// ---- Assemble + the contract's view
		view := c.Get("result")
		gated := true
		if view.Has("none") {
			view, gated = c.Get("ungated"), false
		}
		if view.Has("none") && len(hazards) == 0 {
			continue
		}
		var res *tbtc.DKGChainResult
		var aerr error
		sigCopy := map[group.MemberIndex][]byte{}
		for k, v := range sigs {
			sigCopy[k] = append([]byte{}, v...)
		}
		if p := c40Catch(func() {
			res, aerr = subOp.chain.AssembleDKGResult(group.MemberIndex(submitter), groupKey, c40Shuffled(rnd, operating),
				c40Shuffled(rnd, misb), sigCopy, &tbtc.GroupSelectionResult{OperatorsIDs: ids, OperatorsAddresses: addrs})
		}); p != nil {
			rep.Diverge(key+":assemble-panic", fmt.Sprintf("AssembleDKGResult panicked: %v", p), c.X, nil, nil)
			continue
		}
		validator := c40.DkgValidator{GroupSize: n, GroupThreshold: in.Get("threshold").Int(), ActiveThreshold: in.Get("active").Int(),
			ChainID: chainID, Pool: c40.Pool{Selected: ids, Operators: w.operators()}}
		if len(hazards) > 0 {
			// the real VerifySignature accepted a message of the hazard grain: the property now requires the
			// assembled result to be valid all the same
			rep.Count("hazard-realized", 1)
			sort.Strings(hazards)
			hk := "sig-accepted:" + hazards[0]
			if aerr != nil {
				rep.Diverge(hk, "VerifySignature accepted a "+hazards[0]+" signature message; with it the result cannot be assembled ("+aerr.Error()+"): the member fails instead of submitting", c.X, "accepted = "+c.Get("accepted").JSON(), nil)
				continue
			}
			valid, msg := validator.Validate(c40ToSol(convertDkgResultToAbiType(res)), startBlock)
			enough := len(sigs) >= in.Get("quorum").Int()
			if !valid && (enough || msg == "Invalid signatures" || msg == "revert") {
				rep.Diverge(hk, "VerifySignature accepted a "+hazards[0]+" signature message; the assembled result is rejected by the contract ("+msg+")", c.X, "accepted = "+c.Get("accepted").JSON(), msg)
			}
			continue
		}
		if aerr != nil {
			rep.Diverge(key+":assemble-error", "AssembleDKGResult failed on valid inputs: "+aerr.Error(), c.X, view.X, nil)
			continue
		}
		rep.Count("assembled", 1)
		var problems []string
		if int(res.SubmitterMemberIndex) != view.Get("submitterMemberIndex").Int() {
			problems = append(problems, fmt.Sprintf("submitter index %d", res.SubmitterMemberIndex))
		}
		if !bytes.Equal(res.GroupPublicKey, keyBytes) {
			problems = append(problems, fmt.Sprintf("group public key %x, expected X32||Y32 = %x", res.GroupPublicKey, keyBytes))
		}
		if !c40SameInts(c40Ints(res.MisbehavedMembersIndexes), view.Get("misbehavedMembersIndices").Ints()) {
			problems = append(problems, fmt.Sprintf("misbehaved indices %v", res.MisbehavedMembersIndexes))
		}
		wantIdx := view.Get("signingMembersIndices").Ints()
		if !c40SameInts(c40Ints(res.SigningMembersIndexes), wantIdx) {
			problems = append(problems, fmt.Sprintf("signing indices %v", res.SigningMembersIndexes))
		}
		var wantSigs []byte
		for _, s := range wantIdx {
			wantSigs = append(wantSigs, sigs[group.MemberIndex(s)]...)
		}
		if !bytes.Equal(res.Signatures, wantSigs) {
			problems = append(problems, "signatures are not the members' signatures concatenated in index order")
		}
		if len(res.Members) != len(ids) {
			problems = append(problems, "members length")
		} else {
			for i := range ids {
				if res.Members[i] != ids[i] {
					problems = append(problems, fmt.Sprintf("members[%d]", i))
				}
			}
		}
		if wantMH := alpha.Eval(view.Get("membersHash")); res.MembersHash != wantMH {
			problems = append(problems, fmt.Sprintf("members hash %x, contract definition gives %x", res.MembersHash, wantMH))
		}
		sol := c40ToSol(convertDkgResultToAbiType(res))
		if d := validator.SignedDigest(sol, startBlock); d != alpha.Eval(view.Get("contractDigest")) {
			problems = append(problems, "the contract's message hash of the assembled result is not the specified one")
		}
		if d := validator.SignedDigest(sol, startBlock); d != c40.EthSignedMessageHash(hash) {
			problems = append(problems, "the contract's message hash of the assembled result is not the hash the members signed")
		}
		gm, gerr := validator.GroupMembers(sol)
		wantGM := view.Get("contractGroupMembers").Ints()
		if gerr == nil {
			if len(gm) != len(wantGM) {
				problems = append(problems, "contract group members length")
			} else {
				for i := range gm {
					if gm[i] != w.idmap(wantGM[i]) && !(wantGM[i] == 0 && gm[i] == 0) {
						problems = append(problems, fmt.Sprintf("contract group member %d", i))
					}
				}
			}
		}
		valid, msg := validator.Validate(sol, startBlock)
		rep.Count("verdict/"+msg, 1)
		if valid != view.Get("valid").Bool() || msg != view.Get("msg").Str() {
			problems = append(problems, fmt.Sprintf("contract verdict (%v, %q), specified (%v, %q)", valid, msg, view.Get("valid").Bool(), view.Get("msg").Str()))
		}
		if gated && !valid {
			problems = append(problems, "the result passed the client's gate but is rejected by the contract: "+msg)
		}
		if validator.SubmitterRule(sol, subOp.addr) != view.Get("submitterRule").Bool() {
			problems = append(problems, "submitter rule")
		}
		// every signature recovers to the operator of its seat (per signature, not only through validate)
		if valid {
			dg := validator.SignedDigest(sol, startBlock)
			for i, s := range res.SigningMembersIndexes {
				rec, rerr := c40.OZRecover(dg, res.Signatures[65*i:65*i+65])
				if rerr != nil || rec != seatOp(int(s)).addr {
					problems = append(problems, fmt.Sprintf("signature %d does not recover to the operator of seat %d", i, s))
				}
			}
		}
		// ---- RegisterSigner
		if cl := c.Get("client"); !cl.Has("none") {
			wid, werr := calculateWalletID(groupKey)
			if werr != nil || wid != alpha.Eval(cl.Get("walletID")) || wid != c40.WalletID(sol.GroupPubKey) || wid != alpha.Eval(cl.Get("registryWalletID")) {
				problems = append(problems, fmt.Sprintf("wallet ID %x (err %v) is not keccak256 of the registered public key", wid, werr))
			}
			gmIDs := make(chain.OperatorIDs, 0)
			for _, a := range cl.Get("groupMembers").Ints() {
				gmIDs = append(gmIDs, w.idmap(a))
			}
			if h, herr := computeOperatorsIDsHash(gmIDs); herr != nil || h != res.MembersHash {
				problems = append(problems, "hash of the final signing group's member IDs is not the registered members hash")
			}
			rep.Count("registered", 1)
		}
		if len(problems) > 0 {
			rep.Diverge(key+":result", "assembled result differs from the specification: "+fmt.Sprint(problems), c.X, view.X, problems)
		}
	}
}

func TestVerif_C40_Claims(t *testing.T) {
	kit.RequireEngine(t)
	rep := kit.NewReport("C40", "claims")
	defer rep.Write(t)
	cases := kit.LoadCases(t, "claims.ndjson")
	for _, c := range cases {
		if c.Get("pc").Str() == "aborted" {
			continue
		}
		in := c.Get("in")
		pick := c40Pick(c)
		rnd := rand.New(rand.NewSource(int64(pick)))
		key := "claim:" + kit.Hash(in.X)
		env := in.Get("env")
		chainID := c40.IntOf(env.Get("chainID").Str(), pick)
		nonce := c40.IntOf(env.Get("nonce").Str(), pick/3)
		otherNonce := c40.IntOf("anotherNonce", 0)
		walletKey, keyBytes, err := c40.GroupKey(env.Get("key").Str(), pick/5)
		if err != nil {
			t.Fatal(err)
		}
		groupAbs := in.Get("group").Ints()
		w := c40NewWorld(groupAbs, chainID, pick/7, rnd)
		ids := make([]uint32, len(groupAbs))
		for i, a := range groupAbs {
			ids[i] = w.idmap(a)
		}
		seatOp := func(s int) *c40Op { return w.ops[ids[s-1]] }
		alpha := &c40.Alpha{
			Ints:  map[string]*big.Int{env.Get("chainID").Str(): chainID, env.Get("nonce").Str(): nonce, "anotherNonce": otherNonce},
			Keys:  map[string][]byte{env.Get("key").Str(): keyBytes},
			IDMap: w.idmap,
		}
		submitter := in.Get("submitter").Int()
		subOp := seatOp(submitter)
		nontrivial := ""
		if c.Get("pc").Str() == "done" {
			nontrivial = key
		}
		rep.Eval(nontrivial, c.X)
		rep.Count("pc/"+c.Get("pc").Str(), 1)

		// ---- NewClaim: the report lists seats in any order, possibly several times
		reported := c40Shuffled(rnd, in.Get("reported").Ints())
		for i := 0; i < len(reported) && rnd.Intn(2) == 0; i++ {
			reported = append(reported, reported[rnd.Intn(len(reported))])
		}
		mkClaim := func(n *big.Int) *inactivity.ClaimPreimage {
			return inactivity.NewClaimPreimage(n, walletKey, append([]group.MemberIndex{}, reported...), in.Get("heartbeat").Bool())
		}
		claim := mkClaim(nonce)
		if !c40SameInts(c40Ints(claim.InactiveMembersIndexes), c.Get("inactive").Ints()) {
			rep.Diverge(key+":preimage", "claim preimage does not hold the reported seats unique and sorted", c.X, c.Get("inactive").X, claim.InactiveMembersIndexes)
			continue
		}
		// ---- SignClaim
		want := alpha.Eval(c.Get("claimHash"))
		hashOf := func(op *c40Op, other bool) (h [32]byte, err error) {
			cl := claim
			if other {
				cl = mkClaim(otherNonce)
			}
			if p := c40Catch(func() {
				rh, e := op.chain.CalculateInactivityClaimHash(cl)
				h, err = [32]byte(rh), e
			}); p != nil {
				err = fmt.Errorf("panic: %v", p)
			}
			return
		}
		own, hash, offers, ok := c40Signatures(rep, key, c, w, seatOp, submitter, in.Get("offers").List(), want, hashOf)
		if !ok {
			continue
		}
		sigs, hazards, ok := c40Collect(rep, key, c, subOp, submitter, own, hash, offers, c.Get("accepted").Ints())
		if !ok {
			continue
		}
		// ---- the wallet as registered
		walletID, werr := calculateWalletID(walletKey)
		if werr != nil || walletID != alpha.Eval(c.Get("wallet").Get("walletID")) || walletID != c40.WalletID(keyBytes) {
			rep.Diverge(key+":walletID", "wallet ID is not keccak256 of the 64-byte public key", c.X, nil, fmt.Sprintf("%x %v", walletID, werr))
			continue
		}
		wallet := c40.RegisteredWallet{MembersIdsHash: alpha.Eval(c.Get("wallet").Get("membersIdsHash")), PublicKey: keyBytes, Nonce: nonce}
		if h, herr := computeOperatorsIDsHash(ids); herr != nil || h != wallet.MembersIdsHash {
			rep.Diverge(key+":membersIdsHash", "computeOperatorsIDsHash differs from keccak256(abi.encode(uint32[]))", c.X, nil, nil)
			continue
		}
		expClaim := c.Get("chainClaim")
		if expClaim.Has("none") && len(hazards) == 0 && c.Get("outcome").Str() != "too few signatures" {
			continue
		}
		// ---- Assemble (also for claims below the client's gate: the contract's answer is compared too)
		var cc *tbtc.InactivityClaim
		var aerr error
		sigCopy := map[group.MemberIndex][]byte{}
		for k, v := range sigs {
			sigCopy[k] = append([]byte{}, v...)
		}
		if p := c40Catch(func() {
			cc, aerr = subOp.chain.AssembleInactivityClaim(walletID, claim.InactiveMembersIndexes, sigCopy, claim.HeartbeatFailed)
		}); p != nil {
			rep.Diverge(key+":assemble-panic", fmt.Sprintf("AssembleInactivityClaim panicked: %v", p), c.X, nil, nil)
			continue
		}
		notify := func() (string, []uint32) {
			abi := convertInactivityClaimToAbiType(cc)
			return c40.NotifyOperatorInactivity(in.Get("threshold").Int(), chainID, w.operators(), wallet,
				c40.Claim{WalletID: abi.WalletID, InactiveMembersIndices: abi.InactiveMembersIndices, HeartbeatFailed: abi.HeartbeatFailed,
					Signatures: abi.Signatures, SigningMembersIndices: abi.SigningMembersIndices}, claim.Nonce, ids, subOp.addr)
		}
		if len(hazards) > 0 {
			rep.Count("hazard-realized", 1)
			sort.Strings(hazards)
			hk := "sig-accepted:" + hazards[0]
			if aerr != nil {
				rep.Diverge(hk, "VerifySignature accepted a "+hazards[0]+" signature message; with it the claim cannot be assembled ("+aerr.Error()+")", c.X, "accepted = "+c.Get("accepted").JSON(), nil)
				continue
			}
			if msg, _ := notify(); msg == "Invalid signature" || msg == "ECDSA: invalid signature" {
				rep.Diverge(hk, "VerifySignature accepted a "+hazards[0]+" signature message; the assembled claim is rejected by the contract ("+msg+")", c.X, "accepted = "+c.Get("accepted").JSON(), msg)
			}
			continue
		}
		if aerr != nil {
			rep.Diverge(key+":assemble-error", "AssembleInactivityClaim failed on valid inputs: "+aerr.Error(), c.X, nil, nil)
			continue
		}
		rep.Count("assembled", 1)
		var problems []string
		var wantSigs []byte
		var wantIdx []int
		for s := 1; s <= len(ids); s++ {
			if sg, ok := sigs[group.MemberIndex(s)]; ok {
				wantIdx = append(wantIdx, s)
				wantSigs = append(wantSigs, sg...)
			}
		}
		if !c40SameInts(c40Ints(cc.SigningMembersIndices), wantIdx) || !bytes.Equal(cc.Signatures, wantSigs) {
			problems = append(problems, "signing indices / signatures are not sorted by seat and aligned")
		}
		if !expClaim.Has("none") {
			if !c40SameInts(c40Ints(cc.SigningMembersIndices), expClaim.Get("signingMembersIndices").Ints()) {
				problems = append(problems, fmt.Sprintf("signing indices %v", cc.SigningMembersIndices))
			}
			if !c40SameInts(c40Ints(cc.InactiveMembersIndices), expClaim.Get("inactiveMembersIndices").Ints()) {
				problems = append(problems, fmt.Sprintf("inactive indices %v", cc.InactiveMembersIndices))
			}
			if cc.HeartbeatFailed != expClaim.Get("heartbeatFailed").Bool() || cc.WalletID != alpha.Eval(expClaim.Get("walletID")) {
				problems = append(problems, "heartbeat flag / wallet ID")
			}
		}
		msg, inactiveIDs := notify()
		rep.Count("notify/"+msg, 1)
		switch c.Get("pc").Str() {
		case "done":
			if msg != "" {
				problems = append(problems, "the claim passed the client's gate but the contract reverts: "+msg)
			} else {
				wantIDs := c.Get("inactiveMembers").Ints()
				if len(wantIDs) != len(inactiveIDs) {
					problems = append(problems, "number of punished operators")
				} else {
					for i := range wantIDs {
						if w.idmap(wantIDs[i]) != inactiveIDs[i] {
							problems = append(problems, fmt.Sprintf("punished operator %d", i))
						}
					}
				}
			}
		case "failed":
			if c.Get("outcome").Str() == "too few signatures" {
				// below the client's gate: the contract may only object to the number of signatures
				if msg != "" && msg != "Too few signatures" {
					problems = append(problems, "contract objects to a gate-less claim for another reason: "+msg)
				}
			} else if msg != c.Get("outcome").Str() {
				problems = append(problems, fmt.Sprintf("contract reverts with %q, specified %q", msg, c.Get("outcome").Str()))
			}
		}
		if len(problems) > 0 {
			rep.Diverge(key+":claim", "assembled claim differs from the specification: "+fmt.Sprint(problems), c.X, c.X, problems)
		}
	}
}

// TestVerif_C40_Encodings compares the hashing / conversion helpers with the independent encoder on inputs larger
// than the model's (arrays of up to 130 elements move every ABI offset) and takes their error branches.
func TestVerif_C40_Encodings(t *testing.T) {
	kit.RequireEngine(t)
	rep := kit.NewReport("C40", "encodings")
	defer rep.Write(t)
	rnd := kit.Rand(4040)
	runs := kit.IntEnv("VERIF_RUNS", 60)
	big32 := func(xs []uint32) []*big.Int {
		out := make([]*big.Int, len(xs))
		for i, x := range xs {
			out[i] = new(big.Int).SetUint64(uint64(x))
		}
		return out
	}
	keyClasses := []string{"kFull", "kShortX", "kShortY", "kShortXY"}
	for run := 0; run < runs; run++ {
		key := fmt.Sprintf("enc:%d", run)
		// ---- computeOperatorsIDsHash
		n := []int{0, 1, 2, 51, 90, 100, 130, rnd.Intn(130)}[rnd.Intn(8)]
		ids := make(chain.OperatorIDs, n)
		for i := range ids {
			ids[i] = []uint32{0, 1, 0xFFFFFFFF, rnd.Uint32(), uint32(rnd.Intn(300))}[rnd.Intn(5)]
		}
		h, err := computeOperatorsIDsHash(ids)
		rep.Eval(key+"ids", map[string]interface{}{"ids": len(ids)})
		if err != nil || h != c40.Keccak(c40.AbiEncode(c40.Arr("uint32[]", big32(ids)))) {
			rep.Diverge("enc:membersHash", fmt.Sprintf("computeOperatorsIDsHash differs from keccak256(abi.encode(uint32[])) for %d IDs (err %v)", n, err), ids, nil, nil)
		}
		// ---- calculateDKGResultSignatureHash
		cls := keyClasses[rnd.Intn(4)]
		pub, kb, kerr := c40.GroupKey(cls, rnd.Intn(8))
		if kerr != nil {
			t.Fatal(kerr)
		}
		chainID := c40.IntOf([]string{"cMainnet", "cSepolia", "cDev", "cWide"}[rnd.Intn(4)], rnd.Intn(8))
		sb := c40.IntOf([]string{"bZero", "bSmall", "bLarge"}[rnd.Intn(3)], rnd.Intn(8))
		nm := []int{0, 1, 10, 11, 49, rnd.Intn(100)}[rnd.Intn(6)]
		var misb []group.MemberIndex
		var misbBig []*big.Int
		for _, p := range rnd.Perm(100)[:nm] {
			misb = append(misb, group.MemberIndex(p+1))
		}
		sort.Slice(misb, func(i, j int) bool { return misb[i] < misb[j] })
		for _, m := range misb {
			misbBig = append(misbBig, big.NewInt(int64(m)))
		}
		dh, err := calculateDKGResultSignatureHash(chainID, kb, misb, sb)
		want := c40.Keccak(c40.AbiEncode(c40.U256(chainID), c40.Bytes(kb), c40.Arr("uint8[]", misbBig), c40.U256(sb)))
		rep.Eval(key+"dkg", nil)
		if err != nil || [32]byte(dh) != want {
			rep.Diverge("enc:dkgHash", fmt.Sprintf("calculateDKGResultSignatureHash differs from the contract's keccak256(abi.encode(chainid, key, uint8[%d], startBlock)) (err %v)", nm, err), nil, nil, nil)
		}
		// the method: key marshalled from the point, indexes in any order
		tc := c40NewChain(c40.StrangerKey(), chainID)
		shuffled := append([]group.MemberIndex{}, misb...)
		rnd.Shuffle(len(shuffled), func(i, j int) { shuffled[i], shuffled[j] = shuffled[j], shuffled[i] })
		mh, err := tc.CalculateDKGResultSignatureHash(pub, shuffled, sb.Uint64())
		if err != nil || [32]byte(mh) != want {
			rep.Diverge("enc:dkgHashMethod", fmt.Sprintf("CalculateDKGResultSignatureHash (key class %s, unsorted indexes) differs from the contract's hash (err %v)", cls, err), nil, nil, nil)
		}
		for _, badLen := range []int{0, 32, 63, 65} {
			bad := make([]byte, badLen)
			copy(bad, kb)
			if _, err := calculateDKGResultSignatureHash(chainID, bad, misb, sb); err == nil {
				rep.Diverge("enc:dkgHashKeyLen", fmt.Sprintf("calculateDKGResultSignatureHash accepted a %d-byte key (the contract requires 64)", badLen), nil, nil, nil)
			}
			if _, err := calculateInactivityClaimHash(chainID, sb, bad, misbBig, true); err == nil {
				rep.Diverge("enc:claimHashKeyLen", fmt.Sprintf("calculateInactivityClaimHash accepted a %d-byte key", badLen), nil, nil, nil)
			}
		}
		// ---- calculateInactivityClaimHash
		nonce := c40.IntOf([]string{"nZero", "nSmall", "nLarge"}[rnd.Intn(3)], rnd.Intn(8))
		hb := rnd.Intn(2) == 0
		ch, err := calculateInactivityClaimHash(chainID, nonce, kb, misbBig, hb)
		wantC := c40.Keccak(c40.AbiEncode(c40.U256(chainID), c40.U256(nonce), c40.Bytes(kb), c40.Arr("uint256[]", misbBig), c40.Bool(hb)))
		rep.Eval(key+"claim", nil)
		if err != nil || [32]byte(ch) != wantC {
			rep.Diverge("enc:claimHash", fmt.Sprintf("calculateInactivityClaimHash differs from the contract's hash (%d indexes, err %v)", nm, err), nil, nil, nil)
		}
		cm, err := tc.CalculateInactivityClaimHash(&inactivity.ClaimPreimage{Nonce: nonce, WalletPublicKey: pub, InactiveMembersIndexes: misb, HeartbeatFailed: hb})
		if err != nil || [32]byte(cm) != wantC {
			rep.Diverge("enc:claimHashMethod", fmt.Sprintf("CalculateInactivityClaimHash (key class %s) differs from the contract's hash (err %v)", cls, err), nil, nil, nil)
		}
		// ---- wallet ID and public key format
		wid, err := calculateWalletID(pub)
		ser, err2 := convertPubKeyToChainFormat(pub)
		rep.Eval(key+"wallet", nil)
		if err != nil || err2 != nil || !bytes.Equal(ser[:], kb) || wid != c40.Keccak(kb) {
			rep.Diverge("enc:walletID", "wallet ID / chain format of a "+cls+" key is not keccak256(X32||Y32)", nil, nil, nil)
		}
		// ---- convertSignaturesToChainFormat
		ns := []int{0, 1, 51, 90, 100, rnd.Intn(100)}[rnd.Intn(6)]
		sigs := map[group.MemberIndex][]byte{}
		for _, p := range rnd.Perm(255)[:ns] {
			s := make([]byte, 65)
			rnd.Read(s)
			sigs[group.MemberIndex(p+1)] = s
		}
		idx, flat, err := convertSignaturesToChainFormat(sigs)
		rep.Eval(key+"sigs", nil)
		okFmt := err == nil && len(idx) == ns && len(flat) == 65*ns
		for i := 0; okFmt && i < len(idx); i++ {
			if i > 0 && idx[i-1] >= idx[i] {
				okFmt = false
			}
			if !bytes.Equal(flat[65*i:65*i+65], sigs[idx[i]]) {
				okFmt = false
			}
		}
		if !okFmt {
			rep.Diverge("enc:signatures", fmt.Sprintf("convertSignaturesToChainFormat: %d signatures are not returned sorted by member index and aligned (err %v)", ns, err), nil, nil, nil)
		}
		if ns > 0 {
			victim := idx[rnd.Intn(len(idx))]
			for _, l := range []int{0, 64, 66} {
				sigs[victim] = make([]byte, l)
				if _, _, err := convertSignaturesToChainFormat(sigs); err == nil {
					rep.Diverge("enc:signatureLen", fmt.Sprintf("convertSignaturesToChainFormat accepted a %d-byte signature (the contract slices 65 bytes per index)", l), nil, nil, nil)
				}
			}
		}
		// ---- ABI round trip of a result (event decoding)
		r := &tbtc.DKGChainResult{SubmitterMemberIndex: group.MemberIndex(1 + rnd.Intn(100)), GroupPublicKey: kb, MisbehavedMembersIndexes: misb,
			Signatures: flat, SigningMembersIndexes: idx, Members: ids, MembersHash: h}
		back, err := convertDkgResultFromAbiType(convertDkgResultToAbiType(r))
		rep.Eval(key+"roundtrip", nil)
		if err != nil || fmt.Sprint(*back) != fmt.Sprint(*r) {
			rep.Diverge("enc:roundtrip", fmt.Sprintf("a result does not survive the conversion to the ABI type and back (err %v)", err), nil, nil, nil)
		}
	}
}
