//go:build verif

package entry

// C03 conformance harness, direct calls of unexported helpers. Kept in its
// own file: if the signature of extractAndValidateShare changes this file no
// longer builds and the engine runs the SignAndSubmit-level replay
// (c03_test.go) without it.

import (
	"encoding/hex"
	"fmt"
	"testing"

	bn256 "github.com/ethereum/go-ethereum/crypto/bn256/cloudflare"

	kit "github.com/keep-network/keep-core/internal/verifkit"
	"github.com/keep-network/keep-core/pkg/protocol/group"
)

// ------------------------------------------------------------------ direct

func TestVerif_C03_Shares(t *testing.T) {
	kit.RequireEngine(t)
	rep := kit.NewReport("C03", "shares")
	defer rep.Write(t)
	r := kit.Rand(304)
	rounds := kit.IntEnv("VERIF_SHARE_ROUNDS", 3)
	for round := 0; round < rounds; round++ {
		n := 3 + r.Intn(4)
		h := n/2 + 1
		g := newC03Group(r, n, h)
		known := map[group.MemberIndex]*bn256.G2{}
		unknown := 1 + r.Intn(n) // one member without a public key share
		for j := 1; j <= n; j++ {
			if j != unknown || round%2 == 0 {
				known[group.MemberIndex(j)] = g.pkShares[j]
			}
		}
		for sender := 1; sender <= n+1; sender++ {
			for signer := 1; signer <= n+1; signer++ {
				for _, msg := range []string{"prev", "other", "inf", "garbage"} {
					if (msg == "inf" || msg == "garbage") && signer != 1 {
						continue
					}
					sh := kit.V{X: map[string]interface{}{"signer": float64(signer), "msg": msg}}
					bytes := g.shareBytes(r, sh)
					_, isKnown := known[group.MemberIndex(sender)]
					want := msg == "prev" && signer == sender && isKnown
					var share *bn256.G1
					var err error
					func() {
						defer func() {
							if p := recover(); p != nil {
								err = fmt.Errorf("panic: %v", p)
								if want {
									rep.Diverge(fmt.Sprintf("share:panic:%s", msg), "extractAndValidateShare panicked on a correct share", sh.X, "accept", fmt.Sprint(p))
								}
							}
						}()
						share, err = extractAndValidateShare(NewSignatureShareMessage(group.MemberIndex(sender), bytes, g.session("cur")), known, g.prev)
					}()
					id := fmt.Sprintf("sender=%d,signer=%d,msg=%s,known=%v", sender, signer, msg, isKnown)
					kind := fmt.Sprintf("%s/same=%v/known=%v", msg, sender == signer, isKnown)
					rep.Eval(kind, map[string]interface{}{"case": id, "accept": want})
					got := err == nil
					switch {
					case got && !want:
						rep.Diverge("share:accepted:"+kind, "extractAndValidateShare accepted a share that does not verify under the sender's public key share ("+id+")", sh.X, "reject", "accept")
					case !got && want:
						rep.Diverge("share:rejected:"+kind, "extractAndValidateShare rejected a correct share ("+id+"): "+err.Error(), sh.X, "accept", err.Error())
					case got && hex.EncodeToString(share.Marshal()) != hex.EncodeToString(bytes):
						rep.Diverge("share:altered:"+kind, "extractAndValidateShare returned a share different from the one received ("+id+")", sh.X, hex.EncodeToString(bytes), hex.EncodeToString(share.Marshal()))
					case !got && share != nil:
						rep.Diverge("share:leaked:"+kind, "extractAndValidateShare returned a share together with an error ("+id+")", sh.X, nil, "share")
					}
					if got {
						rep.Count("accepted", 1)
					} else {
						rep.Count("rejected", 1)
					}
				}
			}
		}
	}
}
