//go:build verif

package entry

// C47 conformance harness, relay entry submission (specs/Submission,
// Proto = "relayEntry"; specs/Submission/SlotCases).
//
//   TestVerif_C47_RelayEntry_Constants   hands the beacon chain configurations
//                                        of the code (ethereum GetConfig,
//                                        local_v1 for several group sizes) to
//                                        the engine, which gives them to TLC.
//   TestVerif_C47_RelayEntry_Slots       every member of every relay entry slot
//                                        case runs the real submitRelayEntry with
//                                        a recording block counter and real
//                                        entry bytes of the case's residue.
//   TestVerif_C47_RelayEntry_Behaviours  behaviours of Gen_Submission on the
//                                        real submitRelayEntry of every member.

import (
	"fmt"
	"math/big"
	"testing"

	"github.com/keep-network/keep-core/internal/testutils"
	kit "github.com/keep-network/keep-core/internal/verifkit"
	vs "github.com/keep-network/keep-core/internal/verifsub"
	beaconchain "github.com/keep-network/keep-core/pkg/beacon/chain"
	"github.com/keep-network/keep-core/pkg/chain/ethereum"
	"github.com/keep-network/keep-core/pkg/chain/local_v1"
	"github.com/keep-network/keep-core/pkg/operator"
	"github.com/keep-network/keep-core/pkg/protocol/group"
)

func TestVerif_C47_RelayEntry_Constants(t *testing.T) {
	kit.RequireEngine(t)
	rep := kit.NewReport("C47", "beacon_constants")
	defer rep.Write(t)
	var cfgs []map[string]interface{}
	add := func(src string, c *beaconchain.Config) {
		cfgs = append(cfgs, map[string]interface{}{"source": src, "n": c.GroupSize, "honest": c.HonestThreshold,
			"step": c.ResultPublicationBlockStep, "timeout": c.RelayEntryTimeout})
	}
	add("ethereum", (&ethereum.BeaconChain{}).GetConfig())
	key, _, err := operator.GenerateKeyPair(local_v1.DefaultCurve)
	if err != nil {
		t.Fatal(err)
	}
	for _, n := range []int{1, 2, 3, 4, 5, 8} {
		add("local_v1", local_v1.ConnectWithKey(n, n/2+1, key).GetConfig())
	}
	rep.Extra["configs"] = cfgs
	rep.Eval("configs", cfgs)
}

type c47Chain struct {
	beaconchain.Interface
	w   *vs.World
	m   *vs.Member
	cfg *beaconchain.Config
}

func (c *c47Chain) GetConfig() *beaconchain.Config { c.m.Call("GetConfig"); return c.cfg }

func (c *c47Chain) SubmitRelayEntry(entry []byte) error { return c.m.SubmitCall() }

func (c *c47Chain) IsEntryInProgress() (bool, error) {
	c.m.Call("IsEntryInProgress")
	c.w.Lock()
	f := c.m.SubmitFault
	c.w.Unlock()
	if f == "status" {
		return false, fmt.Errorf("verif: injected IsEntryInProgress failure")
	}
	return !c.w.IsDone(), nil
}

type c47Adapter struct {
	w         *vs.World
	cfg       *beaconchain.Config
	start     uint64
	entry     []byte
	submitted map[int]chan uint64
	timeout   map[int]chan uint64
}

// c47Entry builds relay entry bytes with the given residue modulo n: a random
// value of up to 32 bytes (salt 0: the residue itself, possibly the empty /
// zero entry) adjusted to the residue.
func c47Entry(n, e int, salt int64) []byte {
	if salt == 0 {
		return big.NewInt(int64(e)).Bytes() // e = 0 gives the empty byte string
	}
	r := kit.Rand(salt)
	buf := make([]byte, 1+r.Intn(32))
	r.Read(buf)
	v := new(big.Int).SetBytes(buf)
	v.Sub(v, new(big.Int).Mod(v, big.NewInt(int64(n))))
	v.Add(v, big.NewInt(int64(e)))
	return v.Bytes()
}

func newC47Adapter(w *vs.World, n int, step, timeout, start uint64, entry []byte) *c47Adapter {
	return &c47Adapter{w: w, start: start, entry: entry,
		cfg:       &beaconchain.Config{GroupSize: n, HonestThreshold: n/2 + 1, ResultPublicationBlockStep: step, RelayEntryTimeout: timeout},
		submitted: map[int]chan uint64{}, timeout: map[int]chan uint64{}}
}

func (a *c47Adapter) SingleCall() bool { return false }

func (a *c47Adapter) Start(i int, enough bool) {
	m := a.w.M(i)
	sub, to := make(chan uint64), make(chan uint64)
	a.w.Lock()
	a.submitted[i], a.timeout[i] = sub, to
	m.Started = true
	a.w.Unlock()
	res := &relayEntrySubmitter{
		logger:       &testutils.MockLogger{},
		chain:        &c47Chain{w: a.w, m: m, cfg: a.cfg},
		blockCounter: &vs.Counter{M: m},
		index:        group.MemberIndex(i),
	}
	go func() {
		var err error
		defer func() {
			if r := recover(); r != nil {
				a.w.Complain("member %d: submitRelayEntry panicked: %v", i, r)
				err = fmt.Errorf("panic: %v", r)
			}
			m.Finish(err)
		}()
		err = res.submitRelayEntry(a.entry, []byte{9, 9}, a.start, sub, to)
	}()
}

func c47Send(ch chan uint64, v uint64) bool {
	if ch == nil {
		return false
	}
	sent := false
	vs.Settle(func() bool {
		select {
		case ch <- v:
			sent = true
			return true
		default:
			return false
		}
	})
	return sent
}

func (a *c47Adapter) Deliver(i int, bounded bool) bool {
	a.w.Lock()
	ch, blk := a.submitted[i], a.w.Blk
	a.w.Unlock()
	ok := c47Send(ch, blk)
	if ok {
		a.w.M(i).MarkObserved()
	}
	return ok
}

func (a *c47Adapter) Timeout(i int) bool {
	a.w.Lock()
	ch, blk := a.timeout[i], a.w.Blk
	a.w.Unlock()
	return c47Send(ch, blk)
}

func (a *c47Adapter) Close() {}

func TestVerif_C47_RelayEntry_Behaviours(t *testing.T) {
	kit.RequireEngine(t)
	rep := kit.NewReport("C47", "relayentry_behaviours")
	defer rep.Write(t)
	for bi, b := range kit.LoadCases(t, "behaviours_relayEntry.ndjson") {
		p := b.Get("params")
		n, e := p.Get("n").Int(), p.Get("entryMod").Int()
		w := vs.NewWorld(p.Get("controlled").Ints())
		ad := newC47Adapter(w, n, uint64(p.Get("step").Int()), uint64(p.Get("timeout").Int()),
			uint64(p.Get("start").Int()), c47Entry(n, e, int64(bi%4)))
		nd := vs.Replay(t, rep, b, w, ad, fmt.Sprintf("relayEntry#%d", bi))
		key := ""
		if vs.Interesting(b) {
			key = kit.Hash([]interface{}{e, b.Get("steps").X})
		}
		rep.Eval(key, map[string]interface{}{"behaviour": bi, "entryMod": e, "steps": b.Get("steps").Len(), "divergences": nd})
		if rep.NDivergences() >= 8 {
			rep.Note("stopped after %d divergences", rep.NDivergences())
			break
		}
	}
}

func TestVerif_C47_RelayEntry_Slots(t *testing.T) {
	kit.RequireEngine(t)
	rep := kit.NewReport("C47", "relayentry_slots")
	defer rep.Write(t)
	for ci, c := range kit.LoadCases(t, "slotcases.ndjson") {
		cs := c.Get("case")
		if cs.Get("proto").Str() != "relayEntry" {
			continue
		}
		n := cs.Get("n").Int()
		members := make([]int, n)
		for i := range members {
			members[i] = i + 1
		}
		// two entries per case: the residue itself and a random multi-byte value
		for _, salt := range []int64{0, int64(1000 + ci)} {
			w := vs.NewWorld(members)
			ad := newC47Adapter(w, n, uint64(cs.Get("step").Int()), uint64(cs.Get("timeout").Int()),
				uint64(cs.Get("ref").Int()), c47Entry(n, cs.Get("e").Int(), salt))
			vs.ReplaySlots(t, rep, c, w, ad)
		}
		if rep.NDivergences() >= 12 {
			rep.Note("stopped after %d divergences", rep.NDivergences())
			break
		}
	}
}
