//go:build verif

package entry

// C03 conformance harness, share collection part (see
// /verif/specs/BlsRecovery/ShareCollection.tla).
//
//   TestVerif_C03_Collect  replays every behaviour emitted by
//       Gen_ShareCollection on the real SignAndSubmit: a fake broadcast
//       channel delivers the behaviour's messages in order (each symbolic
//       share realized with real BN254 values under GJKR-style summed
//       polynomials), a fake block counter / chain supplies the timeout and
//       relay-entry-submitted signals at the point the behaviour says.
//       Observed: the own broadcast share, whether and what SubmitRelayEntry
//       was called with (must be exactly the group signature and verify under
//       the group public key), the value SignAndSubmit returned, and -- on
//       timeout -- the number of valid shares the loop had collected (from the
//       returned error), which exposes accept/reject of every prefix because
//       the behaviour set is prefix closed.
//       Histories include several messages of the same sender (valid then
//       invalid, invalid then valid, valid then another valid-looking share)
//       and messages delivered after the threshold was reached.
//   (TestVerif_C03_Shares, the direct drive of extractAndValidateShare, lives
//   in c03_direct_test.go; this file uses exported identifiers and
//   SignAndSubmit only, so that it keeps building when helpers change.)

import (
	"context"
	"encoding/hex"
	"fmt"
	"math/big"
	"math/rand"
	"regexp"
	"strconv"
	"sync"
	"testing"
	"time"

	bn256 "github.com/ethereum/go-ethereum/crypto/bn256/cloudflare"

	kit "github.com/keep-network/keep-core/internal/verifkit"
	beaconchain "github.com/keep-network/keep-core/pkg/beacon/chain"
	"github.com/keep-network/keep-core/pkg/beacon/dkg"
	"github.com/keep-network/keep-core/pkg/beacon/event"
	"github.com/keep-network/keep-core/pkg/bls"
	"github.com/keep-network/keep-core/pkg/chain"
	"github.com/keep-network/keep-core/pkg/net"
	"github.com/keep-network/keep-core/pkg/protocol/group"
	"github.com/keep-network/keep-core/pkg/subscription"
)

const c03Wait = 60 * time.Second

// ------------------------------------------------------------------ group

type c03Group struct {
	n, h       int
	shares     map[int]*big.Int  // private key share of member 1..n+1 (n+1 = outsider)
	pkShares   map[int]*bn256.G2 // public key shares of members 1..n
	groupPk    *bn256.G2
	secret     *big.Int
	prev       *bn256.G1
	prevBytes  []byte
	other      *bn256.G1
	otherBytes []byte
}

func c03Scalar(r *rand.Rand) *big.Int {
	b := make([]byte, 40)
	r.Read(b)
	x := new(big.Int).SetBytes(b)
	x.Mod(x, bn256.Order)
	if x.Sign() == 0 {
		x.SetInt64(1)
	}
	return x
}

// newC03Group derives keys the way GJKR does: every member i deals a random
// polynomial f_i of degree h-1; member j's private key share is sum_i f_i(j),
// the group key is sum_i f_i(0) * G2.
func newC03Group(r *rand.Rand, n, h int) *c03Group {
	g := &c03Group{n: n, h: h, shares: map[int]*big.Int{}, pkShares: map[int]*bn256.G2{}}
	polys := make([][]*big.Int, n)
	g.secret = new(big.Int)
	for i := range polys {
		polys[i] = make([]*big.Int, h)
		for j := range polys[i] {
			polys[i][j] = c03Scalar(r)
		}
		g.secret.Add(g.secret, polys[i][0])
	}
	g.secret.Mod(g.secret, bn256.Order)
	for j := 1; j <= n; j++ {
		s := new(big.Int)
		for i := range polys {
			s.Add(s, bls.GetSecretKeyShare(polys[i], j).V)
		}
		s.Mod(s, bn256.Order)
		g.shares[j] = s
		g.pkShares[j] = new(bn256.G2).ScalarBaseMult(s)
	}
	g.shares[n+1] = c03Scalar(r) // an outsider's key
	g.groupPk = new(bn256.G2).ScalarBaseMult(g.secret)
	g.prev = new(bn256.G1).ScalarBaseMult(c03Scalar(r))
	g.prevBytes = g.prev.Marshal()
	g.other = new(bn256.G1).ScalarBaseMult(c03Scalar(r))
	g.otherBytes = g.other.Marshal()
	return g
}

func (g *c03Group) signer(self int, known []int) *dkg.ThresholdSigner {
	pks := map[group.MemberIndex]*bn256.G2{}
	for _, k := range known {
		pks[group.MemberIndex(k)] = g.pkShares[k]
	}
	return dkg.NewThresholdSigner(group.MemberIndex(self), g.groupPk, g.shares[self], pks, nil)
}

func (g *c03Group) groupSignature() *bn256.G1 { return bls.SignG1(g.secret, g.prev) }

// shareBytes realizes a symbolic share [signer, msg].
func (g *c03Group) shareBytes(r *rand.Rand, sh kit.V) []byte {
	switch sh.Get("msg").Str() {
	case "prev":
		return bls.SignG1(g.shares[sh.Get("signer").Int()], g.prev).Marshal()
	case "other":
		return bls.SignG1(g.shares[sh.Get("signer").Int()], g.other).Marshal()
	case "inf":
		return make([]byte, 64) // encoding of the point at infinity
	default: // garbage: bytes that are not the encoding of a curve point
		switch r.Intn(4) {
		case 0:
			return nil
		case 1:
			b := make([]byte, 63)
			r.Read(b)
			return b
		case 2:
			b := make([]byte, 64)
			r.Read(b)
			b[0] &= 0x1f // coordinates below the modulus, almost surely not on the curve
			b[32] &= 0x1f
			return b
		default:
			b := make([]byte, 64)
			for i := range b {
				b[i] = 0xff // coordinates above the field modulus
			}
			return b
		}
	}
}

func (g *c03Group) session(s string) string {
	if s == "cur" {
		return hex.EncodeToString(g.prevBytes)
	}
	return hex.EncodeToString(g.otherBytes)
}

// ------------------------------------------------------------------ fakes

type c03Log struct {
	mu  sync.Mutex
	log []string
}

func (l *c03Log) add(s string) { l.mu.Lock(); l.log = append(l.log, s); l.mu.Unlock() }
func (l *c03Log) snapshot() []string {
	l.mu.Lock()
	defer l.mu.Unlock()
	return append([]string{}, l.log...)
}
func (l *c03Log) Debug(a ...interface{})            { l.add("D " + fmt.Sprint(a...)) }
func (l *c03Log) Debugf(f string, a ...interface{}) { l.add("D " + fmt.Sprintf(f, a...)) }
func (l *c03Log) Error(a ...interface{})            { l.add("E " + fmt.Sprint(a...)) }
func (l *c03Log) Errorf(f string, a ...interface{}) { l.add("E " + fmt.Sprintf(f, a...)) }
func (l *c03Log) Fatal(a ...interface{})            { l.add("F " + fmt.Sprint(a...)) }
func (l *c03Log) Fatalf(f string, a ...interface{}) { l.add("F " + fmt.Sprintf(f, a...)) }
func (l *c03Log) Info(a ...interface{})             { l.add("I " + fmt.Sprint(a...)) }
func (l *c03Log) Infof(f string, a ...interface{})  { l.add("I " + fmt.Sprintf(f, a...)) }
func (l *c03Log) Panic(a ...interface{})            { l.add("P " + fmt.Sprint(a...)) }
func (l *c03Log) Panicf(f string, a ...interface{}) { l.add("P " + fmt.Sprintf(f, a...)) }
func (l *c03Log) Warn(a ...interface{})             { l.add("W " + fmt.Sprint(a...)) }
func (l *c03Log) Warnf(f string, a ...interface{})  { l.add("W " + fmt.Sprintf(f, a...)) }

type c03Msg struct {
	payload   interface{}
	processed chan struct{} // closed when the loop takes the payload
	once      sync.Once
}

type c03ID string

func (i c03ID) String() string { return string(i) }

func (m *c03Msg) TransportSenderID() net.TransportIdentifier { return c03ID("verif") }
func (m *c03Msg) SenderPublicKey() []byte                    { return []byte{1} }
func (m *c03Msg) Payload() interface{} {
	m.once.Do(func() { close(m.processed) })
	return m.payload
}
func (m *c03Msg) Type() string  { return "verif" }
func (m *c03Msg) Seqno() uint64 { return 0 }

type c03OtherPayload struct{ x int }

type c03Channel struct {
	mu      sync.Mutex
	handler func(net.Message)
	ready   chan struct{}
	sent    chan net.TaggedMarshaler
}

func newC03Channel() *c03Channel {
	return &c03Channel{ready: make(chan struct{}), sent: make(chan net.TaggedMarshaler, 16)}
}
func (c *c03Channel) Name() string { return "verif-c03" }
func (c *c03Channel) Send(ctx context.Context, m net.TaggedMarshaler, s ...net.RetransmissionStrategy) error {
	select {
	case c.sent <- m:
	default:
	}
	return nil
}
func (c *c03Channel) Recv(ctx context.Context, h func(m net.Message)) {
	c.mu.Lock()
	first := c.handler == nil
	c.handler = h
	c.mu.Unlock()
	if first {
		close(c.ready)
	}
}
func (c *c03Channel) SetUnmarshaler(func() net.TaggedUnmarshaler)  {}
func (c *c03Channel) SetFilter(net.BroadcastChannelFilter) error   { return nil }
func (c *c03Channel) deliver(m net.Message)                        { c.mu.Lock(); h := c.handler; c.mu.Unlock(); h(m) }

type c03Counter struct {
	mu       sync.Mutex
	calls    int
	timeout  chan uint64 // first waiter: relay entry timeout
	eligible chan uint64 // later waiters: submission eligibility (immediately ready)
}

func newC03Counter() *c03Counter {
	e := make(chan uint64, 1)
	e <- 1
	return &c03Counter{timeout: make(chan uint64), eligible: e}
}
func (b *c03Counter) WaitForBlockHeight(uint64) error { return nil }
func (b *c03Counter) BlockHeightWaiter(n uint64) (<-chan uint64, error) {
	b.mu.Lock()
	defer b.mu.Unlock()
	b.calls++
	if b.calls == 1 {
		return b.timeout, nil
	}
	return b.eligible, nil
}
func (b *c03Counter) CurrentBlock() (uint64, error)              { return 1, nil }
func (b *c03Counter) WatchBlocks(context.Context) <-chan uint64 { return make(chan uint64) }

type c03Chain struct {
	beaconchain.Interface // nil: any unexpected call panics (harness failure)
	cfg                   *beaconchain.Config
	mu                    sync.Mutex
	onSubmitted           func(*event.RelayEntrySubmitted)
	submitted             chan []byte
}

func newC03Chain(n, h int) *c03Chain {
	return &c03Chain{cfg: &beaconchain.Config{GroupSize: n, HonestThreshold: h, ResultPublicationBlockStep: 1, RelayEntryTimeout: 100},
		submitted: make(chan []byte, 4)}
}
func (c *c03Chain) GetConfig() *beaconchain.Config { return c.cfg }
func (c *c03Chain) OnRelayEntrySubmitted(h func(*event.RelayEntrySubmitted)) subscription.EventSubscription {
	c.mu.Lock()
	c.onSubmitted = h
	c.mu.Unlock()
	return subscription.NewEventSubscription(func() {})
}
func (c *c03Chain) SubmitRelayEntry(entry []byte) error {
	c.submitted <- append([]byte{}, entry...)
	return nil
}
func (c *c03Chain) IsEntryInProgress() (bool, error) { return true, nil }

var _ chain.BlockCounter = (*c03Counter)(nil)

// ------------------------------------------------------------------ replay

var c03CountRe = regexp.MustCompile(`received \[(\d+)\] valid signature shares`)

type c03Observed struct {
	Phase     string   `json:"phase"` // submitted | left | timedout | stuck
	Count     int      `json:"count"` // valid shares at timeout (-1 unknown)
	Sig       string   `json:"sig"`   // none | group | bad
	Returned  string   `json:"returned"`
	Log       []string `json:"log,omitempty"`
	OwnShare  string   `json:"ownShare"`
	Submitted int      `json:"submitted"`
}

func c03RunBehaviour(t *testing.T, r *rand.Rand, g *c03Group, b kit.V) (obs c03Observed) {
	self := b.Get("self").Int()
	signer := g.signer(self, b.Get("known").Ints())
	logger := &c03Log{}
	ch := newC03Channel()
	bc := newC03Counter()
	bchain := newC03Chain(g.n, g.h)
	done := make(chan error, 1)
	panicked := make(chan interface{}, 1)
	go func() {
		defer func() {
			if p := recover(); p != nil {
				panicked <- p
			}
		}()
		done <- SignAndSubmit(logger, bc, ch, bchain, g.prevBytes, g.h, signer, 10)
	}()
	select {
	case <-ch.ready:
	case p := <-panicked:
		return c03Observed{Phase: "panic", Returned: fmt.Sprint(p)}
	case err := <-done:
		return c03Observed{Phase: "returned-early", Returned: fmt.Sprint(err)}
	case <-time.After(c03Wait):
		t.Fatalf("SignAndSubmit never registered a receive handler")
	}
	// the own share broadcast
	obs.OwnShare = "missing"
	select {
	case m := <-ch.sent:
		// compared through the exported API only (constructor + Marshal)
		wantMsg := NewSignatureShareMessage(group.MemberIndex(self), bls.SignG1(g.shares[self], g.prev).Marshal(), g.session("cur"))
		wantBytes, _ := wantMsg.Marshal()
		gotBytes, err := m.Marshal()
		switch {
		case m.Type() != wantMsg.Type():
			obs.OwnShare = "wrong-type"
		case err != nil || hex.EncodeToString(gotBytes) != hex.EncodeToString(wantBytes):
			obs.OwnShare = "wrong"
		default:
			obs.OwnShare = "ok"
		}
	case <-time.After(c03Wait):
		t.Fatalf("own share was never broadcast")
	}

	fence := func() *c03Msg {
		m := &c03Msg{payload: &c03OtherPayload{}, processed: make(chan struct{})}
		ch.deliver(m)
		return m
	}
	obs.Count = -1
	obs.Sig = "none"
	finish := func(phase string) c03Observed {
		obs.Phase = phase
		obs.Log = logger.snapshot()
		return obs
	}
	// waitLoop waits until the loop has either consumed everything delivered
	// so far (true) or left the loop towards submission (false, entry).
	waitLoop := func() (bool, []byte) {
		f := fence()
		select {
		case <-f.processed:
			return true, nil
		case e := <-bchain.submitted:
			return false, e
		case p := <-panicked:
			obs.Returned = fmt.Sprint(p)
			return false, nil
		case <-time.After(c03Wait):
			t.Fatalf("message loop neither consumed the fence nor submitted (log: %v)", logger.snapshot())
			return false, nil
		}
	}
	classify := func(entry []byte) {
		obs.Submitted++
		sig := new(bn256.G1)
		if _, err := sig.Unmarshal(entry); err == nil &&
			hex.EncodeToString(entry) == hex.EncodeToString(g.groupSignature().Marshal()) &&
			bls.VerifyG1(g.groupPk, g.prev, sig) {
			obs.Sig = "group"
		} else {
			obs.Sig = "bad"
		}
	}
	afterSubmit := func(entry []byte) c03Observed {
		classify(entry)
		// confirm the entry on chain: SignAndSubmit returns nil
		bchain.mu.Lock()
		h := bchain.onSubmitted
		bchain.mu.Unlock()
		go h(&event.RelayEntrySubmitted{BlockNumber: 12})
		select {
		case err := <-done:
			obs.Returned = fmt.Sprint(err)
		case <-time.After(c03Wait):
			t.Fatalf("SignAndSubmit did not return after the entry was confirmed")
		}
		return finish("submitted")
	}

	var completedEntry []byte
	for _, s := range b.Get("steps").List() {
		switch s.Get("a").Str() {
		case "Deliver":
			m := s.Get("m")
			var payload interface{}
			if m.Get("kind").Str() == "share" {
				payload = NewSignatureShareMessage(group.MemberIndex(m.Get("sender").Int()),
					g.shareBytes(r, m.Get("share")), g.session(m.Get("session").Str()))
			} else {
				payload = &c03OtherPayload{}
			}
			ch.deliver(&c03Msg{payload: payload, processed: make(chan struct{})})
		case "Timeout", "OtherSubmitted":
			inLoop, entry := waitLoop()
			if !inLoop {
				if entry == nil {
					return finish("panic")
				}
				return afterSubmit(entry) // the code completed although the spec is still collecting
			}
			if s.Get("a").Str() == "Timeout" {
				select {
				case bc.timeout <- 110:
				case <-time.After(c03Wait):
					t.Fatalf("timeout signal not taken")
				}
			} else {
				bchain.mu.Lock()
				h := bchain.onSubmitted
				bchain.mu.Unlock()
				go h(&event.RelayEntrySubmitted{BlockNumber: 11})
			}
			select {
			case err := <-done:
				obs.Returned = fmt.Sprint(err)
				if s.Get("a").Str() == "Timeout" {
					if err == nil {
						return finish("left")
					}
					mm := c03CountRe.FindStringSubmatch(err.Error())
					if mm == nil {
						t.Fatalf("cannot read the share count from the timeout error %q", err.Error())
					}
					obs.Count, _ = strconv.Atoi(mm[1])
					return finish("timedout")
				}
				if err != nil {
					return finish("error")
				}
				return finish("left")
			case <-time.After(c03Wait):
				t.Fatalf("SignAndSubmit did not return after %s", s.Get("a").Str())
			}
		case "Complete":
			inLoop, entry := waitLoop()
			if inLoop {
				// the code is still collecting although the threshold of valid
				// shares was delivered: unblock it and report
				select {
				case bc.timeout <- 110:
				case <-time.After(c03Wait):
					t.Fatalf("timeout signal not taken")
				}
				err := <-done
				obs.Returned = fmt.Sprint(err)
				if err != nil {
					if mm := c03CountRe.FindStringSubmatch(err.Error()); mm != nil {
						obs.Count, _ = strconv.Atoi(mm[1])
					}
				}
				return finish("stuck")
			}
			if entry == nil {
				select {
				case err := <-done:
					obs.Returned = fmt.Sprint(err)
					return finish("error")
				default:
				}
				return finish("panic")
			}
			completedEntry = entry
		case "Late":
			// delivered after the loop was left: must change nothing
			m := s.Get("m")
			ch.deliver(&c03Msg{payload: NewSignatureShareMessage(group.MemberIndex(m.Get("sender").Int()),
				g.shareBytes(r, m.Get("share")), g.session(m.Get("session").Str())), processed: make(chan struct{})})
		case "Submit":
			if completedEntry == nil {
				t.Fatalf("Submit without Complete: %s", b.JSON())
			}
			o := afterSubmit(completedEntry)
			// nothing else may have been submitted meanwhile
			select {
			case extra := <-bchain.submitted:
				classify(extra)
				o.Submitted = obs.Submitted
				if hex.EncodeToString(extra) != hex.EncodeToString(completedEntry) {
					o.Sig = "bad"
				}
			default:
			}
			return o
		}
	}
	t.Fatalf("behaviour without a terminal step: %s", b.JSON())
	return
}

func TestVerif_C03_Collect(t *testing.T) {
	kit.RequireEngine(t)
	rep := kit.NewReport("C03", "collect")
	defer rep.Write(t)
	cases := kit.LoadCases(t, "collection.ndjson")
	r := kit.Rand(303)
	var g *c03Group
	for n, b := range cases {
		if g == nil || n%50 == 0 || g.n != b.Get("n").Int() || g.h != b.Get("h").Int() {
			g = newC03Group(r, b.Get("n").Int(), b.Get("h").Int())
		}
		obs := c03RunBehaviour(t, r, g, b)
		id := c03BehaviourID(b)
		key := ""
		nd := 0
		for _, s := range b.Get("steps").List() {
			if s.Get("a").Str() == "Deliver" {
				nd++
			}
		}
		if nd > 0 {
			key = id
		}
		rep.Eval(key, map[string]interface{}{"behaviour": id, "observed": obs.Phase, "sig": obs.Sig, "count": obs.Count})
		rep.Count("phase_"+obs.Phase, 1)
		want := map[string]interface{}{"phase": b.Get("phase").Str(), "count": b.Get("count").Int(), "sig": b.Get("sig").Str(), "holders": b.Get("holders").X}
		if obs.OwnShare != "ok" {
			rep.Diverge("collect:own-share", "the share broadcast by SignAndSubmit is not the member's signature share of the previous entry ("+obs.OwnShare+")", b.X, "ok", obs)
		}
		wantPhase := b.Get("phase").Str()
		switch {
		case obs.Phase != wantPhase:
			rep.Diverge("collect:"+id, fmt.Sprintf("SignAndSubmit ended as %q where the specification ends as %q (shares at the end: spec %d, code %d)", obs.Phase, wantPhase, b.Get("count").Int(), obs.Count), b.X, want, obs)
		case wantPhase == "timedout" && obs.Count != b.Get("count").Int():
			rep.Diverge("collect:"+id, fmt.Sprintf("after the delivered messages the loop holds %d valid shares, the specification %d (holders %s)", obs.Count, b.Get("count").Int(), b.Get("holders").JSON()), b.X, want, obs)
		case wantPhase == "submitted" && obs.Sig != "group":
			rep.Diverge("collect:"+id, "the relay entry submitted is not the group signature of the previous entry", b.X, want, obs)
		case wantPhase == "submitted" && obs.Returned != "<nil>":
			rep.Diverge("collect:"+id, "SignAndSubmit returned an error although the entry was submitted and confirmed: "+obs.Returned, b.X, want, obs)
		case wantPhase == "left" && (obs.Returned != "<nil>" || obs.Submitted != 0):
			rep.Diverge("collect:"+id, "SignAndSubmit did not leave quietly when another member submitted the entry", b.X, want, obs)
		}
	}
}

// c03BehaviourID is a compact stable identifier of a behaviour.
func c03BehaviourID(b kit.V) string {
	id := fmt.Sprintf("self=%d,known=%s:", b.Get("self").Int(), b.Get("known").JSON())
	for _, s := range b.Get("steps").List() {
		switch s.Get("a").Str() {
		case "Deliver", "Late":
			m := s.Get("m")
			if s.Get("a").Str() == "Late" {
				id += "late:"
			}
			if m.Get("kind").Str() != "share" {
				id += "other;"
			} else {
				id += fmt.Sprintf("%d<%d:%s>%s;", m.Get("sender").Int(), m.Get("share").Get("signer").Int(), m.Get("share").Get("msg").Str(), m.Get("session").Str())
			}
		default:
			id += s.Get("a").Str() + ";"
		}
	}
	return id
}

