//go:build verif

package beacon

// C06 conformance harness, confirmation loop part (see
// /verif/specs/RelayDedup/RelayConfirm.tla).
//
//   TestVerif_C06_Confirm  every sequence of chain answers enumerated by TLC
//       (error, 0, lower, equal, higher; maxRetries 1..5) is fed to the real
//       confirmCurrentRelayRequest through a scripted chain; compared: whether
//       onConfirmed ran (and how often), and the exact number of chain queries.

import (
	"errors"
	"fmt"
	"math/big"
	"testing"

	kit "github.com/keep-network/keep-core/internal/verifkit"
	beaconchain "github.com/keep-network/keep-core/pkg/beacon/chain"
)

type c06ScriptedChain struct {
	beaconchain.RelayEntryInterface // nil: unexpected calls panic
	answers                         []int
	queries                         int
	overrun                         int
	expected                        int
}

func (c *c06ScriptedChain) CurrentRequestStartBlock() (*big.Int, error) {
	c.queries++
	if c.queries > len(c.answers) {
		// the specification's loop has ended: stop the real one
		c.overrun++
		return big.NewInt(int64(c.expected + 1000)), nil
	}
	a := c.answers[c.queries-1]
	if a < 0 {
		return nil, errors.New("verif: chain unavailable")
	}
	return big.NewInt(int64(a)), nil
}

func TestVerif_C06_Confirm(t *testing.T) {
	kit.RequireEngine(t)
	rep := kit.NewReport("C06", "confirm")
	defer rep.Write(t)
	for _, c := range kit.LoadCases(t, "confirm.ndjson") {
		answers := c.Get("answers").Ints()
		expected := c.Get("expected").Int()
		maxRetries := c.Get("maxRetries").Int()
		ch := &c06ScriptedChain{answers: answers, expected: expected}
		confirmations := 0
		panicked := ""
		func() {
			defer func() {
				if p := recover(); p != nil {
					panicked = fmt.Sprint(p)
				}
			}()
			confirmCurrentRelayRequest(uint64(expected), ch, func() { confirmations++ }, maxRetries, 0)
		}()
		id := fmt.Sprintf("max=%d:%v", maxRetries, answers)
		key := ""
		if len(answers) > 1 {
			key = id
		}
		rep.Eval(key, map[string]interface{}{"case": id, "outcome": c.Get("outcome").Str()})
		rep.Count("outcome_"+c.Get("outcome").Str(), 1)
		want := map[string]interface{}{"confirmations": c.Get("confirmations").Int(), "queries": len(answers)}
		got := map[string]interface{}{"confirmations": confirmations, "queries": ch.queries, "panic": panicked}
		switch {
		case panicked != "":
			rep.Diverge("confirm:"+id, "confirmCurrentRelayRequest panicked: "+panicked, c.X, want, got)
		case confirmations != c.Get("confirmations").Int() && confirmations > 0:
			rep.Diverge("confirm:"+id, fmt.Sprintf("relay request at block %d confirmed for signing although the chain answers %v never report it as current within %d attempts", expected, answers, maxRetries), c.X, want, got)
		case confirmations != c.Get("confirmations").Int():
			rep.Diverge("confirm:"+id, fmt.Sprintf("relay request at block %d not confirmed although the chain reported it as current (answers %v, maxRetries %d)", expected, answers, maxRetries), c.X, want, got)
		case ch.queries != len(answers):
			rep.Diverge("confirm:"+id, fmt.Sprintf("the chain was queried %d times, the specification queries %d times (answers %v, maxRetries %d)", ch.queries, len(answers), answers, maxRetries), c.X, want, got)
		}
	}
}
