//go:build verif

package registry

// C38 conformance harness for the beacon group registry (see
// /verif/specs/Registry, Flavor "beacon"). The real Groups /
// persistentStorage run over the real keep-common persistence stack
// (encrypted protected disk handle in a temporary directory) behind the fault
// injector of internal/verifc38; the chain's IsStaleGroup answers are scripted
// per step. Memberships are small BLS threshold signers (one group key per
// group, one share per member); after every step each membership the registry
// returns is compared with the registered one: member id, group key (both
// encodings), channel name, operators, public key shares, and the private key
// share through the signature share it produces for a fixed message.

import (
	"bytes"
	"fmt"
	"math/big"
	"testing"

	bn256 "github.com/ethereum/go-ethereum/crypto/bn256/cloudflare"

	"encoding/hex"
	"github.com/keep-network/keep-common/pkg/persistence"
	"github.com/keep-network/keep-core/internal/testutils"
	c38 "github.com/keep-network/keep-core/internal/verifc38"
	kit "github.com/keep-network/keep-core/internal/verifkit"
	"github.com/keep-network/keep-core/pkg/beacon/dkg"
	"github.com/keep-network/keep-core/pkg/beacon/event"
	"github.com/keep-network/keep-core/pkg/chain"
	"github.com/keep-network/keep-core/pkg/protocol/group"
	"github.com/keep-network/keep-core/pkg/subscription"
)

const c38MaxGroups, c38MaxMembers = 4, 4

type c38Chain struct {
	rig      *c38Rig
	stale    map[int]bool
	chainErr map[int]bool
	asked    []int
}

func (c *c38Chain) OnGroupRegistered(func(groupRegistration *event.GroupRegistration)) subscription.EventSubscription {
	panic("not used")
}
func (c *c38Chain) IsGroupRegistered(groupPublicKey []byte) (bool, error) { panic("not used") }
func (c *c38Chain) IsStaleGroup(groupPublicKey []byte) (bool, error) {
	w := c.rig.groupOfKey(groupPublicKey)
	c.asked = append(c.asked, w)
	if c.chainErr[w] {
		return false, fmt.Errorf("verif: chain call failed")
	}
	return c.stale[w], nil
}

type c38Rig struct {
	chain   *c38Chain
	reg     *Groups
	keys    []*bn256.G2
	signers map[[2]int]*dkg.ThresholdSigner
	msg     *bn256.G1
	// memberships already compared in full, by identity (the registry keeps
	// the same objects until the next restart); holding them here also keeps
	// their addresses from being reused
	verified map[*Membership][2]int
}

func newC38Rig(t *testing.T) *c38Rig {
	r := &c38Rig{verified: map[*Membership][2]int{}, signers: map[[2]int]*dkg.ThresholdSigner{}, msg: new(bn256.G1).ScalarBaseMult(big.NewInt(424242))}
	r.chain = &c38Chain{rig: r}
	for w := 1; w <= c38MaxGroups; w++ {
		key := new(bn256.G2).ScalarBaseMult(big.NewInt(int64(9000 + 17*w)))
		r.keys = append(r.keys, key)
		ops := []chain.Address{}
		shares := map[group.MemberIndex]*bn256.G2{}
		for i := 1; i <= c38MaxMembers; i++ {
			ops = append(ops, chain.Address(fmt.Sprintf("operator-%d-of-group-%d", i, w)))
			shares[group.MemberIndex(i)] = new(bn256.G2).ScalarBaseMult(big.NewInt(int64(100*w + i)))
		}
		for i := 1; i <= c38MaxMembers; i++ {
			r.signers[[2]int{w, i}] = dkg.NewThresholdSigner(group.MemberIndex(i), key, big.NewInt(int64(100*w+i)), shares, ops)
		}
	}
	return r
}

func (r *c38Rig) channel(w int) string { return fmt.Sprintf("channel-of-group-%d", w) }

func (r *c38Rig) groupOfKey(k []byte) int {
	for w := range r.keys {
		if bytes.Equal(r.keys[w].Marshal(), k) {
			return w + 1
		}
	}
	return 0
}

func (r *c38Rig) Marker() string { return "keep-core/pkg/beacon/registry." }
func (r *c38Rig) Name() string   { return "beacon" }

func (r *c38Rig) Start(h persistence.ProtectedHandle) error {
	reg := NewGroupRegistry(&testutils.MockLogger{}, r.chain, h)
	reg.LoadExistingGroups()
	r.reg = reg
	return nil
}

func (r *c38Rig) Register(w, i int) error {
	return r.reg.RegisterGroup(r.signers[[2]int{w, i}], r.channel(w))
}
func (r *c38Rig) Archive(int) error { panic("verif: not an operation of the group registry") }
func (r *c38Rig) Unregister(latest int, stale, chainErr map[int]bool) {
	r.chain.stale, r.chain.chainErr, r.chain.asked = stale, chainErr, nil
	var latestKey []byte
	if latest > 0 {
		latestKey = r.keys[latest-1].Marshal()
	}
	r.reg.UnregisterStaleGroups(latestKey)
}
func (r *c38Rig) DirOf(w int) string {
	return hex.EncodeToString(r.signers[[2]int{w, 1}].GroupPublicKeyBytesCompressed())
}
func (r *c38Rig) NumKnown() int { return -1 }

func (r *c38Rig) Cache() (map[int][]int, string) {
	out := map[int][]int{}
	r.reg.mutex.Lock()
	defer r.reg.mutex.Unlock()
	for k, ms := range r.reg.myGroups {
		kb, err := hex.DecodeString(k)
		w := 0
		if err == nil {
			w = r.groupOfKey(kb)
		}
		if w == 0 {
			return out, "the group map has an entry under an unknown key " + k
		}
		if len(ms) == 0 {
			return out, fmt.Sprintf("the group map has an entry without memberships for group %d", w)
		}
		for _, m := range ms {
			out[w] = append(out[w], int(m.Signer.MemberID()))
		}
	}
	return out, ""
}

func (r *c38Rig) Check(w int, idxs []int) string {
	ms := r.reg.GetGroup(r.keys[w-1].Marshal())
	if len(ms) != len(idxs) {
		return fmt.Sprintf("GetGroup(group %d) returned %d memberships, %d expected", w, len(ms), len(idxs))
	}
	seen := map[int]bool{}
	for _, m := range ms {
		i := int(m.Signer.MemberID())
		exp, known := r.signers[[2]int{w, i}]
		if !known {
			return fmt.Sprintf("GetGroup(group %d) returned an unknown member id %d", w, i)
		}
		seen[i] = true
		if v, done := r.verified[m]; done && v == [2]int{w, i} {
			continue
		}
		got := m.Signer
		switch {
		case m.ChannelName != r.channel(w):
			return fmt.Sprintf("channel name of member %d of group %d differs", i, w)
		case !bytes.Equal(got.GroupPublicKeyBytes(), exp.GroupPublicKeyBytes()),
			!bytes.Equal(got.GroupPublicKeyBytesCompressed(), exp.GroupPublicKeyBytesCompressed()):
			return fmt.Sprintf("group public key of member %d of group %d differs", i, w)
		case !bytes.Equal(got.CalculateSignatureShare(r.msg).Marshal(), exp.CalculateSignatureShare(r.msg).Marshal()):
			return fmt.Sprintf("private key share of member %d of group %d differs from what was registered", i, w)
		case fmt.Sprint(got.GroupOperators()) != fmt.Sprint(exp.GroupOperators()):
			return fmt.Sprintf("group operators of member %d of group %d differ", i, w)
		}
		gs, es := got.GroupPublicKeyShares(), exp.GroupPublicKeyShares()
		if len(gs) != len(es) {
			return fmt.Sprintf("public key shares of member %d of group %d differ", i, w)
		}
		for k, v := range es {
			if gs[k] == nil || !bytes.Equal(gs[k].Marshal(), v.Marshal()) {
				return fmt.Sprintf("public key share %d of member %d of group %d differs", k, i, w)
			}
		}
		r.verified[m] = [2]int{w, i}
	}
	for _, i := range idxs {
		if !seen[i] {
			return fmt.Sprintf("GetGroup(group %d) lacks member id %d", w, i)
		}
	}
	return ""
}

func TestVerif_C38_ReplayGroups(t *testing.T) {
	kit.RequireEngine(t)
	rep := kit.NewReport("C38", "replay_beacon")
	defer rep.Write(t)
	cases := kit.LoadCases(t, "behaviours.ndjson")
	c38.Replay(t, rep, newC38Rig(t), cases)
}
