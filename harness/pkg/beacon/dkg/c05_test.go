//go:build verif

package dkg

// C05 conformance harness (see /verif/specs/DkgFate).
//
//   TestVerif_C05_Fate  replays every behaviour emitted by Gen_DkgFate on the
//       real decideMemberFate / waitForDkgResultEvent / resolveGroupOperators,
//       composed exactly as ExecuteDKG composes them after dkgResult.Publish:
//       a fake chain supplies the configuration, a fake block counter the
//       timeout-block channel, the harness the DKG result event; the order of
//       event and timeout is the behaviour's. Compared: error / no error (and
//       its class where recognizable), the operating member set returned by
//       decideMemberFate, the block the timeout was armed for, the error or
//       the exact operator list returned by resolveGroupOperators. For every
//       behaviour with an event a second run makes event and timeout ready at
//       the same time: the outcome must be one of the two sequential outcomes.

import (
	"fmt"
	"math/big"
	"math/rand"
	"sort"
	"strings"
	"sync"
	"testing"
	"time"

	bn256 "github.com/ethereum/go-ethereum/crypto/bn256/cloudflare"

	kit "github.com/keep-network/keep-core/internal/verifkit"
	beaconchain "github.com/keep-network/keep-core/pkg/beacon/chain"
	dkgResult "github.com/keep-network/keep-core/pkg/beacon/dkg/result"
	"github.com/keep-network/keep-core/pkg/beacon/event"
	"github.com/keep-network/keep-core/pkg/beacon/gjkr"
	"github.com/keep-network/keep-core/pkg/chain"
	"github.com/keep-network/keep-core/pkg/protocol/group"
)

const c05Wait = 60 * time.Second

type c05Chain struct {
	beaconchain.Interface // nil: unexpected calls panic
	cfg                   *beaconchain.Config
}

func (c *c05Chain) GetConfig() *beaconchain.Config { return c.cfg }

type c05Counter struct {
	chain.BlockCounter // nil: unexpected calls panic
	mu                 sync.Mutex
	armedFor           []uint64
	ch                 chan uint64
}

func (b *c05Counter) BlockHeightWaiter(n uint64) (<-chan uint64, error) {
	b.mu.Lock()
	b.armedFor = append(b.armedFor, n)
	b.mu.Unlock()
	return b.ch, nil
}

type c05Fate struct {
	Err       string   `json:"err"` // "" | timeout | key | misbehaved | other:<text>
	Operating []int    `json:"operating"`
	ArmedFor  []uint64 `json:"armedFor"`
	Panic     string   `json:"panic,omitempty"`
}

func c05Classify(err error) string {
	if err == nil {
		return ""
	}
	s := err.Error()
	switch {
	case strings.Contains(s, "timed out"):
		return "timeout"
	case strings.Contains(s, "same group public key"):
		return "key"
	case strings.Contains(s, "misbehaving"):
		return "misbehaved"
	}
	return "other:" + s
}

// c05Decide runs the real decideMemberFate; mode = "event" (event only),
// "timeout" (timeout only) or "race" (both ready before the call).
func c05Decide(t *testing.T, me int, res *gjkr.Result, cfg *beaconchain.Config, start uint64, ev *event.DKGResultSubmission, mode string) (out c05Fate) {
	bc := &c05Counter{ch: make(chan uint64, 1)}
	events := make(chan *event.DKGResultSubmission, 1)
	if mode == "race" {
		events <- ev
		bc.ch <- 1
	}
	type ret struct {
		ops []group.MemberIndex
		err error
		pan string
	}
	done := make(chan ret, 1)
	go func() {
		defer func() {
			if p := recover(); p != nil {
				done <- ret{pan: fmt.Sprint(p)}
			}
		}()
		ops, err := decideMemberFate(group.MemberIndex(me), res, events, start, &c05Chain{cfg: cfg}, bc)
		done <- ret{ops: ops, err: err}
	}()
	switch mode {
	case "event":
		events <- ev
	case "timeout":
		bc.ch <- 1
	}
	select {
	case r := <-done:
		bc.mu.Lock()
		out.ArmedFor = append([]uint64{}, bc.armedFor...)
		bc.mu.Unlock()
		if r.pan != "" {
			out.Panic = r.pan
			return
		}
		out.Err = c05Classify(r.err)
		if r.err != nil && r.ops != nil {
			out.Err += "+operating"
		}
		for _, m := range r.ops {
			out.Operating = append(out.Operating, int(m))
		}
	case <-time.After(c05Wait):
		t.Fatalf("decideMemberFate did not return (mode %s)", mode)
	}
	return
}

func c05SameSet(a, b []int) bool {
	x := append([]int{}, a...)
	y := append([]int{}, b...)
	sort.Ints(x)
	sort.Ints(y)
	return fmt.Sprint(x) == fmt.Sprint(y)
}

func c05Resolve(selected []chain.Address, operating []group.MemberIndex, cfg *beaconchain.Config) (ops []string, errText string, pan string) {
	defer func() {
		if p := recover(); p != nil {
			pan = fmt.Sprint(p)
		}
	}()
	got, err := resolveGroupOperators(selected, operating, cfg)
	if err != nil {
		errText = err.Error()
		if got != nil {
			errText += " (+operators)"
		}
		return nil, errText, ""
	}
	for _, a := range got {
		ops = append(ops, string(a))
	}
	return ops, "", ""
}

func TestVerif_C05_Fate(t *testing.T) {
	kit.RequireEngine(t)
	rep := kit.NewReport("C05", "fate")
	defer rep.Write(t)
	cases := kit.LoadCases(t, "behaviours.ndjson")
	r := kit.Rand(5)
	k1 := new(bn256.G2).ScalarBaseMult(big.NewInt(int64(1000 + r.Intn(1000000))))
	k2 := new(bn256.G2).ScalarBaseMult(big.NewInt(int64(5000000 + r.Intn(1000000))))

	keyBytes := func(r *rand.Rand, k string) []byte {
		b := k1.Marshal()
		if k == "k1" {
			return b
		}
		switch r.Intn(5) {
		case 0:
			return k2.Marshal()
		case 1:
			c := append([]byte{}, b...)
			c[len(c)-1] ^= 1
			return c
		case 2:
			return b[:len(b)-1] // a strict prefix of the local key
		case 3:
			return append(append([]byte{}, b...), 0) // the local key plus a byte
		default:
			return nil
		}
	}

	for _, b := range cases {
		n, h, me := b.Get("n").Int(), b.Get("h").Int(), b.Get("me").Int()
		step := uint64(1 + r.Intn(3))
		start := uint64(r.Intn(1000))
		cfg := &beaconchain.Config{GroupSize: n, HonestThreshold: h, ResultPublicationBlockStep: step, RelayEntryTimeout: 10}
		g := group.NewGroup(n-h, n)
		for _, m := range b.Get("dq").Ints() {
			g.MarkMemberAsDisqualified(group.MemberIndex(m))
		}
		for _, m := range b.Get("ia").Ints() {
			g.MarkMemberAsInactive(group.MemberIndex(m))
		}
		res := &gjkr.Result{Group: g, GroupPublicKey: k1}
		var selected []chain.Address
		for _, s := range b.Get("selected").Strs() {
			selected = append(selected, chain.Address("0x"+s))
		}

		// walk the behaviour
		steps := b.Get("steps").List()
		id := fmt.Sprintf("n=%d,h=%d,me=%d,dq=%s,ia=%s,sel=%s:", n, h, me, b.Get("dq").JSON(), b.Get("ia").JSON(), strings.Join(b.Get("selected").Strs(), ""))
		for _, s := range steps {
			a := s.Get("a").Str()
			if a == "EventArrives" {
				id += fmt.Sprintf("Event(%s,%s);", s.Get("key").Str(), s.Get("misbehaved").JSON())
			} else if a == "PublishOk" || a == "PublishFails" || a == "TimeoutBlock" {
				id += a + ";"
			}
		}
		wantPhase, wantErr := b.Get("phase").Str(), b.Get("err").Str()
		key := ""
		if !b.Get("published").Bool() {
			key = id
		}
		rep.Eval(key, map[string]interface{}{"behaviour": id, "phase": wantPhase, "err": wantErr})
		rep.Count("spec_"+wantPhase+"_"+wantErr, 1)

		var operating []group.MemberIndex
		stop := false
		if steps[0].Get("a").Str() == "PublishOk" {
			operating = g.OperatingMemberIndexes()
		} else {
			// publication failed: decideMemberFate
			var ev *event.DKGResultSubmission
			mode := "timeout"
			var evStep kit.V
			for _, s := range steps {
				if s.Get("a").Str() == "EventArrives" {
					evStep = s
					mode = "event"
				}
			}
			if mode == "event" {
				var mis []uint8
				for _, m := range evStep.Get("misbehaved").Ints() {
					mis = append(mis, uint8(m))
				}
				r.Shuffle(len(mis), func(i, j int) { mis[i], mis[j] = mis[j], mis[i] })
				if len(mis) > 0 && r.Intn(4) == 0 {
					mis = append(mis, mis[r.Intn(len(mis))]) // a duplicate entry
				}
				ev = &event.DKGResultSubmission{MemberIndex: uint32(1 + r.Intn(n)), GroupPublicKey: keyBytes(r, evStep.Get("key").Str()),
					Misbehaved: mis, BlockNumber: start + 5}
			}
			got := c05Decide(t, me, res, cfg, start, ev, mode)
			// what the specification says about decideMemberFate
			fateErr := ""
			switch wantErr {
			case "timeout", "key", "misbehaved":
				fateErr = wantErr
			}
			var fateOps []int
			if fateErr == "" {
				for _, m := range b.Get("operating").Ints() {
					fateOps = append(fateOps, m)
				}
			}
			// reasons for leaving that apply to this behaviour (when several
			// apply, which one is reported is not part of the contract)
			applicable := map[string]bool{}
			if mode == "timeout" {
				applicable["timeout"] = true
			} else {
				if evStep.Get("key").Str() != b.Get("localKey").Str() {
					applicable["key"] = true
				}
				for _, m := range evStep.Get("misbehaved").Ints() {
					if m == me {
						applicable["misbehaved"] = true
					}
				}
			}
			want := c05Fate{Err: fateErr, Operating: fateOps, ArmedFor: []uint64{start + dkgResult.PrePublicationBlocks() + uint64(n)*step}}
			switch {
			case got.Panic != "":
				rep.Diverge("fate:"+id, "decideMemberFate panicked: "+got.Panic, b.X, want, got)
				stop = true
			case (got.Err == "") != (fateErr == "") && got.Err == "":
				rep.Diverge("fate:"+id, fmt.Sprintf("member %d keeps its group membership although the chain decided otherwise (%s)", me, fateErr), b.X, want, got)
				stop = true
			case (got.Err == "") != (fateErr == ""):
				rep.Diverge("fate:"+id, fmt.Sprintf("member %d drops its membership (%s) although the accepted result carries its key and does not list it", me, got.Err), b.X, want, got)
				stop = true
			case got.Err != fateErr && !strings.HasPrefix(got.Err, "other:") && !applicable[got.Err]:
				rep.Diverge("fate:"+id, fmt.Sprintf("member %d leaves for the wrong reason: %q, specification %q", me, got.Err, fateErr), b.X, want, got)
			case got.Err == "" && !c05SameSet(got.Operating, fateOps):
				rep.Diverge("fate:"+id, fmt.Sprintf("operating members after the accepted result: %v, specification %v (all members except the on-chain misbehaved)", got.Operating, fateOps), b.X, want, got)
				stop = true
			case len(got.ArmedFor) != 1 || got.ArmedFor[0] != want.ArmedFor[0]:
				rep.Diverge("fate:timeout-block:"+id, fmt.Sprintf("publication timeout armed for block %v, specification %v (start %d + pre-publication %d + %d members * step %d)", got.ArmedFor, want.ArmedFor, start, dkgResult.PrePublicationBlocks(), n, step), b.X, want, got)
			}
			if strings.HasPrefix(got.Err, "other:") {
				rep.Count("unclassified_error", 1)
			}
			rep.Count("fate_"+mode, 1)
			// event and timeout ready at the same time: either sequential outcome
			if mode == "event" && !stop {
				race := c05Decide(t, me, res, cfg, start, ev, "race")
				okEvent := race.Err == got.Err && c05SameSet(race.Operating, got.Operating)
				okTimeout := race.Err == "timeout" && len(race.Operating) == 0
				if race.Panic != "" || (!okEvent && !okTimeout) {
					rep.Diverge("fate:race:"+id, "with event and timeout block both ready the outcome is neither the event's nor the timeout's", b.X, []interface{}{got, "timeout"}, race)
				}
				if okTimeout && !okEvent {
					rep.Count("race_timeout_won", 1)
				} else {
					rep.Count("race_event_won", 1)
				}
			}
			if got.Err != "" || stop {
				if wantPhase != "failed" && !stop {
					t.Fatalf("inconsistent behaviour %s", b.JSON())
				}
				continue
			}
			for _, m := range got.Operating {
				operating = append(operating, group.MemberIndex(m))
			}
		}
		// resolveGroupOperators, on a shuffled copy for every other behaviour
		// (the function documents that it accepts any order)
		opsIn := append([]group.MemberIndex{}, operating...)
		if r.Intn(2) == 0 {
			r.Shuffle(len(opsIn), func(i, j int) { opsIn[i], opsIn[j] = opsIn[j], opsIn[i] })
		}
		selCopy := append([]chain.Address{}, selected...)
		gotOps, gotErr, pan := c05Resolve(selected, opsIn, cfg)
		var wantOps []string
		for _, s := range b.Get("groupOps").Strs() {
			wantOps = append(wantOps, "0x"+s)
		}
		want := map[string]interface{}{"phase": wantPhase, "err": wantErr, "groupOperators": wantOps}
		got := map[string]interface{}{"groupOperators": gotOps, "err": gotErr, "panic": pan, "operatingIn": fmt.Sprint(opsIn)}
		switch {
		case pan != "":
			rep.Diverge("resolve:"+id, "resolveGroupOperators panicked: "+pan, b.X, want, got)
		case wantPhase == "failed" && gotErr == "":
			rep.Diverge("resolve:"+id, fmt.Sprintf("a group of %d operating members (threshold %d) with %d selected operators (group size %d) was formed: %v", len(opsIn), h, len(selected), n, gotOps), b.X, want, got)
		case wantPhase == "done" && gotErr != "":
			rep.Diverge("resolve:"+id, "resolveGroupOperators failed on valid input: "+gotErr, b.X, want, got)
		case wantPhase == "done" && fmt.Sprint(gotOps) != fmt.Sprint(wantOps):
			rep.Diverge("resolve:"+id, fmt.Sprintf("group operators %v, specification %v (selected operators of the operating members %v in member-index order)", gotOps, wantOps, b.Get("operating").Ints()), b.X, want, got)
		}
		for i := range selCopy {
			if selCopy[i] != selected[i] {
				rep.Diverge("resolve:mutated:"+id, "resolveGroupOperators modified the selected operators slice", b.X, nil, nil)
				break
			}
		}
		rep.Count("resolved", 1)
	}
}
