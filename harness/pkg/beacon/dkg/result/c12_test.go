//go:build verif

package result

// C12 conformance harness, pkg/beacon/dkg/result (specs/Admission, rows
// pkg/beacon/dkg/result/*): every case of the admission predicate (rule
// "memberKey") is delivered to the REAL resultSigningState.Receive; the two
// silent states reached through the real Next() chain must ignore everything.
//
// The state is built the way Publish builds it (NewSigningMember over a
// group.Group carrying the exclusion of the case, real MembershipValidator).
// The DKGResultHashSignatureMessage is marshalled by the real Marshal, gets
// the wire sender index, and is decoded by the unmarshaler
// RegisterUnmarshallers registers. The key embedded in the message is the
// one the case names (pinned network key / key of the owner of the claimed
// seat / outsider's key).
//
// Observation: signatureMessages (and every other slice field of the state)
// before and after Receive.

import (
	"fmt"
	"reflect"
	"testing"

	"github.com/keep-network/keep-core/internal/testutils"
	verifadm "github.com/keep-network/keep-core/internal/verifadm"
	kit "github.com/keep-network/keep-core/internal/verifkit"
	"github.com/keep-network/keep-core/pkg/protocol/group"
	"github.com/keep-network/keep-core/pkg/protocol/state"
)

func TestVerif_C12_BeaconResult(t *testing.T) {
	kit.RequireEngine(t)
	rep := kit.NewReport("C12", "admission_beacon_result")
	defer rep.Write(t)
	w := verifadm.LoadWorld(t)
	steps := verifadm.LoadSteps(t, "pkg/beacon/dkg/result")
	cases := verifadm.LoadCases(t)
	validator := w.Validator()
	ch := verifadm.NewChannel()
	RegisterUnmarshallers(ch)

	payload := func(c *verifadm.Case, typ string) (interface{}, error) {
		switch typ {
		case "foreign":
			return &verifadm.Foreign{SenderID: group.MemberIndex(c.Wire)}, nil
		case "DKGResultHashSignatureMessage":
			tpl := &DKGResultHashSignatureMessage{signature: []byte{0x01, 0x02}, publicKey: w.EmbeddedKey(c), sessionID: c.Session()}
			tpl.resultHash[0] = 0x42
			return ch.Decode(tpl, c.Wire)
		}
		return nil, fmt.Errorf("harness: unknown payload type %q", typ)
	}
	stateOf := func(c *verifadm.Case, name string) (state.SyncState, error) {
		g := group.NewGroup(1, w.N)
		c.MarkCurrent(g)
		var st state.SyncState = &resultSigningState{
			channel:           ch,
			member:            NewSigningMember(&testutils.MockLogger{}, group.MemberIndex(c.Recv), g, validator, verifadm.SessionOK),
			signatureMessages: make([]*DKGResultHashSignatureMessage, 0),
		}
		var err error
		for i := 0; i < 5 && st != nil; i++ {
			if reflect.TypeOf(st).Elem().Name() == name {
				return st, nil
			}
			if st, err = st.Next(); err != nil {
				return nil, err
			}
		}
		return nil, fmt.Errorf("harness: state %s not on the Next() chain", name)
	}
	drivers := map[string]verifadm.Driver{}
	for _, s := range steps {
		name := s.Name
		drivers[name] = func(c *verifadm.Case, typ string) (string, string, error) {
			st, err := stateOf(c, name)
			if err != nil {
				return "", "", err
			}
			p, err := payload(c, typ)
			if o, d, e, stop := verifadm.Dropped(err); stop {
				return o, d, e
			}
			return verifadm.ObserveSlices(st, w.Net(c, p), p)
		}
	}
	verifadm.Run(t, rep, w, steps, cases, drivers)
}
