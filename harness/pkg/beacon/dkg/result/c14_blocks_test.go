//go:build verif

package result

// C14, protocol duration of the DKG result publication states: walk the real
// states through Next(), compare the sum of DelayBlocks()+ActiveBlocks() with
// PrePublicationBlocks(), and check that the start heights the states hand to
// each other (verificationStartBlockHeight, submissionStartBlockHeight) are
// the nominal blocks at which SyncMachine enters those states.

import (
	"fmt"
	"testing"

	"github.com/keep-network/keep-core/internal/testutils"
	kit "github.com/keep-network/keep-core/internal/verifkit"
	"github.com/keep-network/keep-core/pkg/protocol/group"
	"github.com/keep-network/keep-core/pkg/protocol/state"
)

func TestVerif_C14_ResultBlocks(t *testing.T) {
	kit.RequireEngine(t)
	rep := kit.NewReport("C14", "result_blocks")
	defer rep.Write(t)

	for _, start := range []uint64{0, 1, 17, 1000003} {
		dkgGroup := group.NewGroup(1, 3)
		var st state.SyncState = &resultSigningState{
			member:                  NewSigningMember(&testutils.MockLogger{}, 1, dkgGroup, nil, "verif"),
			signatureMessages:       make([]*DKGResultHashSignatureMessage, 0),
			signingStartBlockHeight: start,
		}
		type row struct {
			State   string `json:"state"`
			D       uint64 `json:"d"`
			A       uint64 `json:"a"`
			Nominal uint64 `json:"nominal_entry"`
			Claimed uint64 `json:"claimed_entry"`
		}
		var walk []row
		sum := uint64(0)
		last := ""
		for st != nil {
			d, a := st.DelayBlocks(), st.ActiveBlocks()
			claimed := uint64(0)
			switch s := st.(type) {
			case *resultSigningState:
				claimed = s.signingStartBlockHeight
			case *signaturesVerificationState:
				claimed = s.verificationStartBlockHeight
			case *resultSubmissionState:
				claimed = s.submissionStartBlockHeight
			}
			walk = append(walk, row{fmt.Sprintf("%T", st), d, a, start + sum, claimed})
			if claimed != start+sum {
				rep.Diverge("result:entry-block:"+fmt.Sprintf("%T", st),
					"the start height a publication state was given differs from the block at which SyncMachine enters it",
					walk, start+sum, claimed)
			}
			sum += d + a
			last = fmt.Sprintf("%T", st)
			next, err := st.Next()
			if err != nil {
				t.Fatalf("cannot walk the publication states: %v", err)
			}
			st = next
			if len(walk) > 16 {
				t.Fatalf("publication state chain does not end")
			}
		}
		rep.Extra[fmt.Sprintf("walk_%d", start)] = walk
		rep.Eval(fmt.Sprintf("result-walk-%d", start), map[string]interface{}{"states": len(walk), "sum": sum, "PrePublicationBlocks": PrePublicationBlocks()})
		if len(walk) != 3 {
			t.Fatalf("walked %d publication states, expected 3", len(walk))
		}
		if sum != PrePublicationBlocks() {
			rep.Diverge("result:PrePublicationBlocks", "result.PrePublicationBlocks() differs from the sum of DelayBlocks+ActiveBlocks of the publication states",
				walk, sum, PrePublicationBlocks())
		}
		if last != "*result.resultSubmissionState" {
			rep.Diverge("result:final-state", "the publication state chain does not end in the submission state", walk, "*result.resultSubmissionState", last)
		}
	}
}
