//go:build verif

package result

// C47 conformance harness, beacon DKG result submission
// (specs/Submission, Proto = "beaconDkg").
//
//   TestVerif_C47_BeaconDkg_Slots       every member of every slot case of
//                                       SlotCases runs the real SubmitDKGResult
//                                       with a recording block counter; the
//                                       block asked for is compared with the
//                                       specification's slot, and the observed
//                                       slots are checked to be distinct.
//   TestVerif_C47_BeaconDkg_Behaviours  behaviours of Gen_Submission: the real
//                                       SubmitDKGResult of every member against
//                                       a shared fake chain; competing result
//                                       submissions, block heights, faults and
//                                       event deliveries are applied in the
//                                       order of the behaviour; the observable
//                                       state is compared after every step.

import (
	"fmt"
	"testing"

	"github.com/keep-network/keep-core/internal/testutils"
	kit "github.com/keep-network/keep-core/internal/verifkit"
	vs "github.com/keep-network/keep-core/internal/verifsub"
	beaconchain "github.com/keep-network/keep-core/pkg/beacon/chain"
	"github.com/keep-network/keep-core/pkg/beacon/event"
	"github.com/keep-network/keep-core/pkg/protocol/group"
	"github.com/keep-network/keep-core/pkg/subscription"
)

// c47Chain is the beacon chain seen by one member. Methods the submission
// code has no business calling are left to the embedded nil interface (a call
// panics and is reported).
type c47Chain struct {
	beaconchain.Interface
	w       *vs.World
	m       *vs.Member
	cfg     *beaconchain.Config
	handler func(*event.DKGResultSubmission)
}

func (c *c47Chain) GetConfig() *beaconchain.Config { c.m.Call("GetConfig"); return c.cfg }

func (c *c47Chain) OnDKGResultSubmitted(h func(*event.DKGResultSubmission)) subscription.EventSubscription {
	c.m.Call("OnDKGResultSubmitted")
	c.w.Lock()
	c.handler = h
	c.w.Unlock()
	return subscription.NewEventSubscription(func() {
		c.w.Lock()
		c.handler = nil
		c.w.Unlock()
		c.m.Call("Unsubscribe")
	})
}

func (c *c47Chain) IsGroupRegistered(pk []byte) (bool, error) {
	c.m.Call("IsGroupRegistered")
	c.w.Lock()
	f := c.m.BeginFault
	c.w.Unlock()
	if f == "precheck" {
		return false, fmt.Errorf("verif: injected IsGroupRegistered failure")
	}
	return c.w.IsDone(), nil
}

func (c *c47Chain) SubmitDKGResult(idx beaconchain.GroupMemberIndex, r *beaconchain.DKGResult,
	sigs map[beaconchain.GroupMemberIndex][]byte) error {
	if int(idx) != c.m.Index {
		c.w.Complain("member %d submitted as member %d", c.m.Index, idx)
	}
	return c.m.SubmitCall()
}

type c47Adapter struct {
	w      *vs.World
	n, h   int
	step   uint64
	start  uint64
	chains map[int]*c47Chain
}

func c47Threshold(n, h int) int { return h + (n-h)/2 }

func newC47Adapter(w *vs.World, n int, step, start uint64) *c47Adapter {
	h := n/2 + 1
	return &c47Adapter{w: w, n: n, h: h, step: step, start: start, chains: map[int]*c47Chain{}}
}

func (a *c47Adapter) SingleCall() bool { return false }

func (a *c47Adapter) Start(i int, enough bool) {
	m := a.w.M(i)
	ch := &c47Chain{w: a.w, m: m, cfg: &beaconchain.Config{GroupSize: a.n, HonestThreshold: a.h,
		ResultPublicationBlockStep: a.step, RelayEntryTimeout: a.step * uint64(a.n)}}
	a.w.Lock()
	a.chains[i] = ch
	m.Started = true
	a.w.Unlock()
	nsig := c47Threshold(a.n, a.h)
	if !enough {
		nsig--
	}
	sigs := map[group.MemberIndex][]byte{}
	for k := 1; k <= nsig; k++ {
		sigs[group.MemberIndex(k)] = []byte{byte(k)}
	}
	res := &beaconchain.DKGResult{GroupPublicKey: []byte{1, 2, 3}}
	sm := NewSubmittingMember(&testutils.MockLogger{}, group.MemberIndex(i))
	go func() {
		var err error
		defer func() {
			if r := recover(); r != nil {
				a.w.Complain("member %d: SubmitDKGResult panicked: %v", i, r)
				err = fmt.Errorf("panic: %v", r)
			}
			m.Finish(err)
		}()
		err = sm.SubmitDKGResult(res, sigs, ch, &vs.Counter{M: m}, a.start)
	}()
}

func (a *c47Adapter) Deliver(i int, bounded bool) bool {
	a.w.Lock()
	ch := a.chains[i]
	var h func(*event.DKGResultSubmission)
	if ch != nil {
		h = ch.handler
	}
	blk := a.w.Blk
	a.w.Unlock()
	if h == nil {
		return false
	}
	doneCh := make(chan struct{})
	go func() { h(&event.DKGResultSubmission{MemberIndex: 0, BlockNumber: blk}); close(doneCh) }()
	ok := vs.Settle(func() bool {
		select {
		case <-doneCh:
			return true
		default:
			return false
		}
	})
	if ok {
		a.w.M(i).MarkObserved()
	}
	return ok
}

func (a *c47Adapter) Timeout(i int) bool { return false }
func (a *c47Adapter) Close()             {}

func TestVerif_C47_BeaconDkg_Behaviours(t *testing.T) {
	kit.RequireEngine(t)
	rep := kit.NewReport("C47", "beacondkg_behaviours")
	defer rep.Write(t)
	for bi, b := range kit.LoadCases(t, "behaviours_beaconDkg.ndjson") {
		p := b.Get("params")
		w := vs.NewWorld(p.Get("controlled").Ints())
		ad := newC47Adapter(w, p.Get("n").Int(), uint64(p.Get("step").Int()), uint64(p.Get("start").Int()))
		nd := vs.Replay(t, rep, b, w, ad, fmt.Sprintf("beaconDkg#%d", bi))
		key := ""
		if vs.Interesting(b) {
			key = kit.Hash(b.Get("steps").X)
		}
		rep.Eval(key, map[string]interface{}{"behaviour": bi, "steps": b.Get("steps").Len(), "divergences": nd})
		if rep.NDivergences() >= 8 {
			rep.Note("stopped after %d divergences", rep.NDivergences())
			break
		}
	}
}

func TestVerif_C47_BeaconDkg_Slots(t *testing.T) {
	kit.RequireEngine(t)
	rep := kit.NewReport("C47", "beacondkg_slots")
	defer rep.Write(t)
	for _, c := range kit.LoadCases(t, "slotcases.ndjson") {
		cs := c.Get("case")
		if cs.Get("proto").Str() != "beaconDkg" {
			continue
		}
		n := cs.Get("n").Int()
		members := make([]int, n)
		for i := range members {
			members[i] = i + 1
		}
		w := vs.NewWorld(members)
		ad := newC47Adapter(w, n, uint64(cs.Get("step").Int()), uint64(cs.Get("ref").Int()))
		vs.ReplaySlots(t, rep, c, w, ad)
		if rep.NDivergences() >= 12 {
			break
		}
	}
}
