//go:build verif

package result

// C13 conformance harness, beacon DKG result support counting
// (specs/Support, Proto = "beacon", duplicate rule "dropAll").
//
// Every case of SupportCases is fed to the REAL resultSigningState /
// signaturesVerificationState / resultSubmissionState of one member (index 1)
// with real signed messages; after every Receive the number of stored
// messages is compared, after the verification the signature map, and the
// submission runs through the real SubmitDKGResult for every honest threshold
// of gates.ndjson against a chain that records the map it is handed.

import (
	"context"
	"fmt"
	"testing"

	"github.com/keep-network/keep-core/internal/testutils"
	kit "github.com/keep-network/keep-core/internal/verifkit"
	vsup "github.com/keep-network/keep-core/internal/verifsup"
	beaconchain "github.com/keep-network/keep-core/pkg/beacon/chain"
	"github.com/keep-network/keep-core/pkg/beacon/event"
	"github.com/keep-network/keep-core/pkg/chain"
	"github.com/keep-network/keep-core/pkg/chain/local_v1"
	"github.com/keep-network/keep-core/pkg/net"
	"github.com/keep-network/keep-core/pkg/operator"
	"github.com/keep-network/keep-core/pkg/protocol/group"
	"github.com/keep-network/keep-core/pkg/subscription"
)

type c13Chain struct {
	beaconchain.Interface // a real local_v1 chain (hashing), signing replaced by the keyring's
	signing               chain.Signing
	n, h                  int
	submitted             []map[group.MemberIndex][]byte
}

func (c *c13Chain) Signing() chain.Signing { return c.signing }
func (c *c13Chain) GetConfig() *beaconchain.Config {
	return &beaconchain.Config{GroupSize: c.n, HonestThreshold: c.h, ResultPublicationBlockStep: 1, RelayEntryTimeout: uint64(c.n)}
}
func (c *c13Chain) OnDKGResultSubmitted(func(*event.DKGResultSubmission)) subscription.EventSubscription {
	return subscription.NewEventSubscription(func() {})
}
func (c *c13Chain) IsGroupRegistered([]byte) (bool, error) { return false, nil }
func (c *c13Chain) SubmitDKGResult(i beaconchain.GroupMemberIndex, r *beaconchain.DKGResult, s map[beaconchain.GroupMemberIndex][]byte) error {
	cp := map[group.MemberIndex][]byte{}
	for k, v := range s {
		cp[k] = v
	}
	c.submitted = append(c.submitted, cp)
	return nil
}

// c13Counter: every block is already there.
type c13Counter struct{}

func (c13Counter) WaitForBlockHeight(uint64) error { return nil }
func (c13Counter) BlockHeightWaiter(b uint64) (<-chan uint64, error) {
	ch := make(chan uint64, 1)
	ch <- b
	return ch, nil
}
func (c13Counter) CurrentBlock() (uint64, error)             { return 0, nil }
func (c13Counter) WatchBlocks(context.Context) <-chan uint64 { return make(chan uint64) }

type c13Channel struct{ sent int }

func (c *c13Channel) Name() string { return "verif" }
func (c *c13Channel) Send(context.Context, net.TaggedMarshaler, ...net.RetransmissionStrategy) error {
	c.sent++
	return nil
}
func (c *c13Channel) Recv(context.Context, func(net.Message))     {}
func (c *c13Channel) SetUnmarshaler(func() net.TaggedUnmarshaler) {}
func (c *c13Channel) SetFilter(net.BroadcastChannelFilter) error  { return nil }

func c13ToMap(m map[group.MemberIndex][]byte) map[int][]byte {
	out := map[int][]byte{}
	for k, v := range m {
		out[int(k)] = v
	}
	return out
}

func TestVerif_C13_Beacon(t *testing.T) {
	kit.RequireEngine(t)
	rep := kit.NewReport("C13", "beacon_support")
	defer rep.Write(t)
	const n = 4
	ring, err := vsup.NewKeyring(n)
	if err != nil {
		t.Fatal(err)
	}
	priv, _, err := operator.GenerateKeyPair(local_v1.DefaultCurve)
	if err != nil {
		t.Fatal(err)
	}
	base := local_v1.ConnectWithKey(n, 3, priv)
	validator := group.NewMembershipValidator(&testutils.MockLogger{}, ring.Addresses, ring.Signers[1])
	mineResult := &beaconchain.DKGResult{GroupPublicKey: []byte("the result everybody should sign")}
	otherResult := &beaconchain.DKGResult{GroupPublicKey: []byte("a different result")}
	mine, err := base.CalculateDKGResultHash(mineResult)
	if err != nil {
		t.Fatal(err)
	}
	other, err := base.CalculateDKGResultHash(otherResult)
	if err != nil {
		t.Fatal(err)
	}
	var hs []int
	seen := map[int]bool{}
	thr := map[int]int{}
	for _, gset := range kit.LoadCases(t, "gates.ndjson") {
		for _, g := range gset.List() {
			if g.Get("proto").Str() == "beacon" && g.Get("n").Int() == n && !seen[g.Get("h").Int()] {
				seen[g.Get("h").Int()] = true
				hs = append(hs, g.Get("h").Int())
				thr[g.Get("h").Int()] = g.Get("threshold").Int()
			}
		}
	}
	if len(hs) == 0 {
		t.Fatal("no beacon gates")
	}
	ctx := context.Background()
	for ci, c := range kit.LoadCases(t, "supportcases.ndjson") {
		func() {
			defer func() {
				if r := recover(); r != nil {
					rep.Diverge("beacon:panic:"+kit.Hash(c.X), fmt.Sprintf("beacon result states panicked: %v", r), c.X, nil, nil)
				}
			}()
			g := group.NewGroup(1, n)
			for k, no := range c.Get("nonop").Ints() {
				if (ci+k)%2 == 0 {
					g.MarkMemberAsInactive(group.MemberIndex(no))
				} else {
					g.MarkMemberAsDisqualified(group.MemberIndex(no))
				}
			}
			ch := &c13Chain{Interface: base, signing: ring.Signers[1], n: n, h: hs[0]}
			channel := &c13Channel{}
			st := &resultSigningState{
				channel: channel, beaconChain: ch, blockCounter: c13Counter{},
				member:            NewSigningMember(&testutils.MockLogger{}, 1, g, validator, vsup.Session),
				result:            mineResult,
				signatureMessages: make([]*DKGResultHashSignatureMessage, 0),
			}
			if err := st.Initiate(ctx); err != nil {
				t.Fatalf("Initiate: %v", err)
			}
			if st.member.preferredDKGResultHash != mine {
				t.Fatalf("harness: hash mismatch")
			}
			ring.NewCase()
			ring.SetGenuine(1, mine, st.member.selfDKGResultSignature)
			msgs := c.Get("msgs").List()
			accepted := c.Get("accepted").List()
			concrete := make([]vsup.Concrete, len(msgs))
			key := "beacon:" + kit.Hash([]interface{}{c.Get("nonop").X, c.Get("msgs").X})
			nontrivial := ""
			if len(msgs) > 0 {
				nontrivial = key
			}
			rep.Eval(nontrivial, map[string]interface{}{"case": c.X})
			for k, m := range msgs {
				cm, err := ring.Realize(m, ci+3*k, mine, other)
				if err != nil {
					t.Fatalf("realize: %v", err)
				}
				concrete[k] = cm
				before := len(st.signatureMessages)
				if err := st.Receive(&mockSignatureMessage{
					payload: &DKGResultHashSignatureMessage{senderIndex: group.MemberIndex(cm.Sender), resultHash: cm.Hash,
						signature: cm.Signature, publicKey: cm.PublicKey, sessionID: cm.Session},
					senderPublicKey: cm.NetKey}); err != nil {
					rep.Diverge(key, fmt.Sprintf("Receive returned an error: %v", err), c.X, nil, nil)
					return
				}
				got := len(st.signatureMessages) > before
				if got != accepted[k].Bool() {
					rep.Diverge(key, fmt.Sprintf("beacon: message %d (%s) stored=%v, specification accepts=%v", k+1, cm.How, got, accepted[k].Bool()),
						c.X, accepted[k].Bool(), got)
					return
				}
			}
			next, err := st.Next()
			if err != nil {
				t.Fatalf("Next: %v", err)
			}
			svs := next.(*signaturesVerificationState)
			if err := svs.Initiate(ctx); err != nil {
				rep.Diverge(key, fmt.Sprintf("verification failed: %v", err), c.X, nil, nil)
				return
			}
			verdict := vsup.Verdict(c, "dropAll")
			if !vsup.CompareMap(rep, "beacon", "verified", c, verdict, c13ToMap(svs.validSignatures), concrete, st.member.selfDKGResultSignature) {
				return
			}
			// submission gate, every honest threshold
			for _, h := range hs {
				ch.h = h
				ch.submitted = nil
				nx, _ := svs.Next()
				sub := nx.(*resultSubmissionState)
				err := sub.Initiate(ctx)
				want := len(verdict) >= thr[h]
				did := len(ch.submitted) == 1 && err == nil
				if did != want || (!want && err == nil) || len(ch.submitted) > 1 {
					rep.Diverge(fmt.Sprintf("beacon:gate:h=%d:%s", h, kit.Hash(c.X)),
						fmt.Sprintf("beacon: %d supporting signatures, honest threshold %d of %d (gate %d): submitted=%v err=%v, specification submits=%v",
							len(verdict), h, n, thr[h], len(ch.submitted), err, want), c.X, want, did)
					return
				}
				if did && !vsup.CompareMap(rep, "beacon", "submitted", c, verdict, c13ToMap(ch.submitted[0]), concrete, st.member.selfDKGResultSignature) {
					return
				}
				rep.Count("beacon.gate."+fmt.Sprint(want), 1)
			}
			rep.Count("beacon.cases", 1)
			rep.Count(fmt.Sprintf("beacon.supporters.%d", len(verdict)), 1)
		}()
		if rep.NDivergences() >= 10 {
			rep.Note("stopped after %d divergences", rep.NDivergences())
			break
		}
	}
}
