//go:build verif

package beacon_test

// XBL scenarios: complete runs of the random beacon life cycle on the real
// client (beacon.Initialize per node, real GJKR, real result publication,
// real registry over the encrypted disk persistence, real threshold signing)
// in the world of xbl_world_test.go.  Every scenario yields one ndjson trace
// (starting with a Reset event) that Trace_BeaconLifecycle validates.
//
// The harness holds no oracle: it drives the chain side (events, duplicate
// and stale deliveries, crashes, restarts, message loss) and waits -- always
// with generous bounds, never asserting -- until the goroutines of the phase
// have ended.  Whether what happened is allowed is decided by the
// specification.

import (
	"fmt"
	"math/big"
	"os"
	"sort"
	"strings"
	"sync"
	"testing"
	"time"

	bn256 "github.com/ethereum/go-ethereum/crypto/bn256/cloudflare"

	kit "github.com/keep-network/keep-core/internal/verifkit"
	dkgResult "github.com/keep-network/keep-core/pkg/beacon/dkg/result"
	"github.com/keep-network/keep-core/pkg/beacon/gjkr"
	"github.com/keep-network/keep-core/pkg/net"
)

const xblExitWait = 90 * time.Second

type xblScenario struct {
	name  string
	n, h  int
	seats []string
	bad   []string // nodes the scenario injects faults into (the others are "honest")
	run   func(s *xblRun)
}

type xblRun struct {
	t   *testing.T
	sc  *xblScenario
	w   *xblWorld
	rep *kit.Report
	// outcome summary for the coverage guard of the engine
	notes []string
}

func (s *xblRun) note(f string, a ...interface{}) {
	s.notes = append(s.notes, fmt.Sprintf(f, a...))
}

// dkgEndBlock is the first block at which no member of the round can still be
// waiting for its submission slot or for a result event.
func (s *xblRun) dkgEndBlock(r *xblRound) uint64 {
	return r.start + gjkr.ProtocolBlocks() + dkgResult.PrePublicationBlocks() +
		uint64(s.w.n)*s.w.cfg.ResultPublicationBlockStep + 2
}

// runDKG starts a DKG round, delivers the started event (copies[node] times,
// default once; the extra copies concurrently and one more a block later for
// nodes listed in `late`), lets `during` inject faults, and waits until every
// ExecuteDKG goroutine of the round has ended.
func (s *xblRun) runDKG(copies map[string]int, late []string, during func(r *xblRound)) *xblRound {
	w := s.w
	r := w.startDKG()
	var wg sync.WaitGroup
	for _, nd := range w.order {
		c := 1
		if v, ok := copies[nd]; ok {
			c = v
		}
		if c == 0 {
			continue
		}
		wg.Add(1)
		go func(nd string, c int) {
			defer wg.Done()
			w.deliverDKGStarted(r, nd, c)
		}(nd, c)
	}
	wg.Wait()
	for _, nd := range late {
		w.waitBlock(w.block() + 1)
		w.deliverDKGStarted(r, nd, 1)
	}
	if during != nil {
		during(r)
	}
	w.waitBlock(s.dkgEndBlock(r))
	s.awaitDkgExit(r)
	w.closeDKG(r)
	return r
}

// awaitDkgExit waits until the goroutines that ran ExecuteDKG for the round
// have ended and records the fact.  A goroutine that is still there after the
// bound is reported as such (the trace then simply lacks its exit).
func (s *xblRun) awaitDkgExit(r *xblRound) {
	w := s.w
	deadline := time.Now().Add(xblExitWait)
	for {
		live := xblLiveGIDs()
		w.mu.Lock()
		pending := 0
		var done []*xblTask
		for _, tk := range w.dkgTasks {
			if tk.round != r.id || tk.exited {
				continue
			}
			if live[tk.gid] {
				pending++
			} else {
				tk.exited = true
				done = append(done, tk)
			}
		}
		sort.Slice(done, func(i, j int) bool { return done[i].member < done[j].member })
		for _, tk := range done {
			if tk.inc.alive.Load() {
				w.emitLocked(xblEv{"event": "DkgExited", "node": tk.node, "inc": tk.inc.id, "member": tk.member, "round": r.id, "block": w.block()})
			}
		}
		w.mu.Unlock()
		if pending == 0 {
			return
		}
		if time.Now().After(deadline) {
			s.note("round %d: %d ExecuteDKG goroutines still running after %v", r.id, pending, xblExitWait)
			return
		}
		time.Sleep(100 * time.Millisecond)
	}
}

// runRelay opens a relay request for the group key, delivers the event and
// waits until the request is over and every SignAndSubmit goroutine ended.
func (s *xblRun) runRelay(key, prev []byte, copies map[string]int, during func(q *xblReq)) *xblReq {
	return s.runRelay2(key, prev, copies, nil, during)
}

// runRelay2: `before` runs when the request is open on the chain and no node
// has been told yet.
func (s *xblRun) runRelay2(key, prev []byte, copies map[string]int, before, during func(q *xblReq)) *xblReq {
	w := s.w
	q := w.requestRelay(key, prev)
	if before != nil {
		before(q)
	}
	var wg sync.WaitGroup
	for _, nd := range w.order {
		c := 1
		if v, ok := copies[nd]; ok {
			c = v
		}
		if c == 0 {
			continue
		}
		wg.Add(1)
		go func(nd string, c int) {
			defer wg.Done()
			w.deliverRelayRequested(q, nd, c)
		}(nd, c)
	}
	wg.Wait()
	if during != nil {
		during(q)
	}
	s.awaitRelayEnd(q)
	return q
}

func (s *xblRun) awaitRelayEnd(q *xblReq) {
	w := s.w
	end := q.start + w.cfg.RelayEntryTimeout + 2
	// the request ends by an accepted entry or at the timeout block
	for {
		w.mu.Lock()
		open := q.open
		w.mu.Unlock()
		if !open || w.block() >= end {
			break
		}
		time.Sleep(50 * time.Millisecond)
	}
	deadline := time.Now().Add(xblExitWait)
	for {
		live := xblLiveGIDs()
		w.mu.Lock()
		pending := 0
		var done []*xblTask
		for _, tk := range w.signTasks {
			if tk.req != q.id || tk.exited {
				continue
			}
			if live[tk.gid] {
				pending++
			} else {
				tk.exited = true
				done = append(done, tk)
			}
		}
		sort.Slice(done, func(i, j int) bool { return done[i].gid < done[j].gid })
		for _, tk := range done {
			if tk.inc.alive.Load() {
				w.emitLocked(xblEv{"event": "SigningExited", "node": tk.node, "inc": tk.inc.id, "task": tk.gid, "member": w.tasks[tk.gid], "req": q.id, "block": w.block()})
			}
		}
		w.mu.Unlock()
		if pending == 0 {
			break
		}
		if time.Now().After(deadline) {
			s.note("request %d: %d SignAndSubmit goroutines still running after %v", q.id, pending, xblExitWait)
			break
		}
		time.Sleep(100 * time.Millisecond)
	}
	// let the relay entry monitors (one per confirmed delivery) finish: they
	// end at the submitted event or report the timeout at the timeout block
	w.mu.Lock()
	timedOut := !q.done
	w.mu.Unlock()
	if timedOut {
		w.waitBlock(end + 1)
	}
	time.Sleep(300 * time.Millisecond)
	w.mu.Lock()
	if q.open {
		// nobody reported the timeout: the chain closes the request itself
		q.open, q.timedOut = false, true
	}
	w.emitLocked(xblEv{"event": "RelayClosed", "req": q.id, "done": q.done, "block": w.block()})
	w.mu.Unlock()
}

func xblPrev(i int64) []byte {
	return new(bn256.G1).ScalarBaseMult(big.NewInt(1328472189 + i)).Marshal()
}

func (s *xblRun) restart(node string) {
	nd := s.w.nodes[node]
	nd.kill("restart")
	nd.start()
}

func (s *xblRun) startAll() {
	for _, nd := range s.w.order {
		s.w.nodes[nd].start()
	}
}

func xblOthers(all []string, x string) []string {
	out := []string{}
	for _, a := range all {
		if a != x {
			out = append(out, a)
		}
	}
	return out
}

func xblTypeIs(m net.TaggedMarshaler, sub string) bool { return strings.Contains(m.Type(), sub) }

// ---------------------------------------------------------------- the scenarios

func xblScenarios() []*xblScenario {
	abc := []string{"a", "b", "c"}
	r := kit.Rand(4711)
	pick := func(xs []string) string { return xs[r.Intn(len(xs))] }
	victim := pick(abc)     // the node faults are injected into
	restarted := pick(abc)  // the node restarted between DKG and relay entry
	dupNode := pick(abc)    // receives the DKG started event twice at once
	lateNode := pick(abc)   // receives one more copy a block later
	relayDup := pick(abc)   // receives the relay request twice at once
	staleNode := pick(abc)  // receives stale events
	victimSeat := map[string]int{"a": 1, "b": 2, "c": 3}[victim]

	happy := &xblScenario{name: "happy", n: 3, h: 2, seats: abc, run: func(s *xblRun) {
		w := s.w
		s.startAll()
		r1 := s.runDKG(map[string]int{dupNode: 2}, []string{lateNode}, nil)
		// a stale copy of the started event after the round is over
		w.deliverDKGStarted(r1, staleNode, 1)
		if !r1.accepted {
			s.note("round 1 produced no accepted result")
			return
		}
		s.restart(restarted)
		q1 := s.runRelay(r1.key, xblPrev(1), map[string]int{relayDup: 2}, nil)
		// a second request (new previous entry), then a stale copy of the first
		// (the stale copy arrives while the second request is the current one)
		s.runRelay2(r1.key, xblPrev(2), nil, func(q *xblReq) {
			w.deliverRelayRequested(q1, staleNode, 1)
		}, nil)
	}}

	// the victim node dies in the middle of GJKR; the others finish without
	// it; it comes back (empty registry) before the relay request
	crash := &xblScenario{name: "crash", n: 3, h: 2, seats: abc, bad: []string{victim}, run: func(s *xblRun) {
		w := s.w
		s.startAll()
		r1 := s.runDKG(nil, nil, func(r *xblRound) {
			w.waitBlock(r.start + 14 + uint64(kit.Rand(5).Intn(30)))
			w.nodes[victim].kill("crash during GJKR")
		})
		if !r1.accepted {
			s.note("round 1 produced no accepted result")
			return
		}
		w.nodes[victim].start()
		s.runRelay(r1.key, xblPrev(3), nil, nil)
	}}

	// the victim's phase-7 points never leave it: the others mark it inactive
	// and reconstruct, the victim finishes GJKR with its own view, cannot
	// gather support, and must drop out when the chain says it misbehaved
	fateOut := &xblScenario{name: "fateOut", n: 3, h: 2, seats: abc, bad: []string{victim}, run: func(s *xblRun) {
		w := s.w
		s.startAll()
		w.nodes[victim].inc.dropOut.Store(func(m net.TaggedMarshaler) bool {
			return xblTypeIs(m, "member_public_key_share_points")
		})
		r1 := s.runDKG(nil, nil, nil)
		if !r1.accepted {
			s.note("round 1 produced no accepted result")
			return
		}
		s.runRelay(r1.key, xblPrev(4), nil, nil)
	}}

	// the victim's last GJKR message (phase 10) never leaves it: the others
	// mark it inactive in the final phase and publish a result that lists it;
	// the victim itself saw nothing wrong, signs a result nobody else supports,
	// fails to publish and must give up its membership as the chain decided
	fateOut2 := &xblScenario{name: "fateOut2", n: 3, h: 2, seats: abc, bad: []string{victim}, run: func(s *xblRun) {
		w := s.w
		s.startAll()
		w.nodes[victim].inc.dropOut.Store(func(m net.TaggedMarshaler) bool {
			return xblTypeIs(m, "misbehaved_ephemeral_keys")
		})
		r1 := s.runDKG(nil, nil, nil)
		if !r1.accepted {
			s.note("round 1 produced no accepted result")
			return
		}
		s.restart(victim)
		s.runRelay(r1.key, xblPrev(11), nil, nil)
	}}

	// the victim misses the last GJKR message of ONE other member and marks it
	// inactive: its result differs from the one the chain accepts (which lists
	// nobody); it keeps its membership, with the operators the chain decided
	other := xblOthers(abc, victim)[r.Intn(2)]
	otherSeat := map[string]int{"a": 1, "b": 2, "c": 3}[other]
	fateKeep2 := &xblScenario{name: "fateKeep2", n: 3, h: 2, seats: abc, bad: []string{victim}, run: func(s *xblRun) {
		w := s.w
		s.startAll()
		w.nodes[victim].inc.dropIn.Store(func(m net.Message) bool {
			sd, ok := m.Payload().(xblSender)
			return ok && strings.Contains(m.Type(), "misbehaved_ephemeral_keys") && int(sd.SenderID()) == otherSeat
		})
		r1 := s.runDKG(nil, nil, nil)
		if !r1.accepted {
			s.note("round 1 produced no accepted result")
			return
		}
		s.runRelay(r1.key, xblPrev(12), nil, nil)
	}}

	// the victim never receives the others' result signatures: its own
	// publication fails for lack of support and it keeps its membership
	// because the chain accepted the same key and does not list it
	fateKeep := &xblScenario{name: "fateKeep", n: 3, h: 2, seats: abc, bad: []string{victim}, run: func(s *xblRun) {
		w := s.w
		s.startAll()
		w.nodes[victim].inc.dropIn.Store(func(m net.Message) bool {
			return strings.Contains(m.Type(), "dkg_result_hash_signature")
		})
		r1 := s.runDKG(nil, nil, nil)
		if !r1.accepted {
			s.note("round 1 produced no accepted result")
			return
		}
		s.restart(victim)
		s.runRelay(r1.key, xblPrev(5), nil, nil)
	}}

	// after the DKG two of three nodes die: the relay request times out
	timeout := &xblScenario{name: "timeout", n: 3, h: 2, seats: abc, bad: []string{}, run: func(s *xblRun) {
		w := s.w
		s.startAll()
		r1 := s.runDKG(nil, nil, nil)
		if !r1.accepted {
			s.note("round 1 produced no accepted result")
			return
		}
		for _, nd := range abc {
			if nd != victim {
				w.nodes[nd].kill("down for the relay request")
			}
		}
		s.runRelay(r1.key, xblPrev(6), nil, nil)
		// the others come back; the next request (same previous entry, as after a timeout) succeeds
		for _, nd := range abc {
			if nd != victim {
				w.nodes[nd].start()
			}
		}
		s.runRelay(r1.key, xblPrev(6), nil, nil)
	}}

	// a node restarts while a relay request is open and resumes signing
	resume := &xblScenario{name: "resume", n: 3, h: 2, seats: abc, bad: xblOthers(abc, victim), run: func(s *xblRun) {
		w := s.w
		s.startAll()
		r1 := s.runDKG(nil, nil, nil)
		if !r1.accepted {
			s.note("round 1 produced no accepted result")
			return
		}
		// the two other nodes cannot hear each other's shares: nobody reaches the threshold
		for _, nd := range abc {
			if nd != victim {
				w.nodes[nd].inc.dropOut.Store(func(m net.TaggedMarshaler) bool { return xblTypeIs(m, "relay/signature/share") })
			}
		}
		s.runRelay(r1.key, xblPrev(7), map[string]int{victim: 0}, func(q *xblReq) {
			w.waitBlock(q.start + 2)
			s.restart(victim) // ResumeSigningIfEligible: joins the open request; its share completes the others' sets
		})
	}}

	// two DKG rounds; the first group becomes stale and is archived when the
	// second is registered; after a restart only the second group is known
	twoRounds := &xblScenario{name: "twoRounds", n: 3, h: 2, seats: abc, run: func(s *xblRun) {
		w := s.w
		s.startAll()
		r1 := s.runDKG(nil, nil, nil)
		if !r1.accepted {
			s.note("round 1 produced no accepted result")
			return
		}
		s.runRelay(r1.key, xblPrev(8), nil, nil)
		r2 := s.runDKG(map[string]int{dupNode: 2}, nil, func(r *xblRound) {
			// a stale copy of round 1's event while round 2 runs
			w.deliverDKGStarted(r1, staleNode, 1)
		})
		if !r2.accepted {
			s.note("round 2 produced no accepted result")
			return
		}
		w.markStale(r1.key)
		for _, nd := range abc {
			w.deliverGroupRegistered(r2.key, nd)
		}
		time.Sleep(500 * time.Millisecond)
		s.awaitArchive()
		s.restart(restarted)
		s.runRelay(r1.key, xblPrev(9), nil, nil) // stale group: nobody signs, the request times out
		s.runRelay(r2.key, xblPrev(9), nil, nil)
	}}

	// one operator holds two of four seats
	multiSeat := &xblScenario{name: "multiSeat", n: 4, h: 3, seats: []string{"a", "a", "b", "c"}, run: func(s *xblRun) {
		s.startAll()
		r1 := s.runDKG(map[string]int{"a": 2}, nil, nil)
		if !r1.accepted {
			s.note("round 1 produced no accepted result")
			return
		}
		s.restart("a")
		s.runRelay(r1.key, xblPrev(10), map[string]int{"a": 2}, nil)
	}}
	_ = victimSeat

	all := map[string]*xblScenario{}
	for _, sc := range []*xblScenario{happy, crash, fateOut, fateOut2, fateKeep, fateKeep2, timeout, resume, twoRounds, multiSeat} {
		all[sc.name] = sc
	}
	want := strings.Split(os.Getenv("XBL_SCENARIOS"), ",")
	var out []*xblScenario
	for _, nm := range want {
		if sc, ok := all[strings.TrimSpace(nm)]; ok {
			out = append(out, sc)
		}
	}
	return out
}

// awaitArchive waits (bounded) until the stale-group sweeps triggered by the
// group registration events have asked the chain and are done.
func (s *xblRun) awaitArchive() {
	deadline := time.Now().Add(20 * time.Second)
	last := -1
	for time.Now().Before(deadline) {
		s.w.mu.Lock()
		n := len(s.w.evs)
		s.w.mu.Unlock()
		if n == last {
			return
		}
		last = n
		time.Sleep(400 * time.Millisecond)
	}
}

// ---------------------------------------------------------------- the test

func TestVerif_XBL_Lifecycle(t *testing.T) {
	kit.RequireEngine(t)
	rep := kit.NewReport("XBL", "lifecycle")
	defer rep.Write(t)
	scs := xblScenarios()
	if len(scs) == 0 {
		t.Fatalf("xbl: no scenario selected (XBL_SCENARIOS=%q)", os.Getenv("XBL_SCENARIOS"))
	}
	tracers := map[string]*kit.Tracer{}
	for _, sc := range scs {
		lay := strings.Join(sc.seats, "")
		if tracers[lay] == nil {
			tracers[lay] = kit.NewTracer(t, "trace_"+lay)
		}
	}
	runs := make([]*xblRun, len(scs))
	var wg sync.WaitGroup
	for i, sc := range scs {
		w := xblNewWorld(t, sc.name, sc.n, sc.h, sc.seats)
		runs[i] = &xblRun{t: t, sc: sc, w: w, rep: rep}
		wg.Add(1)
		go func(s *xblRun) {
			defer wg.Done()
			defer func() {
				if p := recover(); p != nil {
					s.note("scenario driver panicked: %v", p)
				}
			}()
			s.sc.run(s)
			// every node goes down at the end of the scenario
			for _, nd := range s.w.order {
				s.w.nodes[nd].kill("end of scenario")
			}
		}(runs[i])
	}
	wg.Wait()
	for _, s := range runs {
		w := s.w
		tr := tracers[strings.Join(s.sc.seats, "")]
		bad := s.sc.bad
		if bad == nil {
			bad = []string{}
		}
		tr.Reset(map[string]interface{}{
			"scenario": s.sc.name, "n": w.n, "h": w.h, "seats": w.seats, "nodes": w.order, "bad": bad,
			"step": w.cfg.ResultPublicationBlockStep, "timeout": w.cfg.RelayEntryTimeout,
			"protoBlocks": gjkr.ProtocolBlocks(), "prePub": dkgResult.PrePublicationBlocks(),
		})
		w.mu.Lock()
		evs := w.evs
		w.mu.Unlock()
		cnt := map[string]int{}
		for _, ev := range evs {
			tr.Emit(ev)
			cnt[ev["event"].(string)]++
			rep.Count("ev_"+ev["event"].(string), 1)
			if ev["event"] == "Submitted" && ev["accepted"] == true {
				rep.Count("dkg_accepted", 1)
			}
			if ev["event"] == "EntrySubmitted" && ev["accepted"] == true {
				rep.Count("entry_accepted", 1)
			}
		}
		rep.Eval("scenario:"+s.sc.name, map[string]interface{}{"scenario": s.sc.name, "events": cnt, "notes": s.notes})
		for _, n := range s.notes {
			rep.Note("%s: %s", s.sc.name, n)
		}
		rep.Count("scenario_"+s.sc.name, 1)
	}
	for _, tr := range tracers {
		tr.Close()
	}
}
