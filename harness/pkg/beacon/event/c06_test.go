//go:build verif

package event

// C06 conformance harness (see /verif/specs/RelayDedup).
//
//   TestVerif_C06_Replay      steps the real Deduplicator through every
//       behaviour emitted by Gen_RelayDedup (all notification sequences with
//       every chain answer where the chain is consulted) and compares, after
//       every call: the boolean result, whether an error was returned, how
//       many chain methods were queried (and in which order), and the
//       remembered request (currentRequestStartBlock / PreviousEntry).
//   TestVerif_C06_Concurrent  8 goroutines notify concurrently on one
//       Deduplicator; Call/Return events are recorded for Trace_RelayDedup,
//       which accepts the run iff the results are explained by some atomic
//       order of the overlapping calls (linearizability).

import (
	"errors"
	"fmt"
	"math/big"
	"runtime"
	"sync"
	"testing"
	"time"

	"encoding/hex"

	kit "github.com/keep-network/keep-core/internal/verifkit"
)

type c06Chain struct {
	mu      sync.Mutex
	kind    string // none | ok | errPrev | errStart
	prev    string // hex
	start   uint64
	queries []string
	slow    bool
}

func (c *c06Chain) set(kind, prev string, start uint64) {
	c.mu.Lock()
	c.kind, c.prev, c.start = kind, prev, start
	c.queries = nil
	c.mu.Unlock()
}

func (c *c06Chain) pause() {
	if c.slow {
		runtime.Gosched()
		time.Sleep(20 * time.Microsecond)
	}
}

func (c *c06Chain) CurrentRequestStartBlock() (*big.Int, error) {
	c.mu.Lock()
	c.queries = append(c.queries, "start")
	kind, start := c.kind, c.start
	c.mu.Unlock()
	c.pause()
	if kind == "errStart" {
		return nil, errors.New("verif: start block unavailable")
	}
	return new(big.Int).SetUint64(start), nil
}

func (c *c06Chain) CurrentRequestPreviousEntry() ([]byte, error) {
	c.mu.Lock()
	c.queries = append(c.queries, "prev")
	kind, prev := c.kind, c.prev
	c.mu.Unlock()
	c.pause()
	if kind == "errPrev" {
		return nil, errors.New("verif: previous entry unavailable")
	}
	b, _ := hex.DecodeString(prev)
	return b, nil
}

func (c *c06Chain) taken() []string {
	c.mu.Lock()
	defer c.mu.Unlock()
	return append([]string{}, c.queries...)
}

type c06Obs struct {
	Ret      bool     `json:"ret"`
	Err      bool     `json:"err"`
	Queries  []string `json:"queries"`
	CurStart uint64   `json:"curStart"`
	CurPrev  string   `json:"curPrev"`
	Panic    string   `json:"panic,omitempty"`
}

func c06Call(d *Deduplicator, ch *c06Chain, start uint64, prev string) (o c06Obs) {
	defer func() {
		if p := recover(); p != nil {
			o.Panic = fmt.Sprint(p)
		}
	}()
	ret, err := d.NotifyRelayEntryStarted(start, prev)
	o.Ret, o.Err = ret, err != nil
	o.Queries = ch.taken()
	// the method has returned: reading the fields is race free in the
	// sequential replay
	o.CurStart, o.CurPrev = d.currentRequestStartBlock, d.currentRequestPreviousEntry
	return
}

func TestVerif_C06_Replay(t *testing.T) {
	kit.RequireEngine(t)
	rep := kit.NewReport("C06", "replay")
	defer rep.Write(t)
	cases := kit.LoadCases(t, "behaviours.ndjson")
	for _, b := range cases {
		ch := &c06Chain{}
		d := NewDeduplicator(ch)
		id := ""
		consulted := false
		for n, s := range b.Get("steps").List() {
			a := s.Get("ans")
			start, prev := uint64(s.Get("start").Int()), s.Get("prev").Str()
			kind := a.Get("kind").Str()
			if kind == "none" {
				// the spec says the chain is not consulted; if the code asks
				// anyway it gets an error, and the query count exposes it
				ch.set("errPrev", "", 0)
			} else {
				ch.set(kind, a.Get("prev").Str(), uint64(a.Get("start").Int()))
				consulted = true
			}
			id += fmt.Sprintf("%d%s", start, prev)
			switch kind {
			case "ok":
				id += fmt.Sprintf("[%s%d]", a.Get("prev").Str(), a.Get("start").Int())
			case "errPrev", "errStart":
				id += "[" + kind + "]"
			}
			id += ";"
			got := c06Call(d, ch, start, prev)
			var wantQ []string
			switch s.Get("queries").Int() {
			case 1:
				wantQ = []string{"prev"}
			case 2:
				wantQ = []string{"prev", "start"}
			}
			want := c06Obs{Ret: s.Get("ret").Bool(), Err: s.Get("err").Bool(), Queries: wantQ,
				CurStart: uint64(s.Get("curStart").Int()), CurPrev: s.Get("curPrev").Str()}
			rep.Count("calls", 1)
			if want.Ret {
				rep.Count("processed", 1)
			}
			key := "replay:" + id
			switch {
			case got.Panic != "":
				rep.Diverge(key, "NotifyRelayEntryStarted panicked: "+got.Panic, b.X, want, got)
			case got.Ret != want.Ret && got.Ret:
				rep.Diverge(key, fmt.Sprintf("call %d (%d,%s) was told to process a relay request the specification ignores (duplicate, stale or unconfirmed)", n+1, start, prev), b.X, want, got)
			case got.Ret != want.Ret:
				rep.Diverge(key, fmt.Sprintf("call %d (%d,%s) ignored a relay request that must be processed", n+1, start, prev), b.X, want, got)
			case got.Err != want.Err:
				rep.Diverge(key, fmt.Sprintf("call %d (%d,%s): error returned = %v, specification %v", n+1, start, prev, got.Err, want.Err), b.X, want, got)
			case got.CurStart != want.CurStart || got.CurPrev != want.CurPrev:
				rep.Diverge(key, fmt.Sprintf("after call %d (%d,%s) the remembered request is (%d,%s), specification (%d,%s)", n+1, start, prev, got.CurStart, got.CurPrev, want.CurStart, want.CurPrev), b.X, want, got)
			case fmt.Sprint(got.Queries) != fmt.Sprint(want.Queries):
				// which chain methods are asked (and in which order) is not
				// part of the contract: recorded, not a divergence
				rep.Count("query_pattern_differs", 1)
			}
			if got.Panic != "" || got.Ret != want.Ret || got.CurStart != want.CurStart || got.CurPrev != want.CurPrev {
				break // the states have diverged: later steps are meaningless
			}
		}
		key := ""
		if consulted {
			key = id
		}
		rep.Eval(key, map[string]interface{}{"behaviour": id})
	}
}

// c06Barrier is a reusable barrier for n goroutines.
type c06Barrier struct {
	mu    sync.Mutex
	cond  *sync.Cond
	n     int
	count int
	gen   int
}

func newC06Barrier(n int) *c06Barrier {
	b := &c06Barrier{n: n}
	b.cond = sync.NewCond(&b.mu)
	return b
}

func (b *c06Barrier) wait() {
	b.mu.Lock()
	gen := b.gen
	b.count++
	if b.count == b.n {
		b.count = 0
		b.gen++
		b.cond.Broadcast()
	} else {
		for gen == b.gen {
			b.cond.Wait()
		}
	}
	b.mu.Unlock()
}

func TestVerif_C06_Concurrent(t *testing.T) {
	kit.RequireEngine(t)
	rep := kit.NewReport("C06", "concurrent")
	defer rep.Write(t)
	runs := kit.IntEnv("VERIF_RUNS", 60)
	workers := kit.IntEnv("VERIF_WORKERS", 8)
	perWorker := kit.IntEnv("VERIF_CALLS", 3)
	tr := kit.NewTracer(t, "trace_dedup")
	defer tr.Close()
	r := kit.Rand(6)
	entries := []string{"aa", "bb", "cc"}

	for run := 0; run < runs; run++ {
		ch := &c06Chain{slow: true}
		// plan: mode 0 = everyone notifies the same request (duplicates),
		// mode 1 = small alphabet so that retries with the same previous
		// entry meet the chain, mode 2 = increasing blocks, mode 3 = retry
		// storm: after (s0, p) was processed everyone notifies the retried
		// request (s1, p) which the chain confirms as current
		mode := run % 4
		// the chain's view for the whole run
		var kind, cprev string
		var cstart uint64
		switch r.Intn(6) {
		case 0:
			kind = "errPrev"
		case 1:
			kind = "errStart"
		default:
			kind, cprev, cstart = "ok", entries[r.Intn(2)], uint64(2+r.Intn(5))
		}
		if mode == 3 && run%8 == 3 {
			kind, cprev, cstart = "ok", entries[r.Intn(2)], uint64(2+r.Intn(5))
		}
		ch.set(kind, cprev, cstart)
		tr.Reset(map[string]interface{}{"ans": map[string]interface{}{"kind": kind, "prev": cprev, "start": cstart}})
		d := NewDeduplicator(ch)

		type call struct {
			start uint64
			prev  string
		}
		notify := func(id int, c call) bool {
			tr.Emit(map[string]interface{}{"event": "Call", "id": id, "start": c.start, "prev": c.prev})
			ret, err := d.NotifyRelayEntryStarted(c.start, c.prev)
			tr.Emit(map[string]interface{}{"event": "Return", "id": id, "ret": ret, "err": err != nil})
			return ret
		}
		plans := make([][]call, workers)
		same := call{uint64(1 + r.Intn(6)), entries[r.Intn(2)]}
		if mode == 3 {
			p := cprev
			if p == "" {
				p = entries[0]
			}
			s1 := cstart
			if s1 < 2 {
				s1 = 5
			}
			notify(9000, call{1 + uint64(r.Intn(int(s1-1))), p})
			same = call{s1, p}
		}
		for w := range plans {
			for c := 0; c < perWorker; c++ {
				switch {
				case (mode == 0 || mode == 3) && c == 0:
					plans[w] = append(plans[w], same)
				case mode == 2:
					plans[w] = append(plans[w], call{uint64(1 + c*4 + r.Intn(4)), entries[r.Intn(3)]})
				default:
					plans[w] = append(plans[w], call{uint64(1 + r.Intn(6)), entries[r.Intn(2)]})
				}
			}
		}
		var wg sync.WaitGroup
		bar := newC06Barrier(workers)
		trues := make([]int, workers)
		for w := 0; w < workers; w++ {
			wg.Add(1)
			go func(w int) {
				defer wg.Done()
				for c, pl := range plans[w] {
					id := w*100 + c
					// all Calls of a round are recorded first, then every
					// goroutine invokes the method at the same moment
					tr.Emit(map[string]interface{}{"event": "Call", "id": id, "start": pl.start, "prev": pl.prev})
					bar.wait()
					ret, err := d.NotifyRelayEntryStarted(pl.start, pl.prev)
					tr.Emit(map[string]interface{}{"event": "Return", "id": id, "ret": ret, "err": err != nil})
					if ret {
						trues[w]++
					}
				}
			}(w)
		}
		wg.Wait()
		n := 0
		for _, x := range trues {
			n += x
		}
		rep.Eval(fmt.Sprintf("run%d/mode%d/%s", run, mode, kind), map[string]interface{}{"mode": mode, "chain": kind, "processed": n})
		rep.Count("processed", n)
		rep.Count(fmt.Sprintf("processed_mode%d", mode), n)
		rep.Count("calls", workers*perWorker)
	}
	rep.Count("events", tr.N())
}
