//go:build verif

package event

// C37 conformance harness for the beacon's Deduplicator.NotifyDKGStarted
// (spec: /verif/specs/Dedup). Drivers live in the kit (dedup.go).

import (
	"math/big"
	"strconv"
	"strings"
	"testing"
	"time"

	"github.com/keep-network/keep-common/pkg/cache"
	kit "github.com/keep-network/keep-core/internal/verifkit"
	"github.com/keep-network/keep-core/pkg/internal/verifhook"
)

func c37Targets() []kit.DedupTarget {
	return []kit.DedupTarget{
		{Name: "beacon.NotifyDKGStarted", New: func(p time.Duration) func(string) bool {
			d := NewDeduplicator(nil)
			if p != 0 {
				d = &Deduplicator{dkgSeedCache: cache.NewTimeCache(p)}
			}
			return func(k string) bool {
				n, _ := strconv.Atoi(strings.TrimPrefix(k, "k"))
				return d.NotifyDKGStarted(big.NewInt(int64(0x7700 + n)))
			}
		}},
	}
}

func TestVerif_C37_Schedules(t *testing.T) {
	kit.RequireEngine(t)
	rep := kit.NewReport("C37", "beacon_schedules")
	defer rep.Write(t)
	kit.ReplayDedupSchedules(t, rep, kit.LoadCases(t, "schedules.ndjson"), c37Targets(),
		func(h func(string, ...interface{})) { verifhook.Install(h) }, verifhook.Uninstall)
}

func TestVerif_C37_Sequences(t *testing.T) {
	kit.RequireEngine(t)
	rep := kit.NewReport("C37", "beacon_sequences")
	defer rep.Write(t)
	kit.ReplayDedupSequences(t, rep, kit.LoadCases(t, "sequences.ndjson"), c37Targets())
}

func TestVerif_C37_Hammer(t *testing.T) {
	kit.RequireEngine(t)
	rep := kit.NewReport("C37", "beacon_hammer")
	defer rep.Write(t)
	tr := kit.NewTracer(t, "trace_beacon")
	defer tr.Close()
	kit.HammerDedup(t, rep, tr, c37Targets()[0], kit.IntEnv("VERIF_ROUNDS", 300), 4, 7)
}
