//go:build verif

package beacon_test

// XBL -- binding of the composition specification
// /verif/specs/BeaconLifecycle to the real random beacon client.
//
// This file holds the "world" every scenario runs in:
//
//   - xblWorld        one chain shared by all nodes of a scenario.  It is a
//                     wrapper around the repository's local_v1 chain (block
//                     counter with real block timing, beacon configuration,
//                     DKG result hash, operator signing) that adds what
//                     local_v1 leaves unimplemented and what a contract does:
//                     group selection, emission of DKG-started and
//                     relay-entry-requested events (with duplicate and stale
//                     deliveries), first valid DKG result wins, the current
//                     relay request, BLS verification of a submitted entry,
//                     the relay entry timeout, stale groups.
//   - xblChain        the chain handle of ONE incarnation of one node
//                     (beaconchain.Interface).  Everything the client asks
//                     the chain or tells the chain is recorded as an event.
//   - xblNet/xblChan  net.Provider / net.BroadcastChannel wrappers around
//                     pkg/net/local: record what is sent, drop what a
//                     scenario wants dropped, go silent when the incarnation
//                     is dead.
//   - xblPers         persistence.ProtectedHandle wrapper around the real
//                     encrypted disk persistence of keep-common.
//
// No hooks are used: every event is observed at a call the client makes on
// one of these three handles.  Member attribution of a call uses the id of
// the calling goroutine (each member's ExecuteDKG / SignAndSubmit runs on its
// own goroutine; the first protocol message a goroutine sends tells which
// member it is).

import (
	"bytes"
	"context"
	"encoding/hex"
	"fmt"
	"math/big"
	"runtime"
	"sort"
	"strconv"
	"strings"
	"sync"
	"sync/atomic"
	"testing"
	"time"

	bn256 "github.com/ethereum/go-ethereum/crypto/bn256/cloudflare"
	"google.golang.org/protobuf/proto"

	"github.com/keep-network/keep-common/pkg/persistence"
	kit "github.com/keep-network/keep-core/internal/verifkit"
	"github.com/keep-network/keep-core/pkg/altbn128"
	"github.com/keep-network/keep-core/pkg/beacon"
	beaconchain "github.com/keep-network/keep-core/pkg/beacon/chain"
	resultpb "github.com/keep-network/keep-core/pkg/beacon/dkg/result/gen/pb"
	entrypb "github.com/keep-network/keep-core/pkg/beacon/entry/gen/pb"
	"github.com/keep-network/keep-core/pkg/beacon/event"
	"github.com/keep-network/keep-core/pkg/beacon/gjkr"
	"github.com/keep-network/keep-core/pkg/beacon/registry"
	"github.com/keep-network/keep-core/pkg/bls"
	"github.com/keep-network/keep-core/pkg/chain"
	"github.com/keep-network/keep-core/pkg/chain/local_v1"
	"github.com/keep-network/keep-core/pkg/generator"
	"github.com/keep-network/keep-core/pkg/net"
	netLocal "github.com/keep-network/keep-core/pkg/net/local"
	"github.com/keep-network/keep-core/pkg/operator"
	"github.com/keep-network/keep-core/pkg/protocol/group"
	"github.com/keep-network/keep-core/pkg/subscription"
)

type xblEv = map[string]interface{}

// ---------------------------------------------------------------- goroutines

func xblStack() string {
	buf := make([]byte, 1<<14)
	n := runtime.Stack(buf, false)
	return string(buf[:n])
}

func xblParseGID(s string) uint64 {
	// "goroutine 123 [running]:"
	s = strings.TrimPrefix(s, "goroutine ")
	i := strings.IndexByte(s, ' ')
	if i < 0 {
		return 0
	}
	g, _ := strconv.ParseUint(s[:i], 10, 64)
	return g
}

// xblWho returns the id of the calling goroutine, the id of the goroutine
// that created it (0 if unknown) and the stack text.
func xblWho() (uint64, uint64, string) {
	st := xblStack()
	gid := xblParseGID(st)
	var parent uint64
	if i := strings.LastIndex(st, " in goroutine "); i >= 0 {
		rest := st[i+len(" in goroutine "):]
		j := 0
		for j < len(rest) && rest[j] >= '0' && rest[j] <= '9' {
			j++
		}
		parent, _ = strconv.ParseUint(rest[:j], 10, 64)
	}
	return gid, parent, st
}

// xblLiveGIDs returns the ids of all goroutines that currently exist.
func xblLiveGIDs() map[uint64]bool {
	buf := make([]byte, 1<<20)
	for {
		n := runtime.Stack(buf, true)
		if n < len(buf) {
			buf = buf[:n]
			break
		}
		buf = make([]byte, 2*len(buf))
	}
	out := map[uint64]bool{}
	for _, blk := range strings.Split(string(buf), "\n\n") {
		if strings.HasPrefix(blk, "goroutine ") {
			out[xblParseGID(blk)] = true
		}
	}
	return out
}

// ---------------------------------------------------------------- world

type xblBase interface {
	beaconchain.Interface
}

type xblRes struct {
	key string // abstract key id "k1", "k2", ...
	mis []int
}

type xblRound struct {
	id       int
	seed     *big.Int
	start    uint64
	open     bool // group selection answers, results are accepted
	accepted bool
	key      []byte
	keyID    string
	mis      []int
	by       int
	block    uint64
	deliv    map[string]int // node -> deliveries so far
}

type xblReq struct {
	id       int
	start    uint64
	prev     []byte
	prevID   string
	key      []byte // uncompressed group key
	keyID    string
	open     bool
	done     bool
	timedOut bool
	deliv    map[string]int
}

type xblSub struct {
	id   int
	inc  *xblInc
	gid  uint64
	kind string
}

type xblWorld struct {
	t    *testing.T
	name string
	mu   sync.Mutex
	evs  []xblEv

	base xblBase
	bc   chain.BlockCounter
	cfg  *beaconchain.Config
	n, h int

	seats []string // node name of member i+1
	nodes map[string]*xblNode
	order []string

	rounds  []*xblRound
	reqs    []*xblReq
	cur     *xblReq
	groups  map[string]uint64 // hex(uncompressed key) -> registration block
	stale   map[string]bool   // hex(uncompressed key)
	keyIDs  map[string]string // hex(uncompressed key) -> id
	compr   map[string]string // hex(compressed key) -> hex(uncompressed key)
	hashes  map[beaconchain.DKGResultHash]xblRes
	tasks   map[uint64]int // goroutine -> member index
	dkgTasks  map[uint64]*xblTask // goroutines running ExecuteDKG
	signTasks map[uint64]*xblTask // goroutines running SignAndSubmit
	pubs    map[string]map[int]*bn256.G2
	confirm map[uint64]int // goroutine running a relay-requested handler -> request
	nextSub int

	resultSubs map[int]*xblSubResult
	entrySubs  map[int]*xblSubEntry
}

type xblTask struct {
	gid    uint64
	node   string
	inc    *xblInc
	member int
	round  int
	req    int
	exited bool
}

type xblSubResult struct {
	xblSub
	fn func(*event.DKGResultSubmission)
}
type xblSubEntry struct {
	xblSub
	fn func(*event.RelayEntrySubmitted)
}

type xblNode struct {
	w    *xblWorld
	name string
	priv *operator.PrivateKey
	pub  *operator.PublicKey
	addr chain.Address
	dir  string
	inc  *xblInc
	incs int
}

// xblInc is one process lifetime of a node.
type xblInc struct {
	node   *xblNode
	id     int
	alive  atomic.Bool
	cancel context.CancelFunc
	chain  *xblChain
	// what to drop of the messages this incarnation sends: returns true to drop
	dropOut atomic.Value // func(net.TaggedMarshaler) bool
	// what to withhold of the messages that reach this incarnation
	dropIn atomic.Value // func(net.Message) bool

	dkgStarted      []func(*event.DKGStarted)
	relayRequested  []func(*event.RelayEntryRequested)
	groupRegistered []func(*event.GroupRegistration)
}

func xblNewWorld(t *testing.T, name string, n, h int, seats []string) *xblWorld {
	priv, _, err := operator.GenerateKeyPair(local_v1.DefaultCurve)
	if err != nil {
		t.Fatal(err)
	}
	base := local_v1.ConnectWithKey(n, h, priv)
	bc, _ := base.BlockCounter()
	w := &xblWorld{t: t, name: name, base: base, bc: bc, cfg: base.GetConfig(), n: n, h: h, seats: seats,
		nodes: map[string]*xblNode{}, groups: map[string]uint64{}, stale: map[string]bool{},
		keyIDs: map[string]string{}, compr: map[string]string{}, hashes: map[beaconchain.DKGResultHash]xblRes{},
		confirm: map[uint64]int{}, tasks: map[uint64]int{}, dkgTasks: map[uint64]*xblTask{}, signTasks: map[uint64]*xblTask{}, pubs: map[string]map[int]*bn256.G2{},
		resultSubs: map[int]*xblSubResult{}, entrySubs: map[int]*xblSubEntry{}}
	seen := map[string]bool{}
	for _, s := range seats {
		if !seen[s] {
			seen[s] = true
			w.order = append(w.order, s)
			np, npub, err := operator.GenerateKeyPair(local_v1.DefaultCurve)
			if err != nil {
				t.Fatal(err)
			}
			addr, err := local_v1.NewSigner(np).PublicKeyToAddress(npub)
			if err != nil {
				t.Fatal(err)
			}
			w.nodes[s] = &xblNode{w: w, name: s, priv: np, pub: npub, addr: addr, dir: t.TempDir()}
		}
	}
	return w
}

func (w *xblWorld) emitLocked(ev xblEv) {
	w.evs = append(w.evs, ev)
}

func (w *xblWorld) emit(ev xblEv) {
	w.mu.Lock()
	w.evs = append(w.evs, ev)
	w.mu.Unlock()
}

func (w *xblWorld) block() uint64 {
	b, _ := w.bc.CurrentBlock()
	return b
}

func (w *xblWorld) waitBlock(b uint64) {
	_ = w.bc.WaitForBlockHeight(b)
}

func (w *xblWorld) keyIDLocked(key []byte) string {
	h := hex.EncodeToString(key)
	if id, ok := w.keyIDs[h]; ok {
		return id
	}
	id := fmt.Sprintf("k%d", len(w.keyIDs)+1)
	w.keyIDs[h] = id
	g2 := new(bn256.G2)
	if _, err := g2.Unmarshal(key); err == nil {
		// the registry stores groups under the compressed key
		w.compr[hex.EncodeToString(xblCompress(g2))] = h
	}
	return id
}

func xblMis(b []byte) []int {
	out := make([]int, 0, len(b))
	for _, x := range b {
		out = append(out, int(x))
	}
	sort.Ints(out)
	return out
}

func (w *xblWorld) memberOfLocked(gid uint64) int { return w.tasks[gid] }

func (w *xblWorld) curRoundLocked() *xblRound {
	if len(w.rounds) == 0 {
		return nil
	}
	return w.rounds[len(w.rounds)-1]
}

// ---------------------------------------------------------------- node life cycle

// start launches a new incarnation of the node: the real beacon.Initialize
// with this incarnation's chain handle, network provider and persistence.
func (nd *xblNode) start() *xblInc {
	w := nd.w
	ctx, cancel := context.WithCancel(context.Background())
	w.mu.Lock()
	nd.incs++
	inc := &xblInc{node: nd, id: nd.incs, cancel: cancel}
	inc.alive.Store(true)
	inc.dropOut.Store(func(net.TaggedMarshaler) bool { return false })
	inc.dropIn.Store(func(net.Message) bool { return false })
	inc.chain = &xblChain{Interface: w.base, w: w, inc: inc}
	nd.inc = inc
	w.emitLocked(xblEv{"event": "NodeStart", "node": nd.name, "inc": inc.id})
	w.mu.Unlock()

	disk, err := persistence.NewProtectedDiskHandle(nd.dir)
	if err != nil {
		w.t.Fatalf("xbl: disk handle: %v", err)
	}
	pers := &xblPers{ProtectedHandle: persistence.NewEncryptedProtectedPersistence(disk, "xbl-password"), w: w, inc: inc}
	provider := &xblNet{Provider: netLocal.ConnectWithKey(nd.pub), w: w, inc: inc}
	err = beacon.Initialize(ctx, inc.chain, provider, pers, &generator.Scheduler{})
	if err != nil {
		w.t.Fatalf("xbl: beacon.Initialize of node %s failed: %v", nd.name, err)
	}
	w.emit(xblEv{"event": "NodeReady", "node": nd.name, "inc": inc.id})
	return inc
}

// kill ends the current incarnation: from now on the chain handle fails every
// call and delivers no event, nothing it sends leaves the node, nothing
// reaches it, and nothing is persisted (the goroutines of the dead process
// cannot be killed; they starve and end at their timeouts).
func (nd *xblNode) kill(why string) {
	w := nd.w
	w.mu.Lock()
	if nd.inc != nil && nd.inc.alive.Load() {
		nd.inc.alive.Store(false)
		nd.inc.cancel()
		w.emitLocked(xblEv{"event": "Crash", "node": nd.name, "inc": nd.inc.id, "why": why})
	}
	w.mu.Unlock()
}

// ---------------------------------------------------------------- chain driver (what the contracts do)

func (w *xblWorld) startDKG() *xblRound {
	seed := new(big.Int).SetInt64(kit.Rand(int64(len(w.rounds)) + 7919*int64(len(w.name))).Int63())
	seed.Add(seed, new(big.Int).Lsh(big.NewInt(time.Now().UnixNano()&0xffffff), 64)) // distinct broadcast channel per run
	w.mu.Lock()
	r := &xblRound{id: len(w.rounds) + 1, seed: seed, start: w.block() + 2, open: true, deliv: map[string]int{}}
	w.rounds = append(w.rounds, r)
	w.emitLocked(xblEv{"event": "DkgStarted", "round": r.id, "block": r.start})
	w.mu.Unlock()
	return r
}

// closeDKG ends the result submission period of the round (on-chain DKG
// timeout): later results are rejected, group selection fails.
func (w *xblWorld) closeDKG(r *xblRound) {
	w.mu.Lock()
	if r.open {
		r.open = false
		w.emitLocked(xblEv{"event": "DkgClosed", "round": r.id, "accepted": r.accepted, "block": w.block()})
	}
	w.mu.Unlock()
}

// deliverDKGStarted invokes the OnDKGStarted handlers of the node's current
// incarnation (copies times, concurrently), as a chain binding that delivers
// an event more than once does.
func (w *xblWorld) deliverDKGStarted(r *xblRound, node string, copies int) {
	w.mu.Lock()
	nd := w.nodes[node]
	inc := nd.inc
	if inc == nil || !inc.alive.Load() {
		w.mu.Unlock()
		return
	}
	hs := append([]func(*event.DKGStarted){}, inc.dkgStarted...)
	var wg sync.WaitGroup
	for c := 0; c < copies; c++ {
		r.deliv[node]++
		w.emitLocked(xblEv{"event": "DkgStartedDelivered", "node": node, "inc": inc.id, "round": r.id, "dup": r.deliv[node] > 1})
		for _, h := range hs {
			wg.Add(1)
			go func(h func(*event.DKGStarted)) {
				defer wg.Done()
				h(&event.DKGStarted{Seed: new(big.Int).Set(r.seed), BlockNumber: r.start})
			}(h)
		}
	}
	w.mu.Unlock()
	wg.Wait()
}

func (w *xblWorld) requestRelay(key []byte, prev []byte) *xblReq {
	w.mu.Lock()
	defer w.mu.Unlock()
	q := &xblReq{id: len(w.reqs) + 1, start: w.block(), prev: prev, key: key, keyID: w.keyIDLocked(key), open: true, deliv: map[string]int{}}
	if len(w.reqs) > 0 && q.start <= w.reqs[len(w.reqs)-1].start {
		q.start = w.reqs[len(w.reqs)-1].start + 1
	}
	q.prevID = "e" + hex.EncodeToString(prev)[:8]
	w.reqs = append(w.reqs, q)
	w.cur = q
	w.emitLocked(xblEv{"event": "RelayRequested", "req": q.id, "key": q.keyID, "block": q.start, "prev": q.prevID})
	return q
}

func (w *xblWorld) deliverRelayRequested(q *xblReq, node string, copies int) {
	w.mu.Lock()
	nd := w.nodes[node]
	inc := nd.inc
	if inc == nil || !inc.alive.Load() {
		w.mu.Unlock()
		return
	}
	hs := append([]func(*event.RelayEntryRequested){}, inc.relayRequested...)
	var wg sync.WaitGroup
	for c := 0; c < copies; c++ {
		q.deliv[node]++
		w.emitLocked(xblEv{"event": "RelayRequestedDelivered", "node": node, "inc": inc.id, "req": q.id, "dup": q.deliv[node] > 1})
		for _, h := range hs {
			wg.Add(1)
			go func(h func(*event.RelayEntryRequested)) {
				defer wg.Done()
				// the handler confirms the request with the chain and returns
				gid, _, _ := xblWho()
				w.mu.Lock()
				w.confirm[gid] = q.id
				w.mu.Unlock()
				h(&event.RelayEntryRequested{PreviousEntry: q.prev, GroupPublicKey: q.key, BlockNumber: q.start})
			}(h)
		}
	}
	w.mu.Unlock()
	wg.Wait()
}

func (w *xblWorld) markStale(key []byte) {
	w.mu.Lock()
	w.stale[hex.EncodeToString(key)] = true
	w.emitLocked(xblEv{"event": "GroupStale", "key": w.keyIDLocked(key)})
	w.mu.Unlock()
}

func (w *xblWorld) deliverGroupRegistered(key []byte, node string) {
	w.mu.Lock()
	nd := w.nodes[node]
	inc := nd.inc
	if inc == nil || !inc.alive.Load() {
		w.mu.Unlock()
		return
	}
	hs := append([]func(*event.GroupRegistration){}, inc.groupRegistered...)
	w.emitLocked(xblEv{"event": "GroupRegisteredDelivered", "node": node, "inc": inc.id, "key": w.keyIDLocked(key)})
	blk := w.block()
	w.mu.Unlock()
	for _, h := range hs {
		h(&event.GroupRegistration{GroupPublicKey: key, BlockNumber: blk})
	}
}

// ---------------------------------------------------------------- chain handle of one incarnation

type xblChain struct {
	beaconchain.Interface // local_v1: GetConfig, BlockCounter, ...
	w                     *xblWorld
	inc                   *xblInc
}

var errXblDead = fmt.Errorf("xbl: chain connection lost (node is down)")

func (c *xblChain) dead() bool { return !c.inc.alive.Load() }

func (c *xblChain) Signing() chain.Signing { return local_v1.NewSigner(c.inc.node.priv) }

func (c *xblChain) OperatorKeyPair() (*operator.PrivateKey, *operator.PublicKey, error) {
	return c.inc.node.priv, c.inc.node.pub, nil
}

// --- sortition.Chain: the operator is registered, in the pool and up to date
func (c *xblChain) OperatorToStakingProvider() (chain.Address, bool, error) {
	return c.inc.node.addr, true, nil
}
func (c *xblChain) EligibleStake(chain.Address) (*big.Int, error) { return big.NewInt(1), nil }
func (c *xblChain) IsPoolLocked() (bool, error)                    { return false, nil }
func (c *xblChain) IsOperatorInPool() (bool, error)                { return true, nil }
func (c *xblChain) IsOperatorUpToDate() (bool, error)              { return true, nil }
func (c *xblChain) JoinSortitionPool() error                       { return nil }
func (c *xblChain) UpdateOperatorStatus() error                    { return nil }
func (c *xblChain) IsEligibleForRewards() (bool, error)            { return true, nil }
func (c *xblChain) CanRestoreRewardEligibility() (bool, error)     { return false, nil }
func (c *xblChain) RestoreRewardEligibility() error                { return nil }
func (c *xblChain) IsChaosnetActive() (bool, error)                { return false, nil }
func (c *xblChain) IsBetaOperator() (bool, error)                  { return true, nil }
func (c *xblChain) GetOperatorID(chain.Address) (chain.OperatorID, error) {
	return 1, nil
}

// --- group selection
func (c *xblChain) SelectGroup(seed *big.Int) (chain.Addresses, error) {
	w := c.w
	w.mu.Lock()
	defer w.mu.Unlock()
	if c.dead() {
		return nil, errXblDead
	}
	var r *xblRound
	for _, x := range w.rounds {
		if x.seed.Cmp(seed) == 0 {
			r = x
		}
	}
	if r == nil {
		w.emitLocked(xblEv{"event": "DkgJoinAttempt", "node": c.inc.node.name, "inc": c.inc.id, "round": 0, "ok": false})
		return nil, fmt.Errorf("xbl: unknown seed")
	}
	w.emitLocked(xblEv{"event": "DkgJoinAttempt", "node": c.inc.node.name, "inc": c.inc.id, "round": r.id, "ok": r.open})
	if !r.open {
		return nil, fmt.Errorf("xbl: group selection is not in progress")
	}
	out := make(chain.Addresses, len(w.seats))
	for i, s := range w.seats {
		out[i] = w.nodes[s].addr
	}
	return out, nil
}

// --- DKG
func (c *xblChain) OnDKGStarted(h func(*event.DKGStarted)) subscription.EventSubscription {
	c.w.mu.Lock()
	c.inc.dkgStarted = append(c.inc.dkgStarted, h)
	c.w.mu.Unlock()
	return subscription.NewEventSubscription(func() {})
}

func (c *xblChain) CalculateDKGResultHash(r *beaconchain.DKGResult) (beaconchain.DKGResultHash, error) {
	hash, err := c.Interface.CalculateDKGResultHash(r)
	if err != nil {
		return hash, err
	}
	gid, _, _ := xblWho()
	w := c.w
	w.mu.Lock()
	defer w.mu.Unlock()
	res := xblRes{key: w.keyIDLocked(r.GroupPublicKey), mis: xblMis(r.Misbehaved)}
	w.hashes[hash] = res
	if !c.dead() {
		rd := 0
		if cr := w.curRoundLocked(); cr != nil {
			rd = cr.id
		}
		w.emitLocked(xblEv{"event": "GjkrDone", "node": c.inc.node.name, "inc": c.inc.id, "member": w.memberOfLocked(gid),
			"round": rd, "key": res.key, "mis": res.mis, "block": w.block()})
	}
	return hash, nil
}

func (c *xblChain) OnDKGResultSubmitted(h func(*event.DKGResultSubmission)) subscription.EventSubscription {
	gid, _, st := xblWho()
	kind := "fate"
	if strings.Contains(st, "SubmitDKGResult") {
		kind = "submit"
	}
	w := c.w
	w.mu.Lock()
	defer w.mu.Unlock()
	w.nextSub++
	id := w.nextSub
	if c.dead() {
		return subscription.NewEventSubscription(func() {})
	}
	w.resultSubs[id] = &xblSubResult{xblSub{id: id, inc: c.inc, gid: gid, kind: kind}, h}
	return subscription.NewEventSubscription(func() {
		w.mu.Lock()
		delete(w.resultSubs, id)
		w.mu.Unlock()
	})
}

func (c *xblChain) IsGroupRegistered(key []byte) (bool, error) {
	gid, _, _ := xblWho()
	w := c.w
	w.mu.Lock()
	defer w.mu.Unlock()
	if c.dead() {
		return false, errXblDead
	}
	_, ok := w.groups[hex.EncodeToString(key)]
	rd := 0
	if cr := w.curRoundLocked(); cr != nil {
		rd = cr.id
	}
	w.emitLocked(xblEv{"event": "RegisteredAsked", "node": c.inc.node.name, "inc": c.inc.id, "member": w.memberOfLocked(gid),
		"round": rd, "key": w.keyIDLocked(key), "answer": ok})
	return ok, nil
}

func (c *xblChain) SubmitDKGResult(idx beaconchain.GroupMemberIndex, res *beaconchain.DKGResult, sigs map[beaconchain.GroupMemberIndex][]byte) error {
	w := c.w
	hash, _ := c.Interface.CalculateDKGResultHash(res)
	w.mu.Lock()
	defer w.mu.Unlock()
	if c.dead() {
		return errXblDead
	}
	r := w.curRoundLocked()
	signers := make([]int, 0, len(sigs))
	valid := true
	for m, sig := range sigs {
		signers = append(signers, int(m))
		if int(m) < 1 || int(m) > w.n {
			valid = false
			continue
		}
		nd := w.nodes[w.seats[int(m)-1]]
		pk := local_v1.NewSigner(nd.priv).PublicKey()
		ok, err := c.Signing().VerifyWithPublicKey(hash[:], sig, pk)
		if err != nil || !ok {
			valid = false
		}
	}
	sort.Ints(signers)
	blk := w.block()
	accepted := r != nil && r.open && !r.accepted && valid && len(sigs) >= w.h
	keyID := w.keyIDLocked(res.GroupPublicKey)
	rd := 0
	if r != nil {
		rd = r.id
	}
	w.emitLocked(xblEv{"event": "Submitted", "node": c.inc.node.name, "inc": c.inc.id, "member": int(idx), "round": rd,
		"key": keyID, "mis": xblMis(res.Misbehaved), "nsig": len(sigs), "signers": signers, "sigsValid": valid,
		"block": blk, "accepted": accepted})
	if !accepted {
		return fmt.Errorf("xbl: DKG result rejected by the chain")
	}
	r.accepted, r.key, r.keyID, r.mis, r.by, r.block = true, res.GroupPublicKey, keyID, xblMis(res.Misbehaved), int(idx), blk
	w.groups[hex.EncodeToString(res.GroupPublicKey)] = blk
	ev := &event.DKGResultSubmission{MemberIndex: uint32(idx), GroupPublicKey: res.GroupPublicKey, Misbehaved: res.Misbehaved, BlockNumber: blk}
	for _, s := range w.resultSubs {
		if !s.inc.alive.Load() {
			continue
		}
		go func(s *xblSubResult) {
			s.fn(ev)
			// the handler returned: the member took the event from its channel
			w.mu.Lock()
			if s.inc.alive.Load() {
				w.emitLocked(xblEv{"event": "ResultObserved", "node": s.inc.node.name, "inc": s.inc.id, "member": w.memberOfLocked(s.gid),
					"kind": s.kind, "round": r.id})
			}
			w.mu.Unlock()
		}(s)
	}
	return nil
}

// --- group registration
func (c *xblChain) OnGroupRegistered(h func(*event.GroupRegistration)) subscription.EventSubscription {
	c.w.mu.Lock()
	c.inc.groupRegistered = append(c.inc.groupRegistered, h)
	c.w.mu.Unlock()
	return subscription.NewEventSubscription(func() {})
}

func (c *xblChain) IsStaleGroup(key []byte) (bool, error) {
	w := c.w
	w.mu.Lock()
	defer w.mu.Unlock()
	if c.dead() {
		return false, errXblDead
	}
	ans := w.stale[hex.EncodeToString(key)]
	w.emitLocked(xblEv{"event": "StaleAsked", "node": c.inc.node.name, "inc": c.inc.id, "key": w.keyIDLocked(key), "answer": ans})
	return ans, nil
}

// --- relay entry
func (c *xblChain) OnRelayEntryRequested(h func(*event.RelayEntryRequested)) subscription.EventSubscription {
	c.w.mu.Lock()
	c.inc.relayRequested = append(c.inc.relayRequested, h)
	c.w.mu.Unlock()
	return subscription.NewEventSubscription(func() {})
}

func (c *xblChain) OnRelayEntrySubmitted(h func(*event.RelayEntrySubmitted)) subscription.EventSubscription {
	gid, _, st := xblWho()
	kind := "sign"
	if strings.Contains(st, "MonitorRelayEntry") {
		kind = "monitor"
	}
	w := c.w
	w.mu.Lock()
	defer w.mu.Unlock()
	w.nextSub++
	id := w.nextSub
	if c.dead() {
		return subscription.NewEventSubscription(func() {})
	}
	w.entrySubs[id] = &xblSubEntry{xblSub{id: id, inc: c.inc, gid: gid, kind: kind}, h}
	if kind == "sign" {
		rq := 0
		if w.cur != nil {
			rq = w.cur.id
		}
		w.emitLocked(xblEv{"event": "SigningStarted", "node": c.inc.node.name, "inc": c.inc.id, "task": gid, "req": rq})
		w.signTasks[gid] = &xblTask{gid: gid, node: c.inc.node.name, inc: c.inc, req: rq}
	}
	return subscription.NewEventSubscription(func() {
		w.mu.Lock()
		delete(w.entrySubs, id)
		w.mu.Unlock()
	})
}

func (c *xblChain) IsEntryInProgress() (bool, error) {
	_, _, st := xblWho()
	w := c.w
	w.mu.Lock()
	defer w.mu.Unlock()
	if c.dead() {
		return false, errXblDead
	}
	ans := w.cur != nil && w.cur.open
	if strings.Contains(st, "ResumeSigningIfEligible") {
		rq := 0
		if ans {
			rq = w.cur.id
		}
		w.emitLocked(xblEv{"event": "ResumeAsked", "node": c.inc.node.name, "inc": c.inc.id, "answer": ans, "req": rq})
	}
	return ans, nil
}

func (c *xblChain) CurrentRequestStartBlock() (*big.Int, error) {
	gid, _, st := xblWho()
	w := c.w
	w.mu.Lock()
	defer w.mu.Unlock()
	if c.dead() {
		return nil, errXblDead
	}
	v := uint64(0)
	if w.cur != nil && w.cur.open {
		v = w.cur.start
	}
	if strings.Contains(st, "NotifyRelayEntryStarted") {
		w.emitLocked(xblEv{"event": "DedupConsult", "node": c.inc.node.name, "inc": c.inc.id, "start": v})
	} else if strings.Contains(st, "confirmCurrentRelayRequest") {
		w.emitLocked(xblEv{"event": "RelayConfirm", "node": c.inc.node.name, "inc": c.inc.id, "req": w.confirm[gid], "current": v})
	}
	return new(big.Int).SetUint64(v), nil
}

func (c *xblChain) CurrentRequestPreviousEntry() ([]byte, error) {
	w := c.w
	w.mu.Lock()
	defer w.mu.Unlock()
	if c.dead() {
		return nil, errXblDead
	}
	if w.cur != nil && w.cur.open {
		return w.cur.prev, nil
	}
	return []byte{}, nil
}

func (c *xblChain) CurrentRequestGroupPublicKey() ([]byte, error) {
	w := c.w
	w.mu.Lock()
	defer w.mu.Unlock()
	if c.dead() {
		return nil, errXblDead
	}
	if w.cur != nil && w.cur.open {
		return w.cur.key, nil
	}
	return []byte{}, nil
}

func (c *xblChain) SubmitRelayEntry(entry []byte) error {
	gid, _, _ := xblWho()
	w := c.w
	w.mu.Lock()
	defer w.mu.Unlock()
	if c.dead() {
		return errXblDead
	}
	q := w.cur
	blk := w.block()
	valid := false
	rq := 0
	if q != nil {
		rq = q.id
		valid = xblVerifyEntry(q.key, q.prev, entry)
	}
	inTime := q != nil && blk <= q.start+w.cfg.RelayEntryTimeout
	accepted := q != nil && q.open && valid && inTime
	w.emitLocked(xblEv{"event": "EntrySubmitted", "node": c.inc.node.name, "inc": c.inc.id, "member": w.memberOfLocked(gid), "task": gid,
		"req": rq, "block": blk, "valid": valid, "accepted": accepted})
	if !accepted {
		return fmt.Errorf("xbl: relay entry rejected by the chain")
	}
	q.open, q.done = false, true
	ev := &event.RelayEntrySubmitted{BlockNumber: blk}
	for _, s := range w.entrySubs {
		if !s.inc.alive.Load() {
			continue
		}
		go func(s *xblSubEntry) {
			s.fn(ev)
			w.mu.Lock()
			if s.inc.alive.Load() && s.kind == "sign" {
				w.emitLocked(xblEv{"event": "EntryObserved", "node": s.inc.node.name, "inc": s.inc.id, "member": w.memberOfLocked(s.gid),
					"task": s.gid, "req": q.id})
			}
			w.mu.Unlock()
		}(s)
	}
	return nil
}

func (c *xblChain) ReportRelayEntryTimeout() error {
	w := c.w
	w.mu.Lock()
	defer w.mu.Unlock()
	if c.dead() {
		return errXblDead
	}
	blk := w.block()
	q := w.cur
	ok := q != nil && q.open && blk >= q.start+w.cfg.RelayEntryTimeout
	rq := 0
	if q != nil {
		rq = q.id
	}
	w.emitLocked(xblEv{"event": "TimeoutReported", "node": c.inc.node.name, "inc": c.inc.id, "req": rq, "block": blk, "accepted": ok})
	if !ok {
		return fmt.Errorf("xbl: relay entry timeout report rejected")
	}
	q.open, q.timedOut = false, true
	return nil
}

func xblVerifyEntry(groupKey, prev, entry []byte) bool {
	pk := new(bn256.G2)
	if _, err := pk.Unmarshal(groupKey); err != nil {
		return false
	}
	m := new(bn256.G1)
	if _, err := m.Unmarshal(prev); err != nil {
		return false
	}
	s := new(bn256.G1)
	if _, err := s.Unmarshal(entry); err != nil {
		return false
	}
	return bls.VerifyG1(pk, m, s)
}

// ---------------------------------------------------------------- network

type xblNet struct {
	netLocal.Provider
	w   *xblWorld
	inc *xblInc
}

func (p *xblNet) BroadcastChannelFor(name string) (net.BroadcastChannel, error) {
	ch, err := p.Provider.BroadcastChannelFor(name)
	if err != nil {
		return nil, err
	}
	w := p.w
	_, _, st := xblWho()
	rd := 0
	w.mu.Lock()
	if p.inc.alive.Load() {
		switch {
		case strings.HasPrefix(name, beacon.ProtocolName+"-"):
			for _, r := range w.rounds {
				if name == fmt.Sprintf("%s-%s", beacon.ProtocolName, r.seed.Text(16)) {
					rd = r.id
				}
			}
			w.emitLocked(xblEv{"event": "DkgJoined", "node": p.inc.node.name, "inc": p.inc.id, "round": rd})
		default:
			key := ""
			if u, ok := w.compr[name]; ok {
				key = w.keyIDs[u]
			}
			rq := 0
			if w.cur != nil {
				rq = w.cur.id
			}
			w.emitLocked(xblEv{"event": "RelayJoined", "node": p.inc.node.name, "inc": p.inc.id, "key": key, "req": rq,
				"resume": strings.Contains(st, "ResumeSigningIfEligible")})
		}
	}
	w.mu.Unlock()
	return &xblChan{BroadcastChannel: ch, w: w, inc: p.inc, round: rd}, nil
}

func (p *xblNet) BroadcastChannelForwarderFor(name string) {
	w := p.w
	w.mu.Lock()
	if p.inc.alive.Load() {
		key := ""
		if u, ok := w.compr[name]; ok {
			key = w.keyIDs[u]
		}
		rq := 0
		if w.cur != nil {
			rq = w.cur.id
		}
		w.emitLocked(xblEv{"event": "Forwarder", "node": p.inc.node.name, "inc": p.inc.id, "key": key, "req": rq})
	}
	w.mu.Unlock()
	p.Provider.BroadcastChannelForwarderFor(name)
}

type xblChan struct {
	net.BroadcastChannel
	w     *xblWorld
	inc   *xblInc
	round int // DKG round of the channel (0: a group's relay entry channel)
}

type xblSender interface{ SenderID() group.MemberIndex }

func (c *xblChan) Send(ctx context.Context, m net.TaggedMarshaler, s ...net.RetransmissionStrategy) error {
	w := c.w
	gid, parent, _ := xblWho()
	if !c.inc.alive.Load() {
		return nil // the process is gone: nothing leaves the node
	}
	drop := c.inc.dropOut.Load().(func(net.TaggedMarshaler) bool)(m)
	w.mu.Lock()
	if sd, ok := m.(xblSender); ok {
		mem := int(sd.SenderID())
		switch m.Type() {
		case "relay/signature/share":
			// sent by `go broadcastShare` from the member's SignAndSubmit goroutine
			if parent != 0 {
				w.tasks[parent] = mem
			}
			raw, _ := m.Marshal()
			pbm := entrypb.SignatureShare{}
			_ = proto.Unmarshal(raw, &pbm)
			rq, valid, keyID := w.judgeShareLocked(mem, pbm.Share, pbm.SessionID)
			w.emitLocked(xblEv{"event": "ShareSent", "node": c.inc.node.name, "inc": c.inc.id, "member": mem, "task": parent,
				"req": rq, "key": keyID, "valid": valid, "dropped": drop})
		case "result/dkg_result_hash_signature_message":
			w.tasks[gid] = mem
			raw, _ := m.Marshal()
			pbm := resultpb.DKGResultHashSignature{}
			_ = proto.Unmarshal(raw, &pbm)
			var hash beaconchain.DKGResultHash
			copy(hash[:], pbm.ResultHash)
			res, known := w.hashes[hash]
			rd := 0
			if cr := w.curRoundLocked(); cr != nil {
				rd = cr.id
			}
			w.emitLocked(xblEv{"event": "ResultSigSent", "node": c.inc.node.name, "inc": c.inc.id, "member": mem, "round": rd,
				"key": res.key, "mis": res.mis, "known": known, "dropped": drop})
		default:
			w.tasks[gid] = mem
		}
		if c.round != 0 {
			if _, have := w.dkgTasks[gid]; !have {
				w.dkgTasks[gid] = &xblTask{gid: gid, node: c.inc.node.name, inc: c.inc, member: mem, round: c.round}
			}
		}
	}
	w.mu.Unlock()
	if drop {
		return nil
	}
	return c.BroadcastChannel.Send(ctx, m, s...)
}

func (c *xblChan) Recv(ctx context.Context, h func(net.Message)) {
	c.BroadcastChannel.Recv(ctx, func(m net.Message) {
		if !c.inc.alive.Load() {
			return // nothing reaches a dead process
		}
		if c.inc.dropIn.Load().(func(net.Message) bool)(m) {
			return
		}
		h(m)
	})
}

// judgeShareLocked decides whether a broadcast signature share verifies
// under the sender's public key share, as the members that registered the
// requested group know it (from the memberships they persisted).
func (w *xblWorld) judgeShareLocked(mem int, share []byte, session string) (int, bool, string) {
	q := w.cur
	if q == nil {
		return 0, false, ""
	}
	if session != hex.EncodeToString(q.prev) {
		for _, x := range w.reqs {
			if session == hex.EncodeToString(x.prev) {
				q = x
			}
		}
	}
	pubs := w.pubs[hex.EncodeToString(q.key)]
	pk := pubs[mem]
	sh := new(bn256.G1)
	if _, err := sh.Unmarshal(share); err != nil || pk == nil {
		return q.id, false, q.keyID
	}
	prev := new(bn256.G1)
	if _, err := prev.Unmarshal(q.prev); err != nil {
		return q.id, false, q.keyID
	}
	return q.id, bls.VerifyG1(pk, prev, sh), q.keyID
}

// ---------------------------------------------------------------- persistence

type xblPers struct {
	persistence.ProtectedHandle
	w   *xblWorld
	inc *xblInc
}

func (p *xblPers) Save(data []byte, dir, name string) error {
	w := p.w
	w.mu.Lock()
	defer w.mu.Unlock()
	if !p.inc.alive.Load() {
		return fmt.Errorf("xbl: process is gone")
	}
	err := p.ProtectedHandle.Save(data, dir, name)
	ms := &registry.Membership{}
	ev := xblEv{"event": "Registered", "node": p.inc.node.name, "inc": p.inc.id, "dir": dir, "name": name, "ok": err == nil}
	if uerr := ms.Unmarshal(data); uerr == nil {
		key := ms.Signer.GroupPublicKeyBytes()
		ev["key"] = w.keyIDLocked(key)
		ev["member"] = int(ms.Signer.MemberID())
		ops := []string{}
		for _, a := range ms.Signer.GroupOperators() {
			for _, nm := range w.order {
				if w.nodes[nm].addr == a {
					ops = append(ops, nm)
				}
			}
		}
		ev["ops"] = ops
		ev["channelIsCompressedKey"] = ms.ChannelName == hex.EncodeToString(ms.Signer.GroupPublicKeyBytesCompressed())
		ev["dirIsCompressedKey"] = dir == hex.EncodeToString(ms.Signer.GroupPublicKeyBytesCompressed())
		hk := hex.EncodeToString(key)
		if w.pubs[hk] == nil {
			w.pubs[hk] = map[int]*bn256.G2{}
		}
		for i, pk := range ms.Signer.GroupPublicKeyShares() {
			if _, have := w.pubs[hk][int(i)]; !have {
				w.pubs[hk][int(i)] = pk
			}
		}
	}
	rd := 0
	if cr := w.curRoundLocked(); cr != nil {
		rd = cr.id
	}
	ev["round"] = rd
	w.emitLocked(ev)
	return err
}

func (p *xblPers) Archive(dir string) error {
	w := p.w
	w.mu.Lock()
	defer w.mu.Unlock()
	if !p.inc.alive.Load() {
		return fmt.Errorf("xbl: process is gone")
	}
	err := p.ProtectedHandle.Archive(dir)
	key := ""
	if u, ok := w.compr[dir]; ok {
		key = w.keyIDs[u]
	}
	w.emitLocked(xblEv{"event": "Archived", "node": p.inc.node.name, "inc": p.inc.id, "key": key, "ok": err == nil})
	return err
}

type xblDesc struct {
	persistence.DataDescriptor
}

func (p *xblPers) ReadAll() (<-chan persistence.DataDescriptor, <-chan error) {
	in, errs := p.ProtectedHandle.ReadAll()
	out := make(chan persistence.DataDescriptor)
	w := p.w
	go func() {
		loaded := []xblEv{}
		for d := range in {
			if c, err := d.Content(); err == nil {
				ms := &registry.Membership{}
				if ms.Unmarshal(c) == nil {
					w.mu.Lock()
					loaded = append(loaded, xblEv{"key": w.keyIDLocked(ms.Signer.GroupPublicKeyBytes()), "member": int(ms.Signer.MemberID())})
					w.mu.Unlock()
				}
			}
			out <- d
		}
		w.emit(xblEv{"event": "Loaded", "node": p.inc.node.name, "inc": p.inc.id, "entries": loaded})
		close(out)
	}()
	return out, errs
}

func xblCompress(g *bn256.G2) []byte {
	// the compressed encoding used for directory and channel names
	return altbn128.G2Point{G2: g}.Compress()
}

var _ = bytes.Equal
var _ = gjkr.ProtocolBlocks
