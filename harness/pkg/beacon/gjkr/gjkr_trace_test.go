//go:build verif

package gjkr

// Trace recording for the code -> specification direction (specs/Gjkr/Trace_Gjkr.tla).
//
// The adversary here is chosen by the harness (seeded PRNG), not by TLC: any
// number of deviations per state, junk messages, messages of corrupt members
// nobody listens to any more, a random cross-sender delivery order for every
// receiver in every state. The real states are driven exactly as in the replay
// harness; what the real members do is recorded and TLC checks that the
// specification explains it (and evaluates the invariants on it).

import (
	"fmt"
	"math/rand"
	"sort"
	"testing"

	kit "github.com/keep-network/keep-core/internal/verifkit"
)

type advGen struct {
	rnd *rand.Rand
	n   int
	th  int
	dev float64 // probability of a deviation per decision
}

func (g *advGen) hit() bool { return g.rnd.Float64() < g.dev }

func (g *advGen) msg(c, claim int, k string, sess bool, p interface{}) map[string]interface{} {
	return map[string]interface{}{"from": float64(c), "claim": float64(claim), "k": k, "sess": sess, "p": p}
}

func (g *advGen) entries(c int, base []int) []interface{} {
	ids := map[int]bool{}
	for _, b := range base {
		if !g.hit() { // drop
			ids[b] = true
		}
	}
	for g.hit() { // add
		ids[g.rnd.Intn(g.n+2)] = true
	}
	keys := []int{}
	for i := range ids {
		keys = append(keys, i)
	}
	sort.Ints(keys)
	out := []interface{}{}
	for _, i := range keys {
		out = append(out, map[string]interface{}{"id": float64(i), "ok": !g.hit()})
	}
	return out
}

// payload returns a random payload of the given kind for corrupt member c.
func (g *advGen) payload(c int, k string, revBase []int) interface{} {
	switch k {
	case "eph":
		if g.hit() {
			return []string{"missing", "selfkey"}[g.rnd.Intn(2)]
		}
		return "ok"
	case "shares":
		p := make([]interface{}, g.n)
		for j := range p {
			p[j] = "ok"
			if j+1 == c {
				p[j] = "absent"
			} else if g.hit() {
				p[j] = []string{"bad", "badt", "undec", "absent"}[g.rnd.Intn(4)]
			}
		}
		return p
	case "commits":
		if g.hit() {
			return []interface{}{"wrong"}
		}
		return []interface{}{"ok"}
	case "acc4", "acc8":
		return g.entries(c, nil)
	case "rev":
		return g.entries(c, revBase)
	case "pts":
		if g.hit() {
			return map[string]interface{}{"cnt": "wrong", "okFor": []interface{}{}, "all": true}
		}
		if g.hit() {
			perm := g.rnd.Perm(g.n)
			sz := g.rnd.Intn(g.th + 1)
			s := []int{}
			for _, x := range perm[:sz] {
				s = append(s, x+1)
			}
			sort.Ints(s)
			okFor := []interface{}{}
			for _, x := range s {
				okFor = append(okFor, float64(x))
			}
			return map[string]interface{}{"cnt": "ok", "okFor": okFor, "all": false}
		}
		return map[string]interface{}{"cnt": "ok", "okFor": []interface{}{}, "all": true}
	}
	return nil
}

// messages returns what corrupt member c broadcasts in a message state.
func (g *advGen) messages(c int, stage string, revBase []int) []map[string]interface{} {
	kinds := map[string][]string{"A1": {"eph"}, "A3": {"shares", "commits"}, "A4": {"acc4"},
		"A7": {"pts"}, "A8": {"acc8"}, "A10": {"rev"}}[stage]
	var out []map[string]interface{}
	if g.hit() { // junk first: another index or another session
		k := kinds[g.rnd.Intn(len(kinds))]
		if g.rnd.Intn(2) == 0 {
			v := 1 + g.rnd.Intn(g.n-1)
			if v >= c {
				v++
			}
			out = append(out, g.msg(c, v, k, true, g.payload(v, k, revBase)))
		} else {
			out = append(out, g.msg(c, c, k, false, g.payload(c, k, revBase)))
		}
	}
	for _, k := range kinds {
		if g.hit() { // silent for this kind
			continue
		}
		out = append(out, g.msg(c, c, k, true, g.payload(c, k, revBase)))
		if g.hit() { // a second, conflicting message
			out = append(out, g.msg(c, c, k, true, g.payload(c, k, revBase)))
		}
	}
	return out
}

func viewEvent(v vview) map[string]interface{} {
	rec := []interface{}{}
	keys := []int{}
	for k := range v.Rec {
		keys = append(keys, k)
	}
	sort.Ints(keys)
	for _, k := range keys {
		rec = append(rec, map[string]interface{}{"m": k, "prov": v.Rec[k]})
	}
	nz := func(a []int) []int {
		if a == nil {
			return []int{}
		}
		return a
	}
	return map[string]interface{}{"st": v.St, "ia": nz(v.IA), "dq": nz(v.DQ), "eph": nz(v.Eph), "shm": nz(v.Shm),
		"com": nz(v.Com), "qual": nz(v.Qual), "vpts": nz(v.Vpts), "exp": nz(v.Exp), "rec": rec}
}

var traceStages = []string{"I1", "A1", "R1", "I2", "I3", "A3", "R3", "I4", "A4", "R4", "I5", "I6", "I7", "A7",
	"R7", "I8", "A8", "R8", "I9", "I10", "A10", "R10", "I11", "I12"}

// recordRun drives one run with a harness-chosen adversary and records it.
func recordRun(t *testing.T, env *venv, tr *kit.Tracer, rep *kit.Report, n, th int, corrupt []int, rnd *rand.Rand, dev float64) {
	r := newRun(t, env, n, th, corrupt, rnd)
	g := &advGen{rnd: rnd, n: n, th: th, dev: dev}
	cs := []interface{}{}
	for _, c := range corrupt {
		cs = append(cs, c)
	}
	tr.Reset(map[string]interface{}{"corrupt": cs, "n": n})
	kindsOf := map[string][]string{"R1": {"eph"}, "R3": {"shares", "commits"}, "R4": {"acc4"}, "R7": {"pts"}, "R8": {"acc8"}, "R10": {"rev"}}
	for _, stage := range traceStages {
		switch stage[0] {
		case 'I':
			for _, h := range r.honest {
				if r.aborted[h] != nil {
					continue
				}
				if stage == "I12" {
					if q, o, bad := r.nilShareHazard(h); bad {
						rep.Diverge(fmt.Sprintf("crash:trace:n%d", n), fmt.Sprintf("member %d would dereference a nil share in "+
							"ComputeGroupPublicKeyShares (member %d reconstructed without the share of %d)", h, q, o), nil, nil, nil)
						r.aborted[h] = fmt.Errorf("not run")
						continue
					}
				}
				r.initiate(h)
				if stage == "I12" {
					r.finish(h)
					if res := r.results[h]; res != nil {
						res.GroupPublicKeyShares() // drain the computing goroutine
					}
				}
				ids := []int{}
				for _, m := range r.ch[h].sent {
					switch pm := m.(type) {
					case *SecretSharesAccusationsMessage:
						ids = append(ids, idxs(pm.accusedMembersKeys)...)
					case *PointsAccusationsMessage:
						ids = append(ids, idxs(pm.accusedMembersKeys)...)
					case *MisbehavedEphemeralKeysMessage:
						ids = append(ids, idxs(pm.privateKeys)...)
					}
				}
				if r.aborted[h] != nil {
					ids = []int{}
				}
				tr.Emit(map[string]interface{}{"event": "Init", "a": stage, "m": h, "view": viewEvent(r.observe(h)), "ids": ids})
			}
		case 'A':
			var base []int
			if stage == "A10" {
				for _, h := range r.honest {
					if r.aborted[h] == nil {
						base = r.observe(h).Exp
						break
					}
				}
			}
			for _, c := range corrupt {
				msgs := g.messages(c, stage, base)
				var vs []kit.V
				ev := []interface{}{}
				for _, m := range msgs {
					vs = append(vs, kit.V{X: m})
					ev = append(ev, m)
				}
				if err := r.advSend(c, stage, vs, false); err != nil {
					t.Fatalf("adversary message: %v", err)
				}
				tr.Emit(map[string]interface{}{"event": "Adv", "a": stage, "m": c, "msgs": ev})
			}
		case 'R':
			for _, h := range r.honest {
				if r.aborted[h] != nil {
					continue
				}
				order := []int{}
				for j := 1; j <= n; j++ {
					if j != h {
						order = append(order, j)
					}
				}
				rnd.Shuffle(len(order), func(i, j int) { order[i], order[j] = order[j], order[i] })
				r.deliver(h, order)
				v := r.observe(h)
				// accepted messages per kind, in arrival order
				rcv := map[string]interface{}{}
				for _, k := range kindsOf[stage] {
					l := v.Rcv[k]
					if l == nil {
						l = []int{}
					}
					rcv[k] = l
				}
				tr.Emit(map[string]interface{}{"event": "Recv", "a": stage, "m": h, "ord": order, "rcv": rcv})
			}
		}
	}
	rep.Eval(fmt.Sprintf("n%d:c%v", n, corrupt), nil)
}

// TestVerif_C01_Trace records runs against a harness-chosen adversary, one
// trace file per group size (the group size is a constant of the specification).
func TestVerif_C01_Trace(t *testing.T) { recordTraces(t, "C01") }

// TestVerif_C02_Trace: the same recording for the share consistency check.
func TestVerif_C02_Trace(t *testing.T) { recordTraces(t, "C02") }

func recordTraces(t *testing.T, property string) {
	kit.RequireEngine(t)
	rep := kit.NewReport(property, "trace")
	defer rep.Write(t)
	env := newEnv()
	runs := kit.IntEnv("VERIF_RUNS", 12)
	for _, nt := range [][2]int{{3, 1}, {4, 1}, {5, 2}} {
		n, th := nt[0], nt[1]
		tr := kit.NewTracer(t, fmt.Sprintf("trace_n%d", n))
		rnd := kit.Rand(int64(1000 + n))
		for i := 0; i < runs; i++ {
			k := rnd.Intn(th + 1)
			if i%4 != 0 && k == 0 {
				k = 1
			}
			perm := rnd.Perm(n)
			corrupt := []int{}
			for _, x := range perm[:k] {
				corrupt = append(corrupt, x+1)
			}
			sort.Ints(corrupt)
			dev := []float64{0.03, 0.08, 0.15, 0.3}[rnd.Intn(4)]
			recordRun(t, env, tr, rep, n, th, corrupt, rnd, dev)
		}
		rep.Count(fmt.Sprintf("trace_events_n%d", n), tr.N())
		tr.Close()
	}
}
