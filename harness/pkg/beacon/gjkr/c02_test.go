//go:build verif

package gjkr

import "testing"

// TestVerif_C02_Replay replays behaviours of specs/Gjkr on the real GJKR
// states and decides share consistency on the real values: x_h*G2 equals the
// public key share every other honest member computed for h and every
// (t+1)-subset of honest shares interpolates to the secret of the group key.
func TestVerif_C02_Replay(t *testing.T) { runReplay(t, "C02", "replay") }
